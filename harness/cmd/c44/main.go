// C44: log output is one neutralized line per record.
//
// Drives the real logging.Logger (direct messages, formatted messages, the raw
// write entry point with a supplied timestamp, and the relaying io.Writer fed
// with arbitrarily chunked byte streams) and the bare stream.LineProcessor
// against a recording sink; prints every record handed to the sink for
// comparison with the Lean model and evaluates the property's own predicate
// on each record: exactly one '\n' (last byte), no ESC, no CR, level/scope
// prefix; plus record counts and the plain split-on-newline specification of
// the line processor.
package main

import (
	"bytes"
	"fmt"
	"io"
	"regexp"
	"strconv"
	"strings"
	"time"

	"github.com/mutagen-io/mutagen/pkg/logging"
	"github.com/mutagen-io/mutagen/pkg/stream"

	"verif/harness/hx"
)

// sink records every Write call as one record.
type sink struct{ recs [][]byte }

func (s *sink) Write(p []byte) (int, error) {
	s.recs = append(s.recs, append([]byte(nil), p...))
	return len(p), nil
}

func (s *sink) take() [][]byte {
	r := s.recs
	s.recs = nil
	return r
}

const canonicalNow = "0000-00-00 00:00:00.000000"

var (
	started   = time.Now().Add(-2 * time.Second)
	layout    = logging.VerifC44TimestampFormat()
	prefixRe  = regexp.MustCompile(`^[0-9]{4}-[0-9]{2}-[0-9]{2} [0-9]{2}:[0-9]{2}:[0-9]{2}\.[0-9]{6} \[(.)\] `)
	levelChar = "_EWIDT"
)

// canonNow replaces a timestamp produced by time.Now() during this run.
func canonNow(rec []byte) []byte {
	if len(rec) < len(layout) {
		return rec
	}
	t, err := time.ParseInLocation(layout, string(rec[:len(layout)]), time.Local)
	if err != nil || t.Before(started) || t.After(time.Now().Add(2*time.Second)) {
		return rec
	}
	return append([]byte(canonicalNow), rec[len(layout):]...)
}

func showRecs(recs [][]byte) string {
	if len(recs) == 0 {
		return "."
	}
	out := make([]string, len(recs))
	for i, r := range recs {
		out[i] = hx.Hex(r)
	}
	return strings.Join(out, ",")
}

func unhex(s string) []byte {
	if s == "-" || s == "" {
		return nil
	}
	b := make([]byte, len(s)/2)
	for i := range b {
		v, _ := strconv.ParseUint(s[2*i:2*i+2], 16, 8)
		b[i] = byte(v)
	}
	return b
}

// checkRecord is the property's predicate on one sink record. wantPrefix, when
// non-empty, is the exact expected prefix; otherwise the prefix must have the
// timestamp/level shape followed by the scope.
func checkRecord(rec []byte, wantPrefix string, wantLevel byte, scope string) string {
	if len(rec) == 0 || rec[len(rec)-1] != '\n' {
		return "class=no-trailing-newline record does not end with LF"
	}
	if bytes.Count(rec, []byte{'\n'}) != 1 {
		return "class=extra-newline record contains more than one LF"
	}
	if bytes.IndexByte(rec, 0x1b) >= 0 {
		return "class=escape record contains ESC"
	}
	if bytes.IndexByte(rec, '\r') >= 0 {
		return "class=carriage-return record contains CR"
	}
	if wantPrefix != "" {
		if !bytes.HasPrefix(rec, []byte(wantPrefix)) {
			return fmt.Sprintf("class=prefix record does not start with %q", wantPrefix)
		}
		return ""
	}
	m := prefixRe.FindSubmatch(rec)
	if m == nil {
		return "class=prefix record has no timestamp/level prefix"
	}
	if wantLevel != 0 && m[1][0] != wantLevel {
		return fmt.Sprintf("class=prefix level %c, want %c", m[1][0], wantLevel)
	}
	if wantLevel == 0 && !strings.ContainsRune(levelChar, rune(m[1][0])) {
		return fmt.Sprintf("class=prefix level %c unknown", m[1][0])
	}
	if scope != "" && !bytes.HasPrefix(rec[len(m[0]):], []byte("["+scope+"] ")) {
		return fmt.Sprintf("class=prefix scope [%s] missing", scope)
	}
	return ""
}

func logAt(l *logging.Logger, lv int, formatted bool, msg string) {
	if formatted {
		switch lv {
		case 1:
			l.Errorf("%s", msg)
		case 2:
			l.Warnf("%s", msg)
		case 3:
			l.Infof("%s", msg)
		case 4:
			l.Debugf("%s", msg)
		default:
			l.Tracef("%s", msg)
		}
		return
	}
	switch lv {
	case 1:
		l.Error(msg)
	case 2:
		l.Warn(msg)
	case 3:
		l.Info(msg)
	case 4:
		l.Debug(msg)
	default:
		l.Trace(msg)
	}
}

// guarded runs f; a panic is reported as true.
func guarded(f func()) (panicked bool) {
	defer func() {
		if recover() != nil {
			panicked = true
		}
	}()
	f()
	return false
}

var wordName = regexp.MustCompile(`\A[0-9A-Za-z_]+\z`)

func runCase(line string) (impl, oracle string) {
	f := strings.Fields(line)
	if len(f) < 2 || !strings.HasPrefix(f[1], "=") {
		return "bad-op", ""
	}
	fail := func(i int, s string) {
		if oracle == "" && s != "" {
			oracle = strings.Replace(s, " ", fmt.Sprintf(" op#%d ", i), 1)
		}
	}
	loggerLevel, _ := strconv.Atoi(f[0])
	sk := &sink{}
	l := logging.NewLogger(logging.Level(loggerLevel), sk)
	// Expected state, tracked independently: nil-ness and scope.
	isNil, scope := false, ""
	if f[1] != "=" {
		for _, h := range strings.Split(f[1][1:], ",") {
			name := string(unhex(h))
			l = l.Sublogger(name)
			if !isNil {
				if !wordName.MatchString(name) {
					isNil = true
				} else if scope == "" {
					scope = name
				} else {
					scope += "." + name
				}
			}
		}
	}
	if (l == nil) != isNil {
		fail(0, "class=sublogger nil-ness of sublogger is wrong")
	}
	var outs []string
	emit := func(recs [][]byte, canon bool) string {
		if canon {
			for i := range recs {
				recs[i] = canonNow(recs[i])
			}
		}
		return showRecs(recs)
	}
	// Construction records: warnings about invalid names (scope at that point unknown here: shape only).
	pre := sk.take()
	for _, r := range pre {
		fail(0, checkRecord(r, "", 'W', ""))
	}
	outs = append(outs, emit(pre, true))
	for i, op := range f[2:] {
		parts := strings.Split(op, ":")
		switch parts[0] {
		case "l", "f":
			lv, _ := strconv.Atoi(parts[1])
			msg := string(unhex(parts[2]))
			if guarded(func() { logAt(l, lv, parts[0] == "f", msg) }) {
				outs = append(outs, "panic")
				fail(i+1, "class=panic logging panicked")
				continue
			}
			recs := sk.take()
			want := 0
			if !isNil && loggerLevel >= lv {
				want = 1
			}
			if len(recs) != want {
				fail(i+1, fmt.Sprintf("class=record-count %d records, want %d", len(recs), want))
			}
			for _, r := range recs {
				fail(i+1, checkRecord(r, "", levelChar[lv], scope))
			}
			outs = append(outs, emit(recs, true))
		case "x":
			lv, _ := strconv.Atoi(parts[1])
			tsText := string(unhex(parts[2]))
			msg := string(unhex(parts[3]))
			if isNil {
				outs = append(outs, "nil")
				continue
			}
			ts, err := time.ParseInLocation(layout, tsText, time.UTC)
			if err != nil {
				return "bad-op", ""
			}
			if guarded(func() { logging.VerifC44Write(l, ts, logging.Level(lv), msg) }) {
				outs = append(outs, "panic")
				// write panics only when the message has neither CR nor LF.
				if strings.ContainsAny(msg, "\r\n") {
					fail(i+1, "class=panic write panicked on a message with CR/LF")
				}
				continue
			}
			recs := sk.take()
			if len(recs) != 1 {
				fail(i+1, fmt.Sprintf("class=record-count %d records, want 1", len(recs)))
			}
			c := byte('?')
			if lv < len(levelChar) {
				c = levelChar[lv]
			}
			p := tsText + " [" + string(c) + "] "
			if scope != "" {
				p += "[" + scope + "] "
			}
			for _, r := range recs {
				fail(i+1, checkRecord(r, p, 0, ""))
			}
			outs = append(outs, emit(recs, false))
		case "w":
			lv, _ := strconv.Atoi(parts[1])
			mx, _ := strconv.Atoi(parts[2])
			w := l.Writer(logging.Level(lv))
			if lp, ok := w.(*stream.LineProcessor); ok {
				lp.MaximumBufferSize = mx
			} else if !isNil {
				fail(i+1, "class=writer Writer did not return a LineProcessor")
			}
			var res []string
			var accepted []byte
			panicked := false
			for _, ch := range strings.Split(parts[3], ";") {
				data := unhex(ch)
				var n int
				var err error
				if guarded(func() { n, err = writeScrambling(w, data) }) {
					panicked = true
					break
				}
				if err != nil {
					res = append(res, "E")
					if n != 0 {
						fail(i+1, "class=write-result error with n != 0")
					}
				} else {
					res = append(res, strconv.Itoa(n))
					if n != len(data) {
						fail(i+1, "class=write-result short write without error")
					}
					accepted = append(accepted, data...)
				}
			}
			recs := sk.take()
			if panicked {
				fail(i+1, "class=panic relay writer panicked")
				outs = append(outs, "panic/"+strings.Join(res, ";"))
				continue
			}
			lines := bytes.Split(accepted, []byte{'\n'})
			lines = lines[:len(lines)-1]
			if isNil {
				if len(recs) != 0 {
					fail(i+1, "class=record-count nil logger wrote records")
				}
			} else if len(recs) > len(lines) {
				fail(i+1, fmt.Sprintf("class=record-count %d records for %d complete lines", len(recs), len(lines)))
			} else if loggerLevel >= 5 && lv <= 5 && len(recs) != len(lines) {
				fail(i+1, fmt.Sprintf("class=record-count %d records for %d complete lines with nothing gated", len(recs), len(lines)))
			}
			for j, r := range recs {
				fail(i+1, checkRecord(r, "", 0, scope))
				if loggerLevel >= 5 && lv <= 5 && len(recs) == len(lines) {
					// The visible tail of a control-free line arrives unchanged.
					ln := lines[j]
					if !bytes.ContainsAny(ln, "\r\x1b") {
						tail := ln
						if len(tail) >= 31 {
							tail = tail[31:]
						}
						if !bytes.HasSuffix(r, append(append([]byte(nil), tail...), '\n')) {
							fail(i+1, "class=content record does not end with the relayed line")
						}
					}
				}
			}
			outs = append(outs, emit(recs, true)+"/"+strings.Join(res, ";"))
		case "p":
			mx, _ := strconv.Atoi(parts[1])
			var got [][]byte
			lp := &stream.LineProcessor{Callback: func(s string) { got = append(got, []byte(s)) }, MaximumBufferSize: mx}
			var res []string
			var accepted []byte
			pending := 0
			for _, ch := range strings.Split(parts[2], ";") {
				data := unhex(ch)
				n, err := writeScrambling(lp, data)
				limit := mx
				if mx == 0 {
					limit = 64 * 1024
				}
				over := limit > 0 && pending+len(data) > limit
				if (err != nil) != over {
					fail(i+1, fmt.Sprintf("class=buffer-limit error=%v with %d pending + %d written, limit %d", err != nil, pending, len(data), limit))
				}
				if err != nil {
					res = append(res, "E")
					continue
				}
				res = append(res, strconv.Itoa(n))
				if n != len(data) {
					fail(i+1, "class=write-result short write without error")
				}
				accepted = append(accepted, data...)
				pending = len(accepted) - (bytes.LastIndexByte(accepted, '\n') + 1)
			}
			want := bytes.Split(accepted, []byte{'\n'})
			want = want[:len(want)-1]
			ok := len(want) == len(got)
			for j := 0; ok && j < len(want); j++ {
				ok = bytes.Equal(bytes.TrimSuffix(want[j], []byte{'\r'}), got[j])
			}
			if !ok {
				fail(i+1, fmt.Sprintf("class=line-split callback lines %q, want split of %q", got, accepted))
			}
			if len(got) == 0 {
				outs = append(outs, "./"+strings.Join(res, ";"))
			} else {
				outs = append(outs, showRecs(got)+"/"+strings.Join(res, ";"))
			}
		case "re":
			outs = append(outs, logging.VerifC44LinePrefixSource())
		default:
			return "bad-op", ""
		}
	}
	return strings.Join(outs, " "), oracle
}

// ---- generators ----

func randTimestamp(r *hx.Rand) string {
	t := time.Unix(int64(r.Intn(1600000000)), int64(r.Intn(1000000))*1000).UTC()
	return t.Format(layout)
}

// forgedPrefix returns something that is, or nearly is, a logger line prefix.
func forgedPrefix(r *hx.Rand) string {
	p := randTimestamp(r) + " [" + string("EWIDT_EWIDTX?ew"[r.Intn(15)]) + "] "
	if r.Chance(1, 3) {
		p += "[" + r.Pick("a", "remote", "x.y") + "] "
	}
	if r.Chance(1, 3) {
		// near miss: damage one byte
		b := []byte(p)
		i := r.Intn(len(b))
		switch r.Intn(4) {
		case 0:
			b[i] = "x0 -:.[]"[r.Intn(8)]
		case 1:
			b = append(b[:i], b[i+1:]...)
		case 2:
			b = append(b[:i], append([]byte{b[i]}, b[i:]...)...)
		default:
			b[i] ^= 0x80
		}
		p = string(b)
	}
	return p
}

var fragments = []string{"a", "b", " ", "msg", "[E] ", "...", "\n", "\n", "\r", "\r\n", "\x1b", "\x1b[2J", "\x1b]0;t\x07", "\x00", "\xff", "é", "%s", "%!", "^[", "\\r"}

func randMessage(r *hx.Rand, maxFrags int) string {
	var b strings.Builder
	n := r.Intn(maxFrags + 1)
	for i := 0; i < n; i++ {
		switch {
		case r.Chance(1, 8):
			b.WriteString(forgedPrefix(r))
		case r.Chance(1, 12):
			b.Write(r.Bytes(1+r.Intn(3), 256))
		default:
			b.WriteString(fragments[r.Intn(len(fragments))])
		}
	}
	return b.String()
}

// randStream builds a relayed stream: lines with LF / CRLF terminators.
func randStream(r *hx.Rand) string {
	var b strings.Builder
	n := r.Intn(5)
	for i := 0; i < n; i++ {
		if r.Chance(1, 2) {
			b.WriteString(forgedPrefix(r))
		}
		b.WriteString(randMessage(r, 4))
		b.WriteString(r.Pick("\n", "\n", "\r\n", "\r\r\n", ""))
	}
	return b.String()
}

func chunk(r *hx.Rand, s string) string {
	var parts []string
	for len(s) > 0 && r.Chance(3, 4) && len(parts) < 6 {
		k := r.Intn(len(s) + 1)
		parts = append(parts, hx.Hex([]byte(s[:k])))
		s = s[k:]
	}
	parts = append(parts, hx.Hex([]byte(s)))
	return strings.Join(parts, ";")
}

func randNames(r *hx.Rand) string {
	n := 0
	if r.Chance(2, 3) {
		n = 1 + r.Intn(3)
	}
	names := make([]string, n)
	for i := range names {
		name := r.Pick("a", "b9", "remote", "A_z", "x", "_", "0")
		if r.Chance(1, 8) {
			name = r.Pick("", "a.b", "a-b", "a\n", "é", "a b", "\x1b", "]", "a\r")
		}
		names[i] = hex(name)
	}
	if n == 1 && names[0] == "" {
		names = append(names, hex("a"))
	}
	return "=" + strings.Join(names, ",")
}

func hex(s string) string {
	if s == "" {
		return ""
	}
	return hx.Hex([]byte(s))
}

func randMax(r *hx.Rand) int {
	switch r.Intn(6) {
	case 0:
		return 1 + r.Intn(12)
	case 1:
		return -1 - r.Intn(3)
	case 2:
		return 20 + r.Intn(60)
	}
	return 0
}

func randOp(r *hx.Rand) string {
	switch r.Intn(10) {
	case 0, 1:
		return fmt.Sprintf("l:%d:%s", 1+r.Intn(5), hx.Hex([]byte(randMessage(r, 5))))
	case 2:
		return fmt.Sprintf("f:%d:%s", 1+r.Intn(5), hx.Hex([]byte(randMessage(r, 5))))
	case 3, 4:
		msg := randMessage(r, 5)
		if r.Chance(3, 4) {
			msg += "\n"
		}
		return fmt.Sprintf("x:%d:%s:%s", r.Intn(8), hx.Hex([]byte(randTimestamp(r))), hx.Hex([]byte(msg)))
	case 5, 6, 7:
		return fmt.Sprintf("w:%d:%d:%s", 1+r.Intn(5), randMax(r), chunk(r, randStream(r)))
	default:
		return fmt.Sprintf("p:%d:%s", randMax(r), chunk(r, randStream(r)))
	}
}

func main() {
	hx.Main("C44", func(c *hx.Ctx) {
		emit := func(line string) {
			var oracle string
			impl := hx.Try(func() string {
				i, o := runCase(line)
				oracle = o
				return i
			})
			if strings.HasPrefix(impl, "panic:") {
				oracle = "class=panic " + impl
			}
			key := ""
			if strings.Contains(line, "0a") || strings.Contains(line, "0d") || strings.Contains(line, "1b") {
				key = impl
			}
			c.Case(line, impl, oracle, key)
		}
		if lines := c.ReplayLines(); lines != nil {
			for _, l := range lines {
				emit(l)
			}
			return
		}
		emit("5 = re")
		// Exhaustive: every message over {a, LF, CR, ESC} up to length L through
		// log, raw write and (single chunk and every two-way split) the relay
		// writer and the bare line processor, without and with a scope.
		alphabet := []byte{'a', '\n', '\r', 0x1b}
		L := c.Size(4, 6)
		var msgs []string
		var rec func(prefix []byte, depth int)
		rec = func(prefix []byte, depth int) {
			msgs = append(msgs, string(prefix))
			if depth == 0 {
				return
			}
			for _, a := range alphabet {
				rec(append(append([]byte(nil), prefix...), a), depth-1)
			}
		}
		rec(nil, L)
		ts := hx.Hex([]byte("2001-02-03 04:05:06.000007"))
		for _, names := range []string{"=", "=" + hex("sc")} {
			for _, m := range msgs {
				h := hx.Hex([]byte(m))
				emit(fmt.Sprintf("3 %s l:2:%s x:1:%s:%s", names, h, ts, h))
				c.Count("exhaustive-message")
				for k := 0; k <= len(m); k++ {
					if k == len(m) && k > 0 {
						continue
					}
					chunks := hx.Hex([]byte(m[:k])) + ";" + hx.Hex([]byte(m[k:]))
					if k == 0 {
						chunks = h
					}
					emit(fmt.Sprintf("5 %s w:3:0:%s p:3:%s", names, chunks, chunks))
					c.Count("exhaustive-stream")
				}
			}
		}
		// Forged prefixes with every level character against every logger level.
		for lvl := 0; lvl <= 5; lvl++ {
			for _, ch := range "_EWIDTX?e" {
				for _, names := range []string{"=", "=" + hex("outer") + "," + hex("in")} {
					s := "2001-02-03 04:05:06.000007 [" + string(ch) + "] [agent] hello\x1b[0m\rworld\n"
					emit(fmt.Sprintf("%d %s w:3:0:%s", lvl, names, hx.Hex([]byte(s))))
					c.Count("exhaustive-forged-level")
				}
			}
		}
		// Streams around the default buffer limit.
		big := strings.Repeat("x", 65536)
		for _, d := range []int{-1, 0, 1} {
			body := big[:65536+d-10]
			emit(fmt.Sprintf("5 = w:3:0:%s;%s;%s p:0:%s;%s;%s", hx.Hex([]byte(body)), hx.Hex([]byte("0123456789")), hx.Hex([]byte("\nz\n")),
				hx.Hex([]byte(body)), hx.Hex([]byte("0123456789")), hx.Hex([]byte("\nz\n"))))
			c.Count("default-limit")
		}
		// Random.
		for i := 0; i < c.Size(12000, 400000); i++ {
			lvl := c.R.Intn(6)
			if c.R.Chance(1, 3) {
				lvl = 5
			}
			n := 1 + c.R.Intn(3)
			ops := make([]string, n)
			for j := range ops {
				ops[j] = randOp(c.R)
				c.Count("op-" + ops[j][:1])
			}
			emit(fmt.Sprintf("%d %s %s", lvl, randNames(c.R), strings.Join(ops, " ")))
			c.Count("random")
		}
	})
}

// writeScrambling hands the writer a private copy of data and overwrites that
// copy as soon as Write returns: an io.Writer must not retain p, and callers
// such as io.Copy reuse their buffer, so a writer that keeps a reference to
// the caller's slice (instead of copying what it buffers) is exposed here.
func writeScrambling(w io.Writer, data []byte) (int, error) {
	buf := append([]byte(nil), data...)
	n, err := w.Write(buf)
	for i := range buf {
		buf[i] ^= 0xA5
	}
	return n, err
}
