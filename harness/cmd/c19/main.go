// C19: rsync deltas reconstruct the target exactly.
//
// Runs the real Engine.BytesSignature / DeltifyBytes / PatchBytes on
// base/target pairs (all strings over {a,b} up to a bounded length with every
// block size and small maximum data operation sizes; random large inputs with
// edit scripts), prints signature, operations and the patched result for
// comparison with the Lean model, and evaluates the property's own predicate:
// every operation valid and in range, data operations within the limit, an
// unchanged target sent without literal data, and patch(delta) == target.
//
// A second stream replaces the engine's SHA-1 by a deliberately colliding
// hash (first+last byte): there the reconstruction claim does not apply (its
// hypothesis is false) but model and code must still agree op for op, which
// exercises the strong-hash comparison loop.
package main

import (
	"bytes"
	"fmt"
	"strconv"
	"strings"

	"github.com/mutagen-io/mutagen/pkg/synchronization/rsync"

	"verif/harness/hx"
	"verif/harness/rsx"
)

// runCase executes one line on the real engine.
func runCase(c *hx.Ctx, line string) (impl, oracle, key string) {
	f := strings.Fields(line)
	if len(f) != 5 {
		return "bad-op", "", ""
	}
	hasher := f[0]
	bs, _ := strconv.Atoi(f[1])
	maxOp, _ := strconv.Atoi(f[2])
	base, target := rsx.Unhex(f[3]), rsx.Unhex(f[4])

	e := rsx.NewEngine(hasher)
	sig := e.BytesSignature(base, uint64(bs))
	ops := e.DeltifyBytes(target, sig, uint64(maxOp))
	patched, perr := e.PatchBytes(base, sig, ops)

	shown := make([]string, len(ops))
	for i, o := range ops {
		shown[i] = rsx.ShowOp(o)
	}
	p := "ERR"
	if perr == nil {
		p = hx.Hex(patched)
	}
	impl = fmt.Sprintf("sig=%s ops=%s exit=ok patched=%s", rsx.ShowSig(sig), rsx.ShowList(shown), p)

	// The property's own predicate, independent of the model.
	bad := func(class, format string, a ...any) {
		if oracle == "" {
			oracle = "class=" + class + " " + fmt.Sprintf(format, a...)
		}
	}
	if err := sig.EnsureValid(); err != nil {
		bad("invalid-signature", "%v", err)
	}
	limit := maxOp
	if limit == 0 {
		limit = rsync.DefaultMaximumDataOperationSize
	}
	var shape strings.Builder
	dataOps, blockOps, covered := 0, 0, 0
	for i, o := range ops {
		if err := o.EnsureValid(); err != nil {
			bad("invalid-operation", "op#%d %s: %v", i, shown[i], err)
		}
		if len(o.Data) > 0 {
			dataOps++
			covered += len(o.Data)
			if len(o.Data) > limit {
				bad("data-op-too-large", "op#%d has %d bytes, limit %d", i, len(o.Data), limit)
			}
			fmt.Fprintf(&shape, "D%d", min(len(o.Data), 9))
		} else {
			blockOps++
			if o.Start+o.Count > uint64(len(sig.Hashes)) {
				bad("block-out-of-range", "op#%d %s with %d blocks in signature", i, shown[i], len(sig.Hashes))
			}
			for b := o.Start; b < o.Start+o.Count; b++ {
				if b+1 == uint64(len(sig.Hashes)) {
					covered += int(sig.LastBlockSize)
				} else {
					covered += int(sig.BlockSize)
				}
			}
			fmt.Fprintf(&shape, "B%d", min(int(o.Count), 9))
		}
	}
	if hasher == "sha1" {
		if perr != nil {
			bad("patch-error", "%v", perr)
		} else if !bytes.Equal(patched, target) {
			bad("wrong-reconstruction", "patched %x target %x", patched, target)
		}
		if covered != len(target) {
			bad("wrong-length", "operations cover %d bytes, target has %d", covered, len(target))
		}
	} else if perr != nil || !bytes.Equal(patched, target) {
		c.Count("collision-wrong-reconstruction")
	}
	if bytes.Equal(base, target) && dataOps > 0 {
		bad("literal-data-for-unchanged-target", "%d data operations", dataOps)
	}
	switch {
	case dataOps > 0 && blockOps > 0:
		c.Count("ops-mixed")
		key = fmt.Sprintf("%s/%d/%s", hasher, bs, shape.String())
	case blockOps > 0:
		c.Count("ops-blocks-only")
	case dataOps > 0:
		c.Count("ops-data-only")
	default:
		c.Count("ops-none")
	}
	if sig.BlockSize != 0 && sig.LastBlockSize != sig.BlockSize {
		c.Count("short-last-block")
		if n := len(ops); n > 0 && len(ops[n-1].Data) == 0 && ops[n-1].Start+ops[n-1].Count == uint64(len(sig.Hashes)) {
			c.Count("short-last-block-matched")
		}
	}
	return impl, oracle, key
}

func main() {
	hx.Main("C19", func(c *hx.Ctx) {
		emit := func(hasher string, p rsx.Pair) {
			line := fmt.Sprintf("%s %d %d %s %s", hasher, p.BlockSize, p.MaxOp, hx.Hex(p.Base), hx.Hex(p.Target))
			emitLine(c, line)
		}
		if lines := c.ReplayLines(); lines != nil {
			for _, l := range lines {
				emitLine(c, l)
			}
			return
		}
		// Exhaustive: all base/target over {a,b} up to a bounded length, every
		// block size up to that length, small maximum data operation sizes.
		lb, lt := c.Size(5, 7), c.Size(5, 8)
		maxOps := []int{1, 2}
		if c.Thorough() {
			maxOps = []int{1, 2, 3}
		}
		bases, targets := rsx.Strings(lb), rsx.Strings(lt)
		for _, b := range bases {
			for _, t := range targets {
				for bs := 1; bs <= len(b)+1; bs++ {
					for _, mo := range maxOps {
						emit("sha1", rsx.Pair{Base: b, Target: t, BlockSize: bs, MaxOp: mo})
						c.Count("exhaustive")
					}
				}
			}
		}
		// The same with the colliding strong hash on a smaller space.
		for _, b := range rsx.Strings(c.Size(4, 6)) {
			for _, t := range rsx.Strings(c.Size(5, 6)) {
				for bs := 1; bs <= len(b)+1; bs++ {
					emit("ends", rsx.Pair{Base: b, Target: t, BlockSize: bs, MaxOp: 2})
					c.Count("exhaustive-colliding-hash")
				}
			}
		}
		// Random large inputs with edit scripts.
		for i := 0; i < c.Size(2500, 12000); i++ {
			p := rsx.RandomPair(c.R, c.Size(1500, 2500), c.Count)
			hasher := "sha1"
			if c.R.Chance(1, 6) {
				hasher = "ends"
			}
			emit(hasher, p)
			c.Count("random-" + hasher)
		}
	})
}

func emitLine(c *hx.Ctx, line string) {
	var oracle, key string
	impl := hx.Try(func() string {
		i, o, k := runCase(c, line)
		oracle, key = o, k
		return i
	})
	if strings.HasPrefix(impl, "panic:") {
		oracle = "class=panic " + impl
	}
	c.Case(line, impl, oracle, key)
}
