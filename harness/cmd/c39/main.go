// C39: session identifiers are well formed and distinct.
//
// Drives identifier.New (with crypto/rand.Reader replaced by a scripted
// source, so the 32 "random" bytes are chosen by the generator),
// encoding.EncodeBase62, identifier.IsValid/Truncated and
// selection.EnsureNameValid. Oracles are written from the documentation:
// the identifier is `<prefix>_` followed by the 43-digit base-62 numeral
// (math/big) of the random value, matches the documented pattern, is accepted
// by IsValid, distinct values give distinct identifiers, the truncated form is
// a prefix, and names that are identifiers, UUIDs or "defaults" are rejected.
package main

import (
	crand "crypto/rand"
	"fmt"
	"math/big"
	"regexp"
	"strconv"
	"strings"
	"unicode"
	"unicode/utf8"

	"github.com/mutagen-io/mutagen/pkg/encoding"
	"github.com/mutagen-io/mutagen/pkg/identifier"
	"github.com/mutagen-io/mutagen/pkg/selection"

	"verif/harness/hx"
)

const alphabet62 = "0123456789abcdefghijklmnopqrstuvwxyzABCDEFGHIJKLMNOPQRSTUVWXYZ"

var (
	docIdentifier  = regexp.MustCompile(`\A[a-z][a-z][a-z][a-z]_[0-9A-Za-z]+\z`)
	docUUID        = regexp.MustCompile(`\A[0-9a-f]{8}-[0-9a-f]{4}-[0-9a-f]{4}-[0-9a-f]{4}-[0-9a-f]{12}\z`)
	docUUIDAnyCase = regexp.MustCompile(`(?i)\A[0-9a-f]{8}-[0-9a-f]{4}-[0-9a-f]{4}-[0-9a-f]{4}-[0-9a-f]{12}\z`)
)

// scriptedRand is the substituted random source.
type scriptedRand struct {
	data []byte
	pos  int
}

func (s *scriptedRand) Read(p []byte) (int, error) {
	for i := range p {
		p[i] = s.data[s.pos%len(s.data)]
		s.pos++
	}
	return len(p), nil
}

func unhex(s string) []byte {
	if s == "-" {
		return nil
	}
	b := make([]byte, len(s)/2)
	for i := range b {
		v, _ := strconv.ParseUint(s[2*i:2*i+2], 16, 8)
		b[i] = byte(v)
	}
	return b
}

// encodeStr renders a Go string for the line protocol.
func encodeStr(s string) string {
	plain := true
	for i := 0; i < len(s); i++ {
		if s[i] < 0x21 || s[i] > 0x7e {
			plain = false
		}
	}
	if plain {
		return "s:" + s
	}
	var parts []string
	for _, r := range s {
		t := strconv.Itoa(int(r))
		if r >= 128 {
			if unicode.IsLetter(r) {
				t += "L"
			} else if unicode.IsNumber(r) {
				t += "N"
			}
		}
		parts = append(parts, t)
	}
	return "u:" + strings.Join(parts, ".")
}

func decodeStr(tok string) string {
	if strings.HasPrefix(tok, "s:") {
		return tok[2:]
	}
	var b strings.Builder
	if tok == "u:" {
		return ""
	}
	for _, p := range strings.Split(tok[2:], ".") {
		p = strings.TrimRight(p, "LN")
		n, _ := strconv.Atoi(p)
		b.WriteRune(rune(n))
	}
	return b.String()
}

// text renders an answer: printable ASCII as is, anything else (only possible
// when the code under test misbehaves) in the escaped form of encodeStr.
func text(s string) string {
	if s == "" {
		return "-"
	}
	if e := encodeStr(s); !strings.HasPrefix(e, "s:") {
		return e
	}
	return s
}

// numeral62 is the specification of the encoding: base-62 numeral of the
// big-endian integer, no leading zeros ("0" for zero).
func numeral62(v []byte) string {
	n := new(big.Int).SetBytes(v)
	return n.Text(62) // digits 0-9, a-z, A-Z: the alphabet of base62.go
}

func main() {
	hx.Main("C39", func(c *hx.Ctx) {
		seen := map[string]string{} // identifier body -> random value (hex)
		run := func(line string) (impl, oracle string) {
			f := strings.Fields(line)
			switch f[0] {
			case "b62":
				v := unhex(f[1])
				got := encoding.EncodeBase62(v)
				// Specification: one alphabet[0] per leading zero byte (all but the
				// last byte), then the numeral of the value.
				want := ""
				if len(v) > 0 {
					z := 0
					for z < len(v)-1 && v[z] == 0 {
						z++
					}
					want = strings.Repeat("0", z) + numeral62(v)
				}
				if got != want {
					oracle = fmt.Sprintf("class=base62-spec EncodeBase62(%x) = %q, want %q", v, got, want)
				} else if back, err := encoding.DecodeBase62(got); err != nil || (len(v) > 0 && string(back) != string(v)) {
					oracle = fmt.Sprintf("class=base62-roundtrip DecodeBase62(EncodeBase62(%x)) = %x, %v", v, back, err)
				}
				return text(got), oracle
			case "new":
				pfx, random := string(unhex(f[1])), unhex(f[2])
				src := &scriptedRand{data: random}
				old := crand.Reader
				crand.Reader = src
				id, err := identifier.New(pfx)
				crand.Reader = old
				pfxOK := len(pfx) == 4
				for _, r := range pfx {
					if r < 'a' || r > 'z' {
						pfxOK = false
					}
				}
				if err != nil {
					if pfxOK {
						oracle = fmt.Sprintf("class=new-failed New(%q): %v", pfx, err)
					}
					return "error", oracle
				}
				if !pfxOK {
					oracle = fmt.Sprintf("class=bad-prefix-accepted New(%q) = %q", pfx, id)
				}
				if src.pos != 32 {
					oracle = fmt.Sprintf("class=entropy New consumed %d random bytes", src.pos)
				}
				body := strings.TrimPrefix(id, pfx+"_")
				want := numeral62(random)
				want = strings.Repeat("0", 43-len(want)) + want
				switch {
				case !strings.HasPrefix(id, pfx+"_") || len(id) != 4+1+43 || !docIdentifier.MatchString(id):
					oracle = fmt.Sprintf("class=identifier-shape New(%q) = %q", pfx, id)
				case !identifier.IsValid(id):
					oracle = fmt.Sprintf("class=identifier-invalid IsValid(%q) = false", id)
				case body != want:
					oracle = fmt.Sprintf("class=identifier-encoding random %x gives %q, want %q", random, body, want)
				case identifier.Truncated(id) != id[:13]:
					oracle = fmt.Sprintf("class=truncated-not-prefix Truncated(%q) = %q", id, identifier.Truncated(id))
				}
				if prev, ok := seen[body]; ok && prev != f[2] {
					oracle = fmt.Sprintf("class=identifier-collision random values %s and %s both give %q", prev, f[2], body)
				}
				seen[body] = f[2]
				return "ok " + text(id), oracle
			case "valid":
				s := decodeStr(f[1])
				got := identifier.IsValid(s)
				want := (len(s) == 48 && docIdentifier.MatchString(s)) || docUUID.MatchString(s)
				if got != want {
					oracle = fmt.Sprintf("class=isvalid IsValid(%q) = %v", s, got)
				}
				return strconv.FormatBool(got), oracle
			case "trunc":
				s := decodeStr(f[1])
				got := identifier.Truncated(s)
				switch {
				case !strings.HasPrefix(s, got):
					oracle = fmt.Sprintf("class=truncated-not-prefix Truncated(%q) = %q", s, got)
				case len(s) == 48 && docIdentifier.MatchString(s) && len(got) != 13,
					docUUID.MatchString(s) && len(got) != 8,
					!identifier.IsValid(s) && got != "":
					oracle = fmt.Sprintf("class=truncated-length Truncated(%q) = %q", s, got)
				}
				return text(got), oracle
			case "name":
				s := decodeStr(f[1])
				err := selection.EnsureNameValid(s)
				// must reject: identifiers (either format, UUID in any case), the reserved word
				mustReject := identifier.IsValid(s) || docUUIDAnyCase.MatchString(s) || s == "defaults"
				// must accept: a letter followed by letters, digits and dashes that cannot be mistaken for a UUID
				grammar := true
				dash := false
				for i, r := range s {
					if unicode.IsLetter(r) {
						continue
					}
					if i == 0 || !(unicode.IsNumber(r) || r == '-') {
						grammar = false
					}
					if r == '-' {
						dash = true
					}
				}
				if !utf8.ValidString(s) {
					grammar = false
				}
				uuidLength := len(s) == 36 || len(s) == 38 || len(s) == 32 || len(s) == 45
				if mustReject && err == nil {
					oracle = fmt.Sprintf("class=name-accepted EnsureNameValid(%q) = nil", s)
				} else if !grammar && err == nil {
					oracle = fmt.Sprintf("class=name-accepted EnsureNameValid(%q) = nil (outside the grammar)", s)
				} else if grammar && !mustReject && !(dash && uuidLength) && err != nil {
					oracle = fmt.Sprintf("class=name-rejected EnsureNameValid(%q) = %v", s, err)
				}
				if err != nil {
					return "error", oracle
				}
				return "ok", oracle
			case "re":
				a, b := identifier.VerifC39MatcherSources()
				return a + " " + b, ""
			}
			return "bad-op", ""
		}
		emit := func(line string) {
			var oracle string
			impl := hx.Try(func() string {
				i, o := run(line)
				oracle = o
				return i
			})
			if strings.HasPrefix(impl, "panic:") {
				oracle = "class=panic " + impl
			}
			kind := strings.Fields(line)[0]
			cls := strings.Fields(impl)[0]
			if kind == "b62" || kind == "trunc" {
				cls = strconv.Itoa(len(cls)) // histogram by output length
				if impl == "-" {
					cls = "empty"
				}
			}
			c.Count(kind + ":" + cls)
			c.Case(line, impl, oracle, kind+" "+impl)
		}
		if lines := c.ReplayLines(); lines != nil {
			for _, l := range lines {
				emit(l)
			}
			return
		}
		r := c.R
		emit("re")

		// Random values of New: structured leading zeros, digit-count boundaries, random.
		var randoms [][]byte
		be32 := func(n *big.Int) []byte { return n.FillBytes(make([]byte, 32)) }
		for z := 0; z <= 32; z++ { // z leading zero bytes, then every kind of continuation
			for _, next := range []int{1, 0x3d, 0x3e, 0x3f, 0x80, 0xff} {
				v := make([]byte, 32)
				if z < 32 {
					v[z] = byte(next)
					copy(v[z+1:], r.Bytes(31-z, 0))
				}
				randoms = append(randoms, v)
				w := make([]byte, 32) // … and nothing but zeros after it
				if z < 32 {
					w[z] = byte(next)
				}
				randoms = append(randoms, w)
			}
		}
		for k := 0; k <= 43; k++ { // around every power of 62 (digit-count boundaries)
			p := new(big.Int).Exp(big.NewInt(62), big.NewInt(int64(k)), nil)
			for d := int64(-2); d <= 2; d++ {
				n := new(big.Int).Add(p, big.NewInt(d))
				if n.Sign() >= 0 && n.BitLen() <= 256 {
					randoms = append(randoms, be32(n))
				}
			}
		}
		randoms = append(randoms, be32(new(big.Int).Sub(new(big.Int).Lsh(big.NewInt(1), 256), big.NewInt(1))))
		for i := 0; i < c.Size(6000, 200000); i++ {
			v := r.Bytes(32, 0)
			if r.Chance(1, 4) { // zero runs anywhere
				a := r.Intn(32)
				for j := a; j < 32 && j < a+r.Intn(33); j++ {
					v[j] = 0
				}
			}
			randoms = append(randoms, v)
		}
		prefixes := []string{identifier.PrefixSynchronization, identifier.PrefixForwarding, identifier.PrefixProject, identifier.PrefixPrompter, "aaaa", "zzzz"}
		var ids []string
		for i, v := range randoms {
			pfx := prefixes[i%len(prefixes)]
			emit(fmt.Sprintf("new %s %s", hx.Hex([]byte(pfx)), hx.Hex(v)))
			if id, err := func() (string, error) {
				old := crand.Reader
				crand.Reader = &scriptedRand{data: v}
				defer func() { crand.Reader = old }()
				return identifier.New(pfx)
			}(); err == nil && i%7 == 0 {
				ids = append(ids, id)
			}
		}
		for _, pfx := range []string{"", "a", "abc", "abcde", "Sync", "syn1", "sy_c", "sync_", "s nc", "éé", "abé", "\xff\xfe\xfd\xfc", "{|}~", "````", "a`zz", "az{a"} {
			emit(fmt.Sprintf("new %s %s", hx.Hex([]byte(pfx)), hx.Hex(r.Bytes(32, 0))))
		}

		// EncodeBase62 on arbitrary lengths.
		emit("b62 -")
		for b := 0; b < 256; b++ {
			emit("b62 " + hx.Hex([]byte{byte(b)}))
			for _, hi := range []int{0, 1, 0x3d, 0xff} {
				emit("b62 " + hx.Hex([]byte{byte(hi), byte(b)}))
			}
			c.Count("exhaustive")
		}
		if c.Thorough() {
			for v := 0; v < 65536; v++ {
				emit("b62 " + hx.Hex([]byte{byte(v >> 8), byte(v)}))
				emit("b62 " + hx.Hex([]byte{0, byte(v >> 8), byte(v)}))
			}
		}
		for i := 0; i < c.Size(5000, 150000); i++ {
			n := 1 + r.Intn(40)
			v := r.Bytes(n, 0)
			for j := r.Intn(n + 1); j > 0 && r.Chance(2, 3); j-- {
				v[j-1] = 0
			}
			if r.Chance(1, 10) {
				v = make([]byte, n)
			}
			emit("b62 " + hx.Hex(v))
		}

		// IsValid / Truncated / EnsureNameValid on identifiers, UUIDs and their neighbours.
		uuidOf := func() string {
			b := r.Bytes(16, 0)
			return fmt.Sprintf("%x-%x-%x-%x-%x", b[0:4], b[4:6], b[6:8], b[8:10], b[10:16])
		}
		mutate := func(s string) string {
			if len(s) == 0 {
				return "x"
			}
			b := []byte(s)
			k := r.Intn(len(b))
			switch r.Intn(9) {
			case 0:
				return s[:k]
			case 1:
				return s + string(alphabet62[r.Intn(62)])
			case 2:
				b[k] = "_-. /:{}\n\x00"[r.Intn(10)]
			case 3:
				b[k] = byte(unicode.ToUpper(rune(b[k])))
			case 4:
				return s[:k] + "é" + s[k+1:]
			case 5:
				return s + "\n"
			case 6:
				return s[:k] + s[k+1:]
			case 7:
				return " " + s
			default:
				b[k] = alphabet62[r.Intn(62)]
			}
			return string(b)
		}
		var samples []string
		samples = append(samples, ids...)
		for i := 0; i < c.Size(600, 20000); i++ {
			samples = append(samples, uuidOf())
		}
		for _, s := range samples {
			for _, t := range []string{s, mutate(s), mutate(mutate(s)), strings.ToUpper(s)} {
				e := encodeStr(t)
				emit("valid " + e)
				emit("trunc " + e)
				emit("name " + e)
			}
			// UUID parser quirks: braces/URN forms and the unchecked 38-byte form
			if len(s) == 36 {
				for _, t := range []string{"x" + s + "y", "{" + s + "}", "urn:uuid:" + s, "a" + s[1:], strings.ReplaceAll(s, "-", ""), "a" + strings.ReplaceAll(s, "-", "")[1:], "a" + s, "ab" + s + "c"} {
					emit("name " + encodeStr(t))
					emit("valid " + encodeStr(t))
				}
			}
		}
		for _, s := range []string{"", "defaults", "default", "defaults2", "Defaults", "defaults-", "a", "a-", "-a", "1a", "a1", "a_b", "my-session", "web-1", "été", "é-٣", "a²", "٣a", "a b", "a.b", "a/b", "café", "\xffabc", "a\xff", "sync", "sync_", "世界"} {
			emit("name " + encodeStr(s))
			emit("valid " + encodeStr(s))
			emit("trunc " + encodeStr(s))
		}
		letters := []rune("abcdefxyzABCXYZéß世")
		others := []rune("0123456789---__ .٣²")
		for i := 0; i < c.Size(6000, 200000); i++ {
			n := r.Intn(40)
			var b strings.Builder
			for j := 0; j < n; j++ {
				switch {
				case j == 0 && r.Chance(9, 10), r.Chance(1, 2):
					b.WriteRune(letters[r.Intn(len(letters))])
				case r.Chance(9, 10):
					b.WriteRune(others[r.Intn(12)]) // digits and dashes
				default:
					b.WriteRune(others[r.Intn(len(others))])
				}
			}
			emit("name " + encodeStr(b.String()))
		}
	})
}
