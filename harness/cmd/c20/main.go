// C20: rsync transfers report every transmission failure.
//
// Drives the real Engine.Deltify with a scripted transmitter (fails at one
// call index, from an index on, or on a set of indices) and the real
// rsync.Transmit with a scripted receiver, prints every attempted
// transmission with its outcome for comparison with the Lean model (which
// models the repaired sendBlock), and evaluates the property's own predicate:
// a nil return implies that no transmission failed and that the operations
// the receiver accepted rebuild the target exactly.
package main

import (
	"bytes"
	"errors"
	"fmt"
	"os"
	"path/filepath"
	"strconv"
	"strings"

	"google.golang.org/protobuf/proto"

	"github.com/mutagen-io/mutagen/pkg/synchronization/rsync"

	"verif/harness/hx"
	"verif/harness/rsx"
)

var errTransport = errors.New("transport failure")

// parseFails parses none | once:k | from:k | set:a.b.c.
func parseFails(s string) func(int) bool {
	p := strings.SplitN(s, ":", 2)
	switch p[0] {
	case "once":
		k, _ := strconv.Atoi(p[1])
		return func(i int) bool { return i == k }
	case "from":
		k, _ := strconv.Atoi(p[1])
		return func(i int) bool { return i >= k }
	case "set":
		set := map[int]bool{}
		for _, x := range strings.Split(p[1], ".") {
			k, _ := strconv.Atoi(x)
			set[k] = true
		}
		return func(i int) bool { return set[i] }
	}
	return func(int) bool { return false }
}

type call struct {
	op *rsync.Operation
	ok bool
}

// runEngine: `e <hasher> <bs> <maxOp> <base> <target> <failspec>`.
func runEngine(c *hx.Ctx, f []string) (impl, oracle, key string) {
	hasher := f[1]
	bs, _ := strconv.Atoi(f[2])
	maxOp, _ := strconv.Atoi(f[3])
	base, target := rsx.Unhex(f[4]), rsx.Unhex(f[5])
	fails := parseFails(f[6])

	e := rsx.NewEngine(hasher)
	sig := e.BytesSignature(base, uint64(bs))
	var calls []call
	transmit := func(o *rsync.Operation) error {
		failed := fails(len(calls))
		calls = append(calls, call{proto.Clone(o).(*rsync.Operation), !failed})
		if failed {
			return errTransport
		}
		return nil
	}
	err := e.Deltify(bytes.NewReader(target), sig, uint64(maxOp), transmit)

	shown := make([]string, len(calls))
	var delivered []*rsync.Operation
	firstFailure := -1
	for i, cl := range calls {
		ok := 0
		if cl.ok {
			ok = 1
			delivered = append(delivered, cl.op)
		} else if firstFailure < 0 {
			firstFailure = i
		}
		shown[i] = fmt.Sprintf("%s/%d", rsx.ShowOp(cl.op), ok)
	}
	ret := "ok"
	if err != nil {
		ret = "err"
	}
	impl = fmt.Sprintf("ret=%s log=%s", ret, rsx.ShowList(shown))

	// The property's own predicate.
	if err == nil {
		if firstFailure >= 0 {
			oracle = fmt.Sprintf("class=swallowed-transmit-error Deltify returned nil although transmit call #%d (%s) failed", firstFailure, shown[firstFailure])
		} else if hasher == "sha1" {
			patched, perr := rsx.NewEngine(hasher).PatchBytes(base, sig, delivered)
			if perr != nil || !bytes.Equal(patched, target) {
				oracle = fmt.Sprintf("class=receiver-data-differs nil return, receiver rebuilt %x (err %v), target %x", patched, perr, target)
			}
		}
	} else {
		if firstFailure < 0 {
			oracle = "class=spurious-error Deltify failed although every transmission succeeded"
		} else if firstFailure != len(calls)-1 {
			oracle = fmt.Sprintf("class=transmit-after-failure %d calls after the failed call #%d", len(calls)-1-firstFailure, firstFailure)
		}
	}
	switch {
	case firstFailure < 0:
		c.Count("engine-no-failure-hit")
	case len(calls[firstFailure].op.Data) > 0:
		c.Count("engine-failed-data-op")
		key = "e-data/" + f[6]
	default:
		c.Count("engine-failed-block-op")
		key = fmt.Sprintf("e-block/%s/%d", f[6], len(calls))
	}
	return impl, oracle, key
}

type recvCall struct {
	text string
	t    *rsync.Transmission
	ok   bool
}

// runTransmit: `t <bs> <failspec> <finalizeFails> <extraSigs> <files>`.
func runTransmit(c *hx.Ctx, f []string, root string) (impl, oracle, key string) {
	bs, _ := strconv.Atoi(f[1])
	fails := parseFails(f[2])
	finalizeFails := f[3] == "1"
	extra, _ := strconv.Atoi(f[4])
	var specs []string
	if f[5] != "-" {
		specs = strings.Split(f[5], ";")
	}

	// Materialise the files.
	os.RemoveAll(root)
	if err := os.MkdirAll(root, 0o755); err != nil {
		panic(err)
	}
	engine := rsync.NewEngine()
	var paths []string
	var sigs []*rsync.Signature
	var bases, targets [][]byte
	var missing []bool
	for i, s := range specs {
		p := strings.Split(s, ":")
		base := rsx.Unhex(p[0])
		name := fmt.Sprintf("f%d", i)
		paths = append(paths, name)
		sigs = append(sigs, engine.BytesSignature(base, uint64(bs)))
		bases = append(bases, base)
		if p[1] == "!" {
			missing = append(missing, true)
			targets = append(targets, nil)
			continue
		}
		missing = append(missing, false)
		targets = append(targets, rsx.Unhex(p[1]))
		if err := os.WriteFile(filepath.Join(root, name), rsx.Unhex(p[1]), 0o644); err != nil {
			panic(err)
		}
	}
	for i := 0; i < extra; i++ {
		sigs = append(sigs, &rsync.Signature{})
	}

	var calls []recvCall
	finalized := 0
	receiver := rsync.VerifC20NewReceiver(func(t *rsync.Transmission) error {
		failed := fails(len(calls))
		var text string
		if t.Done {
			text = "F0"
			if t.Error != "" {
				text = "F1"
			}
		} else {
			text = fmt.Sprintf("O%d:%s", t.ExpectedSize, rsx.ShowOp(t.Operation))
		}
		calls = append(calls, recvCall{text, proto.Clone(t).(*rsync.Transmission), !failed})
		if failed {
			return errTransport
		}
		return nil
	}, func() error {
		finalized++
		if finalizeFails {
			return errTransport
		}
		return nil
	})
	err := rsync.Transmit(root, paths, sigs, receiver)

	shown := make([]string, len(calls))
	firstFailure := -1
	for i, cl := range calls {
		ok := 0
		if cl.ok {
			ok = 1
		} else if firstFailure < 0 {
			firstFailure = i
		}
		shown[i] = fmt.Sprintf("%s/%d", cl.text, ok)
	}
	ret := "ok"
	if err != nil {
		ret = "err"
	}
	impl = fmt.Sprintf("ret=%s fin=%d log=%s", ret, finalized, rsx.ShowList(shown))

	// The property's own predicate.
	bad := func(class, format string, a ...any) {
		if oracle == "" {
			oracle = "class=" + class + " " + fmt.Sprintf(format, a...)
		}
	}
	if finalized != 1 {
		bad("finalize-count", "finalize called %d times", finalized)
	}
	if firstFailure >= 0 && firstFailure != len(calls)-1 {
		bad("receive-after-failure", "%d Receive calls after the failed call #%d", len(calls)-1-firstFailure, firstFailure)
	}
	if err == nil {
		if firstFailure >= 0 {
			bad("swallowed-transmit-error", "Transmit returned nil although Receive call #%d (%s) failed", firstFailure, shown[firstFailure])
		}
		if finalizeFails || extra != 0 {
			bad("swallowed-error", "Transmit returned nil (finalizeFails=%v extraSigs=%d)", finalizeFails, extra)
		}
		// The receiver must have obtained, per file, operations that rebuild the
		// target followed by a done message.
		pos := 0
		for i := range specs {
			var ops []*rsync.Operation
			first := true
			for pos < len(calls) && !calls[pos].t.Done {
				want := uint64(0)
				if first {
					want = uint64(len(targets[i]))
				}
				if calls[pos].t.ExpectedSize != want {
					bad("expected-size", "file %d: expected size %d, want %d", i, calls[pos].t.ExpectedSize, want)
				}
				first = false
				ops = append(ops, calls[pos].t.Operation)
				pos++
			}
			if pos >= len(calls) {
				bad("stream-truncated", "no done message for file %d", i)
				break
			}
			done := calls[pos].t
			pos++
			if missing[i] {
				if len(ops) != 0 || done.Error == "" {
					bad("missing-file-not-reported", "file %d", i)
				}
				continue
			}
			if done.Error != "" {
				bad("engine-error-with-nil-return", "file %d: %s", i, done.Error)
			}
			patched, perr := engine.PatchBytes(bases[i], sigs[i], ops)
			if perr != nil || !bytes.Equal(patched, targets[i]) {
				bad("receiver-data-differs", "file %d: receiver rebuilt %x (err %v), target %x", i, patched, perr, targets[i])
			}
		}
		if pos != len(calls) {
			bad("stream-trailing", "%d extra messages", len(calls)-pos)
		}
	} else if firstFailure < 0 && !finalizeFails && extra == 0 {
		bad("spurious-error", "Transmit failed although nothing failed: %v", err)
	}
	switch {
	case extra != 0:
		c.Count("transmit-length-mismatch")
	case firstFailure < 0 && finalizeFails:
		c.Count("transmit-finalize-fails")
	case firstFailure < 0:
		c.Count("transmit-no-failure-hit")
	case calls[firstFailure].t.Done:
		c.Count("transmit-failed-done-msg")
		key = fmt.Sprintf("t-done/%s/%d", f[2], len(specs))
	case len(calls[firstFailure].t.Operation.Data) > 0:
		c.Count("transmit-failed-data-op")
		key = fmt.Sprintf("t-data/%s/%d", f[2], len(specs))
	default:
		c.Count("transmit-failed-block-op")
		key = fmt.Sprintf("t-block/%s/%d/%d", f[2], len(specs), len(calls))
	}
	return impl, oracle, key
}

func main() {
	hx.Main("C20", func(c *hx.Ctx) {
		root := filepath.Join(c.Dir, "files")
		defer os.RemoveAll(root)
		emit := func(line string) {
			var oracle, key string
			impl := hx.Try(func() string {
				f := strings.Fields(line)
				var i, o, k string
				switch {
				case len(f) == 7 && f[0] == "e":
					i, o, k = runEngine(c, f)
				case len(f) == 6 && f[0] == "t":
					i, o, k = runTransmit(c, f, root)
				default:
					i = "bad-op"
				}
				oracle, key = o, k
				return i
			})
			if strings.HasPrefix(impl, "panic:") {
				oracle = "class=panic " + impl
			}
			c.Case(line, impl, oracle, key)
		}
		if lines := c.ReplayLines(); lines != nil {
			for _, l := range lines {
				emit(l)
			}
			return
		}
		// countCalls runs the real engine with a transmitter that never fails.
		countCalls := func(hasher string, p rsx.Pair) int {
			e := rsx.NewEngine(hasher)
			n := 0
			e.Deltify(bytes.NewReader(p.Target), e.BytesSignature(p.Base, uint64(p.BlockSize)), uint64(p.MaxOp), func(*rsync.Operation) error { n++; return nil })
			return n
		}
		engineLine := func(hasher string, p rsx.Pair, spec string) string {
			return fmt.Sprintf("e %s %d %d %s %s %s", hasher, p.BlockSize, p.MaxOp, hx.Hex(p.Base), hx.Hex(p.Target), spec)
		}
		// Exhaustive: all base/target over {a,b} up to a bounded length, all
		// block sizes, failure injected at every call index (once and from then
		// on), and no failure at all.
		lb, lt := c.Size(3, 5), c.Size(4, 5)
		for _, b := range rsx.Strings(lb) {
			for _, t := range rsx.Strings(lt) {
				for bs := 1; bs <= len(b)+1; bs++ {
					for _, mo := range []int{1, 2} {
						p := rsx.Pair{Base: b, Target: t, BlockSize: bs, MaxOp: mo}
						n := countCalls("sha1", p)
						emit(engineLine("sha1", p, "none"))
						for k := 0; k < n; k++ {
							emit(engineLine("sha1", p, fmt.Sprintf("once:%d", k)))
							emit(engineLine("sha1", p, fmt.Sprintf("from:%d", k)))
							c.Count("exhaustive-engine")
						}
					}
				}
			}
		}
		// Random base/target pairs with edit scripts, failure at each call index.
		for i := 0; i < c.Size(600, 12000); i++ {
			p := rsx.RandomPair(c.R, c.Size(400, 1200), func(string) {})
			hasher := "sha1"
			if c.R.Chance(1, 8) {
				hasher = "ends"
			}
			n := countCalls(hasher, p)
			idx := make([]int, 0, n)
			for k := 0; k < n; k++ {
				idx = append(idx, k)
			}
			if n > 10 { // sample 10 call indices, always including first and last
				idx = []int{0, n - 1}
				for len(idx) < 10 {
					idx = append(idx, c.R.Intn(n))
				}
			}
			for _, k := range idx {
				emit(engineLine(hasher, p, fmt.Sprintf("once:%d", k)))
				emit(engineLine(hasher, p, fmt.Sprintf("from:%d", k)))
				c.Count("random-engine")
			}
			if n > 1 {
				a, b2 := c.R.Intn(n), c.R.Intn(n)
				emit(engineLine(hasher, p, fmt.Sprintf("set:%d.%d", a, b2)))
			}
			emit(engineLine(hasher, p, fmt.Sprintf("once:%d", n+c.R.Intn(3)))) // beyond the last call
		}
		// Transmit: 0..3 files, failure at each Receive index.
		for i := 0; i < c.Size(250, 4000); i++ {
			nf := c.R.Intn(4)
			bs := 1 + c.R.Intn(6)
			if c.R.Chance(1, 3) {
				bs = 8 + c.R.Intn(24)
			}
			var specs []string
			total := 0
			for j := 0; j < nf; j++ {
				p := rsx.RandomPair(c.R, c.Size(120, 400), func(string) {})
				if j == 0 && c.R.Chance(1, 2) { // small two-letter data: many non-adjacent block matches
					p.Base = c.R.Bytes(c.R.Intn(10), 2)
					p.Target = c.R.Bytes(c.R.Intn(12), 2)
				}
				p.BlockSize, p.MaxOp = bs, 0
				if c.R.Chance(1, 10) {
					specs = append(specs, hx.Hex(p.Base)+":!")
					total++
					continue
				}
				specs = append(specs, hx.Hex(p.Base)+":"+hx.Hex(p.Target))
				total += countCalls("sha1", p) + 1
			}
			files := "-"
			if len(specs) > 0 {
				files = strings.Join(specs, ";")
			}
			line := func(spec string, ff, extra int) string {
				return fmt.Sprintf("t %d %s %d %d %s", bs, spec, ff, extra, files)
			}
			emit(line("none", 0, 0))
			if c.R.Chance(1, 5) {
				emit(line("none", 1, 0))
			}
			if c.R.Chance(1, 10) {
				emit(line("none", 0, 1))
			}
			idx := make([]int, 0, total)
			for k := 0; k < total; k++ {
				idx = append(idx, k)
			}
			if total > 8 {
				idx = []int{0, total - 1}
				for len(idx) < 8 {
					idx = append(idx, c.R.Intn(total))
				}
			}
			for _, k := range idx {
				emit(line(fmt.Sprintf("once:%d", k), 0, 0))
				emit(line(fmt.Sprintf("from:%d", k), c.R.Intn(2), 0))
				c.Count("random-transmit")
			}
		}
	})
}
