// C10: files written into a root always carry the planned content.
//
// Three streams, each compared with the Lean model and checked by the
// property's own oracle:
//
//	S  operation sequences on the real store.Store on a scratch directory
//	   (Initialize/Allocate/Write/Commit/Discard/Contains/Path/Finalize, size
//	   limit, rename failure through the fault hook, foreign content in the
//	   storage root); oracle: every file at a store location hashes to the
//	   digest in its name;
//	R  the real rsync receiver (rsync.NewReceiver driven by DecodeToReceiver)
//	   sinking into a real staging.Stager, fed with correct, corrupted,
//	   truncated, reordered and aborted transmission streams over correct and
//	   stale bases; same oracle;
//	T  end to end: files staged through that receiver (with the same
//	   anomalies), then the real core.Transition; oracle: the SHA-1 of every
//	   file newly present in the root equals the digest the plan names for its
//	   path, and whatever was not staged correctly is reported as missing.
package main

import (
	"crypto/sha1"
	"encoding/hex"
	"errors"
	"fmt"
	"hash"
	"io"
	"os"
	"path/filepath"
	"sort"
	"strconv"
	"strings"

	"github.com/mutagen-io/mutagen/pkg/filesystem"
	"github.com/mutagen-io/mutagen/pkg/synchronization/core"
	"github.com/mutagen-io/mutagen/pkg/synchronization/endpoint/local/staging"
	"github.com/mutagen-io/mutagen/pkg/synchronization/endpoint/local/staging/store"
	"github.com/mutagen-io/mutagen/pkg/synchronization/rsync"

	"verif/harness/hx"
	"verif/harness/transx"
)

// emptyHash is a hash.Hash whose digest is empty.
type emptyHash struct{}

func (emptyHash) Write(p []byte) (int, error) { return len(p), nil }
func (emptyHash) Sum(b []byte) []byte         { return b }
func (emptyHash) Reset()                      {}
func (emptyHash) Size() int                   { return 0 }
func (emptyHash) BlockSize() int              { return 1 }

var errInjected = errors.New("injected fault")

// pathHashes maps the path-hash part of a storage name back to the path.
type pathHashes struct {
	helper *store.Store
	byHex  map[string]string
}

func newPathHashes(dir string) *pathHashes {
	os.RemoveAll(dir)
	h := store.NewStore(dir, false, 1, sha1.New)
	if err := h.Initialize(); err != nil {
		panic(err)
	}
	return &pathHashes{helper: h, byHex: map[string]string{}}
}

func (p *pathHashes) learn(path string) {
	t, err := p.helper.Path(path, []byte{0xaa})
	if err != nil {
		panic(err)
	}
	name := filepath.Base(t)
	p.byHex[name[len(name)-32:]] = path
}

// readStore reads the storage root independently: canonical state, counts and
// the verdict of the store invariant (every file in a prefix directory hashes
// to the digest in its name and sits in the prefix of that digest).
func readStore(root string, ph *pathHashes, planted map[string]bool) (state string, files, temps int, verdict string) {
	fi, err := os.Lstat(root)
	if err != nil {
		return "files=- prefixes=- temps=0 root=a", 0, 0, ""
	}
	if !fi.IsDir() {
		return "files=- prefixes=- temps=0 root=f", 0, 0, ""
	}
	ents, _ := os.ReadDir(root)
	var fitems, pitems []string
	for _, e := range ents {
		name := e.Name()
		if strings.HasPrefix(name, "storage") {
			temps++
			continue
		}
		if len(name) != 2 {
			continue
		}
		if _, err := hex.DecodeString(name); err != nil {
			continue
		}
		if !e.IsDir() {
			pitems = append(pitems, name+"f")
			continue
		}
		pitems = append(pitems, name+"d")
		inner, _ := os.ReadDir(filepath.Join(root, name))
		for _, f := range inner {
			fn := f.Name()
			data, _ := os.ReadFile(filepath.Join(root, name, fn))
			files++
			if len(fn) <= 32 {
				verdict = "class=store-invariant unexpected name " + fn
				continue
			}
			dig, phx := fn[:len(fn)-32], fn[len(fn)-32:]
			sum := sha1.Sum(data)
			if dig != hex.EncodeToString(sum[:]) || !strings.HasPrefix(dig, name) {
				verdict = fmt.Sprintf("class=store-invariant file %s/%s holds %x (sha1 %x)", name, fn, data, sum)
			}
			path, ok := ph.byHex[phx]
			if !ok {
				path = "?" + phx
			}
			fitems = append(fitems, dig+"@"+hx.EncText(path)+"="+hx.Hex(data))
		}
	}
	sort.Strings(fitems)
	sort.Strings(pitems)
	join := func(l []string) string {
		if len(l) == 0 {
			return "-"
		}
		return strings.Join(l, ",")
	}
	return "files=" + join(fitems) + " prefixes=" + join(pitems) + " temps=" + strconv.Itoa(temps) + " root=d", files, temps, verdict
}

func unhex(s string) []byte {
	if s == "-" {
		return nil
	}
	b, err := hex.DecodeString(s)
	if err != nil {
		panic(err)
	}
	return b
}

func storeErr(err error) string {
	switch {
	case err == nil:
		return "ok"
	case strings.Contains(err.Error(), "store uninitialized"):
		return "uninit"
	case strings.Contains(err.Error(), "digest empty"):
		return "digest-empty"
	case strings.Contains(err.Error(), "storage root"):
		return "root"
	case strings.Contains(err.Error(), "unable to create temporary storage file"):
		return "alloc"
	case strings.Contains(err.Error(), "maximum file size reached"):
		return "size"
	case strings.Contains(err.Error(), "unable to create prefix directory"):
		return "prefix"
	case strings.Contains(err.Error(), "unable to relocate storage"):
		return "rename"
	case strings.HasPrefix(err.Error(), "remove "):
		// os.Remove of the temporary file failed: ENOENT after Finalize, ENOTDIR
		// when something else now occupies the root.
		return "temp-gone"
	}
	return "other:" + err.Error()
}

// hashTable renders the hash field for the contents that occur.
func hashTable(contents [][]byte, empty bool) string {
	seen := map[string]bool{}
	var items []string
	for _, c := range contents {
		k := hx.Hex(c)
		if seen[k] {
			continue
		}
		seen[k] = true
		d := "-"
		if !empty {
			d = hx.Hex(transx.Digest(c))
		}
		items = append(items, k+">"+d)
	}
	if len(items) == 0 {
		return "-"
	}
	sort.Strings(items)
	return strings.Join(items, ",")
}

// runStoreLine executes an S line on the real store.
func runStoreLine(line, dir string) (impl, oracle string) {
	f := strings.Fields(line)
	maxSize, _ := strconv.ParseUint(f[1], 10, 64)
	empty := strings.Contains(f[2], ">-")
	root := filepath.Join(dir, "store")
	os.RemoveAll(dir)
	os.MkdirAll(dir, 0o755)
	ph := newPathHashes(filepath.Join(dir, "helper"))
	factory := func() hash.Hash { return sha1.New() }
	if empty {
		factory = func() hash.Hash { return emptyHash{} }
	}
	s := store.NewStore(root, false, maxSize, factory)
	var storages []*store.Storage
	var outs []string
	fail := func(format string, a ...any) {
		if oracle == "" {
			oracle = fmt.Sprintf(format, a...)
		}
	}
	for _, cmd := range f[3:] {
		p := strings.Split(cmd, ":")
		out := ""
		switch p[0] {
		case "init":
			out = storeErr(s.Initialize())
		case "alloc":
			st, err := s.Allocate()
			out = storeErr(err)
			if err == nil {
				storages = append(storages, st)
				out += ":" + strconv.Itoa(len(storages)-1)
			}
		case "w":
			id, _ := strconv.Atoi(p[1])
			if id >= len(storages) || storages[id] == nil {
				out = "unknown-storage"
				break
			}
			data := unhex(p[2])
			n, err := storages[id].Write(data)
			out = storeErr(err)
			if err == nil && n != len(data) {
				out = "short-write"
			}
		case "c":
			id, _ := strconv.Atoi(p[1])
			if id >= len(storages) || storages[id] == nil {
				out = "unknown-storage"
				break
			}
			path, _ := hx.DecText(p[2])
			ph.learn(path)
			if p[3] == "1" {
				filesystem.VerifSetFaultHook(func(op, name string) error {
					if op == "rename" {
						return errInjected
					}
					return nil
				})
			}
			out = storeErr(storages[id].Commit(path))
			filesystem.VerifSetFaultHook(nil)
			storages[id] = nil
		case "d":
			id, _ := strconv.Atoi(p[1])
			if id >= len(storages) || storages[id] == nil {
				out = "unknown-storage"
				break
			}
			out = storeErr(storages[id].Discard())
			storages[id] = nil
		case "has":
			path, _ := hx.DecText(p[1])
			digest := unhex(p[2])
			ok, err := s.Contains(path, digest)
			out = storeErr(err) + ":" + map[bool]string{true: "1", false: "0"}[ok]
			if ok {
				// Contains => the provided path holds content with that digest.
				t, perr := s.Path(path, digest)
				data, rerr := os.ReadFile(t)
				if perr != nil || rerr != nil || string(transx.Digest(data)) != string(digest) {
					fail("class=store-invariant Contains(%q,%x) but content is %x", path, digest, data)
				}
			}
		case "path":
			path, _ := hx.DecText(p[1])
			_, err := s.Path(path, unhex(p[2]))
			out = storeErr(err)
		case "fin":
			out = storeErr(s.Finalize())
		case "block":
			out = "ok"
			if fi, err := os.Lstat(root); err == nil && fi.IsDir() {
				name := filepath.Join(root, p[1])
				if _, err := os.Lstat(name); err != nil {
					os.WriteFile(name, []byte("foreign"), 0o600)
				}
			}
		case "rootfile":
			out = "ok"
			if _, err := os.Lstat(root); err != nil {
				os.WriteFile(root, []byte("foreign"), 0o600)
			}
		default:
			return "bad-op", ""
		}
		_, nf, nt, v := readStore(root, ph, nil)
		if v != "" {
			fail("%s", v)
		}
		outs = append(outs, out+"/"+strconv.Itoa(nf)+"/"+strconv.Itoa(nt))
	}
	state, _, _, v := readStore(root, ph, nil)
	if v != "" {
		fail("%s", v)
	}
	return strings.Join(outs, " ") + " |" + state, oracle
}

// rfile is one file of a reception.
type rfile struct {
	path      string
	base      []byte
	openable  bool
	blockSize uint64
	lastSize  uint64
	blocks    int
}

type rmsg struct {
	done       bool
	data       []byte
	start      uint64
	count      uint64
	renameFail bool
}

func encRFiles(fs []rfile) string {
	items := make([]string, len(fs))
	for i, f := range fs {
		b := hx.Hex(f.base)
		if !f.openable {
			b = "!"
		}
		items[i] = hx.EncText(f.path) + "/" + b + "/" + strconv.FormatUint(f.blockSize, 10) + "/" +
			strconv.FormatUint(f.lastSize, 10) + "/" + strconv.Itoa(f.blocks)
	}
	return strings.Join(items, ";")
}

func encMsgs(ms []rmsg) string {
	if len(ms) == 0 {
		return "-"
	}
	items := make([]string, len(ms))
	for i, m := range ms {
		f := "0"
		if m.renameFail {
			f = "1"
		}
		if m.done {
			items[i] = "D" + f
		} else {
			items[i] = "o" + hx.Hex(m.data) + ":" + strconv.FormatUint(m.start, 10) + ":" + strconv.FormatUint(m.count, 10) + ":" + f
		}
	}
	return strings.Join(items, ",")
}

func decRFiles(s string) []rfile {
	var out []rfile
	for _, item := range strings.Split(s, ";") {
		p := strings.Split(item, "/")
		path, _ := hx.DecText(p[0])
		f := rfile{path: path, openable: p[1] != "!"}
		if f.openable {
			f.base = unhex(p[1])
		}
		f.blockSize, _ = strconv.ParseUint(p[2], 10, 64)
		f.lastSize, _ = strconv.ParseUint(p[3], 10, 64)
		f.blocks, _ = strconv.Atoi(p[4])
		out = append(out, f)
	}
	return out
}

func decMsgs(s string) []rmsg {
	if s == "-" {
		return nil
	}
	var out []rmsg
	for _, item := range strings.Split(s, ",") {
		if item[0] == 'D' {
			out = append(out, rmsg{done: true, renameFail: item[1] == '1'})
			continue
		}
		p := strings.Split(item[1:], ":")
		m := rmsg{data: unhex(p[0]), renameFail: p[3] == "1"}
		m.start, _ = strconv.ParseUint(p[1], 10, 64)
		m.count, _ = strconv.ParseUint(p[2], 10, 64)
		out = append(out, m)
	}
	return out
}

// scriptDecoder feeds scripted transmissions to DecodeToReceiver and arms the
// rename fault for the call that follows.
type scriptDecoder struct {
	msgs       []rmsg
	failRename *bool
}

func (d *scriptDecoder) Decode(t *rsync.Transmission) error {
	if len(d.msgs) == 0 {
		*d.failRename = false
		return io.EOF
	}
	m := d.msgs[0]
	d.msgs = d.msgs[1:]
	*d.failRename = m.renameFail
	if m.done {
		t.Done = true
		t.Operation = nil
		return nil
	}
	t.Operation = &rsync.Operation{Data: m.data, Start: m.start, Count: m.count}
	return nil
}

func (d *scriptDecoder) Finalize() error {
	*d.failRename = false
	return nil
}

// receive runs the real receiver over a script into the stager.
func receive(st *staging.Stager, root string, files []rfile, msgs []rmsg) {
	paths := make([]string, len(files))
	sigs := make([]*rsync.Signature, len(files))
	for i, f := range files {
		paths[i] = f.path
		sig := &rsync.Signature{BlockSize: f.blockSize, LastBlockSize: f.lastSize}
		for j := 0; j < f.blocks; j++ {
			sig.Hashes = append(sig.Hashes, &rsync.BlockHash{Weak: 1, Strong: make([]byte, 20)})
		}
		sigs[i] = sig
	}
	recv, err := rsync.NewReceiver(root, paths, sigs, st)
	if err != nil {
		panic(err)
	}
	fail := false
	filesystem.VerifSetFaultHook(func(op, name string) error {
		if op == "rename" && fail {
			return errInjected
		}
		return nil
	})
	rsync.DecodeToReceiver(&scriptDecoder{msgs: msgs, failRename: &fail}, uint64(len(files)), recv)
	filesystem.VerifSetFaultHook(nil)
}

// runReceiverLine executes an R line.
func runReceiverLine(line, dir string) (impl, oracle string) {
	f := strings.Fields(line)
	maxSize, _ := strconv.ParseUint(f[1], 10, 64)
	files := decRFiles(f[3])
	msgs := decMsgs(f[4])
	os.RemoveAll(dir)
	os.MkdirAll(dir, 0o755)
	ph := newPathHashes(filepath.Join(dir, "helper"))
	root := filepath.Join(dir, "root")
	os.Mkdir(root, 0o755)
	for _, rf := range files {
		ph.learn(rf.path)
		if rf.openable && rf.blockSize != 0 {
			full := filepath.Join(root, filepath.FromSlash(rf.path))
			os.MkdirAll(filepath.Dir(full), 0o755)
			os.WriteFile(full, rf.base, 0o644)
		}
	}
	storeDir := filepath.Join(dir, "store")
	st := staging.NewStager(storeDir, false, maxSize, sha1.New)
	if err := st.Initialize(); err != nil {
		panic(err)
	}
	receive(st, root, files, msgs)
	state, _, _, v := readStore(storeDir, ph, nil)
	return state, v
}

// genMsgs produces the transmission stream for one file, possibly damaged.
func genMsgs(r *hx.Rand, engine *rsync.Engine, target []byte, sig *rsync.Signature, anomaly int) []rmsg {
	ops := engine.DeltifyBytes(target, sig, uint64(1+r.Intn(4)))
	var ms []rmsg
	for _, op := range ops {
		ms = append(ms, rmsg{data: append([]byte(nil), op.Data...), start: op.Start, count: op.Count})
	}
	switch anomaly {
	case 1: // corrupt a data byte
		for i := range ms {
			if len(ms[i].data) > 0 {
				ms[i].data[r.Intn(len(ms[i].data))] ^= 0x41
				break
			}
		}
	case 2: // drop an operation
		if len(ms) > 0 {
			i := r.Intn(len(ms))
			ms = append(ms[:i], ms[i+1:]...)
		}
	case 3: // duplicate an operation
		if len(ms) > 0 {
			i := r.Intn(len(ms))
			ms = append(ms[:i+1], ms[i:]...)
		}
	case 4: // bad block reference
		ms = append(ms, rmsg{start: uint64(r.Intn(6)), count: uint64(1 + r.Intn(3))})
	case 5: // extra data
		ms = append(ms, rmsg{data: r.Bytes(1+r.Intn(3), 256)})
	}
	return ms
}

func sigOf(engine *rsync.Engine, base []byte, blockSize uint64) *rsync.Signature {
	if len(base) == 0 {
		return &rsync.Signature{}
	}
	return engine.BytesSignature(base, blockSize)
}

func main() {
	hx.Main("C10", func(c *hx.Ctx) {
		dir := filepath.Join(c.Dir, "scratch")
		engine := rsync.NewEngine()
		emit := func(line string) {
			var oracle string
			impl := hx.Try(func() string {
				var i, o string
				switch {
				case strings.HasPrefix(line, "S "):
					i, o = runStoreLine(line, dir)
				case strings.HasPrefix(line, "R "):
					i, o = runReceiverLine(line, dir)
				default:
					return "bad-op"
				}
				oracle = o
				return i
			})
			filesystem.VerifSetFaultHook(nil)
			if strings.HasPrefix(impl, "panic:") {
				oracle = "class=panic " + impl
			}
			key := ""
			if strings.Contains(impl, "files=") && !strings.Contains(impl, "files=- ") {
				key = impl[strings.Index(impl, "files="):]
			}
			for _, cl := range []string{"size", "rename", "prefix", "digest-empty", "uninit", "root", "alloc"} {
				if strings.Contains(impl, cl+"/") {
					c.Count("store-result:" + cl)
					key += "|" + cl
				}
			}
			c.Case(line, impl, oracle, key)
		}
		transition := func(cs *transx.Case, label string) {
			o, err := transx.Run(cs)
			if err != nil {
				c.Case("harness-error", "harness-error: "+err.Error(), "class=harness-error "+err.Error(), "")
				return
			}
			oracle := transx.OracleC10(cs, o)
			if oracle == "" && cs.StoreDir != "" {
				ph := newPathHashes(filepath.Join(dir, "helper"))
				_, _, _, oracle = readStore(cs.StoreDir, ph, nil)
			}
			if o.Missing {
				c.Count("T:missing-files")
			}
			key := label
			if o.Missing {
				key += "|missing"
			}
			c.Case("T "+o.Line, o.Impl, oracle, key+"|"+transx.EncProblems(o.Problems))
		}
		if lines := c.ReplayLines(); lines != nil {
			for _, l := range lines {
				if strings.HasPrefix(l, "T ") {
					cs, err := transx.BuildFromLine(strings.TrimPrefix(l, "T "), dir)
					if err != nil {
						c.Case(l, "harness-error: "+err.Error(), "class=harness-error "+err.Error(), "")
						continue
					}
					transition(cs, "replay")
					continue
				}
				emit(l)
			}
			return
		}

		// S, exhaustive: all sequences up to length L over a small alphabet
		// ("^" stands for the most recently allocated storage).
		da, db := []byte{0x61}, []byte{0x62, 0x62}
		ha := transx.Digest(da)
		alphabet := []string{"init", "alloc", "w:^:61", "w:^:6262", "c:^:p:0", "c:^:q:1", "d:^", "has:p:" + hx.Hex(ha),
			"fin", "block:" + hx.Hex(ha[:1]), "rootfile", "path:p:-"}
		table := hashTable([][]byte{nil, da, db, append(append([]byte{}, da...), db...), append(append([]byte{}, db...), da...),
			append(append([]byte{}, da...), da...), append(append([]byte{}, db...), db...)}, false)
		L := c.Size(3, 5)
		var rec func(prefix []string, allocs int, depth int)
		rec = func(prefix []string, allocs int, depth int) {
			if len(prefix) > 0 {
				emit("S 3 " + table + " " + strings.Join(prefix, " "))
				c.Count("S:exhaustive")
			}
			if depth == 0 {
				return
			}
			for _, a := range alphabet {
				n := allocs
				if a == "alloc" {
					n++
				}
				if strings.Contains(a, "^") {
					if allocs == 0 {
						continue
					}
					a = strings.Replace(a, "^", strconv.Itoa(allocs-1), 1)
				}
				rec(append(append([]string{}, prefix...), a), n, depth-1)
			}
		}
		rec(nil, 0, L)

		// S, random long sequences.
		paths := []string{"p", "q", "d/e", "é x", "…"}
		for i := 0; i < c.Size(1500, 60000); i++ {
			empty := c.R.Chance(1, 25)
			maxSize := []uint64{0, 2, 5, 1 << 20, 1 << 20}[c.R.Intn(5)]
			var contents [][]byte
			pool := [][]byte{nil, {1}, {2, 2}, {3, 3, 3}, {1, 2}, {0xff}}
			var cmds []string
			open := map[int][]byte{}
			allocs := 0
			inited := false
			if !c.R.Chance(1, 8) {
				cmds = append(cmds, "init")
				inited = true
			}
			for n := 1 + c.R.Intn(14); n > 0; n-- {
				var ids []int
				for id := range open {
					ids = append(ids, id)
				}
				sort.Ints(ids)
				pick := func() int { return ids[c.R.Intn(len(ids))] }
				switch k := c.R.Intn(20); {
				case k < 3:
					cmds = append(cmds, "alloc")
					if inited {
						open[allocs] = nil
						allocs++
					}
				case k < 8 && len(ids) > 0:
					id := pick()
					d := pool[c.R.Intn(len(pool))]
					cmds = append(cmds, "w:"+strconv.Itoa(id)+":"+hx.Hex(d))
					if uint64(len(open[id])+len(d)) <= maxSize {
						open[id] = append(append([]byte{}, open[id]...), d...)
					}
				case k < 12 && len(ids) > 0:
					id := pick()
					f := "0"
					if c.R.Chance(1, 6) {
						f = "1"
					}
					cmds = append(cmds, "c:"+strconv.Itoa(id)+":"+hx.EncText(paths[c.R.Intn(len(paths))])+":"+f)
					contents = append(contents, open[id])
					delete(open, id)
				case k < 13 && len(ids) > 0:
					id := pick()
					cmds = append(cmds, "d:"+strconv.Itoa(id))
					delete(open, id)
				case k < 16:
					d := pool[c.R.Intn(len(pool))]
					dig := transx.Digest(d)
					if c.R.Chance(1, 8) {
						dig = nil
					}
					op := "has"
					if c.R.Chance(1, 4) {
						op = "path"
					}
					cmds = append(cmds, op+":"+hx.EncText(paths[c.R.Intn(len(paths))])+":"+hx.Hex(dig))
				case k < 17:
					d := pool[c.R.Intn(len(pool))]
					cmds = append(cmds, "block:"+hx.Hex(transx.Digest(d)[:1]))
				case k < 18 && len(ids) == 0:
					cmds = append(cmds, "fin")
					inited = false
					if c.R.Chance(1, 3) {
						cmds = append(cmds, "rootfile")
					}
				case k < 19:
					cmds = append(cmds, "init")
					// (may fail; the generator's view of `inited` is only a heuristic)
					inited = true
				}
			}
			for _, d := range open {
				contents = append(contents, d)
			}
			for _, p := range pool {
				contents = append(contents, p)
			}
			emit("S " + strconv.FormatUint(maxSize, 10) + " " + hashTable(contents, empty) + " " + strings.Join(cmds, " "))
			c.Count("S:random")
		}

		// R: receiver scripts.
		for i := 0; i < c.Size(1500, 60000); i++ {
			maxSize := []uint64{3, 8, 1 << 20, 1 << 20, 1 << 20}[c.R.Intn(5)]
			var files []rfile
			var msgs []rmsg
			var contents [][]byte
			for n := 1 + c.R.Intn(3); n > 0; n-- {
				path := paths[c.R.Intn(len(paths))] + strconv.Itoa(n)
				target := c.R.Bytes(c.R.Intn(10), 3)
				base := c.R.Bytes(c.R.Intn(10), 3)
				if c.R.Chance(1, 2) && len(target) > 2 {
					// related base: target with an edit
					base = append(append([]byte{}, target[:len(target)/2]...), 9)
					base = append(base, target[len(target)/2:]...)
				}
				rf := rfile{path: path, openable: true}
				blockSize := uint64(1 + c.R.Intn(4))
				sigBase := base
				switch c.R.Intn(8) {
				case 0: // no base
					sigBase = nil
				case 1: // stale base: signature of something else than what is on disk
					sigBase = append(append([]byte{}, base...), c.R.Bytes(1+c.R.Intn(4), 3)...)
				case 2: // base cannot be opened
					rf.openable = false
				case 3: // base on disk is shorter
					if len(base) > 1 {
						base = base[:len(base)/2]
					}
				}
				sig := sigOf(engine, sigBase, blockSize)
				rf.base = base
				rf.blockSize, rf.lastSize, rf.blocks = sig.BlockSize, sig.LastBlockSize, len(sig.Hashes)
				anomaly := 0
				if c.R.Chance(1, 2) {
					anomaly = 1 + c.R.Intn(5)
					c.Count("R:anomaly:" + strconv.Itoa(anomaly))
				}
				ms := genMsgs(c.R, engine, target, sig, anomaly)
				for j := range ms {
					if c.R.Chance(1, 30) {
						ms[j].renameFail = true
					}
				}
				done := rmsg{done: true, renameFail: c.R.Chance(1, 12)}
				msgs = append(msgs, ms...)
				msgs = append(msgs, done)
				files = append(files, rf)
				// every prefix of what may be written can be committed
				contents = append(contents, target, base, sigBase)
			}
			if c.R.Chance(1, 6) && len(msgs) > 0 {
				msgs = msgs[:c.R.Intn(len(msgs))] // aborted stream
				c.Count("R:aborted")
			}
			line := "R " + strconv.FormatUint(maxSize, 10) + " - " + encRFiles(files) + " " + encMsgs(msgs)
			// Run once to learn which contents get committed, then emit with the hash table.
			_, _ = contents, line
			state, _ := runReceiverLine(line, dir)
			var committed [][]byte
			if i := strings.Index(state, "files="); i >= 0 {
				fld := strings.Fields(state[i:])[0][len("files="):]
				if fld != "-" {
					for _, it := range strings.Split(fld, ",") {
						committed = append(committed, unhex(it[strings.IndexByte(it, '=')+1:]))
					}
				}
			}
			// The model needs H on everything that reaches Commit, including
			// contents whose commit failed: take all written prefixes from the model's
			// point of view by hashing every concatenation the script can produce.
			committed = append(committed, possibleContents(files, msgs, maxSize)...)
			emit("R " + strconv.FormatUint(maxSize, 10) + " " + hashTable(committed, false) + " " + encRFiles(files) + " " + encMsgs(msgs))
			c.Count("R:random")
		}

		shm := transx.ShmAvailable(dir)
		if !shm {
			c.Note("/dev/shm is not a separate writable device: cross-device renames are only injected")
		}
		// T: end to end through receiver, store and transition.
		for i := 0; i < c.Size(250, 8000); i++ {
			g := &transx.Gen{R: c.R}
			sc := g.GenScenario(false, false)
			sc.UseStore = true
			sc.ProvideErr = map[string]bool{}
			label := "T"
			r := c.R.Fork()
			sc.Stage = func(st *staging.Stager, root string, paths []string, digests [][]byte) error {
				r := hx.NewRand(r.U64())
				var files []rfile
				var msgs []rmsg
				for i := range paths {
					if sc.Unstaged[transx.Key(paths[i], digests[i])] {
						continue
					}
					target := sc.Contents[hx.Hex(digests[i])]
					rf := rfile{path: paths[i], openable: true}
					var sig *rsync.Signature = &rsync.Signature{}
					if data, err := os.ReadFile(filepath.Join(root, filepath.FromSlash(paths[i]))); err == nil && len(data) > 0 && r.Chance(2, 3) {
						sig = engine.BytesSignature(data, uint64(1+r.Intn(3)))
						rf.base = data
					}
					rf.blockSize, rf.lastSize, rf.blocks = sig.BlockSize, sig.LastBlockSize, len(sig.Hashes)
					anomaly := 0
					if r.Chance(1, 3) {
						anomaly = 1 + r.Intn(5)
						label += ":a" + strconv.Itoa(anomaly)
					}
					if r.Chance(1, 12) {
						// mismatched: the content of some other planned file
						for _, other := range sc.Contents {
							target = other
							break
						}
						label += ":mismatch"
					}
					ms := genMsgs(r, engine, target, sig, anomaly)
					msgs = append(msgs, ms...)
					msgs = append(msgs, rmsg{done: true, renameFail: r.Chance(1, 25)})
					files = append(files, rf)
				}
				if len(files) == 0 {
					return nil
				}
				if r.Chance(1, 10) {
					msgs = msgs[:r.Intn(len(msgs)+1)]
					label += ":aborted"
				}
				receive(st, root, files, msgs)
				return nil
			}
			// Cross-device moves: the first rename of a staged file reports EXDEV
			// (injected, or for real with the store on /dev/shm), sometimes with a
			// further failure inside the fallback.
			var faults []transx.Fault
			if names := transx.FileCreationNames(sc.Plan); len(names) > 0 && c.R.Chance(1, 3) {
				if sc.Cfg.FileMode == 0 {
					sc.Cfg.FileMode = 0o600
				}
				if shm && c.R.Chance(1, 2) {
					sc.ShmStaging = true
					label += ":real-xdev"
					c.Count("T:real-cross-device")
				} else {
					for _, n := range names {
						if c.R.Chance(2, 3) {
							faults = append(faults, transx.Fault{Op: "rename", Name: n, K: 0, Act: 'x'})
						}
					}
					label += ":exdev"
					c.Count("T:injected-exdev")
				}
				switch c.R.Intn(6) {
				case 0:
					faults = append(faults, transx.Fault{Op: "mktemp", Name: transx.TmpPattern, K: 0, Act: 'f'})
				case 1:
					faults = append(faults, transx.Fault{Op: "chmod", Name: transx.TmpPattern + "0", K: 0, Act: 'f'})
				case 2:
					faults = append(faults, transx.Fault{Op: "rename", Name: names[c.R.Intn(len(names))], K: 1, Act: 'f'})
				case 3:
					faults = append(faults, transx.Fault{Op: "mktemp", Name: transx.TmpPattern, K: 0, Act: 'c'})
				}
			}
			cs, err := transx.Build(sc, dir, faults)
			if err != nil {
				c.Case("harness-error", "harness-error: "+err.Error(), "class=harness-error "+err.Error(), "")
				continue
			}
			if strings.Contains(label, ":") {
				c.Count("T:damaged-staging")
			}
			c.Count("T:scenario")
			transition(cs, label)
			if cs.Cleanup != nil {
				cs.Cleanup()
			}
		}

		// T, large files: a cross-device copy that is cancelled in the middle. The
		// copy polls for cancellation at write number interval+1 (1024 writes of
		// 32 KiB), so only a file larger than 32 MiB can be preempted; a preempted
		// copy must not leave a truncated file at the planned path.
		const preemptBytes = 1024 * 32 * 1024
		type bigVariant struct {
			label  string
			size   int
			swap   bool
			cancel *transx.Fault
			real   bool
		}
		mktempCancel := &transx.Fault{Op: "mktemp", Name: transx.TmpPattern, K: 0, Act: 'c'}
		variants := []bigVariant{
			{"preempted-create", preemptBytes + 1 + c.R.Intn(5000), false, mktempCancel, false},
			{"boundary-not-polled", preemptBytes, false, mktempCancel, false},
			{"preempted-swap", preemptBytes + 7 + c.R.Intn(5000), true, &transx.Fault{Op: "lstat", Name: "old", K: 0, Act: 'c'}, false},
		}
		if shm {
			variants = append(variants, bigVariant{"preempted-create-real-xdev", preemptBytes + 1 + c.R.Intn(5000), false, mktempCancel, true})
		}
		if c.Thorough() {
			for k := 0; k < 4; k++ {
				variants = append(variants,
					bigVariant{"preempted-create", preemptBytes + 1 + c.R.Intn(1 << 20), false, mktempCancel, shm && k%2 == 1},
					bigVariant{"complete-no-cancel", preemptBytes + 1 + c.R.Intn(1 << 16), k%2 == 0, nil, false},
					bigVariant{"preempted-swap", preemptBytes + 1 + c.R.Intn(1 << 20), true, mktempCancel, shm && k%2 == 0})
			}
		}
		for _, v := range variants {
			data := make([]byte, v.size)
			fill := byte(1 + c.R.Intn(250))
			for i := range data {
				data[i] = fill
			}
			digest := transx.Digest(data)
			oldData := []byte{1, 2, 3}
			sc := &transx.Scenario{
				Cfg: transx.Cfg{SL: 'r', FileMode: 0o644, DirMode: 0o755, RootName: "root"},
				F0: &transx.Node{Kind: 'd', Perm: 0o755, Kids: map[string]*transx.Node{
					"keep": {Kind: 'f', Perm: 0o644, Mtime: 1, Data: []byte{9}},
					"old":  {Kind: 'f', Perm: 0o644, Mtime: 2, Data: oldData},
				}},
				Contents: map[string][]byte{hx.Hex(digest): data}, Unstaged: map[string]bool{}, ProvideErr: map[string]bool{},
				UseStore: true, Derived: true, StoreMax: 64 << 20, ShmStaging: v.real,
			}
			name := "big"
			if v.swap {
				name = "old"
				sc.Plan = []*core.Change{{Path: "old", Old: &core.Entry{Kind: core.EntryKind_File, Digest: transx.Digest(oldData)},
					New: &core.Entry{Kind: core.EntryKind_File, Digest: digest}}}
			} else {
				sc.Plan = []*core.Change{{Path: "big", New: &core.Entry{Kind: core.EntryKind_File, Digest: digest}}}
			}
			var faults []transx.Fault
			if !v.real {
				faults = append(faults, transx.Fault{Op: "rename", Name: name, K: 0, Act: 'x'})
			}
			if v.cancel != nil {
				faults = append(faults, *v.cancel)
			}
			cs, err := transx.Build(sc, dir, faults)
			if err != nil {
				c.Case("harness-error", "harness-error: "+err.Error(), "class=harness-error "+err.Error(), "")
				continue
			}
			c.Count("T:large:" + v.label)
			transition(cs, "T:large:"+v.label)
			if cs.Cleanup != nil {
				cs.Cleanup()
			}
		}
	})
}

// possibleContents lists every content a storage can hold when a commit is
// attempted for the script (what the model will hash): it replays the script
// on plain byte slices, following receive.go's rules for what gets written.
func possibleContents(files []rfile, msgs []rmsg, maxSize uint64) [][]byte {
	var out [][]byte
	idx := 0
	var cur []byte
	open := false
	burning := false
	flush := func() {
		out = append(out, append([]byte{}, cur...))
		cur = nil
		open = false
	}
	for _, m := range msgs {
		if idx >= len(files) {
			break
		}
		f := files[idx]
		if m.done {
			if open {
				flush()
			} else if !burning {
				out = append(out, nil)
			}
			idx++
			burning = false
			continue
		}
		if burning {
			continue
		}
		if !open {
			if f.blockSize != 0 && !f.openable {
				burning = true
				continue
			}
			open = true
			cur = nil
		}
		write := func(b []byte) bool {
			if maxSize-uint64(len(cur)) < uint64(len(b)) {
				return false
			}
			cur = append(cur, b...)
			return true
		}
		ok := true
		if len(m.data) > 0 {
			ok = write(m.data)
		} else {
			pos := m.start * f.blockSize
			for k := uint64(0); k < m.count && ok; k++ {
				n := f.blockSize
				if int(m.start+k)+1 == f.blocks {
					n = f.lastSize
				}
				if pos+n > uint64(len(f.base)) {
					ok = false
					break
				}
				ok = write(f.base[pos : pos+n])
				pos += n
			}
		}
		if !ok {
			flush()
			burning = true
		}
	}
	if open {
		flush()
	}
	return out
}

var _ core.Provider = (*transx.MapProvider)(nil)
