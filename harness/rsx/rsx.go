// Package rsx holds what the C19 and C20 drivers share: the injectable weak
// "strong" hash, canonical printing of rsync operations, and the generators
// of base/target pairs (exhaustive small strings, random data with edit
// scripts).
package rsx

import (
	"crypto/sha1"
	"fmt"
	"hash"
	"strconv"
	"strings"

	"github.com/mutagen-io/mutagen/pkg/synchronization/rsync"

	"verif/harness/hx"
)

// endsHash is a deliberately colliding hash.Hash: the digest is the first and
// the last byte written (empty if nothing was written).
type endsHash struct {
	n           int
	first, last byte
}

func (e *endsHash) Write(p []byte) (int, error) {
	for _, b := range p {
		if e.n == 0 {
			e.first = b
		}
		e.last = b
		e.n++
	}
	return len(p), nil
}

func (e *endsHash) Sum(b []byte) []byte {
	if e.n == 0 {
		return b
	}
	return append(b, e.first, e.last)
}
func (e *endsHash) Reset()         { *e = endsHash{} }
func (e *endsHash) Size() int      { return 2 }
func (e *endsHash) BlockSize() int { return 1 }

// NewHash returns the named hash ("sha1" or "ends").
func NewHash(name string) hash.Hash {
	if name == "ends" {
		return &endsHash{}
	}
	return sha1.New()
}

// NewEngine returns the real engine; for "sha1" exactly rsync.NewEngine().
func NewEngine(hasher string) *rsync.Engine {
	if hasher == "sha1" {
		return rsync.NewEngine()
	}
	return rsync.VerifC19NewEngineWithStrongHash(NewHash(hasher))
}

// ShowOp prints an operation canonically.
func ShowOp(o *rsync.Operation) string {
	if len(o.Data) > 0 && o.Start == 0 && o.Count == 0 {
		return "D" + hx.Hex(o.Data)
	} else if len(o.Data) == 0 {
		return fmt.Sprintf("B%d+%d", o.Start, o.Count)
	}
	return fmt.Sprintf("X%s/%d+%d", hx.Hex(o.Data), o.Start, o.Count)
}

// ShowList joins items with commas ("-" when empty).
func ShowList(xs []string) string {
	if len(xs) == 0 {
		return "-"
	}
	return strings.Join(xs, ",")
}

// ShowSig prints a signature canonically.
func ShowSig(s *rsync.Signature) string {
	hs := make([]string, len(s.Hashes))
	for i, h := range s.Hashes {
		hs[i] = fmt.Sprintf("%d:%s", h.Weak, hx.Hex(h.Strong))
	}
	return fmt.Sprintf("%d/%d/%s", s.BlockSize, s.LastBlockSize, ShowList(hs))
}

// Unhex decodes a hex field ("-" is empty).
func Unhex(s string) []byte {
	if s == "-" {
		return nil
	}
	b := make([]byte, len(s)/2)
	for i := range b {
		v, _ := strconv.ParseUint(s[2*i:2*i+2], 16, 8)
		b[i] = byte(v)
	}
	return b
}

// Strings enumerates all strings over {a,b} of length 0..maxLen.
func Strings(maxLen int) [][]byte {
	var out [][]byte
	for l := 0; l <= maxLen; l++ {
		for v := 0; v < 1<<l; v++ {
			s := make([]byte, l)
			for i := range s {
				s[i] = 'a' + byte(v>>i&1)
			}
			out = append(out, s)
		}
	}
	return out
}

// Mutate applies a random edit script to base and returns the target. count
// is called with the name of every edit applied.
func Mutate(r *hx.Rand, base []byte, bs, alphabet int, count func(string)) []byte {
	t := append([]byte(nil), base...)
	rng := func() (int, int) { // random range inside t, biased to block multiples
		if len(t) == 0 {
			return 0, 0
		}
		a := r.Intn(len(t) + 1)
		l := r.Intn(3*bs + 2)
		if r.Chance(1, 3) {
			a = a / bs * bs
			l = (1 + r.Intn(3)) * bs
		}
		if a+l > len(t) {
			l = len(t) - a
		}
		return a, l
	}
	splice := func(a, l int, ins []byte) {
		n := append([]byte(nil), t[:a]...)
		n = append(n, ins...)
		t = append(n, t[a+l:]...)
	}
	k := r.Intn(5)
	if r.Chance(1, 8) {
		k = 5 + r.Intn(8)
	}
	for i := 0; i < k; i++ {
		switch r.Intn(9) {
		case 0:
			a, _ := rng()
			splice(a, 0, r.Bytes(1+r.Intn(2*bs+1), alphabet))
			count("edit-insert")
		case 1:
			a, l := rng()
			splice(a, l, nil)
			count("edit-delete")
		case 2:
			a, l := rng()
			splice(a, l, r.Bytes(l, alphabet))
			count("edit-replace")
		case 3: // duplicate a range in place
			a, l := rng()
			splice(a, 0, append([]byte(nil), t[a:a+l]...))
			count("edit-duplicate")
		case 4: // move a range elsewhere
			a, l := rng()
			chunk := append([]byte(nil), t[a:a+l]...)
			splice(a, l, nil)
			splice(r.Intn(len(t)+1), 0, chunk)
			count("edit-move")
		case 5: // copy a block of the base to a random (unaligned) place
			if len(base) > 0 {
				a := r.Intn(len(base)) / bs * bs
				e := a + bs
				if e > len(base) {
					e = len(base)
				}
				splice(r.Intn(len(t)+1), 0, base[a:e])
			}
			count("edit-copy-base-block")
		case 6: // flip one byte
			if len(t) > 0 {
				p := r.Intn(len(t))
				t[p] = r.Bytes(1, alphabet)[0]
			}
			count("edit-flip")
		case 7: // truncate or extend the tail
			if r.Chance(1, 2) && len(t) > 0 {
				t = t[:len(t)-1-r.Intn(min(len(t), bs+1))]
			} else {
				t = append(t, r.Bytes(1+r.Intn(bs+1), alphabet)...)
			}
			count("edit-tail")
		default: // prepend
			splice(0, 0, r.Bytes(1+r.Intn(bs+1), alphabet))
			count("edit-prepend")
		}
	}
	return t
}

// Pair is one generated input.
type Pair struct {
	Base, Target []byte
	BlockSize    int
	MaxOp        int
}

// RandomPair draws base data, a block size, a maximum data operation size and
// a target derived from the base by an edit script (sometimes identical,
// unrelated or empty). maxLen bounds the base length.
func RandomPair(r *hx.Rand, maxLen int, count func(string)) Pair {
	alphabet := []int{2, 2, 3, 4, 16, 256}[r.Intn(6)]
	n := r.Intn(maxLen + 1)
	if r.Chance(1, 4) {
		n = r.Intn(40)
	}
	base := r.Bytes(n, alphabet)
	var bs int
	switch r.Intn(4) {
	case 0:
		bs = 1 + r.Intn(8)
	case 1:
		bs = []int{16, 32, 64, 100, 128}[r.Intn(5)]
	case 2:
		bs = 1 + r.Intn(n/3+2)
	default:
		bs = 2 + r.Intn(30)
	}
	if r.Chance(1, 3) && n > 0 { // make the base length a multiple of the block size sometimes
		base = base[:n/bs*bs]
	}
	maxOp := 1 + r.Intn(6)
	switch r.Intn(5) {
	case 0:
		maxOp = 0 // default
	case 1:
		maxOp = []int{16, 64, 1000}[r.Intn(3)]
	case 2:
		maxOp = 1 + r.Intn(3*bs)
	}
	var target []byte
	switch r.Intn(12) {
	case 0:
		target = append([]byte(nil), base...)
		count("target-identical")
	case 1:
		target = r.Bytes(r.Intn(maxLen+1), alphabet)
		count("target-unrelated")
	case 2:
		target = nil
		count("target-empty")
	default:
		target = Mutate(r, base, bs, alphabet, count)
		count("target-edited")
	}
	return Pair{base, target, bs, maxOp}
}
