package scanx

// Parsing of the scan line protocol (for replays): the description of a tree
// and the tables of a line are turned back into a generator tree, a table
// ignorer and a fault list.

import (
	"encoding/hex"
	"fmt"
	"strconv"
	"strings"

	"github.com/mutagen-io/mutagen/pkg/synchronization/core"
	"github.com/mutagen-io/mutagen/pkg/synchronization/core/ignore"

	"verif/harness/hx"
)

type fsParser struct {
	s string
	i int
}

func (p *fsParser) peek() byte {
	if p.i < len(p.s) {
		return p.s[p.i]
	}
	return 0
}

func (p *fsParser) expect(c byte) error {
	if p.peek() != c {
		return fmt.Errorf("expected %q at %d", c, p.i)
	}
	p.i++
	return nil
}

func (p *fsParser) span(ok func(byte) bool) string {
	j := p.i
	for p.i < len(p.s) && ok(p.s[p.i]) {
		p.i++
	}
	return p.s[j:p.i]
}

func isDigit(c byte) bool { return c >= '0' && c <= '9' }
func isHex(c byte) bool   { return isDigit(c) || c >= 'a' && c <= 'f' }
func isText(c byte) bool  { return isSafe(c) || c == '%' }
func isSafe(c byte) bool {
	return c >= 'a' && c <= 'z' || c >= 'A' && c <= 'Z' || isDigit(c) || c == '.' || c == '_' || c == '-'
}

func (p *fsParser) node() (*Node, error) {
	switch p.peek() {
	case 'D':
		p.i++
		dev, _ := strconv.ParseUint(p.span(isDigit), 10, 64)
		n := &Node{Kind: 'D', Dev: dev}
		if err := p.expect('('); err != nil {
			return nil, err
		}
		if p.peek() == ')' {
			p.i++
			return n, nil
		}
		for {
			name, err := hex.DecodeString(p.span(isHex))
			if err != nil {
				return nil, err
			}
			if err := p.expect(':'); err != nil {
				return nil, err
			}
			c, err := p.node()
			if err != nil {
				return nil, err
			}
			n.Children = append(n.Children, &Child{string(name), c})
			if p.peek() == ',' {
				p.i++
				continue
			}
			return n, p.expect(')')
		}
	case 'F':
		p.i++
		n := &Node{Kind: 'F', SetTime: true}
		perm, _ := strconv.ParseUint(p.span(func(c byte) bool { return c >= '0' && c <= '7' }), 8, 32)
		n.Perm = uint32(perm)
		nums := make([]int64, 4)
		for k := range nums {
			if err := p.expect('.'); err != nil {
				return nil, err
			}
			neg := false
			if p.peek() == '-' {
				neg = true
				p.i++
			}
			v, _ := strconv.ParseInt(p.span(isDigit), 10, 64)
			if neg {
				v = -v
			}
			nums[k] = v
		}
		n.Sec, n.Nsec, n.Size, n.Ino = nums[0], nums[1], uint64(nums[2]), uint64(nums[3])
		if err := p.expect('.'); err != nil {
			return nil, err
		}
		if p.peek() == '*' {
			p.i++
			cnt, _ := strconv.Atoi(p.span(isDigit))
			if err := p.expect('*'); err != nil {
				return nil, err
			}
			b, err := hex.DecodeString(p.span(isHex))
			if err != nil || len(b) != 1 {
				return nil, fmt.Errorf("bad run at %d", p.i)
			}
			n.Content = []byte(strings.Repeat(string(b), cnt))
		} else {
			b, err := hex.DecodeString(p.span(isHex))
			if err != nil {
				return nil, err
			}
			n.Content = b
		}
		return n, nil
	case 'L':
		p.i++
		t, err := hx.DecText(p.span(isText))
		if err != nil {
			return nil, err
		}
		return &Node{Kind: 'L', Target: t}, nil
	case 'O':
		p.i++
		t, _ := strconv.ParseUint(p.span(isDigit), 10, 32)
		return &Node{Kind: 'O', Typ: uint32(t)}, nil
	}
	return nil, fmt.Errorf("bad node at %d", p.i)
}

// ParseFS parses a tree description ("~" gives nil).
func ParseFS(s string) (*Node, error) {
	if s == "~" {
		return nil, nil
	}
	p := &fsParser{s: s}
	n, err := p.node()
	if err == nil && p.i != len(s) {
		err = fmt.Errorf("trailing input at %d", p.i)
	}
	return n, err
}

func items(s string) []string {
	if s == "-" {
		return nil
	}
	return strings.Split(s, ";")
}

// ParsedLine is a scan line.
type ParsedLine struct {
	Cfg   *Cfg
	Steps []*Step
}

// ParseLine parses `sl pm ign nfc faults step+`; the ignorer becomes a table
// lookup (absent keys: nominal, no traversal).
func ParseLine(line string) (*ParsedLine, error) {
	f := strings.Fields(line)
	if len(f) < 9 || (len(f)-5)%4 != 0 {
		return nil, fmt.Errorf("bad field count %d", len(f))
	}
	cfg := &Cfg{}
	switch f[0] {
	case "i":
		cfg.SymlinkMode = core.SymbolicLinkMode_SymbolicLinkModeIgnore
	case "p":
		cfg.SymlinkMode = core.SymbolicLinkMode_SymbolicLinkModePortable
	case "r":
		cfg.SymlinkMode = core.SymbolicLinkMode_SymbolicLinkModePOSIXRaw
	default:
		return nil, fmt.Errorf("bad symlink mode")
	}
	switch f[1] {
	case "p":
		cfg.PermsMode = core.PermissionsMode_PermissionsModePortable
	case "m":
		cfg.PermsMode = core.PermissionsMode_PermissionsModeManual
	default:
		return nil, fmt.Errorf("bad permissions mode")
	}
	table := map[IgnKey]ignore.IgnoreCacheValue{}
	for _, it := range items(f[2]) {
		q := strings.Split(it, "|")
		if len(q) != 3 || len(q[2]) != 2 {
			return nil, fmt.Errorf("bad ignore item %q", it)
		}
		path, err := hx.DecText(q[0])
		if err != nil {
			return nil, err
		}
		v := ignore.IgnoreCacheValue{ContinueTraversal: q[2][1] == '1'}
		switch q[2][0] {
		case 'i':
			v.Status = ignore.IgnoreStatusIgnored
		case 'u':
			v.Status = ignore.IgnoreStatusUnignored
		}
		table[IgnKey{path, q[1] == "d"}] = v
	}
	cfg.Ignorer = FuncIgnorer(func(path string, dir bool) (ignore.IgnoreStatus, bool) {
		v := table[IgnKey{path, dir}]
		return v.Status, v.ContinueTraversal
	})
	for _, it := range items(f[4]) {
		q := strings.Split(it, "|")
		if len(q) != 3 {
			return nil, fmt.Errorf("bad fault item %q", it)
		}
		path, err := hx.DecText(q[1])
		if err != nil {
			return nil, err
		}
		leaf := path
		if i := strings.LastIndexByte(path, '/'); i >= 0 {
			leaf = path[i+1:]
		}
		// the hook sees raw leaf names: exact for names that are their own entry names
		cfg.Faults = append(cfg.Faults, Fault{Op: q[0], Path: path, Leaf: leaf, NotExist: q[2] == "n"})
	}
	pl := &ParsedLine{Cfg: cfg}
	for k := 5; k < len(f); k += 4 {
		if len(f[k]) != 2 {
			return nil, fmt.Errorf("bad behaviour field")
		}
		st := &Step{Px: f[k][0] == '1', Du: f[k][1] == '1', CacheMod: f[k+2]}
		for _, it := range items(f[k+1]) {
			p, err := hx.DecText(it)
			if err != nil {
				return nil, err
			}
			st.Recheck = append(st.Recheck, p)
		}
		fs, err := ParseFS(f[k+3])
		if err != nil {
			return nil, err
		}
		st.FS = fs
		pl.Steps = append(pl.Steps, st)
	}
	return pl, nil
}

// Rebuildable reports whether a described tree can be recreated as described
// (no foreign-device directories, no size/content mismatch, which need mounts).
func Rebuildable(n *Node, dev uint64) bool {
	if n == nil {
		return true
	}
	switch n.Kind {
	case 'D':
		if n.Dev != dev {
			return false
		}
		for _, c := range n.Children {
			if !Rebuildable(c.Node, dev) {
				return false
			}
		}
	case 'F':
		return uint64(len(n.Content)) == n.Size && n.Sec < 1<<33 && n.Sec > -(1<<31)
	}
	return true
}
