package scanx

// The property's own predicates for scans, written against the description
// walk (os-level calls only) and deliberately not following the structure of
// scan.go: "what must the snapshot say about this directory entry".

import (
	"bytes"
	"fmt"
	"strings"
	"syscall"

	"github.com/mutagen-io/mutagen/pkg/filesystem"
	"github.com/mutagen-io/mutagen/pkg/synchronization/core"
	"github.com/mutagen-io/mutagen/pkg/synchronization/core/ignore"
)

// OracleIn is everything the cold-scan oracle looks at.
type OracleIn struct {
	Desc   *Node
	Cfg    *Cfg
	Px, Du bool
	// ContractOK is false when the ignorer violates the documented Ignorer
	// contract (continue-traversal on non-directories or on unignored content);
	// the kind table is then not checked.
	ContractOK bool
	Digest     func([]byte) []byte
	Res        *Result
}

func (o *OracleIn) fault(op, path string) (bool, bool) {
	for _, f := range o.Cfg.Faults {
		if f.Op == op && f.Path == path {
			return true, f.NotExist
		}
	}
	return false, false
}

// portable is the oracle's own reading of "a portable link": relative, free
// of ':' and '\', at most 247 bytes, and lexically never leaving the root.
func portable(linkPath, target string) bool {
	if target == "" || len(target) > 247 || strings.ContainsAny(target, ":\\") || target[0] == '/' {
		return false
	}
	depth := strings.Count(linkPath, "/") // directories above the link
	for _, c := range strings.Split(target, "/") {
		switch c {
		case ".", "":
		case "..":
			depth--
			if depth < 0 {
				return false
			}
		default:
			depth++
		}
	}
	return true
}

type want struct {
	kind    core.EntryKind
	absent  bool
	problem string
	digest  []byte
	exec    bool
	target  string
	dir     *Node // for directory kinds: recurse
	mask    bool
	path    string
}

// CheckCold evaluates the property on one cold scan.
func CheckCold(o *OracleIn) string {
	r := o.Res
	if r.Panic != "" {
		return "class=panic " + r.Panic
	}
	d := o.Desc
	if d != nil && (d.Kind == 'L' || d.Kind == 'O') {
		if r.Err == nil {
			return "class=root-kind scan of a link / special root succeeded"
		}
		return ""
	}
	if r.Err != nil {
		return "class=scan-error " + r.Err.Error()
	}
	s := r.Snapshot
	if err := s.EnsureValid(); err != nil {
		return "class=invalid-snapshot " + err.Error()
	}
	if err := r.Cache.EnsureValid(); err != nil {
		return "class=invalid-cache " + err.Error()
	}
	if s.PreservesExecutability != o.Px && d != nil || s.DecomposesUnicode != o.Du && d != nil {
		return "class=behaviour-flags"
	}
	if d == nil {
		if s.Content != nil || s.Directories+s.Files+s.SymbolicLinks+s.TotalFileSize != 0 || len(r.Cache.Entries) != 0 {
			return "class=absent-root non-empty snapshot"
		}
		return ""
	}
	// Counts match content; no temporary names.
	var dirs, files, links, size uint64
	filePaths := map[string]bool{}
	msg := ""
	var walk func(e *core.Entry, path string)
	walk = func(e *core.Entry, path string) {
		switch e.Kind {
		case core.EntryKind_Directory, core.EntryKind_PhantomDirectory:
			dirs++
		case core.EntryKind_File:
			files++
			filePaths[path] = true
			if ce, ok := r.Cache.Entries[path]; ok {
				size += ce.Size
			} else if msg == "" {
				msg = "class=cache-missing " + path
			}
		case core.EntryKind_SymbolicLink:
			links++
		}
		for n, c := range e.Contents {
			if strings.HasPrefix(n, filesystem.TemporaryNamePrefix) && msg == "" {
				msg = "class=temporary-name " + Join(path, n)
			}
			walk(c, Join(path, n))
		}
	}
	walk(s.Content, "")
	if msg != "" {
		return msg
	}
	if dirs != s.Directories || files != s.Files || links != s.SymbolicLinks || size != s.TotalFileSize {
		return fmt.Sprintf("class=counts snapshot %d/%d/%d/%d content %d/%d/%d/%d", s.Directories, s.Files, s.SymbolicLinks,
			s.TotalFileSize, dirs, files, links, size)
	}
	for p := range r.Cache.Entries {
		if !filePaths[p] {
			return "class=cache-extra " + p
		}
	}
	if !o.ContractOK {
		return ""
	}
	// Kind table, node by node.
	wantIgn := map[IgnKey]ignore.IgnoreCacheValue{}
	if m := o.checkNode(want{path: "", dir: d}, d, s.Content, true, wantIgn); m != "" {
		return m
	}
	if len(wantIgn) != len(r.IgnoreCache) {
		return fmt.Sprintf("class=ignore-cache size %d want %d", len(r.IgnoreCache), len(wantIgn))
	}
	for k, v := range wantIgn {
		if got, ok := r.IgnoreCache[ignore.IgnoreCacheKey{Path: k.Path, Directory: k.Dir}]; !ok || got != v {
			return "class=ignore-cache " + k.Path
		}
	}
	return ""
}

// expect computes what the snapshot must hold for the directory entry `c` of
// a directory at `path` scanned under ignore mask `mask`.
func (o *OracleIn) expect(parent *Node, path string, raw string, c *Node, mask bool, wantIgn map[IgnKey]ignore.IgnoreCacheValue) (string, want, bool) {
	if strings.HasPrefix(raw, filesystem.TemporaryNamePrefix) {
		return "", want{}, false
	}
	name, ok := EntryName(raw, o.Du)
	if !ok {
		if mask {
			return name, want{kind: core.EntryKind_Untracked}, true
		}
		return name, want{kind: core.EntryKind_Problematic, problem: "non-UTF-8 filename"}, true
	}
	p := Join(path, name)
	w := want{path: p}
	if c.Kind == 'O' {
		w.kind = core.EntryKind_Untracked
		return name, w, true
	}
	st, cont := o.Cfg.Ignorer.Ignore(p, c.Kind == 'D')
	wantIgn[IgnKey{p, c.Kind == 'D'}] = ignore.IgnoreCacheValue{Status: st, ContinueTraversal: cont}
	ignored := st == ignore.IgnoreStatusIgnored || st == ignore.IgnoreStatusNominal && mask
	if ignored && !cont {
		w.kind = core.EntryKind_Untracked
		return name, w, true
	}
	switch c.Kind {
	case 'F':
		if hit, ne := o.fault("of", p); hit {
			if ne {
				w.absent = true
			} else {
				w.kind, w.problem = core.EntryKind_Problematic, "unable to open file"
			}
			return name, w, true
		}
		if uint64(len(c.Content)) != c.Size {
			// what a read returns is not what lstat announced (procfs / sysfs, or a concurrent writer)
			w.kind, w.problem = core.EntryKind_Problematic, "hashed size mismatch"
			return name, w, true
		}
		if c.Sec < -62135596800 || c.Sec > 253402300799 {
			w.kind, w.problem = core.EntryKind_Problematic, "unable to convert file modification time"
			return name, w, true
		}
		w.kind, w.digest = core.EntryKind_File, o.Digest(c.Content)
		w.exec = o.Cfg.PermsMode == core.PermissionsMode_PermissionsModePortable && o.Px && c.Perm&0o111 != 0
	case 'L':
		if o.Cfg.SymlinkMode == core.SymbolicLinkMode_SymbolicLinkModeIgnore {
			w.kind = core.EntryKind_Untracked
			return name, w, true
		}
		if hit, ne := o.fault("rl", p); hit {
			if ne {
				w.absent = true
			} else {
				w.kind, w.problem = core.EntryKind_Problematic, "unable to read symbolic link target"
			}
			return name, w, true
		}
		if name != raw && parent.Get(name) == nil {
			// Recorded under its NFC name, and read back under that name: on a
			// filesystem that compares names byte by byte the link is not found
			// (a decomposing filesystem would find it).
			w.absent = true
			return name, w, true
		}
		if o.Cfg.SymlinkMode == core.SymbolicLinkMode_SymbolicLinkModePortable && !portable(p, c.Target) {
			w.kind, w.problem = core.EntryKind_Problematic, "invalid symbolic link"
		} else {
			w.kind, w.target = core.EntryKind_SymbolicLink, c.Target
		}
	case 'D':
		if hit, ne := o.fault("od", p); hit && ne && c.Dev == o.Desc.Dev {
			w.absent = true
			return name, w, true
		}
		w.dir, w.mask = c, ignored
	}
	return name, w, true
}

func (o *OracleIn) checkNode(w want, d *Node, e *core.Entry, isRoot bool, wantIgn map[IgnKey]ignore.IgnoreCacheValue) string {
	at := func(format string, a ...any) string {
		return "class=kind-table /" + w.path + ": " + fmt.Sprintf(format, a...)
	}
	if d.Kind == 'F' && isRoot {
		// file root
		if c := o.Res.Cache.Entries[""]; e.Kind != core.EntryKind_File || !bytes.Equal(e.Digest, o.Digest(d.Content)) || c == nil {
			return at("file root")
		}
		return ""
	}
	// directory
	problem := ""
	if d.Dev != o.Desc.Dev {
		problem = "scan crossed filesystem boundary"
	} else if hit, _ := o.fault("od", w.path); hit && !isRoot {
		problem = "unable to open directory"
	} else if hit, _ := o.fault("rd", w.path); hit {
		problem = "unable to read directory contents"
	}
	if problem != "" {
		if e.Kind != core.EntryKind_Problematic || ProblemClass(e.Problem) != problem {
			return at("want problem %q, got kind %v %q", problem, e.Kind, e.Problem)
		}
		return ""
	}
	wantKind := core.EntryKind_Directory
	if w.mask {
		wantKind = core.EntryKind_PhantomDirectory
	}
	if e.Kind != wantKind {
		return at("directory kind %v, want %v", e.Kind, wantKind)
	}
	seen := map[string]bool{}
	for _, c := range d.Children {
		name, cw, listed := o.expect(d, w.path, c.Name, c.Node, w.mask, wantIgn)
		if !listed {
			continue
		}
		if cw.absent {
			if _, ok := e.Contents[name]; ok && !seen[name] {
				return at("%q present though it vanished", name)
			}
			continue
		}
		seen[name] = true
		ce := e.Contents[name]
		if ce == nil {
			return at("%q missing", name)
		}
		if cw.dir != nil {
			if m := o.checkNode(cw, cw.dir, ce, false, wantIgn); m != "" {
				return m
			}
			continue
		}
		if ce.Kind != cw.kind {
			return at("%q kind %v, want %v", name, ce.Kind, cw.kind)
		}
		switch cw.kind {
		case core.EntryKind_Problematic:
			if ProblemClass(ce.Problem) != cw.problem {
				return at("%q problem %q, want %q", name, ce.Problem, cw.problem)
			}
		case core.EntryKind_File:
			if !bytes.Equal(ce.Digest, cw.digest) || ce.Executable != cw.exec {
				return at("%q digest/executability", name)
			}
			n := c.Node
			cc := o.Res.Cache.Entries[cw.path]
			if cc == nil || cc.Mode != uint32(syscall.S_IFREG)|n.Perm || cc.Size != n.Size || cc.FileID != n.Ino ||
				cc.ModificationTime.GetSeconds() != n.Sec || int64(cc.ModificationTime.GetNanos()) != n.Nsec || !bytes.Equal(cc.Digest, cw.digest) {
				return "class=cache-mismatch /" + cw.path
			}
		case core.EntryKind_SymbolicLink:
			if ce.Target != cw.target {
				return at("%q target %q, want %q", name, ce.Target, cw.target)
			}
		}
	}
	for n := range e.Contents {
		if !seen[n] {
			return at("%q in the snapshot but not on disk", n)
		}
	}
	return ""
}
