package scanx

// Generators for the scan streams: trees, ignorers, faults, edits.

import (
	"hash/fnv"
	"strings"
	"syscall"
	"unicode/utf8"

	"golang.org/x/text/unicode/norm"

	"github.com/mutagen-io/mutagen/pkg/filesystem"
	"github.com/mutagen-io/mutagen/pkg/synchronization/core/ignore"
	dockerignore "github.com/mutagen-io/mutagen/pkg/synchronization/core/ignore/docker"
	mutagenignore "github.com/mutagen-io/mutagen/pkg/synchronization/core/ignore/mutagen"

	"verif/harness/hx"
)

var plainNames = []string{"a", "b", "c", "d", "e", "f", "x1", "y.txt", "z.go", "Makefile", "sub", "dir", "build", "keep", ".git", "node_modules"}
var unicodeNames = []string{"\u00e9", "e\u0301", "名前", "x y", "-dash", "u\u0308", "\u00fc.txt", "a,b", "(p)"}
var temporaryNames = []string{filesystem.TemporaryNamePrefix + "abc", filesystem.TemporaryNamePrefix, filesystem.TemporaryNamePrefix + "cross-device-rename1"}
var nearTemporaryNames = []string{".mutagen-temporar", ".mutagen-temporaryX", "x" + filesystem.TemporaryNamePrefix, ".mutagen"}
var badNames = []string{"\xff", "a\xfe", "\xc0\xaf", "\xed\xa0\x80", "\xf4\x90\x80\x80", "b\xe2\x82", "\x80\x80x", "\xfe\xff", "\xe9t\xe9", "ok\xf0\x9f\x98"}

var permPool = []uint32{0o644, 0o644, 0o644, 0o644, 0o755, 0o755, 0o600, 0o700, 0o444, 0o555, 0o111, 0o100, 0o010, 0o001, 0, 0o4755, 0o2644, 0o1644, 0o666}
var secPool = []int64{1000000000, 1000000001, 1600000000, -1, -86400, 0}
var nsecPool = []int64{0, 1, 500000000, 999999999}
var bigSizes = []int{32767, 32768, 32769, 65536, 70001}

var targetPool = []string{"a", "b", "b/c", "../a", "./a", "..", "../..", "../../x", "../../../../x", "sub/../a", "a/./b/../c",
	"/etc/passwd", "/", "a:b", "C:\\x", "a\\b", "\u00e9", "a b", ".", "dir/x1", strings.Repeat("x", 247), strings.Repeat("y", 248),
	"../" + strings.Repeat("z", 200) + "/../../q"}

var otherTypes = []uint32{syscall.S_IFIFO, syscall.S_IFIFO, syscall.S_IFSOCK, syscall.S_IFCHR, syscall.S_IFBLK}

// GenOpts steers the tree generator.
type GenOpts struct {
	MaxDepth int
	MaxKids  int
	Plain    bool // only plain names, files, directories and links (for edit-heavy streams)
	// SizeMismatch allows files that are bind mounts of procfs/sysfs files.
	SizeMismatch bool
}

// GenFile draws a regular file.
func GenFile(r *hx.Rand) *Node {
	n := &Node{Kind: 'F', Perm: permPool[r.Intn(len(permPool))]}
	switch k := r.Intn(100); {
	case k < 15:
	case k < 75:
		n.Content = r.Bytes(1+r.Intn(40), 0)
	case k < 90:
		n.Content = r.Bytes(100+r.Intn(200), 0)
	case k < 94:
		n.Content = []byte(strings.Repeat(string(rune('a'+r.Intn(26))), bigSizes[r.Intn(len(bigSizes))]))
	default:
		n.Content = r.Bytes(r.Intn(2000), 0)
	}
	if r.Chance(2, 5) {
		n.SetTime, n.Sec, n.Nsec = true, secPool[r.Intn(len(secPool))], nsecPool[r.Intn(len(nsecPool))]
	}
	return n
}

// bindSources are kernel files whose st_size differs from what a read returns
// (procfs: 0, sysfs: one page): scanning them runs into "hashed size mismatch".
var bindSources = []string{"/proc/version", "/sys/devices/system/cpu/online"}

// GenLeaf draws a non-directory node.
func GenLeaf(r *hx.Rand, o GenOpts) *Node {
	if o.SizeMismatch && r.Chance(1, 25) {
		return &Node{Kind: 'F', Perm: 0o444, Bind: bindSources[r.Intn(len(bindSources))]}
	}
	switch k := r.Intn(100); {
	case k < 62:
		return GenFile(r)
	case k < 88 || o.Plain:
		return &Node{Kind: 'L', Target: targetPool[r.Intn(len(targetPool))]}
	default:
		return &Node{Kind: 'O', Typ: otherTypes[r.Intn(len(otherTypes))]}
	}
}

// GenName draws a directory entry name.
func GenName(r *hx.Rand, o GenOpts) string {
	k := r.Intn(100)
	switch {
	case o.Plain || k < 62:
		return plainNames[r.Intn(len(plainNames))]
	case k < 74:
		return unicodeNames[r.Intn(len(unicodeNames))]
	case k < 82:
		return temporaryNames[r.Intn(len(temporaryNames))] + string(rune('0'+r.Intn(3)))
	case k < 87:
		return nearTemporaryNames[r.Intn(len(nearTemporaryNames))]
	default:
		return badNames[r.Intn(len(badNames))]
	}
}

// nameKey identifies names that scan would record under the same entry name
// under either behaviour (collisions make the content map depend on readdir
// order and are kept out of the generated trees; non-UTF-8 names may collide
// with each other, their entries are indistinguishable).
func nameKey(raw string) string {
	if !utf8.ValidString(raw) {
		return "\x00bad:" + raw
	}
	return norm.NFC.String(raw)
}

// GenDir draws a directory.
func GenDir(r *hx.Rand, o GenOpts, depth int) *Node {
	n := &Node{Kind: 'D'}
	kids := r.Intn(o.MaxKids + 1)
	if depth == 0 && kids == 0 && r.Chance(3, 4) {
		kids = 1 + r.Intn(o.MaxKids)
	}
	used := map[string]bool{}
	for i := 0; i < kids; i++ {
		name := GenName(r, o)
		if used[nameKey(name)] {
			continue
		}
		used[nameKey(name)] = true
		var c *Node
		if depth < o.MaxDepth && r.Chance(2, 5) {
			c = GenDir(r, o, depth+1)
		} else {
			c = GenLeaf(r, o)
		}
		n.Children = append(n.Children, &Child{name, c})
	}
	return n
}

// ---------------------------------------------------------------------------

var mutagenPatterns = []string{"a", "b", "*.txt", "sub", "dir/", "/c", "!a", "!sub/x1", "**/d", "build", "!build/keep", "x*", "*", "!*.go",
	".git", "sub/**", "!sub/dir/", "/dir/e", "e", "!/sub", "keep", "\u00e9"}
var dockerPatterns = []string{"a", "sub", "*/b", "**/*.txt", "!sub/a", "!a", "dir", "*", "!*.go", "sub/*", "!sub/d/e", "build", "!build/keep",
	"**/x1", "!dir/sub/x1", "d", "!sub", ".git", "e*"}

// IgnSpec describes the ignorer of a line.
type IgnSpec struct {
	Label      string
	Ignorer    ignore.Ignorer
	ContractOK bool
}

func pick(r *hx.Rand, pool []string) []string {
	n := 1 + r.Intn(4)
	out := make([]string, n)
	for i := range out {
		out[i] = pool[r.Intn(len(pool))]
	}
	return out
}

func hashIgnorer(seed uint64, contract bool) ignore.Ignorer {
	return FuncIgnorer(func(path string, dir bool) (ignore.IgnoreStatus, bool) {
		h := fnv.New64a()
		h.Write([]byte(path))
		if dir {
			h.Write([]byte{1})
		}
		v := (h.Sum64() ^ seed) * 0x9E3779B97F4A7C15
		v ^= v >> 29
		st := ignore.IgnoreStatusNominal
		switch k := v % 100; {
		case k < 55:
		case k < 83:
			st = ignore.IgnoreStatusIgnored
		default:
			st = ignore.IgnoreStatusUnignored
		}
		cont := (v>>8)%2 == 0
		if contract && (!dir || st == ignore.IgnoreStatusUnignored) {
			cont = false
		}
		return st, cont
	})
}

// GenIgnorer draws an ignorer: none, Mutagen syntax, Docker syntax (each
// optionally wrapped by IgnoreVCS), or a pseudo-random function of the path
// (respecting the Ignorer contract, or — for the correspondence only — not).
func GenIgnorer(r *hx.Rand) IgnSpec {
	for {
		var s IgnSpec
		var err error
		s.ContractOK = true
		switch k := r.Intn(100); {
		case k < 15:
			s.Label = "ign:none"
			s.Ignorer, err = mutagenignore.NewIgnorer(nil)
		case k < 45:
			s.Label = "ign:mutagen"
			s.Ignorer, err = mutagenignore.NewIgnorer(pick(r, mutagenPatterns))
		case k < 70:
			s.Label = "ign:docker"
			s.Ignorer, err = dockerignore.NewIgnorer(pick(r, dockerPatterns))
		case k < 92:
			s.Label = "ign:function"
			s.Ignorer = hashIgnorer(r.U64(), true)
		default:
			s.Label = "ign:function-no-contract"
			s.Ignorer, s.ContractOK = hashIgnorer(r.U64(), false), false
		}
		if err != nil {
			continue
		}
		if r.Chance(1, 6) {
			s.Ignorer = ignore.IgnoreVCS(s.Ignorer)
			s.Label += "+vcs"
		}
		return s
	}
}

// GenFaults picks faults on nodes whose raw leaf name occurs once in all the
// given trees (the hook sees leaf names only).
func GenFaults(r *hx.Rand, du bool, num, den int, trees ...*Node) []Fault {
	// leaf name -> set of paths at which it occurs
	where := map[string]map[string]bool{}
	var rec func(n *Node, path string)
	rec = func(n *Node, path string) {
		if n == nil {
			return
		}
		for _, c := range n.Children {
			p := path + "/" + c.Name
			if where[c.Name] == nil {
				where[c.Name] = map[string]bool{}
			}
			where[c.Name][p] = true
			rec(c.Node, p)
		}
	}
	for _, t := range trees {
		rec(t, "")
	}
	var out []Fault
	seen := map[string]bool{}
	for _, t := range trees {
		if t == nil || t.Kind != 'D' {
			continue
		}
		if r.Chance(num, den*8) && !seen["rd|"] {
			seen["rd|"] = true
			out = append(out, Fault{Op: "rd", Path: "", Leaf: ""})
		}
		var walk func(n *Node, path string)
		walk = func(n *Node, path string) {
			for _, c := range n.Children {
				name, ok := EntryName(c.Name, du)
				if !ok || strings.HasPrefix(c.Name, filesystem.TemporaryNamePrefix) {
					continue
				}
				p := Join(path, name)
				if len(where[c.Name]) == 1 {
					var f *Fault
					switch c.Node.Kind {
					case 'F':
						if r.Chance(num, den) {
							f = &Fault{Op: "of"}
						}
					case 'L':
						if r.Chance(num, den) {
							f = &Fault{Op: "rl"}
						}
					case 'D':
						if r.Chance(num, den) {
							f = &Fault{Op: "od"}
							if r.Chance(1, 2) {
								f.Op = "rd"
							}
						}
					}
					if f != nil && !seen[f.Op+"|"+p] {
						seen[f.Op+"|"+p] = true
						f.Path, f.Leaf = p, c.Name
						if f.Op == "rl" {
							f.Leaf = name // scan reads links under the recomposed name
						}
						f.NotExist = f.Op != "rd" && r.Chance(1, 3)
						out = append(out, *f)
					}
				}
				if c.Node.Kind == 'D' {
					walk(c.Node, p)
				}
			}
		}
		walk(t, "")
	}
	return out
}
