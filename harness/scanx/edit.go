package scanx

// Random edits of a materialised tree (C13): every edit is applied to the
// in-memory tree and to the disk with os-level calls, and reports the
// root-relative paths (in entry names) that a watcher would report.

import (
	"os"
	"strings"
	"syscall"

	"github.com/mutagen-io/mutagen/pkg/filesystem"

	"verif/harness/hx"
)

// Editor applies edits.
type Editor struct {
	R        *hx.Rand
	Root     string // disk path of the root directory
	Stage    string // disk directory outside the root (same filesystem)
	Tree     *Node  // intended tree (root directory)
	Du       bool
	Opts     GenOpts
	Protect  map[string]bool // raw leaf names that must keep their place (fault keys)
	Changed  []string        // paths to report for the edits so far
	Stealth  bool            // an edit changed content without changing size/mtime/inode
	Under    bool            // an edit was deliberately under-reported
	Labels   []string
	stageSeq int
}

type ref struct {
	parent *Node
	name   string // raw
	node   *Node
	disk   string // disk path
	path   string // entry path
	valid  bool   // every component valid UTF-8 and not a temporary name
}

func (e *Editor) collect() (all []ref, dirs []ref) {
	dirs = append(dirs, ref{node: e.Tree, disk: e.Root, path: "", valid: true})
	var rec func(d ref)
	rec = func(d ref) {
		for _, c := range d.node.Children {
			name, ok := EntryName(c.Name, e.Du)
			r := ref{parent: d.node, name: c.Name, node: c.Node, disk: d.disk + "/" + c.Name, path: Join(d.path, name),
				valid: d.valid && ok && !strings.HasPrefix(c.Name, filesystem.TemporaryNamePrefix)}
			all = append(all, r)
			if c.Node.Kind == 'D' {
				if r.valid {
					dirs = append(dirs, r)
				}
				rec(r)
			}
		}
	}
	rec(dirs[0])
	return
}

func (e *Editor) protected(n *Node, name string) bool {
	if e.Protect[name] {
		return true
	}
	for _, c := range n.Children {
		if e.protected(c.Node, c.Name) {
			return true
		}
	}
	return false
}

func (e *Editor) freshName(d *Node) (string, bool) {
	for try := 0; try < 8; try++ {
		name := GenName(e.R, e.Opts)
		if e.Protect[name] {
			continue
		}
		clash := false
		for _, c := range d.Children {
			if nameKey(c.Name) == nameKey(name) {
				clash = true
			}
		}
		if !clash {
			return name, true
		}
	}
	return "", false
}

func (e *Editor) report(p string) { e.Changed = append(e.Changed, p) }

func (e *Editor) childPath(d ref, raw string) string {
	name, _ := EntryName(raw, e.Du)
	return Join(d.path, name)
}

func must(err error) {
	if err != nil {
		panic(err)
	}
}

// Apply performs one random edit; it returns false when the drawn edit was
// not applicable.
func (e *Editor) Apply() bool {
	r := e.R
	all, dirs := e.collect()
	var files, valid []ref
	for _, x := range all {
		if x.valid && !e.protected(x.node, x.name) {
			valid = append(valid, x)
			if x.node.Kind == 'F' {
				files = append(files, x)
			}
		}
	}
	pickRef := func(xs []ref) (ref, bool) {
		if len(xs) == 0 {
			return ref{}, false
		}
		return xs[r.Intn(len(xs))], true
	}
	label := func(s string) { e.Labels = append(e.Labels, "edit:"+s) }
	switch k := r.Intn(100); {
	case k < 18: // create
		d := dirs[r.Intn(len(dirs))]
		name, ok := e.freshName(d.node)
		if !ok {
			return false
		}
		var n *Node
		if r.Chance(1, 4) {
			n = GenDir(r, GenOpts{MaxDepth: 1, MaxKids: 3, Plain: e.Opts.Plain}, 0)
		} else {
			n = GenLeaf(r, e.Opts)
		}
		if e.protected(n, name) {
			return false
		}
		must(Materialize(d.disk+"/"+name, n))
		d.node.Set(name, n)
		e.report(e.childPath(d, name))
		label("create")
	case k < 30: // delete
		x, ok := pickRef(valid)
		if !ok {
			return false
		}
		must(os.RemoveAll(x.disk))
		x.parent.Set(x.name, nil)
		e.report(x.path)
		label("delete")
	case k < 42: // rename
		x, ok := pickRef(valid)
		if !ok {
			return false
		}
		d := dirs[r.Intn(len(dirs))]
		if strings.HasPrefix(d.disk+"/", x.disk+"/") {
			return false
		}
		name, ok := e.freshName(d.node)
		if !ok {
			return false
		}
		must(os.Rename(x.disk, d.disk+"/"+name))
		x.parent.Set(x.name, nil)
		d.node.Set(name, x.node)
		e.report(x.path)
		e.report(e.childPath(d, name))
		label("rename")
	case k < 52: // type change in place
		x, ok := pickRef(valid)
		if !ok {
			return false
		}
		var n *Node
		for {
			if r.Chance(1, 3) {
				n = GenDir(r, GenOpts{MaxDepth: 1, MaxKids: 3, Plain: e.Opts.Plain}, 0)
			} else {
				n = GenLeaf(r, e.Opts)
			}
			if n.Kind != x.node.Kind {
				break
			}
		}
		if e.protected(n, x.name) {
			return false
		}
		must(os.RemoveAll(x.disk))
		must(Materialize(x.disk, n))
		x.parent.Set(x.name, n)
		e.report(x.path)
		label("type-change")
	case k < 72: // content change
		x, ok := pickRef(files)
		if !ok {
			return false
		}
		var st syscall.Stat_t
		must(syscall.Lstat(x.disk, &st))
		old := x.node.Content
		switch m := r.Intn(10); {
		case m < 5: // different size
			x.node.Content = r.Bytes(len(old)+1+r.Intn(5), 0)
			must(os.WriteFile(x.disk, x.node.Content, 0))
			label("content:size")
		case m < 8 && len(old) > 0: // same size, modification time moves
			x.node.Content = flip(old, r)
			must(os.WriteFile(x.disk, x.node.Content, 0))
			ts := syscall.Timespec{Sec: st.Mtim.Sec + 1, Nsec: st.Mtim.Nsec}
			must(syscall.UtimesNano(x.disk, []syscall.Timespec{ts, ts}))
			label("content:mtime")
		case len(old) > 0: // same size, same time, same inode: invisible to the cache key
			x.node.Content = flip(old, r)
			must(os.WriteFile(x.disk, x.node.Content, 0))
			must(syscall.UtimesNano(x.disk, []syscall.Timespec{st.Mtim, st.Mtim}))
			e.Stealth = true
			label("content:stealth")
		default:
			return false
		}
		e.report(x.path)
	case k < 80: // chmod
		x, ok := pickRef(files)
		if !ok {
			return false
		}
		x.node.Perm = permPool[r.Intn(len(permPool))]
		must(os.Chmod(x.disk, os.FileMode(x.node.Perm&0o777)|specialBits(x.node.Perm)))
		e.report(x.path)
		label("chmod")
	case k < 85: // touch
		x, ok := pickRef(files)
		if !ok {
			return false
		}
		ts := syscall.Timespec{Sec: secPool[r.Intn(len(secPool))], Nsec: nsecPool[r.Intn(len(nsecPool))]}
		must(syscall.UtimesNano(x.disk, []syscall.Timespec{ts, ts}))
		e.report(x.path)
		label("touch")
	case k < 91: // same content, new inode (write aside + rename over)
		x, ok := pickRef(files)
		if !ok {
			return false
		}
		e.stageSeq++
		tmp := e.Stage + "/r" + itoa(e.stageSeq)
		if len(x.node.Content) > 0 && r.Chance(3, 5) {
			// Different content of the SAME size under the SAME modification time, but a new
			// inode (written aside while the old file still exists, renamed into place, time put
			// back): only the file's identity tells the change. The hypothesis holds (identity
			// changed), so the accelerated scan must re-hash.
			var st syscall.Stat_t
			must(syscall.Lstat(x.disk, &st))
			x.node.Content = flip(x.node.Content, r)
			must(os.WriteFile(tmp, x.node.Content, 0o600))
			must(os.Chmod(tmp, os.FileMode(x.node.Perm&0o777)|specialBits(x.node.Perm)))
			must(os.Rename(tmp, x.disk))
			must(syscall.UtimesNano(x.disk, []syscall.Timespec{st.Mtim, st.Mtim}))
			e.report(x.path)
			label("replace-inode:new-content-same-size-mtime")
			return true
		}
		must(os.WriteFile(tmp, x.node.Content, 0o600))
		must(os.Chmod(tmp, os.FileMode(x.node.Perm&0o777)|specialBits(x.node.Perm)))
		must(os.Rename(tmp, x.disk))
		e.report(x.path)
		label("replace-inode")
	default: // a directory is replaced by another directory renamed into its place; only the parent is reported
		var cands []ref
		for _, x := range valid {
			if x.node.Kind == 'D' {
				cands = append(cands, x)
			}
		}
		x, ok := pickRef(cands)
		if !ok {
			return false
		}
		n := GenDir(r, GenOpts{MaxDepth: 1, MaxKids: 3, Plain: e.Opts.Plain}, 0)
		if len(n.Children) == 0 {
			n.Children = append(n.Children, &Child{"f", GenFile(r)})
		}
		if e.protected(n, x.name) {
			return false
		}
		e.stageSeq++
		tmp := e.Stage + "/d" + itoa(e.stageSeq)
		must(Materialize(tmp, n))
		wasEmpty := len(x.node.Children) == 0
		must(os.RemoveAll(x.disk))
		must(os.Rename(tmp, x.disk))
		x.parent.Set(x.name, n)
		parent := ""
		if i := strings.LastIndexByte(x.path, '/'); i >= 0 {
			parent = x.path[:i]
		}
		e.report(Join(parent, "."+"reported-by-parent")) // any path below the parent marks the parent (only)
		if wasEmpty {
			label("swap-empty-dir")
		} else {
			e.Under = true
			label("swap-nonempty-dir")
		}
	}
	return true
}

func flip(b []byte, r *hx.Rand) []byte {
	c := append([]byte(nil), b...)
	i := r.Intn(len(c))
	c[i] ^= byte(1 + r.Intn(255))
	return c
}

func itoa(i int) string {
	if i == 0 {
		return "0"
	}
	s := ""
	for i > 0 {
		s = string(rune('0'+i%10)) + s
		i /= 10
	}
	return s
}

// StealthBetween reports whether some path holds regular files in both
// descriptions with equal size, modification time and inode but different
// content (the hypothesis of C13 on content changes fails).
func StealthBetween(a, b *Node, du bool) bool {
	fa := map[string]*Node{}
	Walk(a, "", du, func(p string, n *Node) {
		if n.Kind == 'F' {
			fa[p] = n
		}
	})
	bad := false
	Walk(b, "", du, func(p string, n *Node) {
		if o := fa[p]; o != nil && n.Kind == 'F' && o.Size == n.Size && o.Sec == n.Sec && o.Nsec == n.Nsec && o.Ino == n.Ino &&
			string(o.Content) != string(n.Content) {
			bad = true
		}
	})
	return bad
}
