// Package scanx is the shared machinery of the filesystem-scan streams (C12,
// C13): abstract filesystem trees, their materialisation under ./out, the
// independent description walk (os.Lstat / os.Readlink / os.ReadFile only, no
// mutagen code), the text encoding understood by
// lean/Mutagen/Driver/ScanText.lean, the runner around the real core.Scan and
// the canonical rendering of its results.
package scanx

import (
	"context"
	"errors"
	"fmt"
	"hash"
	"hash/fnv"
	"os"
	"path/filepath"
	"sort"
	"strconv"
	"strings"
	"syscall"
	"time"
	"unicode/utf8"

	"golang.org/x/text/unicode/norm"

	"github.com/mutagen-io/mutagen/pkg/filesystem"
	"github.com/mutagen-io/mutagen/pkg/filesystem/behavior"
	"github.com/mutagen-io/mutagen/pkg/synchronization/core"
	"github.com/mutagen-io/mutagen/pkg/synchronization/core/ignore"

	"verif/harness/hx"
)

// Node is one inode of an abstract filesystem tree. The same type is used for
// the tree a generator wants (Ino/Dev unset) and for the description read
// back from disk.
type Node struct {
	Kind     byte // 'D' directory, 'F' file, 'L' symbolic link, 'O' other
	Dev      uint64
	Children []*Child // directories: in readdir order when read back from disk
	Content  []byte
	Perm     uint32 // st_mode & 07777
	Sec      int64
	Nsec     int64
	SetTime  bool // generator: set the modification time explicitly
	Size     uint64
	Ino      uint64
	Target   string
	Typ      uint32 // st_mode & S_IFMT for 'O'
	Mount    bool   // generator: make this directory a tmpfs mount point
	Bind     string // generator: bind-mount this procfs/sysfs file over the (regular) file: its st_size is not what a read returns
}

// Child is a directory entry; Name holds the raw bytes of the name.
type Child struct {
	Name string
	Node *Node
}

// Get returns the child with the given raw name.
func (n *Node) Get(name string) *Node {
	for _, c := range n.Children {
		if c.Name == name {
			return c.Node
		}
	}
	return nil
}

// Set adds, replaces or (v == nil) removes a child.
func (n *Node) Set(name string, v *Node) {
	for i, c := range n.Children {
		if c.Name == name {
			if v == nil {
				n.Children = append(n.Children[:i:i], n.Children[i+1:]...)
			} else {
				c.Node = v
			}
			return
		}
	}
	if v != nil {
		n.Children = append(n.Children, &Child{name, v})
	}
}

// Clone copies a tree.
func (n *Node) Clone() *Node {
	if n == nil {
		return nil
	}
	c := *n
	c.Content = append([]byte(nil), n.Content...)
	c.Children = nil
	for _, k := range n.Children {
		c.Children = append(c.Children, &Child{k.Name, k.Node.Clone()})
	}
	return &c
}

// Materialize creates the tree at path (which must not exist).
func Materialize(path string, n *Node) error {
	switch n.Kind {
	case 'D':
		if err := os.Mkdir(path, 0o755); err != nil {
			return err
		}
		if n.Mount {
			if err := syscall.Mount("tmpfs", path, "tmpfs", 0, "size=4m"); err != nil {
				return fmt.Errorf("mount: %w", err)
			}
			mounts = append(mounts, path)
		}
		for _, c := range n.Children {
			if err := Materialize(path+"/"+c.Name, c.Node); err != nil {
				return err
			}
		}
	case 'F':
		if err := os.WriteFile(path, n.Content, 0o600); err != nil {
			return err
		}
		if n.Bind != "" {
			if err := syscall.Mount(n.Bind, path, "", syscall.MS_BIND, ""); err != nil {
				return fmt.Errorf("bind mount: %w", err)
			}
			mounts = append(mounts, path)
			return nil
		}
		if err := os.Chmod(path, os.FileMode(n.Perm&0o777)|specialBits(n.Perm)); err != nil {
			return err
		}
		if n.SetTime {
			ts := syscall.Timespec{Sec: n.Sec, Nsec: n.Nsec}
			if err := syscall.UtimesNano(path, []syscall.Timespec{ts, ts}); err != nil {
				return err
			}
		}
	case 'L':
		return os.Symlink(n.Target, path)
	case 'O':
		switch n.Typ {
		case syscall.S_IFIFO:
			return syscall.Mkfifo(path, 0o644)
		default:
			return syscall.Mknod(path, n.Typ|0o644, 0x0103) // char device 1,3 when a device is asked for
		}
	default:
		return fmt.Errorf("bad node kind %q", n.Kind)
	}
	return nil
}

// mounts are the tmpfs mount points created by Materialize and not yet removed.
var mounts []string

// Cleanup unmounts what Materialize mounted and removes the tree.
func Cleanup(path string) {
	for i := len(mounts) - 1; i >= 0; i-- {
		syscall.Unmount(mounts[i], syscall.MNT_DETACH)
	}
	mounts = nil
	os.RemoveAll(path)
}

func specialBits(perm uint32) os.FileMode {
	var m os.FileMode
	if perm&0o4000 != 0 {
		m |= os.ModeSetuid
	}
	if perm&0o2000 != 0 {
		m |= os.ModeSetgid
	}
	if perm&0o1000 != 0 {
		m |= os.ModeSticky
	}
	return m
}

// Describe reads the tree at path back with os-level calls only. A missing
// path gives (nil, nil).
func Describe(path string) (*Node, error) {
	var st syscall.Stat_t
	if err := syscall.Lstat(path, &st); err != nil {
		if errors.Is(err, syscall.ENOENT) {
			return nil, nil
		}
		return nil, err
	}
	switch st.Mode & syscall.S_IFMT {
	case syscall.S_IFDIR:
		n := &Node{Kind: 'D', Dev: uint64(st.Dev)}
		f, err := os.Open(path)
		if err != nil {
			return nil, err
		}
		names, err := f.Readdirnames(-1)
		f.Close()
		if err != nil {
			return nil, err
		}
		for _, name := range names {
			c, err := Describe(path + "/" + name)
			if err != nil {
				return nil, err
			}
			if c != nil {
				n.Children = append(n.Children, &Child{name, c})
			}
		}
		return n, nil
	case syscall.S_IFREG:
		data, err := os.ReadFile(path)
		if err != nil {
			return nil, err
		}
		return &Node{Kind: 'F', Content: data, Perm: st.Mode & 0o7777, Sec: int64(st.Mtim.Sec), Nsec: int64(st.Mtim.Nsec),
			Size: uint64(st.Size), Ino: st.Ino}, nil
	case syscall.S_IFLNK:
		t, err := os.Readlink(path)
		if err != nil {
			return nil, err
		}
		return &Node{Kind: 'L', Target: t}, nil
	default:
		return &Node{Kind: 'O', Typ: st.Mode & syscall.S_IFMT}, nil
	}
}

// Enc renders a description in the line protocol.
func Enc(n *Node) string {
	if n == nil {
		return "~"
	}
	var b strings.Builder
	enc(&b, n)
	return b.String()
}

func enc(b *strings.Builder, n *Node) {
	switch n.Kind {
	case 'D':
		fmt.Fprintf(b, "D%d(", n.Dev)
		for i, c := range n.Children {
			if i > 0 {
				b.WriteByte(',')
			}
			fmt.Fprintf(b, "%x:", c.Name)
			enc(b, c.Node)
		}
		b.WriteByte(')')
	case 'F':
		fmt.Fprintf(b, "F%o.%d.%d.%d.%d.", n.Perm, n.Sec, n.Nsec, n.Size, n.Ino)
		uniform := len(n.Content) > 64
		for _, c := range n.Content {
			if c != n.Content[0] {
				uniform = false
				break
			}
		}
		if uniform {
			fmt.Fprintf(b, "*%d*%02x", len(n.Content), n.Content[0])
		} else {
			fmt.Fprintf(b, "%x", n.Content)
		}
	case 'L':
		b.WriteByte('L')
		b.WriteString(hx.EncText(n.Target))
	case 'O':
		fmt.Fprintf(b, "O%d", n.Typ)
	}
}

// EntryName is the name under which scan records a directory entry: ok=false
// for temporary names (skipped); utf8ok=false for the escaped form.
func EntryName(raw string, decomposes bool) (name string, utf8ok bool) {
	if !utf8.ValidString(raw) {
		return strings.ToValidUTF8(raw, "�") + " (non-UTF-8)", false
	}
	if decomposes {
		return norm.NFC.String(raw), true
	}
	return raw, true
}

// Join joins a root-relative path and a name.
func Join(path, name string) string {
	if path == "" {
		return name
	}
	return path + "/" + name
}

// Walk visits every node whose name chain is valid UTF-8 with its
// root-relative path (names NFC-recomposed when decomposes is set), parents
// first. Temporary-prefixed names are included.
func Walk(n *Node, path string, decomposes bool, visit func(path string, n *Node)) {
	if n == nil {
		return
	}
	visit(path, n)
	if n.Kind != 'D' {
		return
	}
	for _, c := range n.Children {
		name, ok := EntryName(c.Name, decomposes)
		if !ok {
			continue
		}
		Walk(c.Node, Join(path, name), decomposes, visit)
	}
}

// ---------------------------------------------------------------------------
// Ignorers

// FuncIgnorer adapts a function to ignore.Ignorer.
type FuncIgnorer func(path string, directory bool) (ignore.IgnoreStatus, bool)

// Ignore implements ignore.Ignorer.
func (f FuncIgnorer) Ignore(path string, directory bool) (ignore.IgnoreStatus, bool) {
	return f(path, directory)
}

// IgnKey is a key of an ignorer table.
type IgnKey struct {
	Path string
	Dir  bool
}

// IgnTable tabulates an ignorer on every (path, directory?) pair of the given
// trees.
func IgnTable(ig ignore.Ignorer, decomposes []bool, trees ...*Node) map[IgnKey]ignore.IgnoreCacheValue {
	t := map[IgnKey]ignore.IgnoreCacheValue{}
	for _, tree := range trees {
		for _, du := range decomposes {
			Walk(tree, "", du, func(p string, _ *Node) {
				if p == "" {
					return
				}
				for _, d := range []bool{false, true} {
					st, cont := ig.Ignore(p, d)
					t[IgnKey{p, d}] = ignore.IgnoreCacheValue{Status: st, ContinueTraversal: cont}
				}
			})
		}
	}
	return t
}

func encIgnVal(v ignore.IgnoreCacheValue) string {
	s := "n"
	switch v.Status {
	case ignore.IgnoreStatusIgnored:
		s = "i"
	case ignore.IgnoreStatusUnignored:
		s = "u"
	}
	if v.ContinueTraversal {
		return s + "1"
	}
	return s + "0"
}

func encList(items []string) string {
	if len(items) == 0 {
		return "-"
	}
	sort.Strings(items)
	return strings.Join(items, ";")
}

// EncIgnTable renders an ignorer table (default answers omitted).
func EncIgnTable(t map[IgnKey]ignore.IgnoreCacheValue) string {
	var items []string
	for k, v := range t {
		if v.Status == ignore.IgnoreStatusNominal && !v.ContinueTraversal {
			continue
		}
		d := "f"
		if k.Dir {
			d = "d"
		}
		items = append(items, hx.EncText(k.Path)+"|"+d+"|"+encIgnVal(v))
	}
	return encList(items)
}

// EncNfcTable renders the NFC recomposition of every name in the trees that
// changes under NFC.
func EncNfcTable(trees ...*Node) string {
	seen := map[string]bool{}
	var items []string
	var rec func(n *Node)
	rec = func(n *Node) {
		if n == nil {
			return
		}
		for _, c := range n.Children {
			if utf8.ValidString(c.Name) {
				if r := norm.NFC.String(c.Name); r != c.Name && !seen[c.Name] {
					seen[c.Name] = true
					items = append(items, hx.EncText(c.Name)+">"+hx.EncText(r))
				}
			}
			rec(c.Node)
		}
	}
	for _, t := range trees {
		rec(t)
	}
	return encList(items)
}

// ---------------------------------------------------------------------------
// Faults

// Fault is an injected failure of one primitive on one path.
type Fault struct {
	Op       string // "of" OpenFile, "od" OpenDirectory, "rd" ReadContents, "rl" ReadSymbolicLink
	Path     string // root-relative path (entry names)
	Leaf     string // raw leaf name the hook sees ("" for the root)
	NotExist bool
}

// EncFaults renders the fault list.
func EncFaults(fs []Fault) string {
	var items []string
	for _, f := range fs {
		k := "e"
		if f.NotExist {
			k = "n"
		}
		items = append(items, f.Op+"|"+hx.EncText(f.Path)+"|"+k)
	}
	return encList(items)
}

var errInjected = errors.New("injected fault")

// InstallFaults installs the fault hook for the given faults; the returned
// function removes it. ReadContents is keyed by the most recently opened
// directory name (the scan opens a directory and lists it immediately).
func InstallFaults(fs []Fault) func() {
	if len(fs) == 0 {
		return func() {}
	}
	lastDir := ""
	opName := map[string]string{"openfile": "of", "opendir": "od", "readdir": "rd", "readlink": "rl"}
	filesystem.VerifSetFaultHook(func(operation, name string) error {
		op, ok := opName[operation]
		if !ok {
			return nil
		}
		if op == "od" {
			lastDir = name
		}
		if op == "rd" {
			name = lastDir
		}
		for _, f := range fs {
			if f.Op == op && f.Leaf == name {
				if f.NotExist {
					return os.ErrNotExist
				}
				return errInjected
			}
		}
		return nil
	})
	return func() { filesystem.VerifSetFaultHook(nil) }
}

// ---------------------------------------------------------------------------
// Running the real scan

// Cfg is the configuration of one line.
type Cfg struct {
	SymlinkMode core.SymbolicLinkMode
	PermsMode   core.PermissionsMode
	Ignorer     ignore.Ignorer
	Faults      []Fault
	NewHash     func() hash.Hash // nil: FNV-1a 64
}

// SlChar / PmChar render the modes.
func (c *Cfg) SlChar() string {
	switch c.SymlinkMode {
	case core.SymbolicLinkMode_SymbolicLinkModeIgnore:
		return "i"
	case core.SymbolicLinkMode_SymbolicLinkModePortable:
		return "p"
	}
	return "r"
}

func (c *Cfg) PmChar() string {
	if c.PermsMode == core.PermissionsMode_PermissionsModePortable {
		return "p"
	}
	return "m"
}

// Result is what one core.Scan returned.
type Result struct {
	Snapshot    *core.Snapshot
	Cache       *core.Cache
	IgnoreCache ignore.IgnoreCache
	Err         error
	Panic       string
}

// OK reports whether the scan returned a snapshot.
func (r *Result) OK() bool { return r != nil && r.Err == nil && r.Panic == "" }

// Prev are the acceleration arguments.
type Prev struct {
	Baseline    *core.Snapshot
	Recheck     []string
	Cache       *core.Cache
	IgnoreCache ignore.IgnoreCache
}

// RootDevice returns the device Scan will see for the root (its own device
// for a directory or file root).
func RootDevice(root string) uint64 {
	var st syscall.Stat_t
	if err := syscall.Lstat(root, &st); err != nil {
		return 0
	}
	return uint64(st.Dev)
}

// Hung is set when a scan did not return within the watchdog period (a
// non-terminating loop in the code under test); drivers stop generating then.
var Hung bool

// Scan runs the real core.Scan with the given probed behaviours, under a
// watchdog: a scan that does not return within 60 s is reported as a panic
// ("hang") and abandoned.
func Scan(root string, cfg *Cfg, px, du bool, prev *Prev) *Result {
	if Hung {
		return &Result{Panic: "hang (earlier scan never returned)"}
	}
	done := make(chan *Result, 1)
	go func() { done <- scan(root, cfg, px, du, prev) }()
	select {
	case r := <-done:
		return r
	case <-time.After(60 * time.Second):
		Hung = true
		return &Result{Panic: "hang: core.Scan did not return within 60 s"}
	}
}

func scan(root string, cfg *Cfg, px, du bool, prev *Prev) (res *Result) {
	dev := RootDevice(root)
	core.VerifC12SetBehavior(dev, px, du)
	defer core.VerifC12ClearBehavior(dev)
	remove := InstallFaults(cfg.Faults)
	defer remove()
	res = &Result{}
	defer func() {
		if r := recover(); r != nil {
			res.Panic = fmt.Sprint(r)
		}
	}()
	var h hash.Hash
	if cfg.NewHash != nil {
		h = cfg.NewHash()
	} else {
		h = fnv.New64a()
	}
	var baseline *core.Snapshot
	var recheck map[string]bool
	var cache *core.Cache
	var ignoreCache ignore.IgnoreCache
	if prev != nil {
		baseline, cache, ignoreCache = prev.Baseline, prev.Cache, prev.IgnoreCache
		if len(prev.Recheck) > 0 {
			recheck = map[string]bool{}
			for _, p := range prev.Recheck {
				recheck[p] = true
			}
		}
	}
	res.Snapshot, res.Cache, res.IgnoreCache, res.Err = core.Scan(context.Background(), root, baseline, recheck, h, cache,
		cfg.Ignorer, ignoreCache, behavior.ProbeMode_ProbeModeProbe, cfg.SymlinkMode, cfg.PermsMode)
	return res
}

// ProblemClass cuts a problem text down to its fixed prefix.
func ProblemClass(p string) string {
	if i := strings.Index(p, ": "); i >= 0 {
		return p[:i]
	}
	return p
}

// Canon copies an entry tree with problem texts reduced to their class.
func Canon(e *core.Entry) *core.Entry {
	if e == nil {
		return nil
	}
	c := &core.Entry{Kind: e.Kind, Executable: e.Executable, Digest: e.Digest, Target: e.Target, Problem: ProblemClass(e.Problem)}
	if len(e.Contents) > 0 {
		c.Contents = make(map[string]*core.Entry, len(e.Contents))
		for n, k := range e.Contents {
			c.Contents[n] = Canon(k)
		}
	}
	return c
}

func b01(b bool) string {
	if b {
		return "1"
	}
	return "0"
}

// EncCache renders a digest cache canonically.
func EncCache(c *core.Cache) string {
	var items []string
	if c != nil {
		for p, e := range c.Entries {
			items = append(items, fmt.Sprintf("%s|%o|%d|%d|%d|%d|%s", hx.EncText(p), e.Mode, e.ModificationTime.GetSeconds(),
				e.ModificationTime.GetNanos(), e.Size, e.FileID, hx.Hex(e.Digest)))
		}
	}
	return encList(items)
}

// EncIgnoreCache renders an ignore cache canonically.
func EncIgnoreCache(c ignore.IgnoreCache) string {
	var items []string
	for k, v := range c {
		d := "f"
		if k.Directory {
			d = "d"
		}
		items = append(items, hx.EncText(k.Path)+"|"+d+"|"+encIgnVal(v))
	}
	return encList(items)
}

// EncResult renders the outcome of one scan as the model driver prints it.
func EncResult(r *Result) string {
	if r.Panic != "" {
		return "err:panic"
	}
	if r.Err != nil {
		if strings.HasPrefix(r.Err.Error(), "unable to open synchronization root") {
			return "err:open-root"
		}
		return "err:failed"
	}
	s := r.Snapshot
	return fmt.Sprintf("ok %s d=%d f=%d l=%d s=%d x=%s%s cache=%s ign=%s", hx.EncEntry(Canon(s.Content)),
		s.Directories, s.Files, s.SymbolicLinks, s.TotalFileSize, b01(s.PreservesExecutability), b01(s.DecomposesUnicode),
		EncCache(r.Cache), EncIgnoreCache(r.IgnoreCache))
}

// EncRecheck renders a recheck path list.
func EncRecheck(paths []string) string {
	var items []string
	for _, p := range paths {
		items = append(items, hx.EncText(p))
	}
	if len(items) == 0 {
		return "-"
	}
	return strings.Join(items, ";")
}

// Step is one scan of a line.
type Step struct {
	Px, Du   bool
	Recheck  []string
	CacheMod string // "=" baseline+caches, "0" baseline with an empty digest cache, "w" caches only, "c" nothing
	FS       *Node  // description at the time of the scan
}

// EncStep renders a step.
func EncStep(s *Step) string {
	return b01(s.Px) + b01(s.Du) + " " + EncRecheck(s.Recheck) + " " + s.CacheMod + " " + Enc(s.FS)
}

// PrevFor builds the acceleration arguments of a step from the previous
// successful result (nil: none).
func PrevFor(s *Step, last *Result) *Prev {
	if last == nil || !last.OK() {
		return nil
	}
	switch s.CacheMod {
	case "=":
		return &Prev{last.Snapshot, s.Recheck, last.Cache, last.IgnoreCache}
	case "0":
		return &Prev{last.Snapshot, s.Recheck, &core.Cache{}, last.IgnoreCache}
	case "w":
		return &Prev{nil, s.Recheck, last.Cache, last.IgnoreCache}
	}
	return nil
}

// LineHead renders the fields before the steps.
func LineHead(cfg *Cfg, ignTable, nfcTable string) string {
	return cfg.SlChar() + " " + cfg.PmChar() + " " + ignTable + " " + nfcTable + " " + EncFaults(cfg.Faults)
}

// Scratch returns a fresh scratch directory for this run under VERIF_OUT (or
// ./out).
func Scratch(prop string) string {
	base := os.Getenv("VERIF_OUT")
	if base == "" {
		base = "out"
	}
	dir, err := filepath.Abs(filepath.Join(base, "fs-"+prop+"-"+strconv.Itoa(os.Getpid())))
	if err != nil {
		panic(err)
	}
	os.RemoveAll(dir)
	if err := os.MkdirAll(dir, 0o755); err != nil {
		panic(err)
	}
	return dir
}
