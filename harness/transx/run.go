package transx

import (
	"context"
	"crypto/sha1"
	"encoding/hex"
	"errors"
	"fmt"
	"os"
	"path/filepath"
	"sort"
	"strconv"
	"strings"
	"syscall"

	"github.com/mutagen-io/mutagen/pkg/filesystem"
	"github.com/mutagen-io/mutagen/pkg/filesystem/behavior"
	"github.com/mutagen-io/mutagen/pkg/synchronization/core"
	"github.com/mutagen-io/mutagen/pkg/synchronization/core/ignore"
	ignoremutagen "github.com/mutagen-io/mutagen/pkg/synchronization/core/ignore/mutagen"

	"verif/harness/hx"
)

// Cfg is the configuration of a transition.
type Cfg struct {
	SL           byte // 'p' portable, 'i' ignore, 'r' POSIX raw
	FileMode     uint32
	DirMode      uint32
	RootName     string
	PreCancelled bool
}

func (c Cfg) slMode() core.SymbolicLinkMode {
	switch c.SL {
	case 'i':
		return core.SymbolicLinkMode_SymbolicLinkModeIgnore
	case 'p':
		return core.SymbolicLinkMode_SymbolicLinkModePortable
	}
	return core.SymbolicLinkMode_SymbolicLinkModePOSIXRaw
}

// Enc renders the configuration field.
func (c Cfg) Enc() string {
	pc := "0"
	if c.PreCancelled {
		pc = "1"
	}
	return string(c.SL) + ":" + strconv.FormatUint(uint64(c.FileMode), 8) + ":" + strconv.FormatUint(uint64(c.DirMode), 8) +
		":" + hx.EncText(c.RootName) + ":" + pc
}

// DecCfg parses the configuration field.
func DecCfg(s string) (Cfg, error) {
	p := strings.Split(s, ":")
	if len(p) != 5 || len(p[0]) != 1 {
		return Cfg{}, fmt.Errorf("bad cfg %q", s)
	}
	fm, err1 := strconv.ParseUint(p[1], 8, 32)
	dm, err2 := strconv.ParseUint(p[2], 8, 32)
	root, err3 := hx.DecText(p[3])
	if err1 != nil || err2 != nil || err3 != nil {
		return Cfg{}, fmt.Errorf("bad cfg %q", s)
	}
	return Cfg{SL: p[0][0], FileMode: uint32(fm), DirMode: uint32(dm), RootName: root, PreCancelled: p[4] == "1"}, nil
}

// Fault is one entry of the fault oracle: the K-th call (from 0) of
// (Op, Name) fails ('f'), returns EXDEV ('x') or cancels the context ('c').
type Fault struct {
	Op   string
	Name string
	K    int
	Act  byte
}

// EncFaults renders the fault field.
func EncFaults(fs []Fault) string {
	if len(fs) == 0 {
		return "-"
	}
	items := make([]string, len(fs))
	for i, f := range fs {
		items[i] = f.Op + ":" + hx.EncText(f.Name) + ":" + strconv.Itoa(f.K) + ":" + string(f.Act)
	}
	return strings.Join(items, ",")
}

// DecFaults parses the fault field.
func DecFaults(s string) ([]Fault, error) {
	if s == "-" {
		return nil, nil
	}
	var out []Fault
	for _, item := range strings.Split(s, ",") {
		p := strings.Split(item, ":")
		if len(p) != 4 || len(p[3]) != 1 {
			return nil, fmt.Errorf("bad fault %q", item)
		}
		name, err := hx.DecText(p[1])
		if err != nil {
			return nil, err
		}
		k, err := strconv.Atoi(p[2])
		if err != nil {
			return nil, err
		}
		out = append(out, Fault{Op: p[0], Name: name, K: k, Act: p[3][0]})
	}
	return out, nil
}

// Event is one observed call: a hooked filesystem operation or a Provide call.
type Event struct {
	Op   string
	Name string
	// Aux: for a "provide" event, whether a regular file exists at the path
	// the provider returned.
	Aux bool
}

var errInjected = errors.New("injected fault")

// Tracer is the fault hook: it logs every call, applies the fault list and
// can cancel the transition's context.
type Tracer struct {
	Faults []Fault
	Canon  *Canon
	Cancel context.CancelFunc
	Events []Event
	counts map[string]int
}

func (t *Tracer) hook(op, name string) error {
	name = t.Canon.TmpName(name)
	if t.counts == nil {
		t.counts = map[string]int{}
	}
	key := op + "\x00" + name
	k := t.counts[key]
	t.counts[key] = k + 1
	t.Events = append(t.Events, Event{Op: op, Name: name})
	for _, f := range t.Faults {
		if f.Op == op && f.Name == name && f.K == k {
			switch f.Act {
			case 'f':
				return errInjected
			case 'x':
				return syscall.EXDEV
			case 'c':
				t.Cancel()
				return nil
			}
		}
	}
	return nil
}

// FaultPoints lists the distinct (op, name, occurrence) points of a trace.
func FaultPoints(events []Event) []Fault {
	counts := map[string]int{}
	var out []Fault
	for _, e := range events {
		if e.Op == "provide" {
			continue
		}
		key := e.Op + "\x00" + e.Name
		out = append(out, Fault{Op: e.Op, Name: e.Name, K: counts[key]})
		counts[key]++
	}
	return out
}

// StagedProvider is a core.Provider whose staging paths can be inspected.
type StagedProvider interface {
	core.Provider
}

// MapProvider is a core.Provider backed by a plain directory: the staged file
// for (path, digest) is Dir/<digest hex>-<sha1(path) prefix>.
type MapProvider struct {
	Dir  string
	Errs map[string]bool // keys for which Provide fails
}

// Key is the map key of a (path, digest) pair.
func Key(path string, digest []byte) string { return hx.EncPath(path) + "#" + hx.Hex(digest) }

// PathFor is the staging path of a key.
func (p *MapProvider) PathFor(path string, digest []byte) string {
	s := sha1.Sum([]byte(path))
	return filepath.Join(p.Dir, hex.EncodeToString(digest)+"-"+hex.EncodeToString(s[:6]))
}

// Provide implements core.Provider.
func (p *MapProvider) Provide(path string, digest []byte) (string, error) {
	if p.Errs[Key(path, digest)] {
		return "", errors.New("provider failure")
	}
	return p.PathFor(path, digest), nil
}

// tracingProvider logs Provide calls into the tracer.
type tracingProvider struct {
	inner core.Provider
	t     *Tracer
	// rootName is the leaf name the filesystem operations use for the root
	// path "" (the root is operated on through its parent directory).
	rootName string
}

func (p *tracingProvider) Provide(path string, digest []byte) (string, error) {
	sp, err := p.inner.Provide(path, digest)
	exists := false
	if err == nil {
		if fi, lerr := os.Lstat(sp); lerr == nil && fi.Mode().IsRegular() {
			exists = true
		}
	}
	name := Leaf(path)
	if path == "" {
		name = p.rootName
	}
	p.t.Events = append(p.t.Events, Event{Op: "provide", Name: name, Aux: exists})
	return sp, err
}

// Case is a prepared scenario: the real directory exists, the cache is real.
type Case struct {
	Cfg      Cfg
	Root     string // path of the synchronization root (parent directory + Cfg.RootName)
	Cache    *core.Cache
	Plan     []*core.Change
	Provider core.Provider
	Faults   []Fault
	Canon    *Canon
	// Protected lists the paths whose content was changed or added after the
	// scan (C08 oracle); Added is the subset that did not exist at scan time.
	Protected []string
	Added     []string
	// Consistent: the disk agrees with the scan and the plan's old entries
	// (hypothesis of C09).
	Consistent bool
	// HonestStaging: every staged file was produced by a content-addressed
	// store or written by the harness with matching content.
	HonestStaging bool
	// StoreDir is the root of the content-addressed store, when one is used.
	StoreDir string
	// RealXDev: the staging area is on another device than the root, so every
	// rename of an existing staged file into the root really fails with EXDEV.
	RealXDev bool
	// Cleanup removes what the case created outside its scratch directory.
	Cleanup func()
	// release closes the files held open since the tree was materialised (so
	// that the inode numbers of files deleted by edits are not recycled by
	// files created during the transition); Run calls it when it is done.
	release func()
}

func encPaths(ps []string) string {
	if len(ps) == 0 {
		return "-"
	}
	out := make([]string, len(ps))
	for i, p := range ps {
		out[i] = hx.EncPath(p)
	}
	return strings.Join(out, ",")
}

func decPaths(s string) ([]string, error) {
	if s == "-" {
		return nil, nil
	}
	var out []string
	for _, item := range strings.Split(s, ",") {
		p, err := hx.DecPath(item)
		if err != nil {
			return nil, err
		}
		out = append(out, p)
	}
	return out, nil
}

// encMeta renders the ninth field of a case line: what the oracles need to
// know about the history of the case (ignored by the model).
func (c *Case) encMeta() string {
	flags := ""
	if c.Consistent {
		flags += "c"
	}
	if c.HonestStaging {
		flags += "h"
	}
	if flags == "" {
		flags = "-"
	}
	return flags + "|" + encPaths(c.Protected) + "|" + encPaths(c.Added)
}

// Outcome is everything observed in one run.
type Outcome struct {
	Line      string
	Impl      string
	F1, F2    *Node
	Results   []*core.Entry
	Problems  []*core.Problem
	Missing   bool
	ScanAfter *core.Entry
	ScanErr   error
	Events    []Event
}

// stagedKeys lists the (path, digest) pairs the plan may ask the provider for.
func stagedKeys(plan []*core.Change) (paths []string, digests [][]byte) {
	seen := map[string]bool{}
	var rec func(path string, e *core.Entry)
	rec = func(path string, e *core.Entry) {
		if e == nil {
			return
		}
		if e.Kind == core.EntryKind_File {
			k := Key(path, e.Digest)
			if !seen[k] {
				seen[k] = true
				paths = append(paths, path)
				digests = append(digests, e.Digest)
			}
		}
		for _, n := range hx.SortedNames(e) {
			rec(Join(path, n), e.Contents[n])
		}
	}
	for _, c := range plan {
		rec(c.Path, c.New)
	}
	return
}

func classifyMove(m string) string {
	switch {
	case strings.Contains(m, "unable to compute staged file path"):
		return "provide"
	case strings.Contains(m, "unable to set staged file permissions"):
		return "stagedperm"
	case strings.Contains(m, "unable to relocate staged file"):
		return "relocate"
	case strings.Contains(m, "unable to open staged file"):
		return "stagedopen"
	case strings.Contains(m, "unable to create temporary file for cross-device rename"):
		return "mktemp"
	case strings.Contains(m, "unable to set intermediate file permissions"):
		return "tmpperm"
	case strings.Contains(m, "unable to relocate intermediate file"):
		return "tmprelocate"
	case strings.Contains(m, "unable to copy file contents"):
		return "copy"
	case strings.Contains(m, "transition cancelled"):
		return "cancelled"
	}
	return "other"
}

func classifyFileCheck(m string) string {
	switch {
	case strings.Contains(m, "unable to find cache information"):
		return "nocache"
	case strings.Contains(m, "unable to grab file statistics"):
		return "stat"
	case strings.Contains(m, "modification detected"):
		return "modified"
	}
	return ""
}

// Classify maps a problem message of transition.go to its class (the message
// text itself is never compared).
func Classify(m string) string {
	switch {
	case m == "transition cancelled":
		return "cancelled"
	case strings.HasPrefix(m, "unable to walk to transition root parent"):
		return "create-walk"
	case strings.HasPrefix(m, "unable to walk to transition root"):
		return "remove-walk"
	case strings.HasPrefix(m, "unable to swap file: "):
		rest := strings.TrimPrefix(m, "unable to swap file: ")
		switch {
		case strings.HasPrefix(rest, "unable to walk to transition root"):
			return "swap:walk"
		case strings.HasPrefix(rest, "unable to validate existing file"):
			return "swap:" + classifyFileCheck(rest)
		case strings.HasPrefix(rest, "unable to change file permissions"):
			return "swap:chmod"
		}
		return "swap:" + classifyMove(rest)
	case strings.HasPrefix(m, "unable to remove file: "):
		if strings.Contains(m, "unable to validate existing file") {
			return "rmfile:" + classifyFileCheck(m)
		}
		return "rmfile:unlink"
	case strings.HasPrefix(m, "unable to remove symbolic link: "):
		switch {
		case strings.Contains(m, "symbolic link removal requested with symbolic links ignored"):
			return "rmlink:ignored"
		case strings.Contains(m, "unable to read symbolic link target"):
			return "rmlink:readlink"
		case strings.Contains(m, "unable to normalize target"):
			return "rmlink:normalize"
		case strings.Contains(m, "symbolic link target does not match expected"):
			return "rmlink:mismatch"
		}
		return "rmlink:unlink"
	case strings.HasPrefix(m, "unable to open directory"):
		return "rmdir-open"
	case strings.HasPrefix(m, "unable to read directory contents"):
		return "rmdir-read"
	case strings.HasPrefix(m, "unable to remove directory"):
		return "rmdir"
	case m == "unknown content encountered on disk":
		return "unknown-content"
	case m == "unknown entry type found in removal target":
		return "rm-unknown-type"
	case m == "removal requested for unknown entry type":
		return "remove-unknown-type"
	case strings.HasPrefix(m, "unable to create directory"):
		return "mkdir"
	case strings.HasPrefix(m, "unable to set directory permissions"):
		return "chmod-dir"
	case strings.HasPrefix(m, "unable to open new directory"):
		return "opendir-new"
	case strings.HasPrefix(m, "unable to create file: "):
		return "mkfile:" + classifyMove(m)
	case strings.HasPrefix(m, "unable to set symbolic link permissions"):
		return "mklink:perm"
	case strings.HasPrefix(m, "unable to create symbolic link: "):
		switch {
		case strings.Contains(m, "symbolic link creation requested with symbolic links ignored"):
			return "mklink:ignored"
		case strings.Contains(m, "symbolic link was not in normalized form or was not portable"):
			return "mklink:notportable"
		case strings.Contains(m, "unable to set symbolic link permissions"):
			return "mklink:perm"
		}
		return "mklink:symlink"
	case m == "creation requested for unknown entry type":
		return "create-unknown-type"
	}
	return "unclassified"
}

// canonProblems replaces the random names of cross-device temporaries in
// problem paths by their canonical names (a temporary that could not be
// removed can show up later as unknown content).
func canonProblems(ps []*core.Problem, c *Canon) []*core.Problem {
	out := make([]*core.Problem, len(ps))
	for i, p := range ps {
		parts := strings.Split(p.Path, "/")
		for j, n := range parts {
			parts[j] = c.TmpName(n)
		}
		out[i] = &core.Problem{Path: strings.Join(parts, "/"), Error: p.Error}
	}
	return out
}

// EncProblems renders problems by path and class, sorted.
func EncProblems(ps []*core.Problem) string {
	if len(ps) == 0 {
		return "-"
	}
	items := make([]string, len(ps))
	for i, p := range ps {
		items[i] = hx.EncPath(p.Path) + ":" + Classify(p.Error)
	}
	sort.Strings(items)
	return strings.Join(items, ",")
}

// CanonEntry replaces problem texts of a scan result by their class.
func CanonEntry(e *core.Entry) *core.Entry {
	if e == nil {
		return nil
	}
	c := &core.Entry{Kind: e.Kind, Executable: e.Executable, Digest: e.Digest, Target: e.Target, Problem: e.Problem}
	switch {
	case strings.HasPrefix(e.Problem, "invalid symbolic link"):
		c.Problem = "invalid symbolic link"
	}
	if e.Contents != nil {
		c.Contents = make(map[string]*core.Entry, len(e.Contents))
		for n, k := range e.Contents {
			c.Contents[n] = CanonEntry(k)
		}
	}
	return c
}

var noIgnores ignore.Ignorer

func init() {
	ig, err := ignoremutagen.NewIgnorer(nil)
	if err != nil {
		panic(err)
	}
	noIgnores = ig
}

// Scan runs the real core.Scan (cold: no baseline, no caches) on root.
func Scan(root string, sl core.SymbolicLinkMode) (*core.Snapshot, *core.Cache, error) {
	snap, cache, _, err := core.Scan(context.Background(), root, nil, nil, sha1.New(), nil, noIgnores, nil,
		behavior.ProbeMode_ProbeModeProbe, sl, core.PermissionsMode_PermissionsModePortable)
	return snap, cache, err
}

// EncCache renders a real cache canonically (paths sorted).
func EncCache(cache *core.Cache, c *Canon) string {
	if cache == nil || len(cache.Entries) == 0 {
		return "-"
	}
	paths := make([]string, 0, len(cache.Entries))
	for p := range cache.Entries {
		paths = append(paths, p)
	}
	sort.Strings(paths)
	items := make([]string, len(paths))
	for i, p := range paths {
		e := cache.Entries[p]
		t := e.ModificationTime.AsTime()
		items[i] = hx.EncPath(p) + ">" + strconv.FormatUint(uint64(e.Mode), 8) + "/" +
			strconv.Itoa(CanonTime(t.Unix(), int64(t.Nanosecond()))) + "/" + strconv.FormatUint(e.Size, 10) + "/" +
			strconv.Itoa(c.Learn(e.FileID)) + "/" + hx.Hex(e.Digest)
	}
	return strings.Join(items, ";")
}

func fileNodes(n *Node, out *[]*Node) {
	n.Walk("", func(_ string, k *Node) {
		if k.Kind == 'f' {
			*out = append(*out, k)
		}
	})
}

// holdOpen opens every regular file below the paths so that inode numbers are
// not recycled while the scenario runs.
func holdOpen(paths ...string) func() {
	var files []*os.File
	for _, p := range paths {
		filepath.Walk(p, func(path string, info os.FileInfo, err error) error {
			if err == nil && info.Mode().IsRegular() {
				if f, err := os.Open(path); err == nil {
					files = append(files, f)
				}
			}
			return nil
		})
	}
	return func() {
		for _, f := range files {
			f.Close()
		}
	}
}

// Run executes the real core.Transition on a prepared case and assembles the
// case line and the canonical answer.
func Run(c *Case) (*Outcome, error) {
	o := &Outcome{}
	var err error
	// The tree at transition time, read back independently.
	if o.F1, err = ReadTree(c.Root, c.Canon, true); err != nil {
		return nil, err
	}
	// Staged files before the run.
	tracer := &Tracer{Faults: c.Faults, Canon: c.Canon}
	paths, digests := stagedKeys(c.Plan)
	stagedPath := make([]string, len(paths))
	var stagedItems []string
	var stagedFiles []*Node
	var holdPaths []string
	holdPaths = append(holdPaths, c.Root)
	for i := range paths {
		p, perr := c.Provider.Provide(paths[i], digests[i])
		if perr != nil {
			stagedItems = append(stagedItems, Key(paths[i], digests[i])+"=!")
			continue
		}
		stagedPath[i] = p
		n, err := ReadTree(p, c.Canon, true)
		if err != nil {
			return nil, err
		}
		if n != nil && n.Kind == 'f' {
			stagedItems = append(stagedItems, Key(paths[i], digests[i])+"="+fileBody(n.Perm, n.Mtime, n.Ino, n.Data))
			stagedFiles = append(stagedFiles, n)
			holdPaths = append(holdPaths, p)
		}
	}
	cacheField := EncCache(c.Cache, c.Canon)
	release := holdOpen(holdPaths...)
	defer release()
	if c.release != nil {
		defer c.release()
	}

	// Run the real transition under the fault hook.
	ctx, cancel := context.WithCancel(context.Background())
	defer cancel()
	if c.Cfg.PreCancelled {
		cancel()
	}
	tracer.Cancel = cancel
	filesystem.VerifSetFaultHook(tracer.hook)
	o.Results, o.Problems, o.Missing = core.Transition(ctx, c.Root, c.Plan, c.Cache, c.Cfg.slMode(),
		filesystem.Mode(c.Cfg.FileMode), filesystem.Mode(c.Cfg.DirMode), nil, false, &tracingProvider{c.Provider, tracer, c.Cfg.RootName})
	filesystem.VerifSetFaultHook(nil)
	o.Events = tracer.Events
	// With the staging area on another device, the first rename of every
	// existing staged file returned EXDEV by itself: tell the model.
	lineFaults := c.Faults
	if c.RealXDev {
		counts := map[string]int{}
		for j, e := range o.Events {
			if e.Op == "provide" {
				continue
			}
			key := e.Op + "\x00" + e.Name
			k := counts[key]
			counts[key] = k + 1
			if e.Op != "rename" || j == 0 {
				continue
			}
			prev := o.Events[j-1]
			if prev.Op != "provide" || prev.Name != e.Name || !prev.Aux {
				continue
			}
			injected := false
			for _, f := range c.Faults {
				if f.Op == "rename" && f.Name == e.Name && f.K == k {
					injected = true
				}
			}
			if !injected {
				lineFaults = append(append([]Fault{}, lineFaults...), Fault{Op: "rename", Name: e.Name, K: k, Act: 'x'})
			}
		}
	}

	// The tree afterwards, the remaining staged files, a fresh scan.
	if o.F2, err = ReadTree(c.Root, c.Canon, false); err != nil {
		return nil, err
	}
	var remaining []string
	for i := range paths {
		if stagedPath[i] == "" {
			continue
		}
		if fi, err := os.Lstat(stagedPath[i]); err == nil && fi.Mode().IsRegular() {
			remaining = append(remaining, Key(paths[i], digests[i]))
		}
	}
	sort.Strings(remaining)
	scanField := "err"
	// A FIFO or link at the root makes the scan fail (or block): skip it.
	if o.F2 == nil || o.F2.Kind == 'd' || o.F2.Kind == 'f' {
		snap, _, serr := Scan(c.Root, c.Cfg.slMode())
		o.ScanErr = serr
		if serr == nil {
			o.ScanAfter = snap.Content
			scanField = hx.EncEntry(CanonEntry(snap.Content))
		}
	} else {
		o.ScanErr = errors.New("root is not a directory or file")
	}

	// Observed sibling order: names in order of first appearance; names that
	// produced a problem without any call come first (they were processed), the
	// others are left to the model's default order.
	seen := map[string]bool{}
	var order []string
	for _, e := range o.Events {
		if e.Name == "" || strings.HasPrefix(e.Name, TmpPattern) || seen[e.Name] {
			continue
		}
		seen[e.Name] = true
		order = append(order, e.Name)
	}
	var silent []string
	for _, p := range o.Problems {
		n := c.Canon.TmpName(Leaf(p.Path))
		if p.Path != "" && !seen[n] {
			seen[n] = true
			silent = append(silent, n)
		}
	}
	sort.Strings(silent)
	order = append(silent, order...)
	orderField := "-"
	if len(order) > 0 {
		enc := make([]string, len(order))
		for i, n := range order {
			enc[i] = hx.EncText(n)
		}
		orderField = strings.Join(enc, ",")
	}

	// Hash table of every content that occurs.
	var files []*Node
	if o.F1 != nil {
		fileNodes(o.F1, &files)
	}
	files = append(files, stagedFiles...)
	hseen := map[string]bool{}
	var hitems []string
	for _, f := range files {
		k := EncData(f.Data)
		if !hseen[k] {
			hseen[k] = true
			hitems = append(hitems, k+">"+hx.Hex(Digest(f.Data)))
		}
	}
	sort.Strings(hitems)
	hashField := "-"
	if len(hitems) > 0 {
		hashField = strings.Join(hitems, ",")
	}
	stagedField := "-"
	if len(stagedItems) > 0 {
		stagedField = strings.Join(stagedItems, ";")
	}
	o.Line = strings.Join([]string{c.Cfg.Enc(), cacheField, Enc(o.F1), stagedField, hx.EncChangesOrdered(c.Plan),
		EncFaults(lineFaults), orderField, hashField, c.encMeta()}, " ")

	res := make([]string, len(o.Results))
	for i, r := range o.Results {
		res[i] = hx.EncEntry(r)
	}
	resField := "-"
	if len(res) > 0 {
		resField = strings.Join(res, ";")
	}
	miss := "0"
	if o.Missing {
		miss = "1"
	}
	rem := "-"
	if len(remaining) > 0 {
		rem = strings.Join(remaining, ",")
	}
	o.Impl = "res=" + resField + " prob=" + EncProblems(canonProblems(o.Problems, c.Canon)) + " miss=" + miss + " fs=" + Enc(o.F2) +
		" scan=" + scanField + " staged=" + rem
	return o, nil
}

// SyncView is the synchronizable part of a scan result, written from the
// definition (entry kinds directory, file, symbolic link), not from the code.
func SyncView(e *core.Entry) *core.Entry {
	if e == nil {
		return nil
	}
	switch e.Kind {
	case core.EntryKind_Directory, core.EntryKind_File, core.EntryKind_SymbolicLink:
	default:
		return nil
	}
	c := &core.Entry{Kind: e.Kind, Executable: e.Executable, Digest: e.Digest, Target: e.Target}
	for n, k := range e.Contents {
		if s := SyncView(k); s != nil {
			if c.Contents == nil {
				c.Contents = map[string]*core.Entry{}
			}
			c.Contents[n] = s
		}
	}
	return c
}

// covering returns the index of the first change whose path is path or an
// ancestor of it, and the remainder of the path below it.
func covering(plan []*core.Change, path string) (int, string) {
	for i, ch := range plan {
		if ch.Path == path {
			return i, ""
		}
		if ch.Path == "" {
			return i, path
		}
		if strings.HasPrefix(path, ch.Path+"/") {
			return i, path[len(ch.Path)+1:]
		}
	}
	return -1, ""
}

// planExpects reports whether some transition's old entry has a node at path.
func planExpects(plan []*core.Change, path string) bool {
	for _, ch := range plan {
		if hx.PathIsPrefix(ch.Path, path) {
			rel := strings.TrimPrefix(strings.TrimPrefix(path, ch.Path), "/")
			if hx.Lookup(ch.Old, rel) != nil {
				return true
			}
		}
	}
	return false
}

// OracleC08: every node modified or added after the scan is identical after
// the transition; a directory holding content unknown to the plan is still
// there, reported as such, and a problem was recorded for the transition that
// wanted to remove it.
func OracleC08(c *Case, o *Outcome) string {
	for _, p := range c.Protected {
		n1 := o.F1.Get(p)
		if n1 == nil {
			continue
		}
		n2 := o.F2.Get(p)
		switch n1.Kind {
		case 'd':
			// A directory is protected as such only where the plan expects
			// nothing at all (a plan that expects a directory there may remove
			// it once it is empty; its unknown contents are protected on their own).
			if planExpects(c.Plan, p) {
				continue
			}
			if n2 == nil || n2.Kind != 'd' {
				return fmt.Sprintf("class=destroyed directory %q modified after the scan is gone (%s)", p, Enc(n2))
			}
		default:
			if !Equal(n1, n2) {
				return fmt.Sprintf("class=destroyed %q modified after the scan: before %s after %s", p, Enc(n1), Enc(n2))
			}
		}
	}
	for _, p := range c.Added {
		if o.F1.Get(p) == nil || planExpects(c.Plan, p) {
			continue
		}
		// Every directory above p that a transition wanted to remove.
		dir := p
		for dir != "" {
			if i := strings.LastIndexByte(dir, '/'); i >= 0 {
				dir = dir[:i]
			} else {
				dir = ""
			}
			for i, ch := range c.Plan {
				if !hx.PathIsPrefix(ch.Path, dir) {
					continue
				}
				rel := strings.TrimPrefix(strings.TrimPrefix(dir, ch.Path), "/")
				old := hx.Lookup(ch.Old, rel)
				if old == nil || old.Kind != core.EntryKind_Directory {
					continue
				}
				if ch.New != nil && ch.New.Kind == core.EntryKind_File && ch.Old.Kind == core.EntryKind_File {
					continue
				}
				if i >= len(o.Results) {
					return "class=unknown-child missing result"
				}
				got := hx.Lookup(o.Results[i], rel)
				if got == nil || got.Kind != core.EntryKind_Directory {
					return fmt.Sprintf("class=unknown-child directory %q holds unknown %q but is reported as removed: %s", dir, p, hx.EncEntry(o.Results[i]))
				}
				found := false
				for _, pr := range o.Problems {
					if hx.PathIsPrefix(ch.Path, pr.Path) {
						found = true
					}
				}
				if !found {
					return fmt.Sprintf("class=unknown-child no problem recorded below %q although %q is unknown content", ch.Path, p)
				}
			}
			if dir == "" {
				break
			}
		}
	}
	return ""
}

// OracleC09: a fresh scan agrees with the reported result at every
// transitioned path (hypothesis: the disk agreed with the scan and the plan
// before the transition).
func OracleC09(c *Case, o *Outcome) string {
	if !c.Consistent {
		return ""
	}
	if len(o.Results) != len(c.Plan) {
		return fmt.Sprintf("class=result-count %d results for %d transitions", len(o.Results), len(c.Plan))
	}
	if o.ScanErr != nil {
		// The root is a link (or special): describe it directly.
		if len(c.Plan) == 1 && c.Plan[0].Path == "" && o.F2 != nil && o.F2.Kind == 'l' {
			r := o.Results[0]
			if r == nil || r.Kind != core.EntryKind_SymbolicLink || r.Target != o.F2.Target {
				return fmt.Sprintf("class=result-differs root is link to %q, reported %s", o.F2.Target, hx.EncEntry(r))
			}
			return ""
		}
		return "class=scan-failed " + o.ScanErr.Error()
	}
	for i, ch := range c.Plan {
		got := hx.EncEntry(SyncView(hx.Lookup(o.ScanAfter, ch.Path)))
		want := hx.EncEntry(o.Results[i])
		if got != want {
			// Known deviation (by design of markExecutableForReaders): with a
			// default file mode that grants read permission to nobody, an
			// executable entry is created without any executability bit.
			if c.Cfg.FileMode&0o444 == 0 &&
				hx.EncEntry(stripExec(SyncView(hx.Lookup(o.ScanAfter, ch.Path)))) == hx.EncEntry(stripExec(o.Results[i])) {
				return fmt.Sprintf("class=exec-without-read default file mode %o has no read bit: at %q reported %s, scan sees %s",
					c.Cfg.FileMode, ch.Path, want, got)
			}
			return fmt.Sprintf("class=result-differs at %q reported %s, scan sees %s", ch.Path, want, got)
		}
	}
	return ""
}

func shortData(d []byte) string {
	s := EncData(d)
	if len(s) > 80 {
		s = s[:80] + "…"
	}
	return s
}

// stripExec returns a copy of the entry with every executability flag cleared.
func stripExec(e *core.Entry) *core.Entry {
	if e == nil {
		return nil
	}
	c := &core.Entry{Kind: e.Kind, Digest: e.Digest, Target: e.Target, Problem: e.Problem}
	for n, k := range e.Contents {
		if c.Contents == nil {
			c.Contents = map[string]*core.Entry{}
		}
		c.Contents[n] = stripExec(k)
	}
	return c
}

// OracleC10: every file that is in the root after the transition and was not
// there before (same inode) has the digest the plan names for its path.
func OracleC10(c *Case, o *Outcome) string {
	if o.F2 == nil {
		return ""
	}
	verdict := ""
	o.F2.Walk("", func(p string, n *Node) {
		if verdict != "" || n.Kind != 'f' {
			return
		}
		if old := o.F1.Get(p); old != nil && old.Kind == 'f' && old.Ino == n.Ino && n.Ino != 0 {
			return
		}
		sum := Digest(n.Data)
		if strings.HasPrefix(Leaf(p), TmpPattern) {
			// Left-over intermediate of a failed cross-device rename: must hold
			// content planned for a file of that directory.
			dir := strings.TrimSuffix(strings.TrimSuffix(p, Leaf(p)), "/")
			ok := false
			for _, ch := range c.Plan {
				var rec func(path string, e *core.Entry)
				rec = func(path string, e *core.Entry) {
					if e == nil {
						return
					}
					if e.Kind == core.EntryKind_File && string(e.Digest) == string(sum) {
						d := strings.TrimSuffix(strings.TrimSuffix(path, Leaf(path)), "/")
						if d == dir {
							ok = true
						}
					}
					for name, k := range e.Contents {
						rec(Join(path, name), k)
					}
				}
				rec(ch.Path, ch.New)
			}
			if !ok {
				verdict = fmt.Sprintf("class=wrong-content temporary %q holds unplanned content %s", p, shortData(n.Data))
			}
			return
		}
		i, rel := covering(c.Plan, p)
		var want *core.Entry
		for j := i; j >= 0 && j < len(c.Plan); j++ {
			// Any change covering p may have produced the file (plans with
			// repeated paths).
			if hx.PathIsPrefix(c.Plan[j].Path, p) {
				r := strings.TrimPrefix(strings.TrimPrefix(p, c.Plan[j].Path), "/")
				if e := hx.Lookup(c.Plan[j].New, r); e != nil && e.Kind == core.EntryKind_File && string(e.Digest) == string(sum) {
					want = e
				}
			}
		}
		_ = rel
		if want == nil {
			verdict = fmt.Sprintf("class=wrong-content new file %q has content %s (sha1 %x) that no transition planned", p, shortData(n.Data), sum)
		}
	})
	return verdict
}
