// Package transx is the shared machinery of the transition checks (C08, C09,
// C10): an abstract description of a filesystem tree, its materialisation on
// a real scratch directory, an independent read-back walk (os.Lstat /
// os.Readlink / os.ReadFile — none of mutagen's filesystem code), the
// canonicalisation of inode numbers and modification times, the fault hook
// driver, staged-file providers, and the line protocol shared with the Lean
// model (lean/Mutagen/Driver/TransFS.lean).
package transx

import (
	"bytes"
	"crypto/sha1"
	"encoding/hex"
	"fmt"
	"os"
	"path/filepath"
	"sort"
	"strconv"
	"strings"
	"syscall"
	"time"

	"verif/harness/hx"
)

// Node is an inode of the abstract filesystem.
type Node struct {
	Kind   byte   // 'd' directory, 'f' regular file, 'l' symbolic link, 'o' other (FIFO)
	Perm   uint32 // permission bits (st_mode & 07777), directories and files
	Mtime  int    // canonical modification time of a file: k>0 = baseTime+k seconds, 0 = "not set by the harness"
	Ino    int    // canonical file identity: >0 = known inode, 0 = inode not seen before the transition
	Data   []byte // file content
	Target string // link target
	Kids   map[string]*Node
}

// TmpPattern is crossDeviceRenameTemporaryNamePrefix.
const TmpPattern = ".mutagen-temporary-cross-device-rename"

const baseTime = 1_000_000_000

// RealTime converts a canonical modification time to a wall-clock time.
func RealTime(k int) time.Time { return time.Unix(baseTime+int64(k), 0) }

// CanonTime maps a wall-clock time to its canonical value (0 if it is not one
// of the times the harness sets).
func CanonTime(sec, nsec int64) int {
	if nsec == 0 && sec > baseTime && sec < baseTime+10_000_000 {
		return int(sec - baseTime)
	}
	return 0
}

// Digest is the content hash used throughout (mutagen's default, SHA-1).
func Digest(data []byte) []byte {
	s := sha1.Sum(data)
	return s[:]
}

// Clone copies a tree.
func (n *Node) Clone() *Node {
	if n == nil {
		return nil
	}
	c := *n
	c.Data = append([]byte(nil), n.Data...)
	if n.Kids != nil {
		c.Kids = make(map[string]*Node, len(n.Kids))
		for k, v := range n.Kids {
			c.Kids[k] = v.Clone()
		}
	}
	return &c
}

// Names returns the child names in byte order.
func (n *Node) Names() []string {
	names := make([]string, 0, len(n.Kids))
	for k := range n.Kids {
		names = append(names, k)
	}
	sort.Strings(names)
	return names
}

// Get resolves a '/'-joined path ("" = n itself).
func (n *Node) Get(path string) *Node {
	if path == "" {
		return n
	}
	for _, c := range strings.Split(path, "/") {
		if n == nil || n.Kind != 'd' {
			return nil
		}
		n = n.Kids[c]
	}
	return n
}

// Walk visits every node (parents first, names in byte order).
func (n *Node) Walk(path string, f func(path string, n *Node)) {
	if n == nil {
		return
	}
	f(path, n)
	for _, name := range n.Names() {
		n.Kids[name].Walk(Join(path, name), f)
	}
}

// Join joins a synchronization path and a name.
func Join(path, name string) string {
	if path == "" {
		return name
	}
	return path + "/" + name
}

// Leaf is the last component of a synchronization path.
func Leaf(path string) string {
	if i := strings.LastIndexByte(path, '/'); i >= 0 {
		return path[i+1:]
	}
	return path
}

// Enc renders a tree in the line protocol ("~" for nil).
func Enc(n *Node) string {
	if n == nil {
		return "~"
	}
	var b strings.Builder
	enc(&b, n)
	return b.String()
}

// EncData renders file contents: hex, or "*<n>x<hh>" for n > 64 copies of one
// byte (the large files of the copy-preemption cases).
func EncData(data []byte) string {
	if len(data) > 64 {
		same := true
		for _, b := range data {
			if b != data[0] {
				same = false
				break
			}
		}
		if same {
			return "*" + strconv.Itoa(len(data)) + "x" + hx.Hex(data[:1])
		}
	}
	return hx.Hex(data)
}

func fileBody(perm uint32, mtime, ino int, data []byte) string {
	return strconv.FormatUint(uint64(perm), 8) + "/" + strconv.Itoa(mtime) + "/" + strconv.Itoa(ino) + "/" + EncData(data)
}

func enc(b *strings.Builder, n *Node) {
	switch n.Kind {
	case 'd':
		b.WriteString("d" + strconv.FormatUint(uint64(n.Perm), 8) + "(")
		for i, name := range n.Names() {
			if i > 0 {
				b.WriteByte(',')
			}
			b.WriteString(hx.EncText(name))
			b.WriteByte(':')
			enc(b, n.Kids[name])
		}
		b.WriteByte(')')
	case 'f':
		b.WriteString("f" + fileBody(n.Perm, n.Mtime, n.Ino, n.Data))
	case 'l':
		b.WriteString("l" + hx.EncText(n.Target))
	default:
		b.WriteByte('o')
	}
}

type nodeParser struct {
	s   string
	pos int
}

func (p *nodeParser) peek() byte {
	if p.pos < len(p.s) {
		return p.s[p.pos]
	}
	return 0
}

func (p *nodeParser) span(ok func(c byte) bool) string {
	start := p.pos
	for p.pos < len(p.s) && ok(p.s[p.pos]) {
		p.pos++
	}
	return p.s[start:p.pos]
}

func isOct(c byte) bool   { return c >= '0' && c <= '7' }
func isDigit(c byte) bool { return c >= '0' && c <= '9' }
func isHexDash(c byte) bool {
	return c >= '0' && c <= '9' || c >= 'a' && c <= 'f' || c == '-' || c == '*' || c == 'x'
}
func isText(c byte) bool {
	return c >= 'a' && c <= 'z' || c >= 'A' && c <= 'Z' || c >= '0' && c <= '9' || c == '.' || c == '_' || c == '-' || c == '%'
}

func unhex(s string) ([]byte, error) {
	if s == "-" {
		return nil, nil
	}
	if strings.HasPrefix(s, "*") {
		p := strings.Split(s[1:], "x")
		if len(p) != 2 {
			return nil, fmt.Errorf("bad data %q", s)
		}
		n, err := strconv.Atoi(p[0])
		b, err2 := hex.DecodeString(p[1])
		if err != nil || err2 != nil || len(b) != 1 {
			return nil, fmt.Errorf("bad data %q", s)
		}
		return bytes.Repeat(b, n), nil
	}
	return hex.DecodeString(s)
}

func (p *nodeParser) fileBody() (perm uint32, mtime, ino int, data []byte, err error) {
	v, e := strconv.ParseUint(p.span(isOct), 8, 32)
	if e != nil || p.peek() != '/' {
		return 0, 0, 0, nil, fmt.Errorf("bad file body in %q", p.s)
	}
	p.pos++
	mtime, e = strconv.Atoi(p.span(isDigit))
	if e != nil || p.peek() != '/' {
		return 0, 0, 0, nil, fmt.Errorf("bad file body in %q", p.s)
	}
	p.pos++
	ino, e = strconv.Atoi(p.span(isDigit))
	if e != nil || p.peek() != '/' {
		return 0, 0, 0, nil, fmt.Errorf("bad file body in %q", p.s)
	}
	p.pos++
	data, e = unhex(p.span(isHexDash))
	if e != nil {
		return 0, 0, 0, nil, e
	}
	return uint32(v), mtime, ino, data, nil
}

func (p *nodeParser) node() (*Node, error) {
	k := p.peek()
	p.pos++
	switch k {
	case 'd':
		v, err := strconv.ParseUint(p.span(isOct), 8, 32)
		if err != nil || p.peek() != '(' {
			return nil, fmt.Errorf("bad directory in %q", p.s)
		}
		p.pos++
		n := &Node{Kind: 'd', Perm: uint32(v), Kids: map[string]*Node{}}
		if p.peek() == ')' {
			p.pos++
			return n, nil
		}
		for {
			name, err := hx.DecText(p.span(isText))
			if err != nil || p.peek() != ':' {
				return nil, fmt.Errorf("bad child name in %q", p.s)
			}
			p.pos++
			c, err := p.node()
			if err != nil {
				return nil, err
			}
			n.Kids[name] = c
			if p.peek() == ',' {
				p.pos++
				continue
			}
			if p.peek() == ')' {
				p.pos++
				return n, nil
			}
			return nil, fmt.Errorf("expected ',' or ')' in %q", p.s)
		}
	case 'f':
		perm, mtime, ino, data, err := p.fileBody()
		if err != nil {
			return nil, err
		}
		return &Node{Kind: 'f', Perm: perm, Mtime: mtime, Ino: ino, Data: data}, nil
	case 'l':
		t, err := hx.DecText(p.span(isText))
		if err != nil {
			return nil, err
		}
		return &Node{Kind: 'l', Target: t}, nil
	case 'o':
		return &Node{Kind: 'o'}, nil
	}
	return nil, fmt.Errorf("bad node kind %q in %q", k, p.s)
}

// Dec parses a tree of the line protocol.
func Dec(s string) (*Node, error) {
	if s == "~" {
		return nil, nil
	}
	p := &nodeParser{s: s}
	n, err := p.node()
	if err != nil {
		return nil, err
	}
	if p.pos != len(s) {
		return nil, fmt.Errorf("trailing input in %q", s)
	}
	return n, nil
}

// Canon maps real inode numbers and temporary names to canonical ones.
type Canon struct {
	inoID map[uint64]int
	next  int
	tmp   map[string]string
}

// NewCanon creates an empty table.
func NewCanon() *Canon {
	return &Canon{inoID: map[uint64]int{}, next: 1, tmp: map[string]string{}}
}

// Learn assigns the next identifier to an inode number not seen before.
func (c *Canon) Learn(ino uint64) int {
	if id, ok := c.inoID[ino]; ok {
		return id
	}
	id := c.next
	c.next++
	c.inoID[ino] = id
	return id
}

// Bind fixes the identifier of an inode number (replay of a recorded case).
func (c *Canon) Bind(ino uint64, id int) {
	c.inoID[ino] = id
	if id >= c.next {
		c.next = id + 1
	}
}

// ID returns the identifier of a known inode number, 0 otherwise.
func (c *Canon) ID(ino uint64) int { return c.inoID[ino] }

// TmpName canonicalises the name of a cross-device temporary file: the
// pattern followed by the order of first appearance.
func (c *Canon) TmpName(name string) string {
	if !strings.HasPrefix(name, TmpPattern) || name == TmpPattern {
		return name
	}
	if v, ok := c.tmp[name]; ok {
		return v
	}
	v := TmpPattern + strconv.Itoa(len(c.tmp))
	c.tmp[name] = v
	return v
}

// Materialise creates the tree at path (which must not exist). Inode numbers
// of the description are ignored; modification times and permissions are set
// explicitly.
func Materialise(path string, n *Node) error {
	if n == nil {
		return nil
	}
	switch n.Kind {
	case 'd':
		if err := os.Mkdir(path, 0o700); err != nil {
			return err
		}
		for _, name := range n.Names() {
			if err := Materialise(filepath.Join(path, name), n.Kids[name]); err != nil {
				return err
			}
		}
		return os.Chmod(path, os.FileMode(n.Perm&0o777))
	case 'f':
		if err := os.WriteFile(path, n.Data, 0o600); err != nil {
			return err
		}
		if err := os.Chmod(path, os.FileMode(n.Perm&0o777)); err != nil {
			return err
		}
		if n.Mtime > 0 {
			return os.Chtimes(path, RealTime(n.Mtime), RealTime(n.Mtime))
		}
		return nil
	case 'l':
		return os.Symlink(n.Target, path)
	default:
		return syscall.Mkfifo(path, 0o600)
	}
}

// ReadTree reads the real tree at path with os.Lstat / os.ReadDir /
// os.Readlink / os.ReadFile (nil if nothing is there). With learn, inode
// numbers not seen before receive fresh identifiers; otherwise they read as 0.
func ReadTree(path string, c *Canon, learn bool) (*Node, error) {
	fi, err := os.Lstat(path)
	if err != nil {
		if os.IsNotExist(err) {
			return nil, nil
		}
		return nil, err
	}
	st := fi.Sys().(*syscall.Stat_t)
	switch st.Mode & syscall.S_IFMT {
	case syscall.S_IFDIR:
		n := &Node{Kind: 'd', Perm: st.Mode & 0o7777, Kids: map[string]*Node{}}
		ents, err := os.ReadDir(path)
		if err != nil {
			return nil, err
		}
		for _, e := range ents {
			k, err := ReadTree(filepath.Join(path, e.Name()), c, learn)
			if err != nil {
				return nil, err
			}
			if k != nil {
				n.Kids[c.TmpName(e.Name())] = k
			}
		}
		return n, nil
	case syscall.S_IFREG:
		data, err := os.ReadFile(path)
		if err != nil {
			return nil, err
		}
		n := &Node{Kind: 'f', Perm: st.Mode & 0o7777, Data: data, Mtime: CanonTime(st.Mtim.Sec, st.Mtim.Nsec)}
		if learn {
			n.Ino = c.Learn(st.Ino)
		} else {
			n.Ino = c.ID(st.Ino)
		}
		return n, nil
	case syscall.S_IFLNK:
		t, err := os.Readlink(path)
		if err != nil {
			return nil, err
		}
		return &Node{Kind: 'l', Target: t}, nil
	default:
		return &Node{Kind: 'o'}, nil
	}
}

// Equal compares two trees completely.
func Equal(a, b *Node) bool { return Enc(a) == Enc(b) }
