package transx

import (
	"crypto/sha1"
	"fmt"
	"os"
	"path/filepath"
	"sort"
	"strconv"
	"strings"
	"syscall"
	"time"

	"github.com/mutagen-io/mutagen/pkg/synchronization/core"
	"github.com/mutagen-io/mutagen/pkg/synchronization/endpoint/local/staging"

	"verif/harness/hx"
)

// Edit is one modification applied to the real tree between scan and
// transition.
type Edit struct {
	Kind   string // write touch chmod reinode retarget addfile adddir addfifo addlink delete tofile todir
	Path   string
	Data   []byte
	Perm   uint32
	Mtime  int
	Target string
}

// Scenario is the abstract description from which a Case is built (and
// rebuilt, once per fault point).
type Scenario struct {
	Cfg        Cfg
	F0         *Node
	Edits      []Edit
	Plan       []*core.Change
	Contents   map[string][]byte // digest hex -> data to stage
	Unstaged   map[string]bool   // keys deliberately not staged
	ProvideErr map[string]bool   // keys for which Provide fails (map provider only)
	UseStore   bool              // stage through the real content-addressed store
	Derived    bool              // plan = Diff(scan, target): old entries describe the disk
	Label      string
	// Squats lists the paths at which the plan creates something and an edit
	// puts content first (after the scan).
	Squats []string
	// ShmStaging puts the staging area under /dev/shm (another device): renames
	// into the root are then really cross-device.
	ShmStaging bool
	// StoreMax is the size limit of the store (0: 1 MiB).
	StoreMax uint64
	// Stage, when set, fills the store instead of the default direct sink
	// writes (C10: staging through the rsync receiver with corrupted streams).
	Stage func(st *staging.Stager, root string, paths []string, digests [][]byte) error
}

// Gen holds the generator state: one PRNG and the counters that make leaf
// names, modification times and contents globally unique.
type Gen struct {
	R     *hx.Rand
	name  int
	mtime int
}

var namePrefixes = []string{"n", "f.", "-d", "é", "sp ace", "…", "UP", "x_"}

// FreshName returns a leaf name never used before in this scenario.
func (g *Gen) FreshName() string {
	g.name++
	return namePrefixes[g.R.Intn(len(namePrefixes))] + strconv.Itoa(g.name)
}

// FreshMtime returns a canonical modification time never used before.
func (g *Gen) FreshMtime() int {
	g.mtime++
	return g.mtime
}

var filePerms = []uint32{0o644, 0o600, 0o755, 0o700, 0o664, 0o640}
var linkTargets = []string{"t1", "../x", "a/b", "./c", "t1", "deep/er/target", "/abs", "a:b", "..\\w", "../../../../../up"}

// Data draws a short file content.
func (g *Gen) Data() []byte { return g.R.Bytes(g.R.Intn(7), 3+g.R.Intn(3)*100) }

// File draws a file node.
func (g *Gen) File() *Node {
	return &Node{Kind: 'f', Perm: filePerms[g.R.Intn(len(filePerms))], Mtime: g.FreshMtime(), Data: g.Data()}
}

// Tree draws a node of nesting depth at most depth.
func (g *Gen) Tree(depth int) *Node {
	switch k := g.R.Intn(20); {
	case k < 9:
		return g.File()
	case k < 12:
		return &Node{Kind: 'l', Target: linkTargets[g.R.Intn(len(linkTargets))]}
	case k < 13:
		return &Node{Kind: 'o'}
	}
	return g.Dir(depth)
}

// Dir draws a directory.
func (g *Gen) Dir(depth int) *Node {
	n := &Node{Kind: 'd', Perm: []uint32{0o755, 0o700, 0o750}[g.R.Intn(3)], Kids: map[string]*Node{}}
	if depth <= 0 {
		return n
	}
	k := g.R.Intn(4)
	if g.R.Chance(1, 5) {
		k = 0
	}
	for i := 0; i < k; i++ {
		n.Kids[g.FreshName()] = g.Tree(depth - 1)
	}
	return n
}

// PortableOK re-implements the portability rule for link targets on POSIX
// (used only to predict what a scan reports, for plan generation).
func PortableOK(path, target string) bool {
	if target == "" || len(target) > 247 || strings.ContainsAny(target, ":\\") || target[0] == '/' {
		return false
	}
	depth := strings.Count(path, "/")
	for _, c := range strings.Split(target, "/") {
		switch c {
		case ".":
		case "..":
			depth--
		default:
			depth++
		}
		if depth < 0 {
			return false
		}
	}
	return true
}

// Describe is the synchronizable entry a cold scan of the tree reports.
func Describe(n *Node, path string, sl byte) *core.Entry {
	if n == nil {
		return nil
	}
	switch n.Kind {
	case 'd':
		e := &core.Entry{Kind: core.EntryKind_Directory}
		for name, k := range n.Kids {
			if c := Describe(k, Join(path, name), sl); c != nil {
				if e.Contents == nil {
					e.Contents = map[string]*core.Entry{}
				}
				e.Contents[name] = c
			}
		}
		return e
	case 'f':
		return &core.Entry{Kind: core.EntryKind_File, Executable: n.Perm&0o111 != 0, Digest: Digest(n.Data)}
	case 'l':
		if sl == 'i' || (sl == 'p' && !PortableOK(path, n.Target)) {
			return nil
		}
		return &core.Entry{Kind: core.EntryKind_SymbolicLink, Target: n.Target}
	}
	return nil
}

func copyEntry(e *core.Entry) *core.Entry {
	if e == nil {
		return nil
	}
	return e.Copy(core.EntryCopyBehaviorDeep)
}

// newEntry draws fresh content to create (files are registered for staging).
func (g *Gen) newEntry(sc *Scenario, depth int) *core.Entry {
	switch k := g.R.Intn(10); {
	case k < 5:
		data := g.Data()
		d := Digest(data)
		sc.Contents[hx.Hex(d)] = data
		return &core.Entry{Kind: core.EntryKind_File, Digest: d, Executable: g.R.Chance(1, 4)}
	case k < 7:
		return &core.Entry{Kind: core.EntryKind_SymbolicLink, Target: linkTargets[g.R.Intn(len(linkTargets))]}
	}
	e := &core.Entry{Kind: core.EntryKind_Directory}
	if depth > 0 {
		for i := g.R.Intn(4); i > 0; i-- {
			if e.Contents == nil {
				e.Contents = map[string]*core.Entry{}
			}
			e.Contents[g.FreshName()] = g.newEntry(sc, depth-1)
		}
	}
	return e
}

// mutate returns a modified deep copy of base: the target of the plan.
func (g *Gen) mutate(sc *Scenario, base *core.Entry) *core.Entry {
	t := copyEntry(base)
	for k := 1 + g.R.Intn(4); k > 0; k-- {
		paths := hx.Paths(t)
		if t == nil || len(paths) == 0 {
			t = g.newEntry(sc, 2)
			continue
		}
		p := paths[g.R.Intn(len(paths))]
		cur := hx.Lookup(t, p)
		var v *core.Entry
		switch g.R.Intn(10) {
		case 0, 1: // delete
			if p == "" && !g.R.Chance(1, 6) {
				continue
			}
			v = nil
		case 2, 3, 4: // change a file in place / replace
			if cur.Kind == core.EntryKind_File {
				if g.R.Chance(1, 3) {
					v = &core.Entry{Kind: core.EntryKind_File, Digest: cur.Digest, Executable: !cur.Executable}
				} else {
					data := g.Data()
					d := Digest(data)
					sc.Contents[hx.Hex(d)] = data
					v = &core.Entry{Kind: core.EntryKind_File, Digest: d, Executable: cur.Executable != g.R.Chance(1, 5)}
				}
			} else if cur.Kind == core.EntryKind_SymbolicLink {
				v = &core.Entry{Kind: core.EntryKind_SymbolicLink, Target: cur.Target + "x"}
			} else {
				if p == "" && !g.R.Chance(1, 6) {
					continue
				}
				v = g.newEntry(sc, 2)
			}
		case 5: // replace by fresh content
			if p == "" && !g.R.Chance(1, 6) {
				continue
			}
			v = g.newEntry(sc, 2)
		default: // create a child
			if cur.Kind != core.EntryKind_Directory {
				continue
			}
			p = Join(p, g.FreshName())
			v = g.newEntry(sc, 2)
		}
		t, _ = hx.Set(t, p, v)
	}
	return t
}

func sortPlan(plan []*core.Change) {
	sort.Slice(plan, func(i, j int) bool { return plan[i].Path < plan[j].Path })
}

// weirdEntry draws an entry that need not describe anything on disk.
func (g *Gen) weirdEntry(sc *Scenario, base *core.Entry) *core.Entry {
	switch g.R.Intn(8) {
	case 0:
		return nil
	case 1:
		return &core.Entry{Kind: hx.UnknownKind}
	case 2:
		return &core.Entry{Kind: core.EntryKind_Untracked}
	case 3:
		return &core.Entry{Kind: core.EntryKind_Directory, Contents: map[string]*core.Entry{
			g.FreshName(): {Kind: hx.UnknownKind}, g.FreshName(): g.newEntry(sc, 1)}}
	case 4, 5:
		if base != nil {
			paths := hx.Paths(base)
			return copyEntry(hx.Lookup(base, paths[g.R.Intn(len(paths))]))
		}
	}
	return g.newEntry(sc, 2)
}

// GenScenario draws a scenario. edits: modify the disk after the scan;
// weird: add transitions that do not come from a diff.
func (g *Gen) GenScenario(edits, weird bool) *Scenario {
	sc := &Scenario{Contents: map[string][]byte{}, Unstaged: map[string]bool{}, ProvideErr: map[string]bool{}}
	sc.Cfg = Cfg{SL: "rrrpi"[g.R.Intn(5)], FileMode: []uint32{0o644, 0o600, 0o640}[g.R.Intn(3)],
		DirMode: []uint32{0o755, 0o700}[g.R.Intn(2)], RootName: "root"}
	if g.R.Chance(1, 40) {
		sc.Cfg.FileMode = 0
	}
	if g.R.Chance(1, 40) {
		sc.Cfg.DirMode = 0
	}
	switch k := g.R.Intn(20); {
	case k == 0:
		sc.F0 = nil
	case k == 1:
		sc.F0 = g.File()
	default:
		sc.F0 = g.Dir(3)
		for len(sc.F0.Kids) == 0 && g.R.Chance(4, 5) {
			sc.F0 = g.Dir(3)
		}
	}
	base := Describe(sc.F0, "", sc.Cfg.SL)
	target := g.mutate(sc, base)
	sc.Plan = core.Diff(base, target)
	sortPlan(sc.Plan)
	sc.Derived = true
	if weird {
		sc.Derived = false
		for k := 1 + g.R.Intn(3); k > 0; k-- {
			paths := hx.Paths(base)
			p := ""
			if len(paths) > 0 {
				p = paths[g.R.Intn(len(paths))]
			}
			if g.R.Chance(1, 3) {
				p = Join(p, g.FreshName())
			}
			ch := &core.Change{Path: p, Old: g.weirdEntry(sc, base), New: g.weirdEntry(sc, base)}
			if g.R.Chance(1, 2) {
				ch.Old = copyEntry(hx.Lookup(base, p))
			}
			at := g.R.Intn(len(sc.Plan) + 1)
			sc.Plan = append(sc.Plan[:at], append([]*core.Change{ch}, sc.Plan[at:]...)...)
		}
	}
	sc.UseStore = g.R.Chance(1, 2)
	paths, digests := stagedKeys(sc.Plan)
	for i := range paths {
		k := Key(paths[i], digests[i])
		if g.R.Chance(1, 14) {
			sc.Unstaged[k] = true
		} else if !sc.UseStore && g.R.Chance(1, 25) {
			sc.ProvideErr[k] = true
		}
	}
	if g.R.Chance(1, 60) {
		sc.Cfg.PreCancelled = true
	}
	if edits {
		sc.Edits = g.genEdits(sc.F0)
		// Content appearing, after the scan, exactly where the plan creates something.
		var creations []string
		for _, ch := range sc.Plan {
			if ch.Old == nil && ch.New != nil && ch.Path != "" {
				creations = append(creations, ch.Path)
			}
		}
		if len(creations) > 0 && g.R.Chance(1, 3) {
			p := creations[g.R.Intn(len(creations))]
			kind := []string{"squatfile", "squatfile", "squatdir", "squatlink"}[g.R.Intn(4)]
			sc.Edits = append(sc.Edits, Edit{Kind: kind, Path: p, Data: g.Data(), Mtime: g.FreshMtime(), Perm: 0o644, Target: "zz"})
			sc.Squats = append(sc.Squats, p)
		}
	}
	return sc
}

func (g *Gen) genEdits(f0 *Node) []Edit {
	var out []Edit
	if f0 == nil {
		return nil
	}
	type item struct {
		path string
		n    *Node
	}
	var nodes []item
	f0.Walk("", func(p string, n *Node) { nodes = append(nodes, item{p, n}) })
	for k := 1 + g.R.Intn(4); k > 0; k-- {
		it := nodes[g.R.Intn(len(nodes))]
		switch it.n.Kind {
		case 'f':
			switch g.R.Intn(7) {
			case 0, 1:
				data := append(append([]byte(nil), it.n.Data...), g.R.Bytes(1+g.R.Intn(3), 256)...)
				out = append(out, Edit{Kind: "write", Path: it.path, Data: data, Mtime: g.FreshMtime()})
			case 2:
				out = append(out, Edit{Kind: "touch", Path: it.path, Mtime: g.FreshMtime()})
			case 3:
				perm := filePerms[g.R.Intn(len(filePerms))]
				if perm == it.n.Perm {
					perm ^= 0o011
				}
				out = append(out, Edit{Kind: "chmod", Path: it.path, Perm: perm})
			case 4:
				out = append(out, Edit{Kind: "reinode", Path: it.path})
			case 5:
				if it.path != "" {
					out = append(out, Edit{Kind: "todir", Path: it.path})
				}
			default:
				if it.path != "" {
					out = append(out, Edit{Kind: "delete", Path: it.path})
				}
			}
		case 'l':
			switch g.R.Intn(4) {
			case 0, 1:
				out = append(out, Edit{Kind: "retarget", Path: it.path, Target: "zz" + strconv.Itoa(g.FreshMtime())})
			case 2:
				out = append(out, Edit{Kind: "tofile", Path: it.path, Data: g.Data(), Mtime: g.FreshMtime(), Perm: 0o644})
			default:
				out = append(out, Edit{Kind: "delete", Path: it.path})
			}
		case 'd':
			name := "u" + strconv.Itoa(g.FreshMtime())
			switch g.R.Intn(8) {
			case 0, 1, 2:
				out = append(out, Edit{Kind: "addfile", Path: Join(it.path, name), Data: g.Data(), Mtime: g.FreshMtime(), Perm: 0o644})
			case 3:
				out = append(out, Edit{Kind: "adddir", Path: Join(it.path, name), Data: g.Data(), Mtime: g.FreshMtime(), Perm: 0o600})
			case 4:
				out = append(out, Edit{Kind: "addfifo", Path: Join(it.path, name)})
			case 5:
				out = append(out, Edit{Kind: "addlink", Path: Join(it.path, name), Target: "zz"})
			case 6:
				if it.path != "" {
					out = append(out, Edit{Kind: "tofile", Path: it.path, Data: g.Data(), Mtime: g.FreshMtime(), Perm: 0o600})
				}
			default:
				if it.path != "" {
					out = append(out, Edit{Kind: "delete", Path: it.path})
				}
			}
		default:
			if it.path != "" && g.R.Chance(1, 2) {
				out = append(out, Edit{Kind: "tofile", Path: it.path, Data: g.Data(), Mtime: g.FreshMtime(), Perm: 0o644})
			}
		}
	}
	return out
}

func writeFileAt(path string, data []byte, perm uint32, mtime int) error {
	if err := os.WriteFile(path, data, 0o600); err != nil {
		return err
	}
	if err := os.Chmod(path, os.FileMode(perm&0o777)); err != nil {
		return err
	}
	return os.Chtimes(path, RealTime(mtime), RealTime(mtime))
}

// applyEdit performs one edit on the real tree; it reports the paths whose
// nodes now differ from what the scan saw (protected) and those that are new.
func applyEdit(root string, e Edit) (protected, added []string, err error) {
	full := root
	if e.Path != "" {
		full = filepath.Join(root, filepath.FromSlash(e.Path))
	}
	fi, lerr := os.Lstat(full)
	exists := lerr == nil
	switch e.Kind {
	case "write":
		if !exists || !fi.Mode().IsRegular() {
			return nil, nil, nil
		}
		perm := uint32(fi.Mode().Perm())
		f, err := os.OpenFile(full, os.O_WRONLY|os.O_TRUNC, 0)
		if err != nil {
			return nil, nil, err
		}
		f.Write(e.Data)
		f.Close()
		os.Chmod(full, os.FileMode(perm))
		return []string{e.Path}, nil, os.Chtimes(full, RealTime(e.Mtime), RealTime(e.Mtime))
	case "touch":
		if !exists || !fi.Mode().IsRegular() {
			return nil, nil, nil
		}
		return []string{e.Path}, nil, os.Chtimes(full, RealTime(e.Mtime), RealTime(e.Mtime))
	case "chmod":
		if !exists || !fi.Mode().IsRegular() {
			return nil, nil, nil
		}
		st := fi.Sys().(*syscall.Stat_t)
		if err := os.Chmod(full, os.FileMode(e.Perm)); err != nil {
			return nil, nil, err
		}
		// chmod changes ctime only; keep the modification time exactly.
		return []string{e.Path}, nil, os.Chtimes(full, RealTimeRaw(st.Mtim.Sec, st.Mtim.Nsec), RealTimeRaw(st.Mtim.Sec, st.Mtim.Nsec))
	case "reinode":
		if !exists || !fi.Mode().IsRegular() {
			return nil, nil, nil
		}
		st := fi.Sys().(*syscall.Stat_t)
		data, err := os.ReadFile(full)
		if err != nil {
			return nil, nil, err
		}
		tmp := full + ".reinode"
		if err := os.WriteFile(tmp, data, 0o600); err != nil {
			return nil, nil, err
		}
		os.Chmod(tmp, fi.Mode().Perm())
		os.Chtimes(tmp, RealTimeRaw(st.Mtim.Sec, st.Mtim.Nsec), RealTimeRaw(st.Mtim.Sec, st.Mtim.Nsec))
		// Keep the old inode alive until the new one exists, so that the number differs.
		return []string{e.Path}, nil, os.Rename(tmp, full)
	case "retarget":
		if !exists || fi.Mode()&os.ModeSymlink == 0 {
			return nil, nil, nil
		}
		os.Remove(full)
		return []string{e.Path}, nil, os.Symlink(e.Target, full)
	case "squatfile", "squatdir", "squatlink":
		parent, perr := os.Lstat(filepath.Dir(full))
		if exists || perr != nil || !parent.IsDir() {
			return nil, nil, nil
		}
		switch e.Kind {
		case "squatfile":
			return nil, nil, writeFileAt(full, e.Data, e.Perm, e.Mtime)
		case "squatdir":
			return nil, nil, os.Mkdir(full, 0o755)
		default:
			return nil, nil, os.Symlink(e.Target, full)
		}
	case "addfile", "adddir", "addfifo", "addlink":
		parent, perr := os.Lstat(filepath.Dir(full))
		if exists || perr != nil || !parent.IsDir() {
			return nil, nil, nil
		}
		switch e.Kind {
		case "addfile":
			return []string{e.Path}, []string{e.Path}, writeFileAt(full, e.Data, e.Perm, e.Mtime)
		case "adddir":
			if err := os.Mkdir(full, 0o755); err != nil {
				return nil, nil, err
			}
			inner := Join(e.Path, "in"+strconv.Itoa(e.Mtime))
			return []string{e.Path, inner}, []string{e.Path, inner}, writeFileAt(filepath.Join(root, filepath.FromSlash(inner)), e.Data, e.Perm, e.Mtime)
		case "addfifo":
			return []string{e.Path}, []string{e.Path}, syscall.Mkfifo(full, 0o600)
		default:
			return []string{e.Path}, []string{e.Path}, os.Symlink(e.Target, full)
		}
	case "delete":
		if !exists {
			return nil, nil, nil
		}
		return nil, nil, os.RemoveAll(full)
	case "tofile":
		if !exists || fi.Mode().IsRegular() {
			return nil, nil, nil
		}
		if err := os.RemoveAll(full); err != nil {
			return nil, nil, err
		}
		return []string{e.Path}, []string{e.Path}, writeFileAt(full, e.Data, e.Perm, e.Mtime)
	case "todir":
		if !exists || fi.IsDir() {
			return nil, nil, nil
		}
		if err := os.RemoveAll(full); err != nil {
			return nil, nil, err
		}
		return []string{e.Path}, []string{e.Path}, os.Mkdir(full, 0o755)
	}
	return nil, nil, fmt.Errorf("unknown edit %q", e.Kind)
}

// storeProvider stages through the real content-addressed store.
type storeProvider struct{ s *staging.Stager }

func (p storeProvider) Provide(path string, digest []byte) (string, error) {
	return p.s.Provide(path, digest)
}

// Build materialises a scenario in dir (recreated from scratch), scans it
// with the real core.Scan, applies the edits and stages the files.
func Build(sc *Scenario, dir string, faults []Fault) (*Case, error) {
	if err := os.RemoveAll(dir); err != nil {
		return nil, err
	}
	if err := os.MkdirAll(dir, 0o755); err != nil {
		return nil, err
	}
	root := filepath.Join(dir, sc.Cfg.RootName)
	if err := Materialise(root, sc.F0); err != nil {
		return nil, fmt.Errorf("materialise: %w", err)
	}
	c := &Case{Cfg: sc.Cfg, Root: root, Plan: sc.Plan, Faults: faults, Canon: NewCanon(), HonestStaging: true}
	if len(sc.Edits) > 0 {
		c.release = holdOpen(root)
	}
	snap, cache, err := Scan(root, sc.Cfg.slMode())
	if err != nil {
		return nil, fmt.Errorf("scan: %w", err)
	}
	c.Cache = cache
	// Self-check of the harness: the scan reports what was materialised.
	if got, want := hx.EncEntry(SyncView(snap.Content)), hx.EncEntry(Describe(sc.F0, "", sc.Cfg.SL)); got != want {
		return nil, fmt.Errorf("scan-mismatch: scan %s, expected %s", got, want)
	}
	if sc.F0 != nil && sc.F0.Kind == 'd' && !snap.PreservesExecutability {
		return nil, fmt.Errorf("scratch filesystem does not preserve executability")
	}
	// The tree as the scan saw it, read back independently (this also gives
	// the scan-time files their inode identifiers).
	t0, err := ReadTree(root, c.Canon, true)
	if err != nil {
		return nil, err
	}
	for _, e := range sc.Edits {
		if _, _, err := applyEdit(root, e); err != nil {
			return nil, fmt.Errorf("edit %s %q: %w", e.Kind, e.Path, err)
		}
	}
	if len(sc.Edits) > 0 {
		// Protected: every node that now differs from what the scan saw at its
		// path (type, permissions, size/content, modification time, inode, link
		// target) or was not there at all; Added: the latter.
		t1, err := ReadTree(root, c.Canon, true)
		if err != nil {
			return nil, err
		}
		t1.Walk("", func(p string, n *Node) {
			old := t0.Get(p)
			switch {
			case old == nil || old.Kind != n.Kind:
				c.Protected = append(c.Protected, p)
				c.Added = append(c.Added, p)
			case n.Kind == 'f' && (old.Perm != n.Perm || old.Mtime != n.Mtime || old.Ino != n.Ino || string(old.Data) != string(n.Data)):
				c.Protected = append(c.Protected, p)
			case n.Kind == 'l' && old.Target != n.Target:
				c.Protected = append(c.Protected, p)
			}
		})
	}
	c.Consistent = sc.Derived && len(sc.Edits) == 0
	// Staging.
	stagingDir := filepath.Join(dir, "staging")
	if sc.ShmStaging {
		shm := filepath.Join("/dev/shm", fmt.Sprintf("verif-transx-%d", os.Getpid()))
		os.RemoveAll(shm)
		if err := os.MkdirAll(shm, 0o700); err != nil {
			return nil, err
		}
		stagingDir = filepath.Join(shm, "staging")
		c.RealXDev = true
		c.Cleanup = func() { os.RemoveAll(shm) }
	}
	storeMax := sc.StoreMax
	if storeMax == 0 {
		storeMax = 1 << 20
	}
	paths, digests := stagedKeys(sc.Plan)
	if sc.UseStore {
		st := staging.NewStager(stagingDir, false, storeMax, sha1.New)
		if err := st.Initialize(); err != nil {
			return nil, err
		}
		if sc.Stage != nil {
			if err := sc.Stage(st, root, paths, digests); err != nil {
				return nil, err
			}
		}
		for i := range paths {
			k := Key(paths[i], digests[i])
			data, ok := sc.Contents[hx.Hex(digests[i])]
			if sc.Stage == nil && ok && !sc.Unstaged[k] {
				sink, err := st.Sink(paths[i])
				if err != nil {
					return nil, err
				}
				sink.Write(data)
				if err := sink.Close(); err != nil {
					return nil, err
				}
			}
			if p, err := st.Provide(paths[i], digests[i]); err == nil {
				os.Chtimes(p, RealTime(500000+i), RealTime(500000+i))
			}
		}
		c.Provider = storeProvider{st}
		c.StoreDir = stagingDir
	} else {
		if err := os.Mkdir(stagingDir, 0o700); err != nil {
			return nil, err
		}
		mp := &MapProvider{Dir: stagingDir, Errs: sc.ProvideErr}
		for i := range paths {
			k := Key(paths[i], digests[i])
			data, ok := sc.Contents[hx.Hex(digests[i])]
			if !ok || sc.Unstaged[k] {
				continue
			}
			if err := writeFileAt(mp.PathFor(paths[i], digests[i]), data, 0o600, 500000+i); err != nil {
				return nil, err
			}
		}
		c.Provider = mp
	}
	return c, nil
}

// RealTimeRaw rebuilds a time from raw seconds and nanoseconds.
func RealTimeRaw(sec, nsec int64) time.Time { return time.Unix(sec, nsec) }

// NewLinkNames lists the leaf names of the symbolic links a plan creates.
func NewLinkNames(plan []*core.Change) map[string]bool {
	out := map[string]bool{}
	var rec func(path string, e *core.Entry)
	rec = func(path string, e *core.Entry) {
		if e == nil {
			return
		}
		if e.Kind == core.EntryKind_SymbolicLink {
			if path == "" {
				// a link at the root path is created under the root's own name
				out["root"] = true
			}
			out[Leaf(path)] = true
		}
		for n, k := range e.Contents {
			rec(Join(path, n), k)
		}
	}
	for _, ch := range plan {
		rec(ch.Path, ch.New)
	}
	return out
}

// ShmAvailable reports whether /dev/shm is a writable directory on another
// device than dir (so that a staging area there makes renames into dir fail
// with EXDEV).
func ShmAvailable(dir string) bool {
	a, err1 := os.Stat("/dev/shm")
	os.MkdirAll(dir, 0o755)
	b, err2 := os.Stat(dir)
	if err1 != nil || err2 != nil || !a.IsDir() {
		return false
	}
	if a.Sys().(*syscall.Stat_t).Dev == b.Sys().(*syscall.Stat_t).Dev {
		return false
	}
	probe := filepath.Join("/dev/shm", fmt.Sprintf("verif-probe-%d", os.Getpid()))
	if err := os.WriteFile(probe, nil, 0o600); err != nil {
		return false
	}
	os.Remove(probe)
	return true
}

// FileCreationNames lists the leaf names of the files a plan creates or swaps in.
func FileCreationNames(plan []*core.Change) []string {
	paths, _ := stagedKeys(plan)
	seen := map[string]bool{}
	var out []string
	for _, p := range paths {
		if n := Leaf(p); n != "" && !seen[n] {
			seen[n] = true
			out = append(out, n)
		}
	}
	return out
}
