package transx

import (
	"fmt"
	"os"
	"path/filepath"
	"strconv"
	"strings"
	"syscall"
	"time"

	"google.golang.org/protobuf/types/known/timestamppb"

	"github.com/mutagen-io/mutagen/pkg/synchronization/core"

	"verif/harness/hx"
)

// Real returns the inode number bound to an identifier.
func (c *Canon) Real(id int) (uint64, bool) {
	for ino, v := range c.inoID {
		if v == id {
			return ino, true
		}
	}
	return 0, false
}

func bindTree(path string, n *Node, c *Canon) error {
	if n == nil {
		return nil
	}
	switch n.Kind {
	case 'd':
		for name, k := range n.Kids {
			if err := bindTree(filepath.Join(path, name), k, c); err != nil {
				return err
			}
		}
	case 'f':
		fi, err := os.Lstat(path)
		if err != nil {
			return err
		}
		if n.Ino > 0 {
			c.Bind(fi.Sys().(*syscall.Stat_t).Ino, n.Ino)
		}
	}
	return nil
}

func cacheTime(k int) time.Time {
	if k == 0 {
		return time.Unix(1, 0)
	}
	return RealTime(k)
}

// BuildFromLine reconstructs a case from a recorded case line: the tree at
// transition time is materialised directly, the cache is rebuilt with the
// inode numbers of the new files, staged files go to a map-backed provider.
func BuildFromLine(line, dir string) (*Case, error) {
	f := strings.Fields(line)
	if len(f) < 8 {
		return nil, fmt.Errorf("bad case line (%d fields)", len(f))
	}
	cfg, err := DecCfg(f[0])
	if err != nil {
		return nil, err
	}
	if err := os.RemoveAll(dir); err != nil {
		return nil, err
	}
	if err := os.MkdirAll(dir, 0o755); err != nil {
		return nil, err
	}
	root := filepath.Join(dir, cfg.RootName)
	f1, err := Dec(f[2])
	if err != nil {
		return nil, err
	}
	if err := Materialise(root, f1); err != nil {
		return nil, err
	}
	c := &Case{Cfg: cfg, Root: root, Canon: NewCanon()}
	if err := bindTree(root, f1, c.Canon); err != nil {
		return nil, err
	}
	// Staged files.
	stagingDir := filepath.Join(dir, "staging")
	if err := os.Mkdir(stagingDir, 0o700); err != nil {
		return nil, err
	}
	mp := &MapProvider{Dir: stagingDir, Errs: map[string]bool{}}
	if f[3] != "-" {
		for _, item := range strings.Split(f[3], ";") {
			eq := strings.IndexByte(item, '=')
			hash := strings.IndexByte(item, '#')
			if eq < 0 || hash < 0 || hash > eq {
				return nil, fmt.Errorf("bad staged item %q", item)
			}
			path, err := hx.DecPath(item[:hash])
			if err != nil {
				return nil, err
			}
			digest, err := unhex(item[hash+1 : eq])
			if err != nil {
				return nil, err
			}
			if item[eq+1:] == "!" {
				mp.Errs[Key(path, digest)] = true
				continue
			}
			p := &nodeParser{s: item[eq+1:]}
			perm, mtime, ino, data, err := p.fileBody()
			if err != nil {
				return nil, err
			}
			sp := mp.PathFor(path, digest)
			if err := os.WriteFile(sp, data, 0o600); err != nil {
				return nil, err
			}
			os.Chmod(sp, os.FileMode(perm&0o777))
			if mtime > 0 {
				os.Chtimes(sp, RealTime(mtime), RealTime(mtime))
			}
			if fi, err := os.Lstat(sp); err == nil && ino > 0 {
				c.Canon.Bind(fi.Sys().(*syscall.Stat_t).Ino, ino)
			}
		}
	}
	c.Provider = mp
	// Cache.
	c.Cache = &core.Cache{Entries: map[string]*core.CacheEntry{}}
	if f[1] != "-" {
		for _, item := range strings.Split(f[1], ";") {
			gt := strings.IndexByte(item, '>')
			if gt < 0 {
				return nil, fmt.Errorf("bad cache item %q", item)
			}
			path, err := hx.DecPath(item[:gt])
			if err != nil {
				return nil, err
			}
			p := strings.Split(item[gt+1:], "/")
			if len(p) != 5 {
				return nil, fmt.Errorf("bad cache item %q", item)
			}
			mode, err1 := strconv.ParseUint(p[0], 8, 32)
			mtime, err2 := strconv.Atoi(p[1])
			size, err3 := strconv.ParseUint(p[2], 10, 64)
			id, err4 := strconv.Atoi(p[3])
			digest, err5 := unhex(p[4])
			if err1 != nil || err2 != nil || err3 != nil || err4 != nil || err5 != nil {
				return nil, fmt.Errorf("bad cache item %q", item)
			}
			ino, ok := c.Canon.Real(id)
			if !ok {
				ino = 1<<40 + uint64(id)
				c.Canon.Bind(ino, id)
			}
			c.Cache.Entries[path] = &core.CacheEntry{Mode: uint32(mode), ModificationTime: timestamppb.New(cacheTime(mtime)),
				Size: size, FileID: ino, Digest: digest}
		}
	}
	if c.Plan, err = hx.DecChanges(f[4]); err != nil {
		return nil, err
	}
	if c.Faults, err = DecFaults(f[5]); err != nil {
		return nil, err
	}
	if len(f) >= 9 {
		m := strings.Split(f[8], "|")
		if len(m) == 3 {
			c.Consistent = strings.Contains(m[0], "c")
			c.HonestStaging = strings.Contains(m[0], "h")
			if c.Protected, err = decPaths(m[1]); err != nil {
				return nil, err
			}
			if c.Added, err = decPaths(m[2]); err != nil {
				return nil, err
			}
		}
	}
	return c, nil
}
