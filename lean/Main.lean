import Mutagen.Driver.C01
import Mutagen.Driver.C02
import Mutagen.Driver.C03
import Mutagen.Driver.C04
import Mutagen.Driver.C05
import Mutagen.Driver.C06
import Mutagen.Driver.C07
import Mutagen.Driver.C08
import Mutagen.Driver.C09
import Mutagen.Driver.C10
import Mutagen.Driver.C11
import Mutagen.Driver.C12
import Mutagen.Driver.C13
import Mutagen.Driver.C14
import Mutagen.Driver.C15
import Mutagen.Driver.C16
import Mutagen.Driver.C17
import Mutagen.Driver.C18
import Mutagen.Driver.C19
import Mutagen.Driver.C20
import Mutagen.Driver.C21
import Mutagen.Driver.C22
import Mutagen.Driver.C23
import Mutagen.Driver.C24
import Mutagen.Driver.C25
import Mutagen.Driver.C26
import Mutagen.Driver.C27
import Mutagen.Driver.C28
import Mutagen.Driver.C29
import Mutagen.Driver.C30
import Mutagen.Driver.C31
import Mutagen.Driver.C32
import Mutagen.Driver.C33
import Mutagen.Driver.C34
import Mutagen.Driver.C35
import Mutagen.Driver.C36
import Mutagen.Driver.C37
import Mutagen.Driver.C38
import Mutagen.Driver.C39
import Mutagen.Driver.C40
import Mutagen.Driver.C41
import Mutagen.Driver.C42
import Mutagen.Driver.C43
import Mutagen.Driver.C44
import Mutagen.Driver.C45
import Mutagen.Driver.C46
import Mutagen.Driver.C47
import Mutagen.Driver.SESS

/-! `modeld <property>`: reads one case per line on stdin, writes the model's
canonical answer per line on stdout. Imports only `Mutagen.Driver.*` (and the
Mathlib-free models those import), so it links natively. -/

def dispatch : String → Option (String → String)
  | "C01" => some Mutagen.Driver.C01.handle
  | "C02" => some Mutagen.Driver.C02.handle
  | "C03" => some Mutagen.Driver.C03.handle
  | "C04" => some Mutagen.Driver.C04.handle
  | "C05" => some Mutagen.Driver.C05.handle
  | "C06" => some Mutagen.Driver.C06.handle
  | "C07" => some Mutagen.Driver.C07.handle
  | "C08" => some Mutagen.Driver.C08.handle
  | "C09" => some Mutagen.Driver.C09.handle
  | "C10" => some Mutagen.Driver.C10.handle
  | "C11" => some Mutagen.Driver.C11.handle
  | "C12" => some Mutagen.Driver.C12.handle
  | "C13" => some Mutagen.Driver.C13.handle
  | "C14" => some Mutagen.Driver.C14.handle
  | "C15" => some Mutagen.Driver.C15.handle
  | "C16" => some Mutagen.Driver.C16.handle
  | "C17" => some Mutagen.Driver.C17.handle
  | "C18" => some Mutagen.Driver.C18.handle
  | "C19" => some Mutagen.Driver.C19.handle
  | "C20" => some Mutagen.Driver.C20.handle
  | "C21" => some Mutagen.Driver.C21.handle
  | "C22" => some Mutagen.Driver.C22.handle
  | "C23" => some Mutagen.Driver.C23.handle
  | "C24" => some Mutagen.Driver.C24.handle
  | "C25" => some Mutagen.Driver.C25.handle
  | "C26" => some Mutagen.Driver.C26.handle
  | "C27" => some Mutagen.Driver.C27.handle
  | "C28" => some Mutagen.Driver.C28.handle
  | "C29" => some Mutagen.Driver.C29.handle
  | "C30" => some Mutagen.Driver.C30.handle
  | "C31" => some Mutagen.Driver.C31.handle
  | "C32" => some Mutagen.Driver.C32.handle
  | "C33" => some Mutagen.Driver.C33.handle
  | "C34" => some Mutagen.Driver.C34.handle
  | "C35" => some Mutagen.Driver.C35.handle
  | "C36" => some Mutagen.Driver.C36.handle
  | "C37" => some Mutagen.Driver.C37.handle
  | "C38" => some Mutagen.Driver.C38.handle
  | "C39" => some Mutagen.Driver.C39.handle
  | "C40" => some Mutagen.Driver.C40.handle
  | "C41" => some Mutagen.Driver.C41.handle
  | "C42" => some Mutagen.Driver.C42.handle
  | "C43" => some Mutagen.Driver.C43.handle
  | "C44" => some Mutagen.Driver.C44.handle
  | "C45" => some Mutagen.Driver.C45.handle
  | "C46" => some Mutagen.Driver.C46.handle
  | "C47" => some Mutagen.Driver.C47.handle
  | "SESS" => some Mutagen.Driver.SESS.handle
  | _ => none

def main (args : List String) : IO UInt32 := do
  match args with
  | [p] =>
    match dispatch p with
    | some f =>
      let stdin ← IO.getStdin
      let stdout ← IO.getStdout
      Mutagen.Driver.loop stdin stdout f
      return 0
    | none => IO.eprintln s!"unknown property {p}"; return 2
  | _ => IO.eprintln "usage: modeld <property>"; return 2
