import Mutagen.Driver.Util
namespace Mutagen.Driver.C10

/-- Model-side handler for one line of the C10 correspondence stream. -/
def handle (_line : String) : String := "unimplemented"

end Mutagen.Driver.C10
