import Mutagen.Driver.Util
import Mutagen.Driver.Tree
import Mutagen.Driver.TransFS
import Mutagen.Model.Store
/-!
C10 line protocol (Go side: `harness/cmd/c10`). Three kinds of line:

```
S <maxSize> <hash> <cmd> {<cmd>}       store operation sequence
    cmd := init | alloc | w:<id>:<hex> | c:<id>:<path>:<renameFails 0|1> | d:<id>
         | has:<path>:<digestHex> | path:<path>:<digestHex> | fin | block:<hexByte> | rootfile
R <maxSize> <hash> <files> <msgs>      rsync receiver feeding a fresh, initialized store
    files := file {';' file}           file := <path>/<baseHex | '!' unopenable>/<blockSize>/<lastBlockSize>/<blocks>
    msgs  := '-' | msg {',' msg}       msg := 'D' <f> | 'o' <dataHex> ':' <start> ':' <count> ':' <f>     f = rename fails
T <transition case>                    (see `Mutagen.Driver.TransFS`)
hash  := '-' | dataHex '>' digestHex {',' …}
```
Answers: `S`: one token per command (`<result>[:<value>]/<files>/<temps>`) then the
store state; `R`: the store state; `T`: as for C08/C09.
Store state: `files=<digestHex>@<path>=<contentHex>,… prefixes=<hexByte><d|f>,… temps=<n> root=<a|f|d>`.
-/
namespace Mutagen.Driver.C10
open Mutagen.Driver Mutagen.Driver.Tree Mutagen.Model.Store

def showErr : Err → String
  | .ok => "ok" | .uninitialized => "uninit" | .digestEmpty => "digest-empty" | .root => "root" | .alloc => "alloc"
  | .size => "size" | .prefixDir => "prefix" | .rename => "rename" | .unknownStorage => "unknown-storage"
  | .tempGone => "temp-gone"

def parseHashTable (s : String) : Option (List (Bytes × Bytes)) := Mutagen.Driver.TransFS.parseHash s

def tableH (t : List (Bytes × Bytes)) (d : Bytes) : Bytes := ((t.find? (·.1 == d)).map (·.2)).getD []

/-- The driver's path hash: the path itself (distinct paths are assumed not to
collide under xxh3-128). -/
def phId (p : String) : Bytes := p.toUTF8.toList

def showState (s : State) : String :=
  match s.root with
  | .absent => "files=- prefixes=- temps=0 root=a"
  | .nondir => "files=- prefixes=- temps=0 root=f"
  | .dir d =>
    let files := sortStrings (d.files.map fun ((dig, ph), c) =>
      encHex dig ++ "@" ++ encText ((String.fromUTF8? (ByteArray.mk ph.toArray)).getD "?") ++ "=" ++ encHex c)
    let pre := sortStrings (d.prefixes.map fun (b, isDir) => encHex [b] ++ (if isDir then "d" else "f"))
    "files=" ++ (if files.isEmpty then "-" else ",".intercalate files) ++
    " prefixes=" ++ (if pre.isEmpty then "-" else ",".intercalate pre) ++
    " temps=" ++ toString d.temps.length ++ " root=d"

def counts (s : State) : String :=
  match s.root with
  | .dir d => "/" ++ toString d.files.length ++ "/" ++ toString d.temps.length
  | _ => "/0/0"

def stepCmd (P : Params) (s : State) (cmd : String) : Option (State × String) :=
  match cmd.splitOn ":" with
  | ["init"] => let (e, s) := storeInitialize s; some (s, showErr e)
  | ["alloc"] =>
    match allocate s with
    | (e, some id, s) => some (s, showErr e ++ ":" ++ toString id)
    | (e, none, s) => some (s, showErr e)
  | ["w", id, h] => do
    let (e, s) := write s (← id.toNat?) (← decHex h)
    pure (s, showErr e)
  | ["c", id, p, f] => do
    let (e, s) := commit P s (← id.toNat?) (← decText p) (f == "1")
    pure (s, showErr e)
  | ["d", id] => do
    let (e, s) := discard s (← id.toNat?)
    pure (s, showErr e)
  | ["has", p, d] => do
    let (e, b) := contains P s (← decText p) (← decHex d)
    pure (s, showErr e ++ ":" ++ showBool b)
  | ["path", p, d] => do
    let (e, _) := path P s (← decText p) (← decHex d)
    pure (s, showErr e)
  | ["fin"] => let (e, s) := storeFinalize s; some (s, showErr e)
  | ["block", b] => do
    match ← decHex b with
    | [x] => pure (exec P s (.block x), "ok")
    | _ => none
  | ["rootfile"] => some (exec P s .rootFile, "ok")
  | _ => none

def runCmds (P : Params) : State → List String → List String → Option (State × List String)
  | s, [], acc => some (s, acc.reverse)
  | s, c :: r, acc => do
    let (s, out) ← stepCmd P s c
    runCmds P s r ((out ++ counts s) :: acc)

def parseRFile (s : String) : Option RFile :=
  match s.splitOn "/" with
  | [p, b, bs, ls, n] => do
    let base ← if b == "!" then some none else (decHex b).map some
    pure { path := ← decText p, base := base, blockSize := ← bs.toNat?, lastBlockSize := ← ls.toNat?, blocks := ← n.toNat? }
  | _ => none

def parseMsg (s : String) : Option (Msg × Bool) :=
  match s.toList with
  | ['D', f] => some (.done, f == '1')
  | 'o' :: rest =>
    match (String.ofList rest).splitOn ":" with
    | [h, st, ct, f] => do pure (.op (← decHex h) (← st.toNat?) (← ct.toNat?), f == "1")
    | _ => none
  | _ => none

def handle (line : String) : String :=
  match fields line with
  | "T" :: rest => Mutagen.Driver.TransFS.handle (" ".intercalate rest)
  | "S" :: maxSize :: hash :: cmds =>
    match maxSize.toNat?, parseHashTable hash with
    | some m, some t =>
      let P : Params := { H := tableH t, ph := phId }
      match runCmds P { maxSize := m } cmds [] with
      | some (s, outs) => " ".intercalate outs ++ " |" ++ showState s
      | none => "bad-op"
    | _, _ => "bad-op"
  | ["R", maxSize, hash, files, msgs] =>
    let parsed := do
      let m ← maxSize.toNat?
      let t ← parseHashTable hash
      let fs ← (files.splitOn ";").mapM parseRFile
      let ms ← if msgs == "-" then some [] else (msgs.splitOn ",").mapM parseMsg
      pure (m, t, fs, ms)
    match parsed with
    | some (m, t, fs, ms) =>
      let P : Params := { H := tableH t, ph := phId }
      let s0 := (storeInitialize { maxSize := m }).2
      let (_, s) := receiveAll P { files := fs } s0 ms
      showState s
    | none => "bad-op"
  | _ => "bad-op"

end Mutagen.Driver.C10
