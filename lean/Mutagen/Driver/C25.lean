import Mutagen.Driver.Util
namespace Mutagen.Driver.C25

/-- Model-side handler for one line of the C25 correspondence stream. -/
def handle (_line : String) : String := "unimplemented"

end Mutagen.Driver.C25
