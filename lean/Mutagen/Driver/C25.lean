import Mutagen.Driver.C24
namespace Mutagen.Driver.C25

/-- C25 shares the multiplexer harness and model driver of C24 (same line
protocol; the generator profile and the oracle differ, see harness/muxh). -/
def handle (line : String) : String := Mutagen.Driver.C24.handle line

end Mutagen.Driver.C25
