import Mutagen.Driver.Util
namespace Mutagen.Driver.C01

/-- Model-side handler for one line of the C01 correspondence stream. -/
def handle (_line : String) : String := "unimplemented"

end Mutagen.Driver.C01
