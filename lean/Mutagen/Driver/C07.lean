import Mutagen.Driver.Util
import Mutagen.Driver.Tree
import Mutagen.Model.PathString
namespace Mutagen.Driver.C07
open Mutagen.Driver Mutagen.Driver.Tree Mutagen.Model

/-!
Line: `<op> <args…>` (trees, changes, paths in the encoding of `Driver/Tree.lean`)
  `diff <a> <b>`            → canonical change list of `Diff(a, b)`
  `apply <a> <changes>`     → `Apply(a, changes)` (changes in the given order): tree | `err:unresolved` | `err:panic`
  `appdiff <a> <b>`         → `Apply(a, Diff(a, b))`
  `copy <deep|dpl|shallow|slim> <a>` → the copy
  `sync <a>`                → `a.synchronizable()` (`xsync`: same, on malformed trees, no oracle)
  `count <a>`               → `a.Count()`
  `valid <0|1> <a>`         → `a.EnsureValid(sync) == nil` as 0/1 (`validgen`: same, on generated valid trees)
  `equal <0|1> <a> <b>`     → `a.Equal(b, deep)` as 0/1
  `problems <a>`            → sorted `path!text` list of `a.Problems()`
  `glue <name,name,…>`      → hex of the path string built by `Joinable(path)+name` from the root, `|`,
                              the components `Apply` derives from it (`""` = root, else `strings.Split(path,"/")`)
  `chvalid <0|1> <change>`  → `Change.EnsureValid(sync) == nil`, then `|` and the slim change,
                              then root-deletion and root-type-change flags
-/

def parseBehavior : String → Option CopyBehavior
  | "deep" => some .deep | "dpl" => some .deepPreservingLeaves
  | "shallow" => some .shallow | "slim" => some .slim | _ => none

def parseFlag : String → Option Bool
  | "0" => some false | "1" => some true | _ => none

def run : List String → Option String
  | ["diff", a, b] => do
    pure (showChanges (Diff (← parseOEntry a) (← parseOEntry b)))
  | ["apply", a, cs] => do
    pure (showApplyResult (apply (← parseOEntry a) (← parseChanges cs)))
  | ["appdiff", a, b] => do
    let a ← parseOEntry a
    pure (showApplyResult (apply a (Diff a (← parseOEntry b))))
  | ["copy", b, a] => do
    pure (showOEntry (ocopy (← parseBehavior b) (← parseOEntry a)))
  | ["sync", a] => do
    pure (showOEntry (osync (← parseOEntry a)))
  | ["xsync", a] => do
    pure (showOEntry (osync (← parseOEntry a)))
  | ["count", a] => do
    pure (toString (ocount (← parseOEntry a)))
  | ["valid", s, a] => do
    pure (showBool (oensureValid (← parseFlag s) (← parseOEntry a)))
  | ["validgen", s, a] => do
    pure (showBool (oensureValid (← parseFlag s) (← parseOEntry a)))
  | ["equal", d, a, b] => do
    let a ← parseOEntry a
    let b ← parseOEntry b
    pure (showBool (if ← parseFlag d then deepEq a b else shallowEq a b))
  | ["problems", a] => do
    let ps := oproblems (← parseOEntry a)
    pure (showList (sortStrings (ps.map fun (p, t) => showPath p ++ "!" ++ encText t)))
  | ["chvalid", s, c] => do
    let c ← parseChange c
    pure (showBool (c.ensureValid (← parseFlag s)) ++ "|" ++ showChange c.slim ++ "|" ++
      showBool c.isRootDeletion ++ showBool c.isRootTypeChange)
  | ["glue", ns] => do
    let names ← (listField ns).mapM decText
    let path := PathString.join (names.map String.toList)
    let comps := (PathString.components path).map String.ofList
    pure (encHex (String.ofList path).toUTF8.toList ++ "|" ++
      (if comps.isEmpty then "-" else ",".intercalate (comps.map encText)))
  | _ => none

def handle (line : String) : String :=
  match run (fields line) with
  | some out => out
  | none => "bad-op"

end Mutagen.Driver.C07
