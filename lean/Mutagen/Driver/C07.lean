import Mutagen.Driver.Util
namespace Mutagen.Driver.C07

/-- Model-side handler for one line of the C07 correspondence stream. -/
def handle (_line : String) : String := "unimplemented"

end Mutagen.Driver.C07
