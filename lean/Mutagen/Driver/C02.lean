import Mutagen.Driver.Util
import Mutagen.Driver.Tree
namespace Mutagen.Driver.C02

/-- Line: `<mode> <A> <alpha> <beta>` (encoding of `Driver/Tree.lean`); answer:
the canonical plan `anc=… alpha=… beta=… conf=…` of the model's `Reconcile`. -/
def handle (line : String) : String := Mutagen.Driver.Tree.handleReconcile line

end Mutagen.Driver.C02
