import Mutagen.Driver.Util
namespace Mutagen.Driver.C02

/-- Model-side handler for one line of the C02 correspondence stream. -/
def handle (_line : String) : String := "unimplemented"

end Mutagen.Driver.C02
