import Mutagen.Driver.Util
namespace Mutagen.Driver.C19

/-- Model-side handler for one line of the C19 correspondence stream. -/
def handle (_line : String) : String := "unimplemented"

end Mutagen.Driver.C19
