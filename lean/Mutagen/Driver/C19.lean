import Mutagen.Driver.Util
import Mutagen.Model.Rsync
import Mutagen.Model.Sha1
namespace Mutagen.Driver.C19
open Mutagen.Driver Mutagen.Model.Rsync

/-!
Line: `<hasher> <blockSize> <maxDataOpSize> <base hex> <target hex>` with
hasher `sha1` (the engine's own) or `ends` (a deliberately colliding strong
hash: first and last byte of the block, injected into the real engine).
Output: `sig=<blockSize>/<lastBlockSize>/<weak>:<strong hex>,… ops=<op>,… exit=<e> patched=<hex|ERR>`
where an op is `D<hex>` (data) or `B<start>+<count>` (blocks).
-/

/-- The deliberately weak strong hash: `[first, last]` byte (empty for no data). -/
def endsHash (d : List UInt8) : List UInt8 :=
  match d.head?, d.getLast? with
  | some a, some b => [a, b]
  | _, _ => []

def hasher (name : String) : Option (List UInt8 → List UInt8) :=
  match name with
  | "sha1" => some Mutagen.Model.Sha1.sha1
  | "ends" => some endsHash
  | _ => none

def showOp (o : Operation) : String :=
  if o.data.length > 0 ∧ o.start = 0 ∧ o.count = 0 then s!"D{encHex o.data}"
  else if o.data.length = 0 then s!"B{o.start}+{o.count}"
  else s!"X{encHex o.data}/{o.start}+{o.count}"

def showList (xs : List String) : String :=
  if xs.isEmpty then "-" else ",".intercalate xs

def showSig (s : Signature (List UInt8)) : String :=
  s!"{s.blockSize}/{s.lastBlockSize}/" ++ showList (s.hashes.map fun h => s!"{h.weak.toNat}:{encHex h.strong}")

def showExit : Exit → String
  | .ok => "ok" | .err => "err" | .panic => "panic" | .fuel => "fuel"

def handle (line : String) : String :=
  match fields line with
  | [hn, bs, mx, b, t] =>
    match hasher hn, bs.toNat?, mx.toNat?, decHex b, decHex t with
    | some H, some bs, some mx, some base, some target =>
      let sig := signature H base bs
      let (ops, ex) := deltifyBytes H target sig mx
      let patched := match patchBytes base sig ops with
        | some out => encHex out
        | none => "ERR"
      s!"sig={showSig sig} ops={showList (ops.map showOp)} exit={showExit ex} patched={patched}"
    | _, _, _, _, _ => "bad-op"
  | _ => "bad-op"

end Mutagen.Driver.C19
