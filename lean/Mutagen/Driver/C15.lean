import Mutagen.Driver.Util
namespace Mutagen.Driver.C15

/-- Model-side handler for one line of the C15 correspondence stream. -/
def handle (_line : String) : String := "unimplemented"

end Mutagen.Driver.C15
