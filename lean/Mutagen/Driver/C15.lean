import Mutagen.Driver.Util
import Mutagen.Model.IgnoreDocker
import Mutagen.Model.DockerSpec
namespace Mutagen.Driver.C15
open Mutagen.Driver Mutagen.Model.IgnoreDocker Mutagen.Model.DockerSpec
open Mutagen.Model.IgnoreCore

/-!
Line: `w <patterns> <ancestor> <tree>` (strings are hex of valid UTF-8)
  patterns: `-` or comma separated `x:<cleaned>` (exclusion, "!") / `i:<cleaned>`
  ancestor: `-` (none), `@` (an empty root directory) or tree tokens `d:<name>` `f:<name>` `[` `]`
  tree:     comma separated tokens `f:<name>:<bits>` `l:<name>:<bits>` `d:<name>:<bits>` `[` `]`;
            `<bits>` = one 0/1 per pattern: does the pattern match this node's path (the
            abstract per-pattern match, supplied as a table by the real `Pattern.match`)
Line: `c <pattern>` — docker/ignore.go + patternmatcher.New cleaning of one pattern
  → `ok <x|i> <cleaned>` | `err <kind>` (`unsupported` for patterns with brackets)
Answer to `w`: `I=…;S=…;N=…;M=…;C=…;D=…;H=…`
  I  per node, in walk order: what `Ignore(path, isDirectory)` answers — status letter
     (n/i/u) followed by the traversal-continuation bit
  S  scan with the Docker-style ignorer + ReifyPhantomDirectories(ancestor, ·, nil): `path:kind,…`
  N  the directory count reification returns
  M  the non-recursive "deepest matched prefix wins + prefix pruning" characterisation (leaves);
     the harness prints the file/link leaves of the real reified snapshot here
  C  the non-recursive characterisation of Docker's walk (leaves); the harness prints the
     file/link leaves of the real reference walk here
  D  Docker's walk (files `f`, links `l`, directories `d`)
  H  1 iff `NoDepthOrderInversion` holds for these patterns and this tree
-/

abbrev Pat := Nat × Bool × Str

def decStr (s : String) : Option Str := do
  let bs ← decHex s
  let str ← String.fromUTF8? (ByteArray.mk bs.toArray)
  pure str.toList

def encStr (s : Str) : String := encHex (String.ofList s).toUTF8.toList

def parsePats (s : String) : Option (List Pat) :=
  if s == "-" then some [] else
  (s.splitOn ",").zipIdx.mapM fun (t, i) =>
    match t.splitOn ":" with
    | ["x", h] => (decStr h).map fun c => (i, true, c)
    | ["i", h] => (decStr h).map fun c => (i, false, c)
    | _ => none

/-- Tree tokens with match bits; returns children, the table rows `(path, bits)` and the rest. -/
def parseItems : Nat → Str → List String → Option (List (Str × Node) × List (Str × List Bool) × List String)
  | 0, _, _ => none
  | _ + 1, _, [] => some ([], [], [])
  | fuel + 1, pre, tok :: rest =>
    if tok == "]" then some ([], [], tok :: rest) else
    match tok.splitOn ":" with
    | [k, h, bits] =>
      match decStr h with
      | none => none
      | some name =>
        let path := joinable pre ++ name
        let row := (path, if bits == "-" then [] else bits.toList.map (· == '1'))
        if k == "d" then
          match rest with
          | "[" :: rest1 =>
            match parseItems fuel path rest1 with
            | some (cs, rows, "]" :: rest2) =>
              match parseItems fuel pre rest2 with
              | some (sibs, rows2, r) => some ((name, Node.dir cs) :: sibs, row :: rows ++ rows2, r)
              | none => none
            | _ => none
          | _ => none
        else
          let node? : Option Node := if k == "f" then some .file else if k == "l" then some .link else none
          match node?, parseItems fuel pre rest with
          | some node, some (sibs, rows2, r) => some ((name, node) :: sibs, row :: rows2, r)
          | _, _ => none
    | _ => none

def parseTree (s : String) : Option (List (Str × Node) × List (Str × List Bool)) :=
  if s == "-" then some ([], []) else
  let toks := s.splitOn ","
  match parseItems (toks.length + 1) [] toks with
  | some (cs, rows, []) => some (cs, rows)
  | _ => none

def parseAncItems : Nat → List String → Option (List (Str × Anc) × List String)
  | 0, _ => none
  | _ + 1, [] => some ([], [])
  | fuel + 1, tok :: rest =>
    if tok == "]" then some ([], tok :: rest) else
    match tok.splitOn ":" with
    | [k, h] =>
      match decStr h with
      | none => none
      | some name =>
        if k == "d" then
          match rest with
          | "[" :: rest1 =>
            match parseAncItems fuel rest1 with
            | some (cs, "]" :: rest2) =>
              match parseAncItems fuel rest2 with
              | some (sibs, r) => some ((name, Anc.mk true cs) :: sibs, r)
              | none => none
            | _ => none
          | _ => none
        else
          match parseAncItems fuel rest with
          | some (sibs, r) => some ((name, Anc.mk false []) :: sibs, r)
          | none => none
    | _ => none

def parseAnc (s : String) : Option (Option Anc) :=
  if s == "-" then some none
  else if s == "@" then some (some (Anc.mk true []))
  else
    let toks := s.splitOn ","
    match parseAncItems (toks.length + 1) toks with
    | some (cs, []) => some (some (Anc.mk true cs))
    | _ => none

mutual
def showEntries (prefixPath : Str) : List (Str × SEntry) → List String
  | [] => []
  | (name, e) :: rest => showEntry (joinable prefixPath ++ name) e ++ showEntries prefixPath rest
def showEntry (path : Str) : SEntry → List String
  | .file => [s!"{encStr path}:f"]
  | .link => [s!"{encStr path}:l"]
  | .untracked => [s!"{encStr path}:u"]
  | .dir ph cs => s!"{encStr path}:{if ph then "p" else "d"}" :: showEntries path cs
end

def showList (l : List String) : String := if l.isEmpty then "-" else ",".intercalate l

def showIncluded : Included → String
  | .file p => s!"{encStr p}:f"
  | .link p => s!"{encStr p}:l"
  | .dir p => s!"{encStr p}:d"

def handle (line : String) : String :=
  match fields line with
  | ["w", pats, anc, tree] =>
    match parsePats pats, parseAnc anc, parseTree tree with
    | some ps, some a, some (cs, rows) =>
      let excl : Pat → Bool := fun p => p.2.1
      let text : Pat → Str := fun p => p.2.2
      let m : Pat → Str → Bool := fun p path =>
        match rows.find? (fun r => r.1 = path) with
        | some r => r.2.getD p.1 false
        | none => false
      let ign : IgnoreFn := matchesForMutagen excl text m ps
      let (reified, count) := reifyRoot a (scanRoot ign cs)
      let snap := match reified with
        | .dir _ es => showList (showEntries [] es)
        | .untracked => "root-untracked"
        | _ => "bad-root"
      let spec := (specLeaves excl text m ps cs).map showIncluded
      let dspec := (dockerSpecLeaves excl text m ps cs).map showIncluded
      let dock := (dockerWalk excl text m ps cs).map showIncluded
      let h := noDepthOrderInversion excl m ps cs
      let ig := (allNodes cs).map fun n =>
        let (st, c) := ign n.path (n.kind == 2)
        (match st with | .nominal => "n" | .ignored => "i" | .unignored => "u") ++ (if c then "1" else "0")
      s!"I={showList ig};S={snap};N={count};M={showList spec};C={showList dspec};D={showList dock};H={if h then "1" else "0"}"
    | _, _, _ => "bad-op"
  | ["c", p] =>
    match decStr p with
    | some p =>
      if p.contains '[' || p.contains ']' then "unsupported" else
      match cleanPattern p with
      | .ok (x, c) => s!"ok {if x then "x" else "i"} {encStr c}"
      | .error e =>
        let k := match e with
          | .backslash => "backslash" | .empty => "empty" | .negatedEmpty => "negated-empty"
          | .root => "root" | .illegalExclusion => "illegal-exclusion" | .dropped => "dropped"
        s!"err {k}"
    | none => "bad-op"
  | _ => "bad-op"

end Mutagen.Driver.C15
