import Mutagen.Driver.Util
import Mutagen.Model.Housekeeping
namespace Mutagen.Driver.C43
open Mutagen.Driver Mutagen.Model.Housekeeping

/-!
Line: `<mode> <now> <agents> <caches> <staging>`

* mode `n` normal, `s` sidecar environment (`MUTAGEN_SIDECAR=1`), `r` relative
  and `e` empty `MUTAGEN_DATA_DIRECTORY` (then nothing can be listed);
* `<now>`: the nominal `time.Now()` in ns (times below are ages: `T = now - age`);
* a sub-directory is `!` (missing) or `=` followed by comma-separated children
  `name/link/kind/extra/aAge/mAge/agent/agentAAge/agentMAge`:
  `link` 1 = the child is a symbolic link to an object outside the data
  directory; `kind` `f` file, `d` directory, `x` nothing (dangling link);
  `extra` 1 = the directory has other content; `agent` 0 = no `mutagen-agent`
  inside, 1 = regular file, 2 = symbolic link to an outside file; the ages are
  those of the object `os.Stat` resolves to.

Output: the surviving names per sub-directory, sorted:
`agents=a,b|caches=-|staging=!`.
-/

def parseChild (now : Int) (s : String) : Option Child :=
  match s.splitOn "/" with
  | [name, link, kind, extra, aAge, mAge, agent, gA, gM] => do
    let aAge ← aAge.toInt?
    let mAge ← mAge.toInt?
    let gA ← gA.toInt?
    let gM ← gM.toInt?
    let isLink := link == "1"
    let hasAgent := kind == "d" && agent != "0"
    pure {
      name := name
      isLink := isLink
      stat := if kind == "x" then none else some { atime := now - aAge, mtime := now - mAge }
      agentStat := if hasAgent then some { atime := now - gA, mtime := now - gM } else none
      removable := isLink || kind != "d" || !(extra == "1" || hasAgent) }
  | _ => none

def parseSub (now : Int) (s : String) : Option (Option (List Child)) :=
  match s.toList with
  | ['!'] => some none
  | ['='] => some (some [])
  | '=' :: rest => ((String.ofList rest).splitOn ",").mapM (parseChild now) |>.map some
  | _ => none

def showNames (cs : Option (List Child)) : String :=
  match cs with
  | none => "!"
  | some [] => "-"
  | some cs => ",".intercalate ((cs.map (·.name)).toArray.qsort (· < ·)).toList

def handle (line : String) : String :=
  match fields line with
  | [mode, now, a, c, s] =>
    match now.toInt? with
    | none => "bad-op"
    | some now =>
      match parseSub now a, parseSub now c, parseSub now s with
      | some a, some c, some s =>
        let listed : DataDir := { agents := a, caches := c, staging := s }
        -- with an invalid data-directory setting nothing can be listed
        let seen : DataDir := if mode == "r" || mode == "e" then { agents := none, caches := none, staging := none } else listed
        let rs := housekeep (mode == "s") now seen
        let out (sub : Sub) := showNames ((listed.listing sub).map (survivors rs sub))
        s!"agents={out .agents}|caches={out .caches}|staging={out .staging}"
      | _, _, _ => "bad-op"
  | _ => "bad-op"

end Mutagen.Driver.C43
