import Mutagen.Driver.Util
namespace Mutagen.Driver.C43

/-- Model-side handler for one line of the C43 correspondence stream. -/
def handle (_line : String) : String := "unimplemented"

end Mutagen.Driver.C43
