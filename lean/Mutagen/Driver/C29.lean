import Mutagen.Driver.Util
import Mutagen.Model.Lifecycle
namespace Mutagen.Driver.C29
open Mutagen.Driver Mutagen.Model.Lifecycle

/-!
Trace validation. Line: `w=<0|1> <event> … | <observed final disk state>`

* `c<t>:<op>` / `r<t>:<op>:<res>` — a client call is issued / returns; ops
  `create0 create1 pause resume flushw flushn reset term restart`, results
  `ok dis pau nsy lost nom`;
* endpoint events: `cA cB` connect, `xA xB` shutdown, `pA+ pA-` poll start/end,
  `sA+<full><anc>` scan start, `sA-<ok>` scan end, `gA` stage, `uA` supply,
  `tA+ tA-` transition start/end (and the same with `B`).

The journal is accepted iff it is the visible trace of a run of the model
(subset construction over the invisible steps). Output: `accept <final>` when
the observed final disk state is one the accepted runs can end in.
-/

def parseOp : String → Option Op
  | "create0" => some (.create false) | "create1" => some (.create true)
  | "pause" => some .pause | "resume" => some .resume
  | "flushw" => some (.flush true) | "flushn" => some (.flush false)
  | "reset" => some .reset | "term" => some .terminate | "restart" => some .restart
  | _ => none

def parseRes : String → Option Res
  | "ok" => some .ok | "dis" => some .disabled | "pau" => some .paused
  | "nsy" => some .notSync | "lost" => some .lost | "nom" => some .noMatch
  | _ => none

def parseSide : Char → Option Side
  | 'A' => some .alpha | 'B' => some .beta | _ => none

def parseBit : Char → Option Bool
  | '0' => some false | '1' => some true | _ => none

def parseEv (s : String) : Option Ev :=
  match s.toList with
  | ['c', x] => (parseSide x).map Ev.conn
  | ['x', x] => (parseSide x).map Ev.shut
  | ['p', x, '+'] => (parseSide x).map Ev.pollS
  | ['p', x, '-'] => (parseSide x).map Ev.pollE
  | ['s', x, '+', f, a] => do pure (Ev.scanS (← parseSide x) (← parseBit f) (← parseBit a))
  | ['s', x, '-', o] => do pure (Ev.scanE (← parseSide x) (← parseBit o))
  | ['g', x] => (parseSide x).map Ev.stage
  | ['u', x] => (parseSide x).map Ev.supply
  | ['t', x, '+'] => (parseSide x).map Ev.transS
  | ['t', x, '-'] => (parseSide x).map Ev.transE
  | _ => none

def parseLabel (s : String) : Option Label :=
  match s.splitOn ":" with
  | [c, op] =>
    match c.toList with
    | 'c' :: ds => do pure (.call (← (String.ofList ds).toNat?) (← parseOp op))
    | _ => none
  | [r, op, res] =>
    match r.toList with
    | 'r' :: ds => do pure (.ret (← (String.ofList ds).toNat?) (← parseOp op) (← parseRes res))
    | _ => none
  | [e] => (parseEv e).map Label.ep
  | _ => none

def insertNew (acc : List State) (s : State) : List State × Bool :=
  if acc.contains s then (acc, false) else (s :: acc, true)

/-- Closure under invisible steps. -/
def closure : Nat → List State → List State → List State
  | 0, acc, _ => acc
  | _, acc, [] => acc
  | fuel + 1, acc, s :: work =>
    let next := (succ s).filterMap fun (l, s') => if l == .tau then some s' else none
    let (acc, work) := next.foldl (init := (acc, work)) fun (acc, work) s' =>
      let (acc', fresh) := insertNew acc s'
      (acc', if fresh then s' :: work else work)
    closure fuel acc work

def dedup (l : List State) : List State := l.foldl (fun acc s => (insertNew acc s).1) []

def closeSet (l : List State) : List State :=
  let l := dedup l
  closure 100000 l l

def advance (cur : List State) (lab : Label) : List State :=
  let next := match lab with
    | .call t op => cur.filterMap fun s => doCall s t op
    | _ => cur.flatMap fun s => (succ s).filterMap fun (l, s') => if l == lab then some s' else none
  closeSet next

def summary (s : State) : String :=
  let sess := match s.sess with | none => "n" | some true => "p" | some false => "u"
  let arch := match s.arch with | none => "n" | some false => "e" | some true => "f"
  s!"sess={sess} arch={arch}"

def validate : List State → Nat → List String → String ⊕ List State
  | cur, _, [] => .inr cur
  | cur, i, tok :: rest =>
    match parseLabel tok with
    | none => .inl s!"bad-token@{i}:{tok}"
    | some lab =>
      let next := advance cur lab
      if next.isEmpty then .inl s!"reject@{i}:{tok}" else validate next (i + 1) rest

def handle (line : String) : String :=
  match line.splitOn " | " with
  | [journal, final] =>
    match fields journal with
    | w :: toks =>
      let watch := w == "w=1"
      match validate (closeSet [init watch]) 0 toks with
      | .inl msg => msg
      | .inr states =>
        let sums := (states.map summary).eraseDups
        if sums.contains final then s!"accept {final}"
        else s!"accept-but-final {sums}"
    | [] => "bad-op"
  | _ => "bad-op"

end Mutagen.Driver.C29
