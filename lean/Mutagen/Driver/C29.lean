import Mutagen.Driver.Util
namespace Mutagen.Driver.C29

/-- Model-side handler for one line of the C29 correspondence stream. -/
def handle (_line : String) : String := "unimplemented"

end Mutagen.Driver.C29
