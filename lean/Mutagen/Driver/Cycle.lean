import Mutagen.Driver.Util
import Mutagen.Driver.Tree
import Mutagen.Model.SyncCycle
/-!
Shared by the C11 and C18 model drivers: rendering of cycle outcomes and
events, and the scripted endpoints of `harness/sessx` (every transition is
applied exactly; an endpoint that does not preserve executability stores
content without executable bits).
-/
namespace Mutagen.Driver.Cycle
open Mutagen.Driver Mutagen.Driver.Tree Mutagen.Model

def showHalt : Halt → String
  | .rootEmptied => "halted-on-root-emptied"
  | .rootDeletion => "halted-on-root-deletion"
  | .rootTypeChange => "halted-on-root-type-change"

def showOutcome : Outcome → String
  | .halted h => showHalt h
  | .failed _ => "failed"
  | .completed => "completed"

def sideName (alpha : Bool) : String := if alpha then "alpha" else "beta"

def showDeps (deps : List (Path × List UInt8)) : String :=
  ",".intercalate (sortStrings (deps.map fun d => showPath d.1 ++ "#" ++ encHex d.2))

/-- Events in the canonical order stage-alpha, supply-beta, stage-beta,
supply-alpha, transition-alpha, transition-beta (the model emits them in this
order already); `save` is reported through the ancestor instead. -/
def showEvents (evs : List Event) : String :=
  let items := evs.filterMap fun
    | .stage a deps => some ("stage-" ++ sideName a ++ ":" ++ showDeps deps)
    | .supply a _ => some ("supply-" ++ sideName a)
    | .transition a ts => some ("transition-" ++ sideName a ++ ":" ++ showChanges ts)
    | .save _ => none
  if items.isEmpty then "-" else " ^ ".intercalate items

mutual
def stripExec : Entry → Entry
  | .mk p cs => .mk { p with executable := false } (stripExecL cs)
def stripExecL : Contents → Contents
  | [] => []
  | (n, c) :: r => (n, stripExec c) :: stripExecL r
end

/-- The tree a scripted endpoint holds after a `Transition` call (`none`: the
call fails because `core.Apply` fails). -/
def worldApply (strip : Bool) (tree : Option Entry) (ts : List Change) : Option (Option Entry) :=
  let ideal := ts.map fun t =>
    ({ path := t.path, old := none, new := if strip then t.new.map stripExec else t.new } : Change)
  match apply tree ideal with
  | .ok t => some t
  | .error _ => none

/-- The scripted endpoints of `harness/sessx` as model `Endpoints`. -/
def worldEndpoints (αTree βTree : Option Entry) (αStrip βStrip : Bool) : Endpoints where
  stage := fun _ _ => .need []
  supply := fun _ _ => false
  transition := fun onAlpha ts =>
    match worldApply (if onAlpha then αStrip else βStrip) (if onAlpha then αTree else βTree) ts with
    | some _ => .done (ts.map (·.new)) false
    | none => .error

/-- The two trees after the cycle's transition events. -/
def worldAfter (αTree βTree : Option Entry) (αStrip βStrip : Bool) (evs : List Event) :
    Option Entry × Option Entry :=
  evs.foldl (fun (st : Option Entry × Option Entry) ev =>
    match ev with
    | .transition true ts => ((worldApply αStrip st.1 ts).getD st.1, st.2)
    | .transition false ts => (st.1, (worldApply βStrip st.2 ts).getD st.2)
    | _ => st) (αTree, βTree)

def showConflictRoots (cs : List Conflict) : String :=
  if cs.isEmpty then "-" else ",".intercalate (sortStrings (cs.map fun c => showPath c.root))

def parseFlag : String → Option Bool
  | "0" => some false | "1" => some true | _ => none

/-- One cycle of a real session over scripted endpoints:
`<outcome> ev=<events> anc=<A'> alpha=<tree> beta=<tree> conf=<roots>`. -/
def sessionCycle (mode : Mode) (portable : Bool) (a : Option Entry) (α β : Scan) (docker : Bool := false)
    (trees : Option (Option Entry × Option Entry) := none) :
    String × CycleResult × Option Entry × Option Entry :=
  -- the trees the scripted endpoints hold (by default: what they report)
  let (αTree, βTree) := trees.getD (α.content, β.content)
  let eps := worldEndpoints αTree βTree (!α.preserves) (!β.preserves)
  let r := cycleFromScans mode portable docker eps a α β
  let (α', β') := worldAfter αTree βTree (!α.preserves) (!β.preserves) r.events
  (showOutcome r.outcome ++ " ev=" ++ showEvents r.events ++ " anc=" ++ showOEntry r.ancestor ++
    " alpha=" ++ showOEntry α' ++ " beta=" ++ showOEntry β' ++ " conf=" ++ showConflictRoots r.conflicts,
   r, α', β')

/-- What a scan with Docker-style ignores reports: the directories at the given
paths as phantom directories (`harness/scriptx.Phantomize`). -/
def phantomize (tree : Option Entry) (paths : List Path) : Option Entry :=
  paths.foldl (fun t p =>
    match getPath t p with
    | some (.mk pr cs) =>
      if pr.kind == .directory then
        match p with
        | [] => some (.mk { pr with kind := .phantom } cs)
        | _ =>
          match apply t [{ path := p, old := none, new := some (.mk { pr with kind := .phantom } cs) }] with
          | .ok t' => t'
          | .error _ => t
      else t
    | none => t) tree

end Mutagen.Driver.Cycle
