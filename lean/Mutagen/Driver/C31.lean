import Mutagen.Driver.Util
namespace Mutagen.Driver.C31

/-- Model-side handler for one line of the C31 correspondence stream. -/
def handle (_line : String) : String := "unimplemented"

end Mutagen.Driver.C31
