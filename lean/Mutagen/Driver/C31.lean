import Mutagen.Driver.Util
import Mutagen.Model.Coalescer
namespace Mutagen.Driver.C31
open Mutagen.Driver Mutagen.Model.Coalescer

/-!
Line: `<window> <mode> <event> … = <observed…>` — one execution of the real
Coalescer under a virtual clock (testing/synctest), times in nanoseconds
since `NewCoalescer`, non-decreasing.

* mode `A`: a consumer goroutine receives from `Signals()` all the time; the
  observation is the list of arrival times;
* mode `D`: nobody receives except the explicit drains; the observation is
  the list of drain results (`1` a signal was buffered, `0` not).

Events: `s<t>` `Strobe()` at time `t`; `d<t>` non-blocking receive at `t`
(after the loop has settled); `t<t>` `Terminate()` at `t`.

The harness only acts when every goroutine is blocked, and virtual time only
advances then, so between two harness events the loop has processed every
timer expiry (`tick; expire; deliver`, plus `recv` in mode A). An event that
happens exactly at the timer's deadline races with the expiry: the model
explores both orders (a set of configurations) and prints the outcome that
equals the observed one if there is one, else the first.
-/

structure Cfg where
  s : State
  out : List String  -- reversed
  deriving BEq

def runActs (s : State) (as : List Action) : Option State := run s as

/-- Let the armed timer expire (if it does so before `t`, or at `t` when
`incl`), the loop deliver and – in mode A – the consumer receive; then let
time pass up to `t`. -/
def advance (active : Bool) (c : Cfg) (t : Nat) (incl : Bool) : Option Cfg := do
  let c1 ← match c.s.deadline with
    | some dl =>
      if dl < t ∨ (incl ∧ dl = t) then do
        let s1 ← runActs c.s [.tick (dl - c.s.now), .expire, .deliver]
        if active ∧ 0 < s1.sig then do
          let s2 ← step s1 .recv
          pure { s := s2, out := toString dl :: c.out }
        else pure { c with s := s1 }
      else pure c
    | none => pure c
  let s2 ← step c1.s (.tick (t - c1.s.now))
  pure { c1 with s := s2 }

def atDeadline (c : Cfg) (t : Nat) : Bool := c.s.deadline == some t

/-- All configurations after one harness event. -/
def event (active : Bool) (c : Cfg) (tok : String) : Option (List Cfg) :=
  match tok.toList with
  | 's' :: rest => do
    let t ← (String.ofList rest).toNat?
    let strobeIn (c : Cfg) : Option Cfg := do
      let s ← if c.s.exited then step c.s .strobeDone else step c.s .strobe
      pure { c with s := s }
    let c1 ← advance active c t true
    let a ← strobeIn c1
    if atDeadline c t then do
      -- the strobe wins the race against the timer branch
      let c2 ← advance active c t false
      let s2 ← step c2.s .expire
      let b ← strobeIn { c2 with s := s2 }
      pure [a, b]
    else pure [a]
  | 'd' :: rest => do
    let t ← (String.ofList rest).toNat?
    let c1 ← advance active c t true
    if active then pure [c1]
    else if 0 < c1.s.sig then do
      let s2 ← step c1.s .recv
      pure [{ s := s2, out := "1" :: c1.out }]
    else pure [{ c1 with out := "0" :: c1.out }]
  | 't' :: rest => do
    let t ← (String.ofList rest).toNat?
    let term (c : Cfg) : Option Cfg := do
      let s1 ← step c.s .terminate
      let s2 ← if s1.exited then pure s1 else step s1 .exit
      pure { c with s := s2 }
    let c1 ← advance active c t true
    let a ← term c1
    if atDeadline c t then do
      let c2 ← advance active c t false
      let b ← term c2
      pure [a, b]
    else pure [a]
  | _ => none

def runAll (active : Bool) : List Cfg → List String → Option (List Cfg)
  | cs, [] =>
    -- the harness lets a still-armed timer expire before it shuts down
    cs.mapM fun c => advance active c (c.s.now + c.s.window + 1) true
  | cs, tok :: toks => do
    let next ← cs.mapM fun c => event active c tok
    runAll active next.flatten.eraseDups toks

def render (c : Cfg) : String :=
  if c.out.isEmpty then "-" else " ".intercalate c.out.reverse

def handle (line : String) : String :=
  match fields line with
  | w :: mode :: rest =>
    -- `if window < 0 { window = 0 }`
    match w.toInt?.map Int.toNat, (mode == "A" || mode == "D") with
    | some w, true =>
      let evs := rest.takeWhile (· ≠ "=")
      let observed := " ".intercalate (rest.dropWhile (· ≠ "=") |>.drop 1)
      match runAll (mode == "A") [{ s := init w, out := [] }] evs with
      | some cs =>
        let outs := cs.map render
        if outs.contains observed then observed else outs.headD "no-run"
      | none => "not-enabled"
    | _, _ => "bad-line"
  | _ => "bad-line"

end Mutagen.Driver.C31
