import Mutagen.Driver.Util
import Mutagen.Driver.Tree
/-!
Model side of the shared session-history stream (`harness/cmd/sessx`, served to
the checks of C01–C05 as an extra stream).

A case is a whole history of a real two-endpoint session (see
`harness/sessx/history.go` for the grammar):

```
H <mode> <alpha0> <beta0> <step> …
step := <kind>^<alpha edits>^<beta edits>^<obs alpha>^<obs beta>
kind := n | h | f,<op>,<name> | c,<op>,<name>      (h: flush request on a still-halted session)
```
or a request sent straight to a local endpoint:
```
EP <mode> <a|b> <tree> <stage|trans> <arg>
```

The model below is the *glue* around `Reconcile`, written to mirror
`controller.synchronize` (pkg/synchronization/controller.go:849-1443) and the
bookkeeping of `endpoint/local/endpoint.go` step by step:

* one `cycle` = one iteration of the loop of `synchronize` triggered by a flush
  request: scan (the two roots as they are), `oneEndpointEmptiedRoot`
  (safety.go), `Reconcile`, the root-deletion / root-type-change halts
  (safety.go, change.go), transitions of both endpoints, conversion of the
  per-transition results into ancestor changes (1347-1365), the fold
  `ancestorChanges ++ αChanges ++ βChanges` (1379-1380), the
  `len(ancestorChanges) > 0` guard (1381), `Apply`, `EnsureValid(true)`, save;
* a fault-free transition returns `New` for every change and leaves the root
  as `Apply` of the changes; for a faulted or cancelled cycle the root after
  the cycle is an input (observed), and the result reported for a transition
  at path `p` is the content of the observed root at `p` — this is what
  `core.Transition` promises (create/remove report exactly what they left) and
  what C05 requires the archive to record;
* the alpha endpoint of a one-way session is read-only (endpoint.go:211-213):
  `Stage` / `Transition` fail, which ends the synchronization loop with an
  error *after* the ancestor has been saved (1410-1415).
-/
namespace Mutagen.Driver.SESS
open Mutagen.Driver Mutagen.Driver.Tree Mutagen.Model

/-! ## safety.go -/

/-- safety.go:10-38 `oneEndpointEmptiedRoot`. -/
def oneEndpointEmptiedRoot (ancestor alpha beta : Option Entry) : Bool :=
  if !isKind ancestor .directory then false
  else if !isKind alpha .directory then false
  else if !isKind beta .directory then false
  else if (contents ancestor).length < 2 then false
  else
    let alphaEmptied := (contents alpha).length == 0
    let betaEmptied := (contents beta).length == 0
    (alphaEmptied || betaEmptied) && !(alphaEmptied && betaEmptied)

/-- safety.go:42-53. -/
def containsRootDeletion (cs : List Change) : Bool := cs.any (·.isRootDeletion)

/-- safety.go:57-68. -/
def containsRootTypeChange (cs : List Change) : Bool := cs.any (·.isRootTypeChange)

/-! ## endpoint/local/endpoint.go (the part visible to the controller) -/

/-- endpoint.go:207-213: `readOnly := alpha && unidirectional`. -/
def readOnly (mode : Mode) (alpha : Bool) : Bool :=
  alpha && (mode == .oneWaySafe || mode == .oneWayReplica)

mutual
/-- stage.go `stagingPathFinder.find`: does the entry contain a file? -/
def hasFile : Entry → Bool
  | .mk p cs => p.kind == .file || hasFileL cs
def hasFileL : Contents → Bool
  | [] => false
  | (_, c) :: r => hasFile c || hasFileL r
end

/-- stage.go:44-66 `TransitionDependencies` returns at least one path. -/
def needsStaging (ts : List Change) : Bool :=
  ts.any fun t =>
    let fileToFileSameContents :=
      match t.old, t.new with
      | some o, some n => o.kind == .file && n.kind == .file && o.props.digest == n.props.digest
      | _, _ => false
    !fileToFileSameContents && (match t.new with | some n => hasFile n | none => false)

/-- What an endpoint's root looks like after its transition: predicted
(`none`: every change applied exactly) or observed. -/
abbrev Observed := Option (Option Entry)

/-- `endpoint.Transition` as the controller sees it (endpoint.go:1280-1439):
`none` = the call failed as a whole (read-only endpoint); otherwise the result
entry for every transition, in order, and the root afterwards. -/
def transition (ro : Bool) (root : Option Entry) (ts : List Change) (obs : Observed) :
    Option (List (Option Entry) × Option Entry) :=
  if ro then none
  else match obs with
    | none =>
      match apply root (ts.map fun t => { path := t.path, new := t.new }) with
      | .ok root' => some (ts.map (·.new), root')
      | .error _ => some (ts.map (·.old), root)
    | some o => some (ts.map fun t => getPath o t.path, o)

/-! ## controller.synchronize -/

structure State where
  ancestor : Option Entry := none
  alpha : Option Entry
  beta : Option Entry

inductive Kind' | normal | faulted | cancelled | haltedFlush
  deriving DecidableEq

structure CycleResult where
  state : State
  conflicts : Option (List Path)   -- `none`: not reported (halted / cancelled / failed)
  status : String
  problems : String

def showRoots : Option (List Path) → String
  | none => "-"
  | some [] => "-"
  | some ps => ",".intercalate (sortStrings (ps.map showPath))

def CycleResult.render (r : CycleResult) : String :=
  showOEntry r.state.alpha ++ " " ++ showOEntry r.state.beta ++ " " ++ showOEntry r.state.ancestor ++ " " ++
    showRoots r.conflicts ++ " " ++ r.status ++ " " ++ r.problems

/-- One flush-triggered iteration of the loop of `synchronize`. -/
def cycle (mode : Mode) (s : State) (kind : Kind') (obsA obsB : Observed) : CycleResult :=
  let halted (st : String) : CycleResult := { state := s, conflicts := none, status := st, problems := "--" }
  -- 1177-1182
  if oneEndpointEmptiedRoot s.ancestor s.alpha s.beta then halted "halt-emptied"
  else
    -- 1186-1191
    let plan := Reconcile s.ancestor s.alpha s.beta mode
    -- 1231-1236
    if containsRootDeletion plan.alpha || containsRootDeletion plan.beta then halted "halt-rootdel"
    -- 1242-1247
    else if containsRootTypeChange plan.alpha || containsRootTypeChange plan.beta then halted "halt-roottype"
    else
      -- 1253-1323: alpha.Stage / beta.Stage are called when files have to be provided; a read-only
      -- endpoint refuses (endpoint.go:1157-1159) and the loop ends before anything is saved.
      let stageFails :=
        (needsStaging plan.alpha && readOnly mode true) || (needsStaging plan.beta && readOnly mode false)
      if stageFails then { state := s, conflicts := none, status := "error", problems := "--" }
      else
        -- 1338-1368: transitions run only for endpoints with a non-empty list.
        let αT := if plan.alpha.isEmpty then some ([], s.alpha) else transition (readOnly mode true) s.alpha plan.alpha obsA
        let βT := if plan.beta.isEmpty then some ([], s.beta) else transition (readOnly mode false) s.beta plan.beta obsB
        -- 1348-1352 / 1360-1364: results become ancestor changes unless the side failed as a whole.
        let toChanges (ts : List Change) (r : Option (List (Option Entry) × Option Entry)) : List Change :=
          match r with
          | none => []
          | some (results, _) => (ts.zip results).map fun (t, res) => { path := t.path, new := res }
        let αChanges := toChanges plan.alpha αT
        let βChanges := toChanges plan.beta βT
        let alpha' := match αT with | some (_, r) => r | none => s.alpha
        let beta' := match βT with | some (_, r) => r | none => s.beta
        -- 1379-1380
        let ancestorChanges := plan.anc ++ αChanges ++ βChanges
        -- 1381-1408
        let saved : Option (Option Entry) :=
          if ancestorChanges.length > 0 then
            match apply s.ancestor ancestorChanges with
            | .error _ => none
            | .ok a => if oensureValid true a then some a else none
          else some s.ancestor
        match saved with
        | none => { state := { ancestor := s.ancestor, alpha := alpha', beta := beta' }, conflicts := none, status := "error", problems := "--" }
        | some a =>
          let st : State := { ancestor := a, alpha := alpha', beta := beta' }
          -- 1411-1415
          if αT.isNone || βT.isNone then { state := st, conflicts := none, status := "error", problems := "--" }
          else match kind with
            | .normal | .haltedFlush =>
              { state := st, conflicts := some (plan.conflicts.map (·.root)), status := "run", problems := "00" }
            | .faulted => { state := st, conflicts := some (plan.conflicts.map (·.root)), status := "run", problems := "--" }
            | .cancelled => { state := st, conflicts := none, status := "cancelled", problems := "--" }

/-! ## Parsing and the history loop -/

def parseObserved (s : String) : Option Observed :=
  if s == "-" then some none else (parseOEntry s).map some

/-- The edit script of one root: `Apply` of `path ↦ entry` in order. -/
def applyEdits (root : Option Entry) (field : String) : Option (Option Entry) := do
  let cs ← parseChanges field
  match apply root (cs.map fun c => { path := c.path, new := c.new }) with
  | .ok r => some r
  | .error _ => none

structure StepIn where
  kind : Kind'
  editsA : String
  editsB : String
  obsA : Observed
  obsB : Observed

def parseStep (f : String) : Option StepIn :=
  match f.splitOn "^" with
  | [k, ea, eb, oa, ob] => do
    let kind ← (if k == "n" then some Kind'.normal
      else if k == "h" then some Kind'.haltedFlush
      else match k.splitOn "," with
        | ["f", _, _] => some Kind'.faulted
        | ["c", _, _] => some Kind'.cancelled
        | _ => none)
    let obsA ← parseObserved oa
    let obsB ← parseObserved ob
    -- observed roots are given exactly for faulted and cancelled cycles
    let plain := kind == .normal || kind == .haltedFlush
    if plain != (obsA.isNone && obsB.isNone) then none
    else if !plain && (obsA.isNone || obsB.isNone) then none
    else some { kind, editsA := ea, editsB := eb, obsA, obsB }
  | _ => none

/-- The history loop. `halted` = the previous cycle ended in a halted state and
the user has not paused/resumed since: controller.run waits for cancellation
(controller.go:811-814) and `flush` refuses (`synchronizing == nil`, 354-357),
so an `h` step (edits + one flush request, no pause/resume) changes nothing.
Every other step on a halted session is preceded by the user's pause+resume,
which starts a fresh loop that reloads the saved archive. An `h` step on a
session that is not halted is an ordinary flush. -/
def runHistory (mode : Mode) : State → Bool → List StepIn → List String → Option (List String)
  | _, _, [], acc => some acc.reverse
  | s, halted, st :: rest, acc => do
    let alpha ← applyEdits s.alpha st.editsA
    let beta ← applyEdits s.beta st.editsB
    let s' : State := { s with alpha, beta }
    if halted && st.kind == .haltedFlush then
      let r : CycleResult := { state := s', conflicts := none, status := "halted", problems := "--" }
      runHistory mode s' true rest (r.render :: acc)
    else
      let r := cycle mode s' st.kind st.obsA st.obsB
      runHistory mode r.state (r.status.startsWith "halt") rest (r.render :: acc)

def handleHistory : List String → String
  | m :: a0 :: b0 :: steps =>
    match parseMode m, parseOEntry a0, parseOEntry b0, steps.mapM parseStep with
    | some mode, some alpha, some beta, some steps =>
      match runHistory mode { alpha, beta } false steps [] with
      | some out => " | ".intercalate out
      | none => "bad-op"
    | _, _, _, _ => "bad-op"
  | _ => "bad-op"

/-- endpoint.go:1155-1159 / 1280-1284 for a freshly scanned endpoint. -/
def handleEndpoint : List String → String
  | [m, which, tree, op, arg] =>
    match parseMode m, parseOEntry tree with
    | some mode, some root =>
      if which != "a" && which != "b" then "bad-op"
      else
        let ro := readOnly mode (which == "a")
        if op == "stage" then
          if arg.toNat?.isNone then "bad-op"
          else if ro then "refused " ++ showOEntry root else "ok " ++ showOEntry root
        else if op == "trans" then
          match parseChange arg with
          | none => "bad-op"
          | some ch =>
            match transition ro root [ch] none with
            | none => "refused " ++ showOEntry root
            | some (_, root') => "ok " ++ showOEntry root'
        else "bad-op"
    | _, _ => "bad-op"
  | _ => "bad-op"

/-- Model-side handler for one line of the shared session-history stream (`harness/cmd/sessx`). -/
def handle (line : String) : String :=
  match fields line with
  | "H" :: rest => handleHistory rest
  | "EP" :: rest => handleEndpoint rest
  | _ => "bad-op"

end Mutagen.Driver.SESS
