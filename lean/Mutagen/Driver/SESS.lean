import Mutagen.Driver.Util
namespace Mutagen.Driver.SESS

/-- Model-side handler for one line of the shared session-history stream (`harness/cmd/sessx`). -/
def handle (_line : String) : String := "unimplemented"

end Mutagen.Driver.SESS
