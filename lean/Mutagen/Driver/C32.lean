import Mutagen.Driver.Util
namespace Mutagen.Driver.C32

/-- Model-side handler for one line of the C32 correspondence stream. -/
def handle (_line : String) : String := "unimplemented"

end Mutagen.Driver.C32
