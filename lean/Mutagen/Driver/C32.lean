import Mutagen.Driver.Util
import Mutagen.Model.Prompting
namespace Mutagen.Driver.C32
open Mutagen.Driver Mutagen.Model.Prompting

/-!
Lines:

* `m <hex prompt>` → `echo` | `secret` | `masked` (`determineResponseMode`);
* `t <threads> <events>` — trace validation. `<threads>`: comma-separated
  programs, thread `k` is the `k`-th: `reg:<id>`, `unreg:<id>`,
  `msg:<id>:<fail>`, `prompt:<id>:<fail>`. `<events>`: comma-separated observed
  events in log order: `i<k>` thread `k` invokes its registry function, `s<k>` /
  `e<k>` the prompter's method starts / ends inside thread `k`'s call,
  `r<k>:<result>` the registry function returns (`ok`, `nf` not found, `af`
  unable to acquire, `ce` prompter error, `pn` panic, `col` collision, `empty`).
  Output: `accept <identifiers still registered, sorted>` when the model can
  produce the trace, else `reject@<index of the first impossible event>`.
-/

def parseOp (s : String) : Option Op :=
  match s.splitOn ":" with
  | ["reg", id] => some (.reg id)
  | ["unreg", id] => some (.unreg id)
  | ["msg", id, f] => some (.call id false (f == "1"))
  | ["prompt", id, f] => some (.call id true (f == "1"))
  | _ => none

def parseRes : String → Option Res
  | "ok" => some .ok | "nf" => some .notFound | "af" => some .acquireFailed | "ce" => some .callError
  | "pn" => some .panic | "col" => some .collision | "empty" => some .emptyId | _ => none

def parseEvent (s : String) : Option Event :=
  match s.toList with
  | 'i' :: k => (String.ofList k).toNat?.map .invoke
  | 's' :: k => (String.ofList k).toNat?.map .callStart
  | 'e' :: k => (String.ofList k).toNat?.map .callEnd
  | 'r' :: rest =>
    match (String.ofList rest).splitOn ":" with
    | [k, r] => do pure (.ret (← k.toNat?) (← parseRes r))
    | _ => none
  | _ => none

def showMode : ResponseMode → String
  | .secret => "secret" | .masked => "masked" | .echo => "echo"

def showRegistry (s : State) : String :=
  let ids := (s.registry.map (·.1)).toArray.qsort (· < ·) |>.toList
  if ids.isEmpty then "-" else ",".intercalate ids

def handle (line : String) : String :=
  match fields line with
  | ["m", h] =>
    match decHex h with
    | some p => showMode (determineResponseMode p)
    | none => "bad-op"
  | ["t", threads, events] =>
    match (listField threads).mapM parseOp, (listField events).mapM parseEvent with
    | some ops, some evs =>
      match accepts ops evs with
      | .error k => s!"reject@{k}"
      | .ok finals => "accept " ++ "/".intercalate ((finals.map showRegistry).eraseDups)
    | _, _ => "bad-op"
  | _ => "bad-op"

end Mutagen.Driver.C32
