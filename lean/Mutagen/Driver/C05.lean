import Mutagen.Driver.Util
namespace Mutagen.Driver.C05

/-- Model-side handler for one line of the C05 correspondence stream. -/
def handle (_line : String) : String := "unimplemented"

end Mutagen.Driver.C05
