import Mutagen.Driver.Util
import Mutagen.Driver.Tree
namespace Mutagen.Driver.C05
open Mutagen.Driver Mutagen.Driver.Tree Mutagen.Model

/-!
Line: `<mode> <A> <alpha> <beta> <alpha results> <beta results>`.
A results field is `!` (the endpoint's transition failed as a whole: no
results are folded in, controller.go:1345/1356) or a change list
`path=~>entry;…` giving, for every change planned for that endpoint, the
entry the endpoint reported at the path (any order).

The model reconciles, builds the controller's change list
(controller.go:1379-1380: ancestor changes, then alpha results, then beta
results), applies it to the ancestor (`Apply`) and validates the result
(`EnsureValid(true)`, controller.go:1398).
Answer: `<A'> <valid 0|1>` | `err:unresolved` | `err:panic` | `path-mismatch`
(the results do not name exactly the planned paths).
-/

/-- Results for the planned changes, in plan order; `none` on a path mismatch. -/
def pair (planned : List Change) (results : List Change) : Option (List Change) :=
  if sortStrings (planned.map (showPath ·.path)) != sortStrings (results.map (showPath ·.path)) then none
  else planned.mapM fun c =>
    (results.find? (·.path == c.path)).map fun r => { path := c.path, old := none, new := r.new }

def side (planned : List Change) (field : String) : Option (List Change) :=
  if field == "!" then some [] else do pair planned (← parseChanges field)

def handle (line : String) : String :=
  match fields line with
  | [m, a, al, be, ra, rb] =>
    match parseTriple [m, a, al, be] with
    | none => "bad-op"
    | some (m, a, al, be) =>
      let p := Reconcile a al be m
      match parseChanges (if ra == "!" then "-" else ra), parseChanges (if rb == "!" then "-" else rb) with
      | some _, some _ =>
        match side p.alpha ra, side p.beta rb with
        | some αChanges, some βChanges =>
          match apply a (p.anc ++ αChanges ++ βChanges) with
          | .ok a' => showOEntry a' ++ " " ++ showBool (oensureValid true a')
          | r => showApplyResult r
        | _, _ => "path-mismatch"
      | _, _ => "bad-op"
  | _ => "bad-op"

end Mutagen.Driver.C05
