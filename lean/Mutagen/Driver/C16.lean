import Mutagen.Driver.Util
namespace Mutagen.Driver.C16

/-- Model-side handler for one line of the C16 correspondence stream. -/
def handle (_line : String) : String := "unimplemented"

end Mutagen.Driver.C16
