import Mutagen.Driver.Util
import Mutagen.Model.Symlink
namespace Mutagen.Driver.C16
open Mutagen.Driver Mutagen.Model.Symlink

/-!
Lines (paths and targets are hex byte strings, `-` = empty):
  `n <path> <target>`         normalizeSymbolicLinkAndEnsurePortable → `ok <hex>` | `err <kind>`
  `s <mode> <path> <target>`  entry a real scan reports for a link on disk → `symlink <hex>` | `problematic`
                              (mode `p` portable, `r` POSIX raw)
  `t <mode> <path> <target>`  does a real transition create the link → `created` | `refused`
                              (mode `p` portable, `r` POSIX raw, `i` ignore)
-/

def showErr : Err → String
  | .empty => "empty" | .tooLong => "long" | .colon => "colon"
  | .backslash => "backslash" | .absolute => "absolute" | .outside => "outside"

def parseMode : String → Option Mode
  | "p" => some .portable | "r" => some .posixRaw | "i" => some .ignore | _ => none

def handle (line : String) : String :=
  match fields line with
  | ["n", p, t] =>
    match decHex p, decHex t with
    | some p, some t =>
      match normalize p t with
      | .ok r => s!"ok {encHex r}"
      | .error e => s!"err {showErr e}"
    | _, _ => "bad-op"
  | ["s", m, p, t] =>
    match parseMode m, decHex p, decHex t with
    | some m, some p, some t =>
      if m = .ignore then "bad-op" else
      match scanSymbolicLink p t (m = .portable) with
      | .symlink r => s!"symlink {encHex r}"
      | .problematic => "problematic"
    | _, _, _ => "bad-op"
  | ["t", m, p, t] =>
    match parseMode m, decHex p, decHex t with
    | some m, some p, some t => if createGuard m p t then "created" else "refused"
    | _, _, _ => "bad-op"
  | _ => "bad-op"

end Mutagen.Driver.C16
