import Mutagen.Driver.Util
import Mutagen.Model.Symlink
namespace Mutagen.Driver.C16
open Mutagen.Driver Mutagen.Model.Symlink

/-!
Lines (paths and targets are hex byte strings, `-` = empty):
  `n <path> <target>`         normalizeSymbolicLinkAndEnsurePortable → `ok <hex>` | `err <kind>`
  `s <mode> <path> <target>`  entry a real scan reports for a link on disk → `symlink <hex>` | `problematic`
                              (mode `p` portable, `r` POSIX raw)
  `t <mode> <path> <target>`  does a real transition create the link → `created` | `refused`
                              (mode `p` portable, `r` POSIX raw, `i` ignore)
  `T <mode> <item>;<item>…`   ONE real Transition call creating several links; item =
                              `L:<path>:<target>` (a link as its own transition) or
                              `D:<dir>:<rel>=<target>|…` (a directory created with links inside)
                              → one `1`/`0` per link in line order (on disk afterwards?) and
                              ` P=<number of problems recorded>`
-/

def showErr : Err → String
  | .empty => "empty" | .tooLong => "long" | .colon => "colon"
  | .backslash => "backslash" | .absolute => "absolute" | .outside => "outside"

def parseMode : String → Option Mode
  | "p" => some .portable | "r" => some .posixRaw | "i" => some .ignore | _ => none

/-- Items of a `T` line → the links of the call with their root-relative paths,
in line order: `L:<path>:<target>` or `D:<dir>:<rel>=<target>|…`. -/
def parseItems (s : String) : Option (List (Bytes × Bytes)) := do
  let parts ← (s.splitOn ";").mapM fun it =>
    match it.splitOn ":" with
    | ["L", p, t] => do pure [(← decHex p, ← decHex t)]
    | ["D", d, ls] => do
      let dir ← decHex d
      if ls == "" then pure [] else
      (ls.splitOn "|").mapM fun l =>
        match l.splitOn "=" with
        | [r, t] => do pure (dir ++ [slash] ++ (← decHex r), ← decHex t)
        | _ => none
    | _ => none
  pure parts.flatten

def handle (line : String) : String :=
  match fields line with
  | ["n", p, t] =>
    match decHex p, decHex t with
    | some p, some t =>
      match normalize p t with
      | .ok r => s!"ok {encHex r}"
      | .error e => s!"err {showErr e}"
    | _, _ => "bad-op"
  | ["s", m, p, t] =>
    match parseMode m, decHex p, decHex t with
    | some m, some p, some t =>
      if m = .ignore then "bad-op" else
      match scanSymbolicLink p t (m = .portable) with
      | .symlink r => s!"symlink {encHex r}"
      | .problematic => "problematic"
    | _, _, _ => "bad-op"
  | ["t", m, p, t] =>
    match parseMode m, decHex p, decHex t with
    | some m, some p, some t => if createGuard m p t then "created" else "refused"
    | _, _, _ => "bad-op"
  | ["T", m, items] =>
    match parseMode m, parseItems items with
    | some m, some links =>
      let s := createSeq m links
      let bits := links.map fun l => if s.created.contains l then '1' else '0'
      s!"{String.ofList bits} P={s.problems.length}"
    | _, _ => "bad-op"
  | _ => "bad-op"

end Mutagen.Driver.C16
