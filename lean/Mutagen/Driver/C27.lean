import Mutagen.Driver.Util
namespace Mutagen.Driver.C27

/-- Model-side handler for one line of the C27 correspondence stream. -/
def handle (_line : String) : String := "unimplemented"

end Mutagen.Driver.C27
