import Mutagen.Driver.Util
import Mutagen.Model.Atomic
namespace Mutagen.Driver.C27
open Mutagen.Driver Mutagen.Model.Atomic

/-!
Line: `<kind> <api> <old> <new> <perm> <fault> <crash>`

* kind  `run` (in-process), `trace` (child under strace), `crash` (child under
  strace, killed before its `crash`-th file-system call, counting from 0);
* api   `wfa` = `filesystem.WriteFileAtomic`, `mas` = `encoding.MarshalAndSave`;
* old   `none` or hex content of the existing target (mode 0640);
* new   hex content to write; perm octal (ignored by `mas`, which uses 0600);
* fault `none|marshal|create|write|close|chmod|rename`, optionally `+unlink`
  (the cleanup `unlink` fails too);
* crash `-` or a number.

The directory also holds a bystander file. Answer:
`[ops=<events> ][res=<result> ]target=<hex>:<mode>|none tmp=<n> stray=<n> bystander=<ok|bad>`
(`ops` for trace and crash, `res` for run and trace). Events: `create`,
`write:<offered length>`, `close`, `chmod:<mode>`, `rename`, `unlink`,
`rmdir`, suffixed with `!` when the call failed; `-` for none.
-/

def octal (n : Nat) : String := String.ofList (Nat.toDigits 8 n)

def parseOctal (s : String) : Option Nat :=
  s.toList.foldlM (fun acc c => if '0' ≤ c ∧ c ≤ '7' then some (acc * 8 + (c.toNat - 48)) else none) 0

def showOp : Op → String
  | .create _ => "create"
  | .write _ bs => s!"write:{bs.length}"
  | .close _ => "close"
  | .chmod _ m => s!"chmod:{octal m}"
  | .rename _ _ => "rename"
  | .unlink _ => "unlink"
  | .rmdir _ => "rmdir"

def showEvents (es : List Event) : String :=
  if es.isEmpty then "-" else
  ",".intercalate (es.map fun e => showOp e.1 ++ (if e.2 then "" else "!"))

def showResult : Result → String
  | .ok => "ok" | .errMarshal => "err-marshal" | .errCreate => "err-create" | .errWrite => "err-write"
  | .errClose => "err-close" | .errChmod => "err-chmod" | .errRename => "err-rename"

def bystander : File := { content := [98, 121], mode := 0o644 }

def showState (d : Dir) : String :=
  let target := match d.get "target".toList with
    | some f => s!"{encHex f.content}:{octal f.mode}"
    | none => "none"
  let others := d.names.filter fun n => n ≠ "target".toList ∧ n ≠ "bystander".toList
  let tmp := (others.filter isTemporary).length
  let stray := others.length - tmp
  let bst := if d.get "bystander".toList = some bystander then "ok" else "bad"
  s!"target={target} tmp={tmp} stray={stray} bystander={bst}"

def parseFaults (s : String) : Option Faults :=
  let (step, unlink) := match s.splitOn "+" with
    | [a, "unlink"] => (a, true)
    | _ => (s, false)
  let base : Faults := { removeFails := unlink }
  match step with
  | "none" => some base
  | "marshal" => some { base with marshalFails := true }
  | "create" => some { base with createFails := true }
  | "write" => some { base with writeScript := [none] }
  | "close" => some { base with closeFails := true }
  | "chmod" => some { base with chmodFails := true }
  | "rename" => some { base with renameFails := true }
  | _ => none

def handle (line : String) : String :=
  match fields line with
  | [kind, api, old, new, perm, fault, crash] =>
    let r : Option String := do
      let data ← decHex new
      let perm ← parseOctal perm
      let f ← parseFaults fault
      let d0 : Dir ← if old == "none" then some [("bystander".toList, bystander)] else do
        let o ← decHex old
        pure [("target".toList, { content := o, mode := 0o640 }), ("bystander".toList, bystander)]
      let tmp := tmpName ['0']
      let (es, res) ← match api with
        | "wfa" => some (writeFileAtomic tmp "target".toList data perm f)
        | "mas" => some (marshalAndSave tmp "target".toList data f)
        | _ => none
      match kind with
      | "run" => if crash == "-" then some s!"res={showResult res} {showState (replay d0 es)}" else none
      | "trace" => if crash == "-" then some s!"ops={showEvents es} res={showResult res} {showState (replay d0 es)}" else none
      | "crash" => do
        let k ← crash.toNat?
        let es' := es.take k
        pure s!"ops={showEvents es'} {showState (replay d0 es')}"
      | _ => none
    r.getD "bad-op"
  | _ => "bad-op"

end Mutagen.Driver.C27
