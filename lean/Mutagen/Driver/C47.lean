import Mutagen.Driver.Util
namespace Mutagen.Driver.C47

/-- Model-side handler for one line of the C47 correspondence stream. -/
def handle (_line : String) : String := "unimplemented"

end Mutagen.Driver.C47
