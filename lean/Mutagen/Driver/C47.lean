import Mutagen.Driver.Util
import Mutagen.Model.StreamWriters
namespace Mutagen.Driver.C47
open Mutagen.Driver Mutagen.Model.StreamWriters

/-!
Line: `<kind> <params…> <op>…`
  `cut <N> <script> w:<hex>…`                 cutoff writer
  `lp <max> (w:<hex> | f:<n>:<hexbyte>)…`     line processor (`f`: one write of n equal bytes)
  `hash <script> w:<hex>…`                    hashing writer
  `pre <interval> <script> (w:<hex> | c)…`    preemptable writer (`c`: close the channel)
  `valve <open 0|1> <script> (w:<hex> | s)…`  valve writer (`s`: Shut)
  `mc <e>,<e>,…`                              multi-closer (0: closes fine, k>0: returns error k)
`<script>` is `-` or `accept/mode;…` (downstream responses; mode 0: error iff
short, 1: error, 2: never an error, even when short).
Output: per write `<n>/<err>` (line processor: plus `[callback arguments]`),
then ` |<downstream bytes>|<offered lengths>|<writer state>`.
-/

def showErr : Err → String
  | .none => "ok" | .peer => "peer" | .preempted => "preempted" | .maxbuf => "maxbuf"

def parseScript (s : String) : Option (List WResp) :=
  if s == "-" then some [] else
  (s.splitOn ";").mapM fun r =>
    match r.splitOn "/" with
    | [a, f] => do pure { accept := ← a.toNat?, fail := f == "1", lax := f == "2" }
    | _ => none

def parseInt (s : String) : Option Int :=
  if s.startsWith "-" then (s.drop 1).toNat?.map fun n => -(n : Int) else s.toNat?.map fun n => (n : Int)

def showLines (l : List (List UInt8)) : String :=
  if l.isEmpty then "none" else ",".intercalate (l.map encHex)

def tail (d : Down) (state : String) : String :=
  s!" |{encHex d.got}|{showNatList d.offers}|{state}"

def parseWrite (op : String) : Option (List UInt8) :=
  match op.splitOn ":" with
  | ["w", h] => decHex h
  | ["f", n, h] => do
    match ← decHex h with
    | [b] => pure (List.replicate (← n.toNat?) b)
    | _ => none
  | _ => none

def runCut (w : Cutoff) : List String → List String → Option String
  | [], acc => some (" ".intercalate acc.reverse ++ tail w.down (toString w.cutoff))
  | op :: ops, acc => do
    let (w', n, e) := w.write (← parseWrite op)
    runCut w' ops (s!"{n}/{showErr e}" :: acc)

def runLp (p : LineProc) : List String → List String → Option String
  | [], acc => some (" ".intercalate acc.reverse ++ s!" |{encHex p.buffer}")
  | op :: ops, acc => do
    let (p', n, e) := p.write (← parseWrite op)
    runLp p' ops (s!"{n}/{showErr e}[{showLines (p'.lines.drop p.lines.length)}]" :: acc)

def runHash (w : Hashed) : List String → List String → Option String
  | [], acc => some (" ".intercalate acc.reverse ++ tail w.down (encHex w.hashed))
  | op :: ops, acc => do
    let (w', n, e) := w.write (← parseWrite op)
    runHash w' ops (s!"{n}/{showErr e}" :: acc)

def runPre (w : Preempt) (cancelled : Bool) : List String → List String → Option String
  | [], acc => some (" ".intercalate acc.reverse ++ tail w.down (toString w.writeCount))
  | "c" :: ops, acc => runPre w true ops ("c" :: acc)
  | op :: ops, acc => do
    let (w', n, e) := w.write cancelled (← parseWrite op)
    runPre w' cancelled ops (s!"{n}/{showErr e}" :: acc)

def runValve (w : Valve) : List String → List String → Option String
  | [], acc => some (" ".intercalate acc.reverse ++ tail w.down "-")
  | "s" :: ops, acc => runValve w.shut ops ("s" :: acc)
  | op :: ops, acc => do
    let (w', n, e) := w.write (← parseWrite op)
    runValve w' ops (s!"{n}/{showErr e}" :: acc)

def handle (line : String) : String :=
  let r : Option String :=
    match fields line with
    | "cut" :: n :: script :: ops => do
      runCut { down := Down.new (← parseScript script), cutoff := ← n.toNat? } ops []
    | "lp" :: max :: ops => do
      runLp { maxBuf := ← parseInt max, buffer := [], lines := [] } ops []
    | "hash" :: script :: ops => do
      runHash { down := Down.new (← parseScript script), hashed := [] } ops []
    | "pre" :: interval :: script :: ops => do
      runPre { down := Down.new (← parseScript script), checkInterval := ← interval.toNat?, writeCount := 0 } false ops []
    | "valve" :: isOpen :: script :: ops => do
      runValve { down := Down.new (← parseScript script), isOpen := isOpen == "1" } ops []
    | ["mc", closers] => do
      let cs ← natList closers
      let (called, err) := MultiCloser.close (cs.map fun e => if e = 0 then none else some e)
      pure s!"{showNatList called}/{match err with | none => "ok" | some e => toString e}"
    | _ => none
  r.getD "bad-op"

end Mutagen.Driver.C47
