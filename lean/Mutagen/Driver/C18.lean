import Mutagen.Driver.Util
namespace Mutagen.Driver.C18

/-- Model-side handler for one line of the C18 correspondence stream. -/
def handle (_line : String) : String := "unimplemented"

end Mutagen.Driver.C18
