import Mutagen.Driver.Util
import Mutagen.Driver.Tree
import Mutagen.Driver.Cycle
import Mutagen.Model.Executability
import Mutagen.Model.SyncCycle
namespace Mutagen.Driver.C18
open Mutagen.Driver Mutagen.Driver.Tree Mutagen.Driver.Cycle Mutagen.Model

/-!
Lines (trees in the encoding of `Driver/Tree.lean`):

* `p <A> <S> <T>` → `PropagateExecutability(A, S, T)`.
* `c <mode> <portable 0|1> <αpreserves> <βpreserves> <A> <alpha> <beta>` → the
  decision part of one cycle on the scanned contents, computed from the
  exported pieces: `<α'> <β'> <outcome> <plan> anc=<A'> alpha=<α''> beta=<β''>`
  (α', β' after propagation; α'', β'' after applying the plan exactly).
* `s <mode> <portable> <αpreserves> <βpreserves> <A> <alpha> <beta>` → one cycle
  of a real session over scripted endpoints (see `Driver/Cycle.lean`).
* `h <mode> <N is alpha 0|1> <A> <P> <N> <op,op,…>` → a real session over a
  preserving endpoint P and a non-preserving endpoint N, one cycle after each
  edit; `eN=<path>=<hex>` / `eP=<path>=<hex>` replace a file's content,
  `xP=<path>` flips a file's executable bit on P. Answer: one
  `<outcome>:<P tree>:<N tree>` per cycle, joined by ` | `; the history stops
  at the first cycle that does not complete.
* `r <A> <alpha> <beta>` → `ReifyPhantomDirectories`: `<alpha'> <beta'> <alpha directories> <beta directories>`.
* `cd …` / `sd …` → as `c` / `s`, in a session with Docker-style ignore syntax:
  the contents may hold phantom directories, which are reified first.
* `hd <mode> <N is alpha> <n|b> <paths> <A> <P> <N> <ops>` → as `h` with Docker-style
  ignore syntax; every scan of N (`n`) or of both endpoints (`b`) reports the
  directories at the comma-separated `paths` as phantom directories.
-/

/-- Replace the scalar fields of the file at `path` (no-op unless a file). -/
def editFile (tree : Option Entry) (path : Path) (f : Props → Props) : Option Entry :=
  match getPath tree path with
  | some (.mk p cs) =>
    if p.kind == .file then
      match apply tree [{ path := path, old := none, new := some (.mk (f p) cs) }] with
      | .ok t => t
      | .error _ => tree
    else tree
  | none => tree

inductive Op
  | editN (path : Path) (d : List UInt8)
  | editP (path : Path) (d : List UInt8)
  | chmodP (path : Path)

def parseOp (s : String) : Option Op :=
  match s.splitOn "=" with
  | ["eN", p, d] => do pure (.editN (← parsePath p) (← decHex d))
  | ["eP", p, d] => do pure (.editP (← parsePath p) (← decHex d))
  | ["xP", p] => do pure (.chmodP (← parsePath p))
  | _ => none

def history (mode : Mode) (nAlpha : Bool) (docker : Bool := false) (both : Bool := false) (phantom : List Path := []) :
    Nat → Option Entry → Option Entry → Option Entry → List Op → List String
  | _, _, _, _, [] => []
  | fuel, a, p, n, op :: ops =>
    let (p, n) := match op with
      | .editN path d => (p, editFile n path fun q => { q with digest := d })
      | .editP path d => (editFile p path fun q => { q with digest := d }, n)
      | .chmodP path => (editFile p path fun q => { q with executable := !q.executable }, n)
    let sp : Scan := { content := if docker && both then phantomize p phantom else p, preserves := true }
    let sn : Scan := { content := if docker then phantomize n phantom else n, preserves := false }
    let (α, β) := if nAlpha then (sn, sp) else (sp, sn)
    let (_, r, α', β') := sessionCycle mode true a α β docker (some (if nAlpha then (n, p) else (p, n)))
    let (p', n') := if nAlpha then (β', α') else (α', β')
    let item := showOutcome r.outcome ++ ":" ++ showOEntry p' ++ ":" ++ showOEntry n'
    match r.outcome, fuel with
    | .completed, fuel + 1 => item :: history mode nAlpha docker both phantom fuel r.ancestor p' n' ops
    | _, _ => [item]

def run : List String → Option String
  | ["p", a, s, t] => do
    pure (showOEntry (propagateExecutability (← parseOEntry a) (← parseOEntry s) (← parseOEntry t)))
  | ["r", a, al, be] => do
    let r := reifyPhantomDirectories (← parseOEntry a) (← parseOEntry al) (← parseOEntry be)
    pure (showOEntry r.1 ++ " " ++ showOEntry r.2.1 ++ " " ++ toString r.2.2.1 ++ " " ++ toString r.2.2.2)
  | ["cd", m, perm, pa, pb, a, al, be] => do
    let mode ← parseMode m
    let α : Scan := { content := ← parseOEntry al, preserves := ← parseFlag pa }
    let β : Scan := { content := ← parseOEntry be, preserves := ← parseFlag pb }
    let a ← parseOEntry a
    let s := reifyStep true a α β
    let eps := worldEndpoints s.1.content s.2.content false false
    let r := cycle mode (← parseFlag perm) eps a s.1 s.2
    let (α', β') := worldAfter s.1.content s.2.content false false r.events
    pure (showOEntry r.alphaContent ++ " " ++ showOEntry r.betaContent ++ " " ++ showOutcome r.outcome ++ " " ++
      showPlan r.plan ++ " anc=" ++ showOEntry r.ancestor ++ " alpha=" ++ showOEntry α' ++ " beta=" ++ showOEntry β')
  | ["sd", m, perm, pa, pb, a, al, be] => do
    let mode ← parseMode m
    let α : Scan := { content := ← parseOEntry al, preserves := ← parseFlag pa }
    let β : Scan := { content := ← parseOEntry be, preserves := ← parseFlag pb }
    pure (sessionCycle mode (← parseFlag perm) (← parseOEntry a) α β true).1
  | ["hd", m, na, sides, paths, a, p, n, ops] => do
    let mode ← parseMode m
    let ops ← (listField ops).mapM parseOp
    let phantom ← (listField paths).mapM parsePath
    let both ← if sides == "b" then some true else if sides == "n" then some false else none
    pure (" | ".intercalate (history mode (← parseFlag na) true both phantom ops.length (← parseOEntry a)
      (← parseOEntry p) (← parseOEntry n) ops))
  | ["c", m, perm, pa, pb, a, al, be] => do
    let mode ← parseMode m
    let α : Scan := { content := ← parseOEntry al, preserves := ← parseFlag pa }
    let β : Scan := { content := ← parseOEntry be, preserves := ← parseFlag pb }
    let a ← parseOEntry a
    let eps := worldEndpoints α.content β.content false false
    let r := cycle mode (← parseFlag perm) eps a α β
    let (α', β') := worldAfter α.content β.content false false r.events
    pure (showOEntry r.alphaContent ++ " " ++ showOEntry r.betaContent ++ " " ++ showOutcome r.outcome ++ " " ++
      showPlan r.plan ++ " anc=" ++ showOEntry r.ancestor ++ " alpha=" ++ showOEntry α' ++ " beta=" ++ showOEntry β')
  | ["s", m, perm, pa, pb, a, al, be] => do
    let mode ← parseMode m
    let α : Scan := { content := ← parseOEntry al, preserves := ← parseFlag pa }
    let β : Scan := { content := ← parseOEntry be, preserves := ← parseFlag pb }
    pure (sessionCycle mode (← parseFlag perm) (← parseOEntry a) α β).1
  | ["h", m, na, a, p, n, ops] => do
    let mode ← parseMode m
    let ops ← (listField ops).mapM parseOp
    pure (" | ".intercalate (history mode (← parseFlag na) false false [] ops.length (← parseOEntry a) (← parseOEntry p) (← parseOEntry n) ops))
  | _ => none

def handle (line : String) : String :=
  match run (fields line) with
  | some out => out
  | none => "bad-op"

end Mutagen.Driver.C18
