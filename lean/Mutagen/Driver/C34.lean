import Mutagen.Driver.Util
namespace Mutagen.Driver.C34

/-- Model-side handler for one line of the C34 correspondence stream. -/
def handle (_line : String) : String := "unimplemented"

end Mutagen.Driver.C34
