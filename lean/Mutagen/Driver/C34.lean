import Mutagen.Driver.Util
import Mutagen.Model.Handshake
namespace Mutagen.Driver.C34
open Mutagen.Driver Mutagen.Model.Handshake

/-!
Lines:
* `<fn> <incoming hex> <wcap>` with `fn` ∈ `c` (ClientHandshake then
  ClientVersionHandshake, as in agent.connect), `s` (ServerHandshake then
  ServerVersionHandshake, as in mutagen-agent), `cm` `cv` `sm` `sv` (the four
  functions on their own); `wcap` is `-` (unlimited) or the number of bytes the
  transport accepts before failing. Answer: `<err> <sent hex> <consumed>`.
* `rv <incoming hex>`: receiveVersion. Answer `<major> <minor> <patch> <err> <consumed>`.
* `x <fault s→c> <fault c→s>`: real client against real server through a
  channel with one fault per direction (`n`, `t<k>` cut after k bytes,
  `f<k>.<xx>` xor byte k with xx). Answer `<client err> <server err> <client sent> <server sent>`.
-/

def showErr : Err → String
  | .ok => "ok" | .eof => "eof" | .ueof => "ueof" | .werr => "werr" | .reject => "reject"

def parseCap (s : String) : Option (Option Nat) :=
  if s == "-" then some none else s.toNat?.map some

def parseFault (s : String) : Option Fault :=
  match s.toList with
  | ['n'] => some .none
  | 't' :: k => (String.ofList k).toNat?.map .trunc
  | 'f' :: rest =>
    match (String.ofList rest).splitOn "." with
    | [k, x] => do
      match ← decHex x with
      | [v] => pure (.flip (← k.toNat?) v)
      | _ => none
    | _ => none
  | _ => none

def fnOf : String → Option (Params × (Params → Stream → Stream × Err))
  | "c" => some (clientParams, clientConnect)
  | "s" => some (serverParams, serverConnect)
  | "cm" => some (clientParams, clientHandshake)
  | "cv" => some (clientParams, clientVersionHandshake)
  | "sm" => some (serverParams, serverHandshake)
  | "sv" => some (serverParams, serverVersionHandshake)
  | _ => none

def handle (line : String) : String :=
  match fields line with
  | ["rv", inp] =>
    match decHex inp with
    | some i =>
      let (s, a, b, c, e) := receiveVersion { inp := i, wcap := none, sent := [] }
      s!"{a} {b} {c} {showErr e} {i.length - s.inp.length}"
    | none => "bad-op"
  | ["x", a, b] =>
    match parseFault a, parseFault b with
    | some fsc, some fcs =>
      let o := session clientParams serverParams fsc fcs
      s!"{showErr o.client} {showErr o.server} {encHex o.clientSent} {encHex o.serverSent}"
    | _, _ => "bad-op"
  | [fn, inp, cap] =>
    match fnOf fn, decHex inp, parseCap cap with
    | some (p, f), some i, some c =>
      let (s, e) := f p { inp := i, wcap := c, sent := [] }
      s!"{showErr e} {encHex s.sent} {i.length - s.inp.length}"
    | _, _, _ => "bad-op"
  | _ => "bad-op"

end Mutagen.Driver.C34
