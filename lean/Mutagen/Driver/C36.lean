import Mutagen.Driver.Util
import Mutagen.Driver.C38
import Mutagen.Model.Argv
namespace Mutagen.Driver.C36
open Mutagen.Driver Mutagen.Model.URL Mutagen.Model.Argv
open Mutagen.Driver.C38 (hexStr unhexStr showVErr)

/-!
Lines (strings are hex):
* `ssh <user> <host> <port> <command> <sourceBase> <remoteName>` —
  `EnsureValid` of the SSH synchronization URL with these components, then the
  argument vectors of `sshTransport.Command` and `sshTransport.Copy`:
  `valid cmd=<args> scp=<args>` or `invalid:<class>`.
* `docker <user> <container> <params> <command> <localPath> <remoteName> <home> <probedUser> <probedGroup>` —
  likewise for the Docker transport (POSIX container):
  `valid probe=<args>;<args>;<args> cmd=<args> cp=<args> chown=<args> stop=<args> start=<args>`,
  `valid flags-error` or `invalid:<class>`. `<params>` is `-` or `name=<hex>,…`.
* `parse <kind> <first> <raw> <env> <norm>` — `url.Parse`, as in the C38 stream.
`<args>` is `<n>:<hex>,<hex>,…`.
-/

def showArgs (l : List Arg) : String :=
  s!"{l.length}:" ++ ",".intercalate (l.map fun a => hexStr a.text)

/-- `connectTimeoutSeconds` (a variable, 5 unless MUTAGEN_SSH_CONNECT_TIMEOUT is set; the harness unsets it). -/
def connectTimeoutSeconds : Nat := 5

def testURL (protocol : Protocol) (user host : Str) (port : Nat) (parameters : List (Str × Str)) : URL :=
  { kind := .synchronization, protocol := protocol, user := user, host := host, port := port,
    path := "/p".toList, environment := [], parameters := parameters }

def platform : Platform := posix false (fun _ => none) (fun _ => none)

def parseParams (s : String) : Option (List (Str × Str)) :=
  (listField s).mapM fun item =>
    match item.splitOn "=" with
    | [k, v] => do pure (k.toList, ← unhexStr v)
    | _ => none

def handle (line : String) : String :=
  match fields line with
  | ["ssh", user, host, port, command, sourceBase, remoteName] =>
    match unhexStr user, unhexStr host, port.toNat?, unhexStr command, unhexStr sourceBase, unhexStr remoteName with
    | some user, some host, some port, some command, some sourceBase, some remoteName =>
      match ensureValid platform (testURL .ssh user host port []) with
      | .error e => s!"invalid:{showVErr e}"
      | .ok () =>
        s!"valid cmd={showArgs (sshCommandArgs connectTimeoutSeconds user host port command)} " ++
        s!"scp={showArgs (scpArgs connectTimeoutSeconds user host port sourceBase remoteName)}"
    | _, _, _, _, _, _ => "bad-line"
  | ["docker", user, container, params, command, localPath, remoteName, home, puser, pgroup] =>
    match unhexStr user, unhexStr container, parseParams params, unhexStr command, unhexStr localPath,
          unhexStr remoteName, unhexStr home, unhexStr puser, unhexStr pgroup with
    | some user, some container, some params, some command, some localPath, some remoteName, some home,
      some puser, some pgroup =>
      match ensureValid platform (testURL .docker user container 0 params) with
      | .error e => s!"invalid:{showVErr e}"
      | .ok () =>
        match daemonConnectionFlags params with
        | .error _ => "valid flags-error"
        | .ok flags =>
          let probe (c : String) := showArgs (dockerExecArgs flags container user c.toList [] [])
          s!"valid probe={probe "env"};{probe "id -un"};{probe "id -gn"} " ++
          s!"cmd={showArgs (dockerExecArgs flags container user command home [])} " ++
          s!"cp={showArgs (dockerCopyArgs flags container false home localPath remoteName)} " ++
          s!"chown={showArgs (dockerChownArgs flags container user home puser pgroup remoteName)} " ++
          s!"stop={showArgs (dockerStatusArgs flags container true)} " ++
          s!"start={showArgs (dockerStatusArgs flags container false)}"
    | _, _, _, _, _, _, _, _, _ => "bad-line"
  | ["sshc", user, host, port, command] =>
    match unhexStr user, unhexStr host, port.toNat?, unhexStr command with
    | some user, some host, some port, some command =>
      match ensureValid platform (testURL .ssh user host port []) with
      | .error e => s!"invalid:{showVErr e}"
      | .ok () => s!"valid cmd={showArgs (sshCommandArgs connectTimeoutSeconds user host port command)}"
    | _, _, _, _ => "bad-line"
  | ["dockerc", user, container, params, command, workdir, override] =>
    match unhexStr user, unhexStr container, parseParams params, unhexStr command, unhexStr workdir, unhexStr override with
    | some user, some container, some params, some command, some workdir, some override =>
      match ensureValid platform (testURL .docker user container 0 params) with
      | .error e => s!"invalid:{showVErr e}"
      | .ok () =>
        match daemonConnectionFlags params with
        | .error _ => "valid flags-error"
        | .ok flags => s!"valid cmd={showArgs (dockerExecArgs flags container user command workdir override)}"
    | _, _, _, _, _, _ => "bad-line"
  | "parse" :: rest => Mutagen.Driver.C38.handle (" ".intercalate rest)
  | _ => "bad-line"

end Mutagen.Driver.C36
