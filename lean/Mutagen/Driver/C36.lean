import Mutagen.Driver.Util
namespace Mutagen.Driver.C36

/-- Model-side handler for one line of the C36 correspondence stream. -/
def handle (_line : String) : String := "unimplemented"

end Mutagen.Driver.C36
