import Mutagen.Driver.Util
namespace Mutagen.Driver.C03

/-- Model-side handler for one line of the C03 correspondence stream. -/
def handle (_line : String) : String := "unimplemented"

end Mutagen.Driver.C03
