import Mutagen.Driver.Util
namespace Mutagen.Driver.C44

/-- Model-side handler for one line of the C44 correspondence stream. -/
def handle (_line : String) : String := "unimplemented"

end Mutagen.Driver.C44
