import Mutagen.Driver.Util
import Mutagen.Model.Logging
namespace Mutagen.Driver.C44
open Mutagen.Driver Mutagen.Model.Logging

/-!
Line: `<logger level> <names> <op> <op> …`

* `<names>`: `=` followed by comma-separated hex sublogger names applied in
  order (`=` alone: none; an empty name is the empty string between commas);
* ops
  * `l:<lv>:<hex>`  `Error/Warn/Info/Debug/Trace(string)` (lv 1..5),
  * `f:<lv>:<hex>`  `Errorf/…("%s", string)`,
  * `x:<lv>:<ts hex>:<hex>` raw `write(ts, level, message)`,
  * `w:<lv>:<max>:<hex>;<hex>;…` `Writer(lv)` with `MaximumBufferSize = max`, one `Write` per chunk,
  * `p:<max>:<hex>;<hex>;…` a bare `stream.LineProcessor`,
  * `re` the source of `linePrefixMatcher`.

Output: one token for the logger construction and one per op. A token is the
records written to the sink (hex, comma separated, `.` = none, `panic`), for
`w`/`p` followed by `/` and the per-chunk results (`<n>` or `E`).
Records whose timestamp came from `time.Now()` carry the canonical timestamp
`0000-00-00 00:00:00.000000` (the harness rewrites them).
-/

def now : Bytes := ascii "0000-00-00 00:00:00.000000"

def showRecs : Option (List Bytes) → String
  | none => "panic"
  | some [] => "."
  | some rs => ",".intercalate (rs.map encHex)

def showRes (rs : List (Option Nat)) : String :=
  ";".intercalate (rs.map fun r => match r with | some n => toString n | none => "E")

def parseChunks (s : String) : Option (List Bytes) := (s.splitOn ";").mapM decHex

/-- Render the model's prefix pattern in Go regexp syntax (for the `re` op). -/
def renderPats : List Pat → Nat → String
  | [], n => if n > 0 then "\\d{" ++ toString n ++ "}" else ""
  | .digit :: ps, n => renderPats ps (n + 1)
  | p :: ps, n =>
    (if n > 0 then "\\d{" ++ toString n ++ "}" else "") ++
    (match p with
     | .lit b =>
       let c := Char.ofNat b.toNat
       if c == '.' || c == '[' || c == ']' then "\\" ++ c.toString else c.toString
     | .cls bs => "([" ++ String.ofList (bs.map fun b => Char.ofNat b.toNat) ++ "])"
     | .digit => "") ++ renderPats ps 0

def build (l : Logger) : List Bytes → List Bytes → Option (Logger × List Bytes)
  | [], acc => some (l, acc)
  | n :: ns, acc =>
    match l.sublogger now n with
    | (l', some rs) => build l' ns (acc ++ rs)
    | (_, none) => none

def relayChunks (w : RelayWriter) : List Bytes → List Bytes → List (Option Nat) → Option (List Bytes) × List (Option Nat)
  | [], recs, res => (some recs, res)
  | c :: cs, recs, res =>
    match w.write now c with
    | (w', some rs, r) => relayChunks w' cs (recs ++ rs) (res ++ [r])
    | (_, none, r) => (none, res ++ [r])

def procChunks (p : LineProcessor) : List Bytes → List Bytes → List (Option Nat) → List Bytes × List (Option Nat)
  | [], lines, res => (lines, res)
  | c :: cs, lines, res =>
    let (p', ls, r) := p.write c
    procChunks p' cs (lines ++ ls) (res ++ [r])

def parseNames (s : String) : Option (List Bytes) :=
  match s.toList with
  | '=' :: [] => some []
  | '=' :: rest => ((String.ofList rest).splitOn ",").mapM decHex
  | _ => none

def stepOp (l : Logger) (op : String) : Option String :=
  match op.splitOn ":" with
  | ["l", lv, h] | ["f", lv, h] => do
    let lv ← lv.toNat?
    let m ← decHex h
    pure (showRecs (l.log now lv m))
  | ["x", lv, ts, h] => do
    let lv ← lv.toNat?
    let ts ← decHex ts
    let m ← decHex h
    if l.isNil then pure "nil" else
    pure (showRecs ((write l.scope ts lv m).map fun r => [r]))
  | ["w", lv, mx, cs] => do
    let lv ← lv.toNat?
    let mx ← mx.toInt?
    let cs ← parseChunks cs
    let w := l.writer lv
    let w := { w with lp := { w.lp with max := mx } }
    let (recs, res) := relayChunks w cs [] []
    pure (showRecs recs ++ "/" ++ showRes res)
  | ["p", mx, cs] => do
    let mx ← mx.toInt?
    let cs ← parseChunks cs
    let (lines, res) := procChunks { max := mx, buffer := [] } cs [] []
    pure (showRecs (some lines) ++ "/" ++ showRes res)
  | ["re"] => some ("^" ++ renderPats linePrefixPattern 0)
  | _ => none

def handle (line : String) : String :=
  match fields line with
  | lv :: names :: ops =>
    match lv.toNat?, parseNames names with
    | some lv, some names =>
      match build (newLogger lv) names [] with
      | none => "panic"
      | some (l, recs) =>
        match ops.mapM (stepOp l) with
        | some outs => " ".intercalate (showRecs (some recs) :: outs)
        | none => "bad-op"
    | _, _ => "bad-op"
  | _ => "bad-op"

end Mutagen.Driver.C44
