import Mutagen.Driver.Util
import Mutagen.Model.Forward
namespace Mutagen.Driver.C33
open Mutagen.Driver Mutagen.Model.Forward

/-!
Lines:

* `fac <auditors 0/1> <events>` — one `ForwardAndClose` call; events `-` or
  comma separated: `r<d>:<hex>:<accept>:<werr 0/1>` (chunk in direction `d`),
  `e<d>` (EOF), `x<d>` (read error), `c` (cancel).
  Answer: `d0=<delivered>/<closeWrites> d1=… closed=<first>/<second> aud=<first>/<second>`
  (`aud=-` when no auditors were passed).
* `sock <unix|tcp> <ab|ba|cancel> <hex A> <hex B>` — `ForwardAndClose` between
  real socket pairs; both peers send and half-close (A first / B first), or B
  keeps its side open and the context is cancelled once everything arrived.
  Answer: `ab=<B received>/<B saw EOF> ba=<A received>/<A saw EOF> closed=…/… aud=<first>/<second>`.
* `fwd <events>` — the controller's forwarding loop; events `o` (open), `of`
  (destination open fails), `s` (source open fails), `snap`, `<k>.<event>`.
  Answer: `c<k>=<d0 delivered>/<cw>/<d1 delivered>/<cw>/<closed first>/<closed second>`
  for every connection, `orphan=<n>`, `snaps=<open>/<total>/<in>/<out>;…` (or
  `-`), `end=<open>/<total>/<in>/<out>`.
-/

def parseDir : Char → Option Bool
  | '0' => some false | '1' => some true | _ => none

def parseEvent (s : String) : Option Event :=
  match s.splitOn ":" with
  | [t] =>
    match t.toList with
    | ['e', d] => do pure (.eof (← parseDir d))
    | ['x', d] => do pure (.err (← parseDir d))
    | ['c'] => some .cancel
    | _ => none
  | [t, h, a, w] =>
    match t.toList with
    | ['r', d] => do pure (.chunk (← parseDir d) (← decHex h) (← a.toNat?) (w == "1"))
    | _ => none
  | _ => none

def parseEvents (s : String) : Option (List Event) :=
  if s == "-" then some [] else (s.splitOn ",").mapM parseEvent

def parseLoopEvent (s : String) : Option LoopEvent :=
  match s with
  | "o" => some .open
  | "of" => some .openFail
  | "s" => some .stop
  | "snap" => some .snap
  | _ =>
    match s.splitOn "." with
    | [k, e] => do
      match ← parseEvent e with
      | .cancel => none   -- the loop has no per-connection cancellation
      | ev => pure (.conn (← k.toNat?) ev)
    | _ => none

def parseLoopEvents (s : String) : Option (List LoopEvent) :=
  if s == "-" then some [] else (s.splitOn ",").mapM parseLoopEvent

def showDir (d : Dir) : String := s!"{encHex d.delivered}/{d.closeWrites}"

def showCounters (c : Counters) : String :=
  s!"{c.openConnections}/{c.totalConnections}/{c.inbound}/{c.outbound}"

/-- Script of a real-socket scenario (`sock` lines): peer A's payload travels
first → second (direction `true`), peer B's payload second → first. -/
def sockScript (mode : String) (pa pb : List UInt8) : Option (List Event) :=
  let ca : List Event := if pa.isEmpty then [] else [.chunk true pa pa.length false]
  let cb : List Event := if pb.isEmpty then [] else [.chunk false pb pb.length false]
  match mode with
  | "ab" => some (ca ++ [.eof true] ++ cb ++ [.eof false])
  | "ba" => some (cb ++ [.eof false] ++ ca ++ [.eof true])
  | "cancel" => some (ca ++ [.eof true] ++ cb ++ [.cancel])
  | _ => none

def handle (line : String) : String :=
  match fields line with
  | ["sock", _kind, mode, a, b] =>
    match decHex a, decHex b with
    | some pa, some pb =>
      match sockScript mode pa pb with
      | some es =>
        let c := Conn.run es
        s!"ab={showDir c.d1} ba={showDir c.d0} closed={c.closedFirst}/{c.closedSecond} aud={c.d0.audited}/{c.d1.audited}"
      | none => "bad-op"
    | _, _ => "bad-op"
  | ["fac", aud, es] =>
    match parseEvents es with
    | some es =>
      let c := Conn.run es
      let a := if aud == "1" then s!"{c.d0.audited}/{c.d1.audited}" else "-"
      s!"d0={showDir c.d0} d1={showDir c.d1} closed={c.closedFirst}/{c.closedSecond} aud={a}"
    | none => "bad-op"
  | ["fwd", es] =>
    match parseLoopEvents es with
    | some es =>
      let l := Loop.run es
      let cs := (List.range l.conns.length).zip l.conns |>.map fun (k, c) =>
        s!"c{k}={encHex c.d0.delivered}/{c.d0.closeWrites}/{encHex c.d1.delivered}/{c.d1.closeWrites}/{c.closedFirst}/{c.closedSecond}"
      let snaps := if l.snaps.isEmpty then "-" else ";".intercalate (l.snaps.map showCounters)
      " ".intercalate (cs ++ [s!"orphan={l.orphanClosed}", s!"snaps={snaps}", s!"end={showCounters l.counters}"])
    | none => "bad-op"
  | _ => "bad-op"

end Mutagen.Driver.C33
