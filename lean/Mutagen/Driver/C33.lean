import Mutagen.Driver.Util
namespace Mutagen.Driver.C33

/-- Model-side handler for one line of the C33 correspondence stream. -/
def handle (_line : String) : String := "unimplemented"

end Mutagen.Driver.C33
