import Mutagen.Driver.Util
import Mutagen.Model.Forward
namespace Mutagen.Driver.C33
open Mutagen.Driver Mutagen.Model.Forward

/-!
Lines:

* `fac <auditors 0/1> <events>` — one `ForwardAndClose` call; events `-` or
  comma separated: `r<d>:<hex>:<accept>:<werr 0/1>` (chunk in direction `d`),
  `e<d>` (EOF), `x<d>` (read error), `c` (cancel).
  Answer: `d0=<delivered>/<closeWrites> d1=… closed=<first>/<second> aud=<first>/<second>`
  (`aud=-` when no auditors were passed).
* `fwd <events>` — the controller's forwarding loop; events `o` (open), `of`
  (destination open fails), `s` (source open fails), `snap`, `<k>.<event>`.
  Answer: `c<k>=<d0 delivered>/<cw>/<d1 delivered>/<cw>/<closed first>/<closed second>`
  for every connection, `orphan=<n>`, `snaps=<open>/<total>/<in>/<out>;…` (or
  `-`), `end=<open>/<total>/<in>/<out>`.
-/

def parseDir : Char → Option Bool
  | '0' => some false | '1' => some true | _ => none

def parseEvent (s : String) : Option Event :=
  match s.splitOn ":" with
  | [t] =>
    match t.toList with
    | ['e', d] => do pure (.eof (← parseDir d))
    | ['x', d] => do pure (.err (← parseDir d))
    | ['c'] => some .cancel
    | _ => none
  | [t, h, a, w] =>
    match t.toList with
    | ['r', d] => do pure (.chunk (← parseDir d) (← decHex h) (← a.toNat?) (w == "1"))
    | _ => none
  | _ => none

def parseEvents (s : String) : Option (List Event) :=
  if s == "-" then some [] else (s.splitOn ",").mapM parseEvent

def parseLoopEvent (s : String) : Option LoopEvent :=
  match s with
  | "o" => some .open
  | "of" => some .openFail
  | "s" => some .stop
  | "snap" => some .snap
  | _ =>
    match s.splitOn "." with
    | [k, e] => do
      match ← parseEvent e with
      | .cancel => none   -- the loop has no per-connection cancellation
      | ev => pure (.conn (← k.toNat?) ev)
    | _ => none

def parseLoopEvents (s : String) : Option (List LoopEvent) :=
  if s == "-" then some [] else (s.splitOn ",").mapM parseLoopEvent

def showDir (d : Dir) : String := s!"{encHex d.delivered}/{d.closeWrites}"

def showCounters (c : Counters) : String :=
  s!"{c.openConnections}/{c.totalConnections}/{c.inbound}/{c.outbound}"

def handle (line : String) : String :=
  match fields line with
  | ["fac", aud, es] =>
    match parseEvents es with
    | some es =>
      let c := Conn.run es
      let a := if aud == "1" then s!"{c.d0.audited}/{c.d1.audited}" else "-"
      s!"d0={showDir c.d0} d1={showDir c.d1} closed={c.closedFirst}/{c.closedSecond} aud={a}"
    | none => "bad-op"
  | ["fwd", es] =>
    match parseLoopEvents es with
    | some es =>
      let l := Loop.run es
      let cs := (List.range l.conns.length).zip l.conns |>.map fun (k, c) =>
        s!"c{k}={encHex c.d0.delivered}/{c.d0.closeWrites}/{encHex c.d1.delivered}/{c.d1.closeWrites}/{c.closedFirst}/{c.closedSecond}"
      let snaps := if l.snaps.isEmpty then "-" else ";".intercalate (l.snaps.map showCounters)
      " ".intercalate (cs ++ [s!"orphan={l.orphanClosed}", s!"snaps={snaps}", s!"end={showCounters l.counters}"])
    | none => "bad-op"
  | _ => "bad-op"

end Mutagen.Driver.C33
