import Mutagen.Driver.Util
import Mutagen.Model.Forward
namespace Mutagen.Driver.C33
open Mutagen.Driver Mutagen.Model.Forward

/-!
Lines:

* `fac <auditors 0/1> <events>` — one `ForwardAndClose` call; events `-` or
  comma separated: `r<d>:<hex>:<accept>:<werr 0/1>` (chunk in direction `d`),
  `e<d>` (EOF), `x<d>` (read error), `c` (cancel).
  Answer: `d0=<delivered>/<closeWrites> d1=… closed=<first>/<second> aud=<first>/<second>`
  (`aud=-` when no auditors were passed).
* `sock <unix|tcp> <ab|ba|cancel> <hex A> <hex B>` — `ForwardAndClose` between
  real socket pairs; both peers send and half-close (A first / B first), or B
  keeps its side open and the context is cancelled once everything arrived.
  Answer: `ab=<B received>/<B saw EOF> ba=<A received>/<A saw EOF> closed=…/… aud=<first>/<second>`.
* `ctl <events>` — `controller.run` across loop generations (see `parseCtlEvents`).
  Answer: for every generation `g<i> c<k>=… snaps=…`, then `end=` the counters
  of the current `State` after all writes in flight have returned.
* `fwd <events>` — the controller's forwarding loop; events `o` (open), `of`
  (destination open fails), `s` (source open fails), `snap`, `<k>.<event>`.
  Answer: `c<k>=<d0 delivered>/<cw>/<d1 delivered>/<cw>/<closed first>/<closed second>`
  for every connection, `orphan=<n>`, `snaps=<open>/<total>/<in>/<out>;…` (or
  `-`), `end=<open>/<total>/<in>/<out>`.
-/

def parseDir : Char → Option Bool
  | '0' => some false | '1' => some true | _ => none

def parseEvent (s : String) : Option Event :=
  match s.splitOn ":" with
  | [t] =>
    match t.toList with
    | ['e', d] => do pure (.eof (← parseDir d))
    | ['x', d] => do pure (.err (← parseDir d))
    | ['c'] => some .cancel
    | _ => none
  | [t, h, a, w] =>
    match t.toList with
    | ['r', d] => do pure (.chunk (← parseDir d) (← decHex h) (← a.toNat?) (w == "1"))
    | _ => none
  | _ => none

def parseEvents (s : String) : Option (List Event) :=
  if s == "-" then some [] else (s.splitOn ",").mapM parseEvent

def parseLoopEvent (s : String) : Option LoopEvent :=
  match s with
  | "o" => some .open
  | "of" => some .openFail
  | "s" => some .stop
  | "snap" => some .snap
  | _ =>
    match s.splitOn "." with
    | [k, e] => do
      match ← parseEvent e with
      | .cancel => none   -- the loop has no per-connection cancellation
      | ev => pure (.conn (← k.toNat?) ev)
    | _ => none

def parseLoopEvents (s : String) : Option (List LoopEvent) :=
  if s == "-" then some [] else (s.splitOn ",").mapM parseLoopEvent

def showDir (d : Dir) : String := s!"{encHex d.delivered}/{d.closeWrites}"

def showCounters (c : Counters) : String :=
  s!"{c.openConnections}/{c.totalConnections}/{c.inbound}/{c.outbound}"

/-- Script of a real-socket scenario (`sock` lines): peer A's payload travels
first → second (direction `true`), peer B's payload second → first. -/
def sockScript (mode : String) (pa pb : List UInt8) : Option (List Event) :=
  let ca : List Event := if pa.isEmpty then [] else [.chunk true pa pa.length false]
  let cb : List Event := if pb.isEmpty then [] else [.chunk false pb pb.length false]
  match mode with
  | "ab" => some (ca ++ [.eof true] ++ cb ++ [.eof false])
  | "ba" => some (cb ++ [.eof false] ++ ca ++ [.eof true])
  | "cancel" => some (ca ++ [.eof true] ++ cb ++ [.cancel])
  | _ => none

/-- `k.d:hex` — a destination write in flight at a loop teardown. -/
def parseInflight (s : String) : Option (Nat × Bool × List UInt8) :=
  match s.splitOn ":" with
  | [kd, h] =>
    match kd.splitOn "." with
    | [k, d] => do
      let d ← match d with | "0" => some false | "1" => some true | _ => none
      pure (← k.toNat?, d, ← decHex h)
    | _ => none
  | _ => none

/-- Events of a `ctl` line: the loop events `o`, `snap`, `<k>.<event>`; the
boundaries `R[/k.d:hex…]` (endpoint failure + reconnect) and `P[/k.d:hex…]`
(pause + resume), each with the destination writes in flight at the teardown;
`rel` (the writes in flight return). `s` and `of` are not allowed (a failing
`Open` is itself a boundary), and `controller.run` reconnects without delay
only once per run, so at most one `R` may follow a `P` (or the start). -/
def parseCtlEvents (s : String) : Option (List CtlEvent) :=
  if s == "-" then some [] else do
    let toks := s.splitOn ","
    let rec go (ts : List String) (rSeen : Bool) (acc : List CtlEvent) : Option (List CtlEvent) :=
      match ts with
      | [] => some acc.reverse
      | t :: rest =>
        if t == "rel" then go rest rSeen (.release :: acc)
        else if t == "s" || t == "of" then none
        else if t.startsWith "R" || t.startsWith "P" then
          match t.splitOn "/" with
          | kind :: ws =>
            if kind != "R" && kind != "P" then none
            else if kind == "R" && rSeen then none
            else
              match ws.mapM parseInflight with
              | some l => go rest (kind == "R") (.restart l :: acc)
              | none => none
          | [] => none
        else
          match parseLoopEvent t with
          | some e => go rest rSeen (.loop e :: acc)
          | none => none
    go toks false []

def showLoop (g : Nat) (l : Loop) : String :=
  let cs := (List.range l.conns.length).zip l.conns |>.map fun (k, c) =>
    s!"c{k}={encHex c.d0.delivered}/{c.d0.closeWrites}/{encHex c.d1.delivered}/{c.d1.closeWrites}/{c.closedFirst}/{c.closedSecond}"
  let snaps := if l.snaps.isEmpty then "-" else ";".intercalate (l.snaps.map showCounters)
  " ".intercalate ([s!"g{g}"] ++ cs ++ [s!"snaps={snaps}"])

def handle (line : String) : String :=
  match fields line with
  | ["ctl", es] =>
    match parseCtlEvents es with
    | some es =>
      let c := Ctl.run es
      let gens := c.past.reverse ++ [c.cur]
      let parts := (List.range gens.length).zip gens |>.map fun (g, l) => showLoop g l
      " ".intercalate (parts ++ [s!"end={showCounters c.cur.counters}"])
    | none => "bad-op"
  | ["sock", _kind, mode, a, b] =>
    match decHex a, decHex b with
    | some pa, some pb =>
      match sockScript mode pa pb with
      | some es =>
        let c := Conn.run es
        s!"ab={showDir c.d1} ba={showDir c.d0} closed={c.closedFirst}/{c.closedSecond} aud={c.d0.audited}/{c.d1.audited}"
      | none => "bad-op"
    | _, _ => "bad-op"
  | ["fac", aud, es] =>
    match parseEvents es with
    | some es =>
      let c := Conn.run es
      let a := if aud == "1" then s!"{c.d0.audited}/{c.d1.audited}" else "-"
      s!"d0={showDir c.d0} d1={showDir c.d1} closed={c.closedFirst}/{c.closedSecond} aud={a}"
    | none => "bad-op"
  | ["fwd", es] =>
    match parseLoopEvents es with
    | some es =>
      let l := Loop.run es
      let cs := (List.range l.conns.length).zip l.conns |>.map fun (k, c) =>
        s!"c{k}={encHex c.d0.delivered}/{c.d0.closeWrites}/{encHex c.d1.delivered}/{c.d1.closeWrites}/{c.closedFirst}/{c.closedSecond}"
      let snaps := if l.snaps.isEmpty then "-" else ";".intercalate (l.snaps.map showCounters)
      " ".intercalate (cs ++ [s!"orphan={l.orphanClosed}", s!"snaps={snaps}", s!"end={showCounters l.counters}"])
    | none => "bad-op"
  | _ => "bad-op"

end Mutagen.Driver.C33
