import Mutagen.Driver.Util
import Mutagen.Driver.Tree
namespace Mutagen.Driver.C06
open Mutagen.Driver

/-- Lines:
`<mode> <A> <alpha> <beta>` (encoding of `Driver/Tree.lean`) → the canonical plan
`anc=… alpha=… beta=… conf=…` of the model's `Reconcile`;
`cfvalid <conflict>` → `Conflict.EnsureValid() == nil` as 0/1, `|`, the `Slim()` conflict. -/
def handle (line : String) : String :=
  match fields line with
  | ["cfvalid", c] => Mutagen.Driver.Tree.handleConflictValid c
  | _ => Mutagen.Driver.Tree.handleReconcile line

end Mutagen.Driver.C06
