import Mutagen.Driver.Util
namespace Mutagen.Driver.C06

/-- Model-side handler for one line of the C06 correspondence stream. -/
def handle (_line : String) : String := "unimplemented"

end Mutagen.Driver.C06
