import Mutagen.Driver.Util
import Mutagen.Model.Bundle
namespace Mutagen.Driver.C46
open Mutagen.Driver Mutagen.Model.Bundle

/-!
Line (`%20` in the directory name stands for a space): `<exe dir name> <state of <exe dir>/bundle> <state of ../libexec/bundle> <goos hex> <goarch hex> <o|t>`

States (concrete layouts made by the harness → abstract `LocState`):
`A0` directory missing, `A1` directory without bundle, `S` dangling symbolic
link (all `absent`); `D` a directory at the bundle path (`notFile`); `E` the
directory itself is a regular file, `L` symbolic-link loop (both `openErr`);
`F=<archive>` regular file, `K=<archive>` symbolic link to a regular file.
Archive: `G` (not gzip) or `<e|j|t>=<hexname>/<hexdata>;…` (end: clean EOF,
junk block, truncated inside the last entry).

Output: `ok <hex data> <octal mode> <out|tmp|tmp.exe>` or `err <kind>`.
-/

def parseEntries (s : String) : Option (List Entry) :=
  if s == "" then some [] else
  (s.splitOn ";").mapM fun e =>
    match e.splitOn "/" with
    | [n, d] => do pure { name := ← decHex n, data := ← decHex d }
    | _ => none

def parseArchive : List String → Option Archive
  | ["G"] => some { gzipOK := false, entries := [], fin := .eof }
  | [fin, es] => do
    let fin ← match fin with
      | "e" => some ArchEnd.eof | "j" => some ArchEnd.junk | "t" => some ArchEnd.trunc | _ => none
    pure { gzipOK := true, entries := ← parseEntries es, fin := fin }
  | _ => none

def parseState (s : String) : Option LocState :=
  match s.splitOn "=" with
  | ["A0"] | ["A1"] | ["S"] => some .absent
  | ["D"] => some .notFile
  | ["E"] | ["L"] => some .openErr
  | "F" :: a | "K" :: a => (parseArchive a).map .file
  | _ => none

def showErr : Err → String
  | .locate => "locate" | .open => "open" | .notFile => "notfile" | .decompress => "decompress"
  | .header => "header" | .unsupported => "unsupported" | .copy => "copy"

def octal (n : Nat) : String := String.ofList (Nat.toDigits 8 n)

def handle (line : String) : String :=
  match fields line with
  | [dirName, s1, s2, goos, goarch, out] =>
    match parseState s1, parseState s2, decHex goos, decHex goarch with
    | some st1, some st2, some goos, some goarch =>
      let dirName := dirName.replace "%20" " "
      let exe : Path := ["w", dirName, "c46"]
      let fs : Path → LocState := fun p =>
        if p = ["w", dirName] then st1 else if p = ["w", "libexec"] then st2 else .absent
      match executableForPlatform fs exe goos goarch with
      | .error e => "err " ++ showErr e
      | .ok x =>
        let cls := if out == "o" then "out" else if x.windowsName then "tmp.exe" else "tmp"
        s!"ok {encHex x.data} {octal x.mode} {cls}"
    | _, _, _, _ => "bad-op"
  | _ => "bad-op"

end Mutagen.Driver.C46
