import Mutagen.Driver.Util
namespace Mutagen.Driver.C46

/-- Model-side handler for one line of the C46 correspondence stream. -/
def handle (_line : String) : String := "unimplemented"

end Mutagen.Driver.C46
