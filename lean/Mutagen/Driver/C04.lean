import Mutagen.Driver.Util
namespace Mutagen.Driver.C04

/-- Model-side handler for one line of the C04 correspondence stream. -/
def handle (_line : String) : String := "unimplemented"

end Mutagen.Driver.C04
