import Mutagen.Driver.Util
import Mutagen.Driver.Tree
namespace Mutagen.Driver.C04
open Mutagen.Driver Mutagen.Driver.Tree Mutagen.Model

/-!
Line: `<mode> <A> <alpha> <beta>`.  One fully applied cycle followed by a second
reconciliation:
  plan₁ = Reconcile A α β;  A' = Apply A (plan₁.anc ++ results(α changes) ++ results(β changes))
  with ideal results (`New` of every change), α' = Apply α (α changes), β' = Apply β (β changes);
  plan₂ = Reconcile A' α' β'.
Answer: `<plan₁> | <A'> <α'> <β'> | <plan₂>`, or `<plan₁> | err:<which>` when an Apply fails.
-/

/-- controller.go:1347/1358: a transition result as an ancestor change. -/
def resultChange (c : Change) : Change := { path := c.path, old := none, new := c.new }

def handle (line : String) : String :=
  match parseTriple (fields line) with
  | none => "bad-op"
  | some (m, a, al, be) =>
    let p1 := Reconcile a al be m
    let ancChanges := p1.anc ++ p1.alpha.map resultChange ++ p1.beta.map resultChange
    match apply a ancChanges, apply al p1.alpha, apply be p1.beta with
    | .ok a', .ok al', .ok be' =>
      let p2 := Reconcile a' al' be' m
      showPlan p1 ++ " | " ++ showOEntry a' ++ " " ++ showOEntry al' ++ " " ++ showOEntry be' ++ " | " ++ showPlan p2
    | ra, ral, rbe =>
      let bad (r : Except ApplyErr (Option Entry)) : Bool := match r with | .ok _ => false | .error _ => true
      showPlan p1 ++ " | err:" ++ (if bad ra then "ancestor" else if bad ral then "alpha" else if bad rbe then "beta" else "none")

end Mutagen.Driver.C04
