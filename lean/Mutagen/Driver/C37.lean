import Mutagen.Driver.Util
namespace Mutagen.Driver.C37

/-- Model-side handler for one line of the C37 correspondence stream. -/
def handle (_line : String) : String := "unimplemented"

end Mutagen.Driver.C37
