import Mutagen.Driver.Util
import Mutagen.Model.Config
namespace Mutagen.Driver.C37
open Mutagen.Driver Mutagen.Model.Config

/-!
Lines:
* `cfg <c> <cα> <cβ>` / `cfgl <c> <cα> <cβ>` — three configurations, each
  `sm/ha/mec/msfs/pm/scm/stm/slm/wm/wpi/is/di/ig/vcs/perm/fm/dm/owner/group/ca`
  (numbers decimal; `di`, `ig` lists of hex strings joined by `,` or `-`;
  owner/group hex).
  Output: `c=<v> a=<v> b=<v> ma=<v> mb=<v> sess=<v> spec=<v> | <merge c cα> | <merge c cβ>` and, for `cfgl`,
  ` | <perm>,<fm>,<dm> <perm>,<fm>,<dm>` (or ` | -` when the session is rejected)
  where `<v>` is `ok` or the error class of `EnsureValid` (session-wide,
  endpoint-specific ×2, merged ×2 validated as session-wide i.e. what the remote
  endpoint does), `sess` the session-level verdict (`ok` or `<stage>:<class>`),
  and the last field the effective permissions/file/directory modes of the
  local endpoint for each merged configuration.
* `alias <k> <base> <mid> <h1> <h2>` — layered merges: `lower = merge base mid` (its ignore slices
  re-allocated with `k` spare elements of capacity by the harness), then `merge lower h1` and
  `merge lower h2` on the same `lower`. Output (rendered after both merges):
  `<lower> | <merge lower h1> | <merge lower h2>`.
* `text <table> <value>` — `MarshalText` of the value, `UnmarshalText` of that
  text, `Supported()`: `<hex text> <value|err> <0|1>`.
* `parse <table> <hex text>` — `UnmarshalText`: `<value|err>`.
-/

def hexStr (s : Str) : String := encHex (charsToBytes s)
def unhexStr (s : String) : Option Str := (decHex s).map bytesToChars

def showCErr : CErr → String
  | .syncEndpointSpecific => "sync-endpoint-specific" | .syncUnsupported => "sync-unsupported"
  | .hashEndpointSpecific => "hash-endpoint-specific" | .hashUnsupported => "hash-unsupported" | .hashLicense => "hash-license"
  | .probe => "probe" | .scan => "scan" | .stage => "stage"
  | .symlinkEndpointSpecific => "symlink-endpoint-specific" | .symlinkUnsupported => "symlink-unsupported"
  | .watch => "watch"
  | .syntaxEndpointSpecific => "syntax-endpoint-specific" | .syntaxUnsupported => "syntax-unsupported"
  | .defaultIgnoresEndpointSpecific => "default-ignores-endpoint-specific" | .ignoresEndpointSpecific => "ignores-endpoint-specific"
  | .vcsEndpointSpecific => "vcs-endpoint-specific" | .vcsUnsupported => "vcs-unsupported"
  | .permEndpointSpecific => "perm-endpoint-specific" | .permUnsupported => "perm-unsupported"
  | .fileModeBits => "file-mode-bits" | .fileModeExec => "file-mode-exec" | .directoryModeBits => "directory-mode-bits"
  | .owner => "owner" | .group => "group"
  | .compressUnsupported => "compress-unsupported" | .compressLicense => "compress-license"

def showStage : Stage → String
  | .session => "session" | .alpha => "alpha" | .beta => "beta" | .mergedAlpha => "merged-alpha" | .mergedBeta => "merged-beta"

def showV : Except CErr Unit → String
  | .ok () => "ok"
  | .error e => showCErr e

def parseStrList (s : String) : Option (List Str) := (listField s).mapM unhexStr

def showStrList (l : List Str) : String := if l.isEmpty then "-" else ",".intercalate (l.map hexStr)

def parseConfig (s : String) : Option Configuration :=
  match s.splitOn "/" with
  | [sm, ha, mec, msfs, pm, scm, stm, slm, wm, wpi, is, di, ig, vcs, perm, fm, dm, owner, group, ca] => do
    pure { synchronizationMode := ← sm.toNat?, hashingAlgorithm := ← ha.toNat?, maximumEntryCount := ← mec.toNat?,
           maximumStagingFileSize := ← msfs.toNat?, probeMode := ← pm.toNat?, scanMode := ← scm.toNat?,
           stageMode := ← stm.toNat?, symbolicLinkMode := ← slm.toNat?, watchMode := ← wm.toNat?,
           watchPollingInterval := ← wpi.toNat?, ignoreSyntax := ← is.toNat?, defaultIgnores := ← parseStrList di,
           ignores := ← parseStrList ig, ignoreVCSMode := ← vcs.toNat?, permissionsMode := ← perm.toNat?,
           defaultFileMode := ← fm.toNat?, defaultDirectoryMode := ← dm.toNat?, defaultOwner := ← unhexStr owner,
           defaultGroup := ← unhexStr group, compressionAlgorithm := ← ca.toNat? }
  | _ => none

def showConfig (c : Configuration) : String :=
  "/".intercalate [toString c.synchronizationMode, toString c.hashingAlgorithm, toString c.maximumEntryCount,
    toString c.maximumStagingFileSize, toString c.probeMode, toString c.scanMode, toString c.stageMode,
    toString c.symbolicLinkMode, toString c.watchMode, toString c.watchPollingInterval, toString c.ignoreSyntax,
    showStrList c.defaultIgnores, showStrList c.ignores, toString c.ignoreVCSMode, toString c.permissionsMode,
    toString c.defaultFileMode, toString c.defaultDirectoryMode, hexStr c.defaultOwner, hexStr c.defaultGroup,
    toString c.compressionAlgorithm]

/-- The build under test: no SSPL-licensed code (`xxh128_nosspl.go`, `zstandard_nosspl.go`). -/
def build : Build := { xxh128 := .unsupported, zstandard := .unsupported }

def table : String → Option ModeTable
  | "sync" => some synchronizationModes | "hash" => some hashingAlgorithms | "probe" => some probeModes
  | "scan" => some scanModes | "stage" => some stageModes | "symlink" => some symbolicLinkModes
  | "watch" => some watchModes | "syntax" => some ignoreSyntaxes | "vcs" => some ignoreVCSModes
  | "perm" => some permissionsModes | "compress" => some compressionAlgorithms | _ => none

def showOptNat : Option Nat → String
  | some n => toString n
  | none => "err"

def effective (m : Configuration) : String :=
  s!"{endpointPermissionsMode m},{endpointFileMode m},{endpointDirectoryMode m}"

def handle (line : String) : String :=
  match fields line with
  | [kind, c, ca, cb] =>
    if kind != "cfg" && kind != "cfgl" then "bad-line" else
    match parseConfig c, parseConfig ca, parseConfig cb with
    | some c, some ca, some cb =>
      let ma := merge c ca
      let mb := merge c cb
      let accepted := sessionAccepts build c ca cb
      let sess := match accepted with
        | .ok () => "ok"
        | .error (st, e) => s!"{showStage st}:{showCErr e}"
      let base :=
        s!"c={showV (ensureValid build false c)} a={showV (ensureValid build true ca)} b={showV (ensureValid build true cb)} " ++
        s!"ma={showV (endpointAccepts build ma)} mb={showV (endpointAccepts build mb)} sess={sess} spec={sess} | " ++
        s!"{showConfig ma} | {showConfig mb}"
      if kind == "cfgl" then
        base ++ " | " ++ (match accepted with
          | .ok () => s!"{effective ma} {effective mb}"
          | .error _ => "-")
      else base
    | _, _, _ => "bad-line"
  | ["alias", _k, base, mid, h1, h2] =>
    -- layered merges sharing one lower configuration (the harness adds spare slice capacity `k`)
    match parseConfig base, parseConfig mid, parseConfig h1, parseConfig h2 with
    | some base, some mid, some h1, some h2 =>
      let lower := merge base mid
      s!"{showConfig lower} | {showConfig (merge lower h1)} | {showConfig (merge lower h2)}"
    | _, _, _, _ => "bad-line"
  | ["text", t, v] =>
    match table t, v.toNat? with
    | some t', some v =>
      let txt := if t == "vcs" then (marshalJSON t' v).getD "!" else marshalText t' v
      let back := if txt == "!" then "err" else showOptNat (unmarshalText t' txt)
      s!"{encHex txt.toUTF8.toList} {back} {if supportedIn t' v then 1 else 0}"
    | _, _ => "bad-line"
  | ["parse", t, h] =>
    match table t, decHex h with
    | some t', some bytes =>
      match String.fromUTF8? (ByteArray.mk bytes.toArray) with
      | some s => showOptNat (unmarshalText t' s)
      | none => "err"
    | _, _ => "bad-line"
  | _ => "bad-line"

end Mutagen.Driver.C37
