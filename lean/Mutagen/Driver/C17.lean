import Mutagen.Driver.ScanText
import Mutagen.Model.Handles
namespace Mutagen.Driver.C17
open Mutagen.Driver Mutagen.Driver.Tree Mutagen.Model.Handles

/-!
Two kinds of lines (grammar shared with `harness/cmd/c17`):

`scan <scan line>` — a scan line of `Mutagen.Driver.ScanText` (a scan of a root
that contains links to the canary, possibly with a directory swapped for a
link at the moment it is opened = an `od` fault).

`ops <fs> <item>*` — an inode table and a script.
```
fs    := 'R' ino {'|' ino ':' node}
node  := 'D' parent '[' [text '>' ino {',' text '>' ino}] ']' | 'F' hex | 'L' text
item  := 'o:' path            Opener.OpenFile on the case's opener      → ok:<hex> | fail
       | 'n'                  close the opener, create a new one         → -
       | 'p:' d ':' name ':' ('f'|'d')   Directory.OpenFile / OpenDirectory(name) on directory inode d
                                                                         → ok:<hex> | ok-dir | fail
       | 't:' path {',' path} rsync.Transmit of the paths                → per path ok:<hex> | fail, joined by ','
       | 'r:' path {',' path} rsync receiver with non-empty signatures   → per path sink | burn
       | 'cf:' path | 'cd:' path | 'cl:' path   Transition creating a file / directory / link → ok | fail
       | 'rm:' path           Transition removing a file                 → ok | fail
       | 'x:' path            Transition changing only the executability of a file (SetPermissions) → ok | fail
       | 'sx:' path ':' text  the same, the file swapped for a link to `text` when SetPermissions starts → ok | fail
       | 'sd:' path ':' text  Transition creating a directory, swapped for a link when SetPermissions starts → ok | fail
       | 'sf:' path           Transition creating a file from another device, the intermediate temporary
                              file swapped for a link when SetPermissions starts (it is removed again) → fail
       | 'mv:' d ':' name ':' d ':' name | 'ln:' d ':' name ':' text | 'put:' d ':' name ':' hex
       | 'mk:' d ':' name | 'un:' d ':' name     adversary steps (directory inode, single name) → -
path  := text ('%' alone = the empty path)
```
New inodes get the number `max + 1`.
-/

def parseEntries (s : String) : Option (List (Name × Ino)) :=
  if s == "" then some [] else
  (s.splitOn ",").mapM fun it =>
    match it.splitOn ">" with
    | [n, i] => do pure (← decText n, ← i.toNat?)
    | _ => none

def parseNode (s : String) : Option INode :=
  match s.toList with
  | 'D' :: r =>
    let body := String.ofList r
    match body.splitOn "[" with
    | [p, rest] =>
      if rest.endsWith "]" then do
        let es ← parseEntries ((rest.dropEnd 1).toString)
        pure (.dir (← p.toNat?) es)
      else none
    | _ => none
  | 'F' :: r => (decHex (let h := String.ofList r; if h == "" then "-" else h)).map .file
  | 'L' :: r => (decText (String.ofList r)).map .symlink
  | _ => none

def parseFS (s : String) : Option FS :=
  match s.splitOn "|" with
  | hd :: rest =>
    match hd.toList with
    | 'R' :: r => do
      let root ← (String.ofList r).toNat?
      let nodes ← rest.mapM fun it =>
        match it.splitOn ":" with
        | [i, n] => do pure (← i.toNat?, ← parseNode n)
        | _ => none
      pure { nodes := nodes, root := root }
    | _ => none
  | [] => none

def nextIno (fs : FS) : Ino := (fs.nodes.foldl (fun m p => max m p.1) 0) + 1

def content (fs : FS) (i : Ino) : String :=
  match fs.get i with
  | some (.file c) => encHex c
  | _ => "?"

def showOpen (fs : FS) : Except Err Ino → String
  | .ok i => "ok:" ++ content fs i
  | .error _ => "fail"

/-- A fresh opener over a list of paths (rsync.Transmit / the receiver). -/
def openAll (fs : FS) : List String → Opener → List (Except Err Ino) → List (Except Err Ino)
  | [], _, acc => acc.reverse
  | p :: rest, o, acc =>
    let (o', r, _) := o.openFile fs p
    openAll fs rest o' (r :: acc)

def parsePaths (s : String) : Option (List String) := (s.splitOn ",").mapM decText

structure St where
  fs : FS
  opener : Opener := {}

def step (st : St) (item : String) : Option (St × String) :=
  match item.splitOn ":" with
  | ["o", p] => do
    let path ← decText p
    let (o, r, _) := st.opener.openFile st.fs path
    pure ({ st with opener := o }, showOpen st.fs r)
  | ["n"] => some ({ st with opener := {} }, "-")
  | ["p", d, n, k] => do
    let d ← d.toNat?
    let name ← decText n
    match openAt st.fs d name (k == "d") with
    | .ok i => pure (st, if k == "d" then "ok-dir" else "ok:" ++ content st.fs i)
    | .error _ => pure (st, "fail")
  | ["x", p] => do
    let path ← decText p
    match (chmodFileRace st.fs st.fs path).1 with
    | some (.ok _) => pure (st, "ok")
    | _ => pure (st, "fail")
  | ["sx", p, t] => do
    let path ← decText p
    let target ← decText t
    match (chmodFileRace st.fs st.fs path).1, walkToParent st.fs path true with
    | some _, (.ok (parent, leaf), _) =>
      -- SetPermissions is reached: the adversary swaps the entry first
      let i := nextIno st.fs
      let fs' := (st.fs.set i (.symlink target)).bind parent leaf i
      let out := match (chmodFileRace st.fs fs' path).1 with | some (.ok _) => "ok" | _ => "fail"
      pure ({ st with fs := fs' }, out)
    | _, _ => pure (st, "fail")
  | ["sd", p, t] => do
    let path ← decText p
    let target ← decText t
    match (createAt st.fs path).1, walkToParent st.fs path false with
    | true, (.ok (parent, leaf), _) =>
      let i1 := nextIno st.fs
      let fs1 := (st.fs.set i1 (.dir parent [])).bind parent leaf i1
      let i2 := nextIno fs1
      let fs2 := (fs1.set i2 (.symlink target)).bind parent leaf i2
      let out := match setPermAt fs2 parent leaf with | .ok _ => "ok" | .error _ => "fail"
      pure ({ st with fs := fs2 }, out)
    | _, _ => pure (st, "fail")
  | ["sf", _] => some (st, "fail")
  | ["t", ps] => do
    let rs := openAll st.fs (← parsePaths ps) {} []
    pure (st, ",".intercalate (rs.map (showOpen st.fs)))
  | ["r", ps] => do
    let rs := openAll st.fs (← parsePaths ps) {} []
    pure (st, ",".intercalate (rs.map fun r => match r with | .ok _ => "sink" | .error _ => "burn"))
  | [k, p] =>
    if k == "cf" || k == "cd" || k == "cl" then do
      let path ← decText p
      let (ok, _) := createAt st.fs path
      if !ok then pure (st, "fail") else
      match walkToParent st.fs path false with
      | (.ok (parent, leaf), _) =>
        let i := nextIno st.fs
        let node : INode := if k == "cf" then .file [110, 101, 119] else if k == "cd" then .dir parent [] else .symlink "t"
        pure ({ st with fs := (st.fs.set i node).bind parent leaf i }, "ok")
      | _ => pure (st, "fail")
    else if k == "rm" then do
      let path ← decText p
      let (ok, _) := removeFileAt st.fs path
      if !ok then pure (st, "fail") else
      match walkToParent st.fs path true with
      | (.ok (parent, leaf), _) => pure ({ st with fs := st.fs.unbind parent leaf }, "ok")
      | _ => pure (st, "fail")
    else none
  | ["mv", d1, n1, d2, n2] => do
    let d1 ← d1.toNat?; let d2 ← d2.toNat?; let n1 ← decText n1; let n2 ← decText n2
    match st.fs.entry d1 n1 with
    | some i => pure ({ st with fs := ((st.fs.unbind d1 n1).bind d2 n2 i).reparent i d2 }, "-")
    | none => pure (st, "-")
  | ["ln", d, n, t] => do
    let d ← d.toNat?; let n ← decText n; let t ← decText t
    let i := nextIno st.fs
    pure ({ st with fs := (st.fs.set i (.symlink t)).bind d n i }, "-")
  | ["put", d, n, h] => do
    let d ← d.toNat?; let n ← decText n; let c ← decHex h
    let i := nextIno st.fs
    pure ({ st with fs := (st.fs.set i (.file c)).bind d n i }, "-")
  | ["mk", d, n] => do
    let d ← d.toNat?; let n ← decText n
    let i := nextIno st.fs
    pure ({ st with fs := (st.fs.set i (.dir d [])).bind d n i }, "-")
  | ["un", d, n] => do
    let d ← d.toNat?; let n ← decText n
    pure ({ st with fs := st.fs.unbind d n }, "-")
  | _ => none

def run (st : St) : List String → List String → Option (List String)
  | [], acc => some acc.reverse
  | it :: rest, acc => do
    let (st', out) ← step st it
    run st' rest (out :: acc)

def handle (line : String) : String :=
  match fields line with
  | "scan" :: _ => Mutagen.Driver.ScanText.handle ((line.drop 5).toString)
  -- concurrent directory↔link flipping against the real primitives: in the model every open is
  -- `openat(O_NOFOLLOW)` (Properties/C17 `open_no_follow`, `open_flags_never_follow`), so every
  -- interleaving is contained; the implementation side reports an escape through its oracle.
  | "race" :: _ => "race:contained"
  -- a case the implementation driver had to abandon (reported through its oracle)
  | "aborted" :: _ => "aborted"
  | "ops" :: fs :: items =>
    match parseFS fs with
    | some fs =>
      match run { fs := fs } items [] with
      | some outs => if outs.isEmpty then "-" else " ".intercalate outs
      | none => "bad-op"
    | none => "bad-op"
  | _ => "bad-op"

end Mutagen.Driver.C17
