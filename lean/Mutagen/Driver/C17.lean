import Mutagen.Driver.Util
namespace Mutagen.Driver.C17

/-- Model-side handler for one line of the C17 correspondence stream. -/
def handle (_line : String) : String := "unimplemented"

end Mutagen.Driver.C17
