import Mutagen.Driver.Util
import Mutagen.Model.Ring
namespace Mutagen.Driver.C26
open Mutagen.Driver Mutagen.Model.Ring

/-!
Line: `<capacity> <op> <op> …` with ops
  `w:<hex>` Write, `wb:<hex byte>` WriteByte, `r:<n>` Read into n bytes,
  `rb` ReadByte, `reset`,
  `rn:<n>:<hex>/<e>;<hex>/<e>…` ReadNFrom with a scripted reader (e ∈ 0 none, 1 EOF, 2 other),
  `wt:<accept>/<fail>;…` WriteTo with a scripted writer.
Output: one token per op `<result>@<used>` and finally `|<drained contents>`.
-/

def showErr : Err → String
  | .none => "ok" | .full => "full" | .eof => "eof" | .peer => "peer"

def parseErr : String → Option Err
  | "0" => some .none | "1" => some .eof | "2" => some .peer | _ => none

def parseReadScript (s : String) : Option (List ReadResp) :=
  if s == "" then some [] else
  (s.splitOn ";").mapM fun r =>
    match r.splitOn "/" with
    | [h, e] => do pure { bytes := ← decHex h, err := ← parseErr e }
    | _ => none

def parseWriteScript (s : String) : Option (List WriteResp) :=
  if s == "" then some [] else
  (s.splitOn ";").mapM fun r =>
    match r.splitOn "/" with
    | [a, f] => do pure { accept := ← a.toNat?, fail := f == "1" }
    | _ => none

def parseOp (op : String) : Option Op :=
  match op.splitOn ":" with
  | ["w", h] => do pure (.write (← decHex h))
  | ["wb", h] => do
    match ← decHex h with
    | [v] => pure (.writeByte v)
    | _ => none
  | ["r", n] => do pure (.read (← n.toNat?))
  | ["rb"] => some .readByte
  | ["reset"] => some .reset
  | ["rn", n, script] => do pure (.readNFrom (← parseReadScript script) (← n.toNat?))
  | ["wt", script] => do pure (.writeTo (← parseWriteScript script))
  | _ => none

def showOut : Out → String
  | .count n e => s!"{n}/{showErr e}"
  | .err e => showErr e
  | .bytes l e => s!"{encHex l}/{showErr e}"
  | .byte v e => s!"{encHex v.toList}/{showErr e}"
  | .unit => "ok"

def stepOp (b : Buffer) (op : String) : Option (Buffer × String) := do
  let (b', out) := b.step (← parseOp op)
  pure (b', showOut out)

def run (b : Buffer) : List String → List String → Option (Buffer × List String)
  | [], acc => some (b, acc.reverse)
  | op :: ops, acc => do
    let (b', out) ← stepOp b op
    run b' ops (s!"{out}@{b'.used}" :: acc)

def handle (line : String) : String :=
  match fields line with
  | cap :: ops =>
    match cap.toNat? with
    | some c =>
      match run (new c) ops [] with
      | some (b, outs) => " ".intercalate outs ++ s!" |{encHex b.abs}"
      | none => "bad-op"
    | none => "bad-op"
  | _ => "bad-op"

end Mutagen.Driver.C26
