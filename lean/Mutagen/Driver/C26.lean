import Mutagen.Driver.Util
import Mutagen.Model.Ring
namespace Mutagen.Driver.C26
open Mutagen.Driver Mutagen.Model.Ring

/-!
Line: `<capacity> <op> <op> …` with ops
  `w:<hex>` Write, `wb:<hex byte>` WriteByte, `r:<n>` Read into n bytes,
  `rb` ReadByte, `reset`,
  `rn:<n>:<hex>/<e>;<hex>/<e>…` ReadNFrom with a scripted reader (e ∈ 0 none, 1 EOF, 2 other),
  `wt:<accept>/<fail>;…` WriteTo with a scripted writer.
Output: one token per op `<result>@<used>` and finally `|<drained contents>`.
-/

def showErr : Err → String
  | .none => "ok" | .full => "full" | .eof => "eof" | .peer => "peer"

def parseErr : String → Option Err
  | "0" => some .none | "1" => some .eof | "2" => some .peer | _ => none

def parseReadScript (s : String) : Option (List ReadResp) :=
  if s == "" then some [] else
  (s.splitOn ";").mapM fun r =>
    match r.splitOn "/" with
    | [h, e] => do pure { bytes := ← decHex h, err := ← parseErr e }
    | _ => none

def parseWriteScript (s : String) : Option (List WriteResp) :=
  if s == "" then some [] else
  (s.splitOn ";").mapM fun r =>
    match r.splitOn "/" with
    | [a, f] => do pure { accept := ← a.toNat?, fail := f == "1" }
    | _ => none

def stepOp (b : Buffer) (op : String) : Option (Buffer × String) :=
  match op.splitOn ":" with
  | ["w", h] => do
    let d ← decHex h
    let (b', n, e) := b.write d
    pure (b', s!"{n}/{showErr e}")
  | ["wb", h] => do
    match ← decHex h with
    | [v] => let (b', e) := b.writeByte v; pure (b', showErr e)
    | _ => none
  | ["r", n] => do
    let (b', out, e) := b.read (← n.toNat?)
    pure (b', s!"{encHex out}/{showErr e}")
  | ["rb"] =>
    let (b', v, e) := b.readByte
    some (b', s!"{encHex v.toList}/{showErr e}")
  | ["reset"] => some (b.reset, "ok")
  | ["rn", n, script] => do
    let (b', r, e) := b.readNFrom (← parseReadScript script) (← n.toNat?)
    pure (b', s!"{r}/{showErr e}")
  | ["wt", script] => do
    let (b', out, e) := b.writeTo (← parseWriteScript script)
    pure (b', s!"{encHex out}/{showErr e}")
  | _ => none

def run (b : Buffer) : List String → List String → Option (Buffer × List String)
  | [], acc => some (b, acc.reverse)
  | op :: ops, acc => do
    let (b', out) ← stepOp b op
    run b' ops (s!"{out}@{b'.used}" :: acc)

def handle (line : String) : String :=
  match fields line with
  | cap :: ops =>
    match cap.toNat? with
    | some c =>
      match run (new c) ops [] with
      | some (b, outs) => " ".intercalate outs ++ s!" |{encHex b.abs}"
      | none => "bad-op"
    | none => "bad-op"
  | _ => "bad-op"

end Mutagen.Driver.C26
