import Mutagen.Driver.Util
import Mutagen.Model.PollWatch
namespace Mutagen.Driver.C42
open Mutagen.Driver Mutagen.Model.PollWatch

/-!
Trace validation. Line: `a=<0|1> d=<content> <event> …`

* `E<c>` — another program changes the root to content `c`;
* `S<f>:<c>` — `Scan(full=f)` returned a snapshot with content `c`;
* `Tb<c>` / `Te<m>` — `Transition` towards content `c` called / returned
  (`m`: its results differ from the old entries);
* `Q1` — a poll signal was pending and was consumed; `Q0` — none was pending;
* `W` — at least one polling scan has started since the harness began to wait
  (counted through the fault hook);
* `Z` — polling scans have happened, every strobe they decided on has long been
  delivered, and no poll signal is pending;
* `B1` / `B0` — the root was replaced by a symbolic link (scans fail) / the
  link was removed.

Polling scans and the transition's disk mutation are invisible steps. The
journal is accepted iff it is the visible trace of a run of the (repaired)
model.
-/

def tauSteps (s : St) : List St :=
  -- a polling scan can run at any time, also while a transition works with the
  -- lock released
  -- … and the strobe it decides on is issued and delivered a little later
  [if s.broken then tickFail s else tick s] ++ (transApply s).toList ++ (if s.owed then [deliver s] else [])

def insertNew (acc : List St) (s : St) : List St × Bool :=
  if acc.contains s then (acc, false) else (s :: acc, true)

def closure : Nat → List St → List St → List St
  | 0, acc, _ => acc
  | _, acc, [] => acc
  | fuel + 1, acc, s :: work =>
    let (acc, work) := (tauSteps s).foldl (init := (acc, work)) fun (acc, work) s' =>
      let (acc', fresh) := insertNew acc s'
      (acc', if fresh then s' :: work else work)
    closure fuel acc work

def closeSet (l : List St) : List St :=
  let l := l.foldl (fun acc s => (insertNew acc s).1) []
  closure 10000 l l

def natOf (cs : List Char) : Option Nat := (String.ofList cs).toNat?

def step (cur : List St) (tok : String) : Option (List St) :=
  match tok.toList with
  | 'E' :: cs => do
    let c ← natOf cs
    pure (closeSet (cur.map fun s => edit s c))
  | 'S' :: f :: ':' :: cs => do
    let c ← natOf cs
    let full := f == '1'
    pure (closeSet (cur.filterMap fun s =>
      if s.trans.isSome || s.broken then none else
      let (s', sn) := scan s full
      if sn.content == c then some s' else none))
  | 'T' :: 'b' :: cs => do
    let c ← natOf cs
    pure (closeSet (cur.filterMap fun s => transBegin s c))
  | ['T', 'e', m] =>
    some (closeSet (cur.filterMap fun s =>
      -- the journal records whether some result differed from its old entry at
      -- any depth (computed by the harness, independently of the code)
      match transEnd s [none] (if m == '1' then [some ⟨1, []⟩] else [none]) with
      | some (s', made) => if made == (m == '1') then some s' else none
      | none => none))
  | ['Q', '1'] => some (closeSet (cur.filterMap pollReturn))
  | ['Q', '0'] => some (closeSet (cur.filter fun s => !s.pending))
  | ['W'] => some (closeSet (cur.map fun s => if s.broken then tickFail s else tick s))
  | ['Z'] => some (closeSet ((cur.map deliver).filter fun s => !s.pending))
  | ['B', '1'] => some (closeSet (cur.map fun s => { s with broken := true }))
  | ['B', '0'] => some (closeSet (cur.map fun s => { s with broken := false }))
  | _ => none

def validate : List St → Nat → List String → String
  | _, _, [] => "accept"
  | cur, i, tok :: rest =>
    match step cur tok with
    | none => s!"bad-token@{i}:{tok}"
    | some next => if next.isEmpty then s!"reject@{i}:{tok}" else validate next (i + 1) rest

def handle (line : String) : String :=
  match fields line with
  | a :: d :: toks =>
    match (d.drop 2).toString.toNat? with
    | some d0 => validate (closeSet [init true (a == "a=1") d0]) 0 toks
    | none => "bad-op"
  | _ => "bad-op"

end Mutagen.Driver.C42
