import Mutagen.Driver.Util
namespace Mutagen.Driver.C42

/-- Model-side handler for one line of the C42 correspondence stream. -/
def handle (_line : String) : String := "unimplemented"

end Mutagen.Driver.C42
