import Mutagen.Driver.Util
import Mutagen.Model.LRU
namespace Mutagen.Driver.C45
open Mutagen.Driver Mutagen.Model.LRU

/-!
Line: `<maxEntries> <op> <op> …` (maxEntries a decimal integer, may be negative) with ops
  `a:<k>:<v>` Add, `g:<k>` Get, `r:<k>` Remove, `l` Len.
Output: one token per op — `a`/`r`: the eviction-callback calls made during the
op (`k=v` joined by `;`, `-` for none); `g`: the value or `miss`; `l`: the
length — then ` |<entries front to back k=v,…>|<sorted index keys>|<Len>`.
-/

def showPairs (sep : String) (l : List (Nat × Nat)) : String :=
  if l.isEmpty then "-" else sep.intercalate (l.map fun (k, v) => s!"{k}={v}")

def parseOp (s : String) : Option Op :=
  match s.splitOn ":" with
  | ["a", k, v] => do pure (.add (← k.toNat?) (← v.toNat?))
  | ["g", k] => do pure (.get (← k.toNat?))
  | ["r", k] => do pure (.remove (← k.toNat?))
  | ["l"] => some .len
  | _ => none

def showRes (delta : List (Nat × Nat)) : Op → Res → String
  | .add _ _, _ => showPairs ";" delta
  | .remove _, _ => showPairs ";" delta
  | _, .hit v => toString v
  | _, .miss => "miss"
  | _, .len n => toString n
  | _, .unit => "?"

def run (c : Cache) : List Op → List String → Cache × List String
  | [], acc => (c, acc.reverse)
  | op :: ops, acc =>
    let (c', r) := c.step op
    run c' ops (showRes (c'.evicted.drop c.evicted.length) op r :: acc)

def insertSorted (x : Nat) : List Nat → List Nat
  | [] => [x]
  | y :: ys => if x ≤ y then x :: y :: ys else y :: insertSorted x ys

def sortNat (l : List Nat) : List Nat := l.foldr insertSorted []

def parseInt (s : String) : Option Int :=
  if s.startsWith "-" then (s.drop 1).toNat?.map fun n => -(n : Int) else s.toNat?.map fun n => (n : Int)

def handle (line : String) : String :=
  match fields line with
  | cap :: ops =>
    match parseInt cap, ops.mapM parseOp with
    | some c, some ops =>
      let (cache, outs) := run (new c) ops []
      " ".intercalate outs ++ s!" |{showPairs "," cache.abs}|{showNatList (sortNat (cache.index.map (·.1)))}|{cache.len}"
    | _, _ => "bad-op"
  | _ => "bad-op"

end Mutagen.Driver.C45
