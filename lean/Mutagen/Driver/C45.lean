import Mutagen.Driver.Util
namespace Mutagen.Driver.C45

/-- Model-side handler for one line of the C45 correspondence stream. -/
def handle (_line : String) : String := "unimplemented"

end Mutagen.Driver.C45
