/-
Shared helpers for the line-protocol drivers (core Lean only, no Mathlib, so
that `modeld` links as a native executable).

Conventions (mirrored by /verif/harness/hx):
* one line = one self-contained case; fields separated by a single space;
* byte strings are lower-case hex, the empty string is written `-`;
* naturals are decimal; lists are comma separated, the empty list is `-`.
-/
namespace Mutagen.Driver

def hexDigit (n : Nat) : Char :=
  if n < 10 then Char.ofNat (48 + n) else Char.ofNat (87 + n)

def hexVal (c : Char) : Option Nat :=
  if '0' ≤ c ∧ c ≤ '9' then some (c.toNat - 48)
  else if 'a' ≤ c ∧ c ≤ 'f' then some (c.toNat - 87)
  else if 'A' ≤ c ∧ c ≤ 'F' then some (c.toNat - 55)
  else none

/-- Encode bytes as hex; empty list is `-`. -/
def encHex (bs : List UInt8) : String :=
  if bs.isEmpty then "-" else
  String.ofList (bs.flatMap fun b => [hexDigit (b.toNat / 16), hexDigit (b.toNat % 16)])

def decHexChars : List Char → Option (List UInt8)
  | [] => some []
  | [_] => none
  | a :: b :: rest => do
    let x ← hexVal a
    let y ← hexVal b
    let r ← decHexChars rest
    pure (UInt8.ofNat (x * 16 + y) :: r)

/-- Decode hex; `-` is the empty list. -/
def decHex (s : String) : Option (List UInt8) :=
  if s == "-" then some [] else decHexChars s.toList

/-- Bytes of a hex field as a `String` of Latin-1 characters is avoided: we keep
`List UInt8` everywhere and convert to `List Char` only for ASCII models. -/
def bytesToChars (bs : List UInt8) : List Char := bs.map fun b => Char.ofNat b.toNat

def charsToBytes (cs : List Char) : List UInt8 := cs.map fun c => UInt8.ofNat c.toNat

def fields (line : String) : List String :=
  (line.splitOn " ").filter (· ≠ "")

/-- Comma-separated list; `-` is empty. -/
def listField (s : String) : List String :=
  if s == "-" then [] else s.splitOn ","

def natList (s : String) : Option (List Nat) :=
  (listField s).mapM String.toNat?

def showNatList (l : List Nat) : String :=
  if l.isEmpty then "-" else ",".intercalate (l.map toString)

def trimLine (s : String) : String :=
  let cs := s.toList
  let cs := if cs.getLast? == some '\n' then cs.dropLast else cs
  let cs := if cs.getLast? == some '\r' then cs.dropLast else cs
  String.ofList cs

/-- Run a pure per-line handler over stdin, one output line per input line. -/
partial def loop (h : IO.FS.Stream) (out : IO.FS.Stream) (f : String → String) : IO Unit := do
  let line ← h.getLine
  if line.isEmpty then return ()
  out.putStrLn (f (trimLine line))
  loop h out f

end Mutagen.Driver
