import Mutagen.Driver.Util
namespace Mutagen.Driver.C41

/-- Model-side handler for one line of the C41 correspondence stream. -/
def handle (_line : String) : String := "unimplemented"

end Mutagen.Driver.C41
