import Mutagen.Driver.Util
import Mutagen.Model.Staging
namespace Mutagen.Driver.C41
open Mutagen.Driver Mutagen.Model.Staging

/-!
Line: `m=<max> ro=<0|1> root=<listing> <op> …`

* listing: `-` or `+`-joined `<path>=d` / `<path>=f<k>` (parents first);
* `sc` — Scan;
* `x:<edit>+…` — external edits `w=<path>=<k>`, `d=<path>`, `r=<path>`;
* `st:<req>:<supply>:<picks>` (`st!` passes one digest less) — Stage; req is
  `-` or `+`-joined `<path>=<k>`; supply is `n` (receiver abandoned) or a
  `+`-joined list, aligned with the request, of the content (`<k>`, or `x` for
  none) the peer transmits for that path if it is asked for; picks is `-` or
  `+`-joined `<k>@<path>`: which cached path the reverse lookup map holds for
  a digest with several candidates;
* `tr:<t>;…` (or `tr:-`) — Transition; `t` is `<path>|<old>|<new>`, entries
  are `-` or `+`-joined `<rel>=d` / `<rel>=f<k>` with `.` first.

Output: one token per op.
-/

def parseNode (s : String) : Option Tree :=
  if s == "d" then some (.dir [])
  else match s.toList with
    | 'f' :: ds => (String.ofList ds).toNat?.map Tree.file
    | _ => none

def parseListing (s : String) : Option Children :=
  if s == "-" then some [] else
  (s.splitOn "+").foldlM (init := ([] : Children)) fun acc item =>
    match item.splitOn "=" with
    | [p, k] => do pure (insertAt (← parseNode k) acc (splitPath p))
    | _ => none

def parseEntry (s : String) : Option (Option Tree) :=
  if s == "-" then some none else
  match s.splitOn "+" with
  | first :: rest =>
    match first.splitOn "=" with
    | [".", k] => do
      let top ← parseNode k
      match top with
      | .file _ => if rest.isEmpty then pure (some top) else none
      | .dir _ =>
        let cs ← rest.foldlM (init := ([] : Children)) fun acc item =>
          match item.splitOn "=" with
          | [p, k] => do pure (insertAt (← parseNode k) acc (splitPath p))
          | _ => none
        pure (some (.dir cs))
    | _ => none
  | [] => none

def parseEdit (s : String) : Option Edit :=
  match s.splitOn "=" with
  | ["w", p, k] => k.toNat?.map (Edit.write p)
  | ["d", p] => some (.mkdir p)
  | ["r", p] => some (.remove p)
  | _ => none

def parseReq (s : String) : Option (List (String × Nat)) :=
  if s == "-" then some [] else
  (s.splitOn "+").mapM fun item =>
    match item.splitOn "=" with
    | [p, k] => k.toNat?.map fun k => (p, k)
    | _ => none

def parseSupply (s : String) : Option (Option (List (Option Nat))) :=
  if s == "n" then some none else
  ((s.splitOn "+").mapM fun item =>
    if item == "x" then some none else item.toNat?.map some).map some

def parsePicks (s : String) : Option (List (Nat × String)) :=
  if s == "-" then some [] else
  (s.splitOn "+").mapM fun item =>
    match item.splitOn "@" with
    | [k, p] => k.toNat?.map fun k => (k, p)
    | _ => none

def parseChange (s : String) : Option Change :=
  match s.splitOn "|" with
  | [p, o, n] => do pure { path := p, old := ← parseEntry o, new := ← parseEntry n }
  | _ => none

def showStageErr : StageErr → String
  | .readOnly => "ro" | .lengths => "len" | .noScan => "noscan" | .exceed => "exceed"

def showTransErr : TransErr → String
  | .readOnly => "ro" | .noScan => "noscan" | .underflow => "underflow"

def joinOr (l : List String) : String := if l.isEmpty then "-" else "+".intercalate l

def classOf (t : Change) (r : Option Tree) : String :=
  if oeq r t.new then "1" else if oeq r t.old then "0" else "p"

def stepOp (s : St) (op : String) : Option (St × String) :=
  match op.splitOn ":" with
  | ["sc"] =>
    let (s', o) := scan s
    some (s', match o with | .ok n => s!"sc:ok:{n}" | .exceeded => "sc:exceeded")
  | ["x", edits] => do
    let es ← (edits.splitOn "+").mapM parseEdit
    pure ({ s with root := es.foldl applyEdit s.root }, "x")
  | [name, req, sup, picks] =>
    if name != "st" && name != "st!" then none else do
    let req ← parseReq req
    let sup ← parseSupply sup
    let picks ← parsePicks picks
    let paths := req.map (·.1)
    let digests := if name == "st!" then (req.map (·.2)).dropLast else req.map (·.2)
    let hint := fun k => (picks.find? fun e => e.1 == k).map (·.2)
    let (s', o) := stage s paths digests hint
    match o with
    | .err e => pure (s', s!"st:err:{showStageErr e}")
    | .ok filtered =>
      -- the peer transmits what the supply script says for every path asked for
      let s'' := match sup with
        | none => s'
        | some l =>
          supply s' ((req.zip l).filterMap fun ((p, _), c) =>
            match c with
            | some k => if filtered.contains p then some (p, k) else none
            | none => none)
      pure (s'', s!"st:ok:{joinOr filtered}")
  | ["tr", ts] => do
    let ts ← if ts == "-" then some [] else (ts.splitOn ";").mapM parseChange
    let (s', o) := transition s ts
    match o with
    | .err e => pure (s', s!"tr:err:{showTransErr e}")
    | .refused _ => pure (s', "tr:refused")
    | .ok rs m =>
      let cls := (ts.zip rs).map fun (t, r) => classOf t r
      pure (s', s!"tr:ok:{if cls.isEmpty then "-" else String.join cls}:m{if m then 1 else 0}:{rootCount s'.root}")
  | _ => none

def run (s : St) : List String → List String → Option (List String)
  | [], acc => some acc.reverse
  | op :: ops, acc => do
    let (s', out) ← stepOp s op
    run s' ops (out :: acc)

def field (pre : String) (s : String) : Option String :=
  if s.startsWith pre then some (s.drop pre.length).toString else none

def handle (line : String) : String :=
  match fields line with
  | m :: ro :: root :: ops =>
    match (do
      let m ← (← field "m=" m).toNat?
      let ro ← field "ro=" ro
      let root ← parseListing (← field "root=" root)
      run (init m (ro == "1") root) ops []) with
    | some outs => " ".intercalate outs
    | none => "bad-op"
  | _ => "bad-op"

end Mutagen.Driver.C41
