import Mutagen.Driver.Util
namespace Mutagen.Driver.C22

/-- Model-side handler for one line of the C22 correspondence stream. -/
def handle (_line : String) : String := "unimplemented"

end Mutagen.Driver.C22
