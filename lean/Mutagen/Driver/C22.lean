import Mutagen.Driver.Util
import Mutagen.Model.Framing
namespace Mutagen.Driver.C22
open Mutagen.Driver Mutagen.Model.Framing

/-!
Lines (the harness `cmd/c22` documents the same grammar):
* `uve <n>` — `protowire.AppendVarint`; answer: hex.
* `uvd <hex>` — `binary.ReadUvarint`; answer `<value|-> <ok|eof|ueof|other> <consumed>`.
* `mf <n> <i,j,…|->` — `NewMultiFlusher` over n scripted flushers of which the
  listed ones fail; answer `<call order> <ok|e<i>>`.
* `enc <wcap|-> <msg,msg,…>` — `ProtobufEncoder` into a writer accepting wcap
  bytes; answer `<ok|werr per message> <len>.<fnv of what the writer got>`.
* `dec <sizes> <seg+seg+…>` — `ProtobufDecoder` on the byte stream fragmented
  by `sizes`; answer `<decoded messages> <error class>@<bytes consumed>`.
* `pipe <alg> <buf1> <buf2> <sizes> <op> …` with ops `m<data>` (Encode) and `f`
  (multi-flusher Flush), closed at the end; answer: per flush point
  `[<messages decoded since the last one>]r<undecoded plain bytes>`, then the
  same for the close, then the result of one more Decode, then (algorithm
  `none` only) `w<len>.<fnv>` of the wire.
Data: `h<hex>` literal, `g<len>.<a>.<b>` byte i = a + i·b, `r<len>.<seed>` LCG.
Messages are `wrapperspb.BytesValue`s holding the data; a message prints as
`<len>.<fnv32a>` of its data.
-/

def fnv (bs : List UInt8) : UInt32 :=
  bs.foldl (fun h b => (h ^^^ b.toUInt32) * 16777619) 2166136261

def digest (bs : List UInt8) : String := s!"{bs.length}.{(fnv bs).toNat}"

def genArith (n a b : Nat) : List UInt8 :=
  let rec go (i : Nat) (acc : List UInt8) : List UInt8 :=
    match i with
    | 0 => acc
    | i + 1 => go i (UInt8.ofNat (a + i * b) :: acc)
  go n []

def genLcg (n : Nat) (seed : UInt32) : List UInt8 :=
  let rec go (i : Nat) (x : UInt32) (acc : List UInt8) : List UInt8 :=
    match i with
    | 0 => acc.reverse
    | i + 1 =>
      let x := x * 1664525 + 1013904223
      go i x ((x >>> 24).toUInt8 :: acc)
  go n seed []

def parseData (s : String) : Option (List UInt8) :=
  match s.toList with
  | 'h' :: rest => decHex (String.ofList rest)
  | 'g' :: rest =>
    match (String.ofList rest).splitOn "." with
    | [n, a, b] => do pure (genArith (← n.toNat?) (← a.toNat?) (← b.toNat?))
    | _ => none
  | 'r' :: rest =>
    match (String.ofList rest).splitOn "." with
    | [n, seed] => do pure (genLcg (← n.toNat?) (UInt32.ofNat (← seed.toNat?)))
    | _ => none
  | _ => none

/-- `proto.Marshal(&wrapperspb.BytesValue{Value: d})`. -/
def marshalBV (d : List UInt8) : List UInt8 :=
  if d.isEmpty then [] else 0x0a :: (appendVarint d.length ++ d)

/-- Strict inverse of `marshalBV` (the harness only produces canonical
payloads, and payloads no protobuf parser accepts). -/
def unmarshalBV (p : List UInt8) : Option (List UInt8) :=
  match p with
  | [] => some []
  | 0x0a :: rest =>
    match readUvarint ⟨[rest]⟩ with
    | (src, .ok n) =>
      let body := src.chunks.flatten
      if body.length = n ∧ n > 0 ∧ appendVarint n ++ body = rest then some body else none
    | _ => none
  | _ => none

def showMsgs (ms : List (List UInt8)) : String :=
  if ms.isEmpty then "-" else ",".intercalate (ms.map digest)

def errClass : DecErr → String
  | .lenEof | .msgEof => "eof"
  | .lenUeof | .msgUeof => "ueof"
  | .lenOverflow | .tooLarge => "other"
  | .unmarshal => "unmarshal"

def parseCap (s : String) : Option (Option Nat) :=
  if s == "-" then some none else s.toNat?.map some

-- mf ------------------------------------------------------------------------------

def scriptedFlusher (i : Nat) (fails : Bool) (log : List Nat) : List Nat × Option Nat :=
  (log ++ [i], if fails then some i else none)

def runMf (n : Nat) (failing : List Nat) : String :=
  let fs := (List.range n).map fun i => scriptedFlusher i (failing.contains i)
  let (log, r) := multiFlush fs []
  s!"{showNatList log} " ++ (match r with | none => "ok" | some i => s!"e{i}")

-- enc -----------------------------------------------------------------------------

def runEnc (cap : Option Nat) (msgs : List (List UInt8)) : String :=
  let rec go (w : Sink) (ms : List (List UInt8)) (acc : List String) : Sink × List String :=
    match ms with
    | [] => (w, acc.reverse)
    | m :: rest =>
      match encode marshalBV w m with
      | (w', true) => go w' rest ("ok" :: acc)
      | (w', false) => (w', ("werr" :: acc).reverse)
  let (w, st) := go { wcap := cap, got := [] } msgs []
  (if st.isEmpty then "-" else ",".intercalate st) ++ " " ++ digest w.got

-- dec -----------------------------------------------------------------------------

def runDec (sizes : List Nat) (stream : List UInt8) : String :=
  let src : Src := ⟨fragments sizes stream⟩
  let (ms, e, rest) := decodeAll unmarshalBV src
  s!"{showMsgs ms} {errClass e}@{stream.length - rest.size}"

-- pipe ----------------------------------------------------------------------------

structure PipeSt where
  tx : TxPipe
  delivered : Nat          -- wire bytes already handed to the receiver
  rx : Src
  pending : Nat            -- messages encoded since the last decode point
  out : List String
  dead : Bool

def deliverAndDecode (sizes : List Nat) (st : PipeSt) : PipeSt :=
  let fresh := st.tx.wire.drop st.delivered
  let rx : Src := ⟨st.rx.chunks ++ fragments sizes fresh⟩
  let (ms, e, rx') := decodeN unmarshalBV st.pending rx []
  match e with
  | none => { st with delivered := st.tx.wire.length, rx := rx', pending := 0,
                      out := s!"[{showMsgs ms}]r{rx'.size}" :: st.out }
  | some _ => { st with delivered := st.tx.wire.length, rx := rx', pending := 0,
                        out := s!"[{showMsgs ms}]starved" :: st.out, dead := true }

def stepPipe (sizes : List Nat) (st : PipeSt) (op : String) : Option PipeSt :=
  if st.dead then some st else
  match op.toList with
  | ['f'] =>
    let (tx, _) := st.tx.flush
    some (deliverAndDecode sizes { st with tx := tx })
  | 'm' :: d => do
    let data ← parseData (String.ofList d)
    let tx := st.tx.write (frame (marshalBV data))
    pure { st with tx := tx, pending := st.pending + 1 }
  | _ => none

def runPipe (alg : String) (sizes : List Nat) (ops : List String) : String :=
  let init : PipeSt := { tx := TxPipe.empty, delivered := 0, rx := ⟨[]⟩, pending := 0, out := [], dead := false }
  match ops.foldlM (stepPipe sizes) init with
  | none => "bad-op"
  | some st =>
    if st.dead then " ".intercalate st.out.reverse else
    -- close: flush outbound, close the compressor, flush compressedOutbound, EOF
    let (tx, _) := st.tx.flush
    let st := deliverAndDecode sizes { st with tx := tx }
    if st.dead then " ".intercalate st.out.reverse else
    let last := match decode unmarshalBV st.rx with
      | (_, .ok _) => "extra-message"
      | (_, .error .lenEof) => "eof"
      | (_, .error e) => errClass e ++ "!"
    let wire := if alg == "none" then s!" w{digest st.tx.wire}" else ""
    " ".intercalate st.out.reverse ++ " " ++ last ++ wire

def handle (line : String) : String :=
  match fields line with
  | ["uve", n] =>
    match n.toNat? with
    | some v => encHex (appendVarint v)
    | none => "bad-op"
  | ["uvd", h] =>
    match decHex h with
    | some bs =>
      match readUvarint ⟨[bs]⟩ with
      | (src, .ok v) => s!"{v} ok {bs.length - src.size}"
      | (src, .error .eof) => s!"- eof {bs.length - src.size}"
      | (src, .error .ueof) => s!"- ueof {bs.length - src.size}"
      | (src, .error .overflow) => s!"- other {bs.length - src.size}"
    | none => "bad-op"
  | ["mf", n, failing] =>
    match n.toNat?, natList failing with
    | some n, some f => runMf n f
    | _, _ => "bad-op"
  | ["enc", cap, msgs] =>
    match parseCap cap, (listField msgs).mapM parseData with
    | some c, some ms => runEnc c ms
    | _, _ => "bad-op"
  | ["dec", sizes, segs] =>
    match natList sizes, (segs.splitOn "+").mapM parseData with
    | some sz, some parts => runDec sz parts.flatten
    | _, _ => "bad-op"
  | "pipe" :: alg :: _ :: _ :: sizes :: ops =>
    match natList sizes with
    | some sz => runPipe alg sz ops
    | none => "bad-op"
  | _ => "bad-op"

end Mutagen.Driver.C22
