import Mutagen.Driver.Util
namespace Mutagen.Driver.C13

/-- Model-side handler for one line of the C13 correspondence stream. -/
def handle (_line : String) : String := "unimplemented"

end Mutagen.Driver.C13
