import Mutagen.Driver.ScanText
namespace Mutagen.Driver.C13

/-- Model-side handler for one line of the C13 correspondence stream: a cold
scan followed by accelerated scans of edited filesystems (grammar in
`Mutagen.Driver.ScanText`). -/
def handle (line : String) : String := Mutagen.Driver.ScanText.handle line

end Mutagen.Driver.C13
