import Mutagen.Driver.Util
namespace Mutagen.Driver.C40

/-- Model-side handler for one line of the C40 correspondence stream. -/
def handle (_line : String) : String := "unimplemented"

end Mutagen.Driver.C40
