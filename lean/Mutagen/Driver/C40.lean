import Mutagen.Driver.Util
import Mutagen.Model.Select
namespace Mutagen.Driver.C40
open Mutagen.Driver Mutagen.Model.Select

/-!
Lines (fields separated by one space):

* `less <hexA> <hexB>` → `1` / `0` (`fastpath.Less`);
* `sortc <paths>` / `sortp <paths>` → sorted paths (`core.SortConflicts` on
  conflict roots / `core.SortProblems` on problem paths);
* `list <sessions> <query>` → `Manager.List`.

`<paths>` is `.` for the empty list, otherwise comma-separated hex (`-` is the
empty path). `<sessions>` is `.` or `;`-separated
`id|name|sec|nanos|labels|c|as|at|bs|bt` (name `-` = empty, labels `-` or
`k=v&k=v`, the last five are `<paths>`: conflict roots, alpha scan / alpha
transition / beta scan / beta transition problem paths). `<query>` is
`<all 0/1>|<specs: - or comma separated>|<selector>` with selector `none`
(empty string), `bad:<hex of the string>` (unparsable), or `r<style>:<reqs>`
with reqs `-` or `&`-separated `key~op~values` (op ∈ in notin exists nexists
gt lt, values `-` or `+`-separated, `_` = empty value).

Answer of `list`: `err:<nomatch|selector|invalid>` or `ok` followed by one
token per listed state in order: `<index of the session in the line>|<c>|<as>|<at>|<bs>|<bt>`
with each list printed as `<paths>/<excluded>`.
-/

def parsePaths (s : String) : Option (List Path) :=
  if s == "." then some [] else (s.splitOn ",").mapM decHex

def showPaths (ps : List Path) : String :=
  if ps.isEmpty then "." else ",".intercalate (ps.map encHex)

def parseInt (s : String) : Option Int := s.toInt?

def parseLabels (s : String) : Option Labels :=
  if s == "-" then some [] else
  (s.splitOn "&").mapM fun kv =>
    match kv.splitOn "=" with
    | [k, v] => some (k, v)
    | _ => none

def parseSession (s : String) : Option Session :=
  match s.splitOn "|" with
  | [id, name, sec, nanos, labels, c, as', at', bs', bt'] => do
    pure { id := id, name := if name == "-" then "" else name,
           labels := ← parseLabels labels, sec := ← parseInt sec, nanos := ← parseInt nanos,
           conflicts := ← parsePaths c, alphaScan := ← parsePaths as', alphaTransition := ← parsePaths at',
           betaScan := ← parsePaths bs', betaTransition := ← parsePaths bt' }
  | _ => none

def parseSessions (s : String) : Option (List Session) :=
  if s == "." then some [] else (s.splitOn ";").mapM parseSession

def parseOp : String → Option Op
  | "in" => some .in_ | "notin" => some .notIn | "exists" => some .exists_
  | "nexists" => some .doesNotExist | "gt" => some .gt | "lt" => some .lt | _ => none

def parseReq (s : String) : Option Req :=
  match s.splitOn "~" with
  | [k, op, vs] => do
    let vals := if vs == "-" then [] else (vs.splitOn "+").map fun v => if v == "_" then "" else v
    pure { key := k, op := ← parseOp op, values := vals }
  | _ => none

def parseSelector (s : String) : Option Selector :=
  if s == "none" then some .absent
  else if s.startsWith "bad:" then some .bad
  else match s.splitOn ":" with
    | [_style, rs] =>
      if rs == "-" then some (.reqs []) else do
        let l ← (rs.splitOn "&").mapM parseReq
        pure (.reqs l)
    | _ => none

def parseQuery (s : String) : Option Selection :=
  match s.splitOn "|" with
  | [a, specs, sel] => do
    pure { all := a == "1", specs := if specs == "-" then [] else (specs.splitOn ",").map (fun s => if s == "_" then "" else s), selector := ← parseSelector sel }
  | _ => none

def showErr : Err → String
  | .noMatch => "err:nomatch" | .badSelector => "err:selector" | .invalid => "err:invalid"

def indexOf (sessions : List Session) (id : String) : Nat :=
  (sessions.findIdx? (·.id == id)).getD sessions.length

def showList (l : List Path × Nat) : String := s!"{showPaths l.1}/{l.2}"

def showListed (sessions : List Session) (l : Listed) : String :=
  s!"{indexOf sessions l.id}|{showList l.conflicts}|{showList l.alphaScan}|{showList l.alphaTransition}|{showList l.betaScan}|{showList l.betaTransition}"

def handle (line : String) : String :=
  match fields line with
  | ["less", a, b] =>
    match decHex a, decHex b with
    | some a, some b => if less a b then "1" else "0"
    | _, _ => "bad-op"
  | ["sortc", ps] | ["sortp", ps] =>
    match parsePaths ps with
    | some ps => showPaths (sortPaths ps)
    | none => "bad-op"
  | ["list", ss, q] =>
    match parseSessions ss, parseQuery q with
    | some sessions, some sel =>
      match list sessions sel with
      | .error e => showErr e
      | .ok ls => " ".intercalate ("ok" :: ls.map (showListed sessions))
    | _, _ => "bad-op"
  | _ => "bad-op"

end Mutagen.Driver.C40
