import Mutagen.Driver.Util
namespace Mutagen.Driver.C08

/-- Model-side handler for one line of the C08 correspondence stream. -/
def handle (_line : String) : String := "unimplemented"

end Mutagen.Driver.C08
