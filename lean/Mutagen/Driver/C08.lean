import Mutagen.Driver.TransFS
namespace Mutagen.Driver.C08

/-- Model-side handler for one line of the C08 correspondence stream: a
transition scenario (see `Mutagen.Driver.TransFS`). -/
def handle (line : String) : String := Mutagen.Driver.TransFS.handle line

end Mutagen.Driver.C08
