import Mutagen.Driver.Util
import Mutagen.Model.IgnoreMutagen
namespace Mutagen.Driver.C14
open Mutagen.Driver Mutagen.Model.IgnoreMutagen Mutagen.Model.Glob
open Mutagen.Model.IgnoreCore hiding Str

/-!
Lines (strings are hex of valid UTF-8, `-` = empty; pattern lists are comma
separated, `-` = no patterns, `_` = the empty pattern):
  `g <regular> <pattern> <name>`  → `<valid> <match|-> <agree|->`  doublestar.ValidatePattern / Match vs the
                                    transcription `Doublestar.dsMatch`; when `regular` = 1 the third field says
                                    whether the specification `Glob.gmatch` agrees with the transcription (the
                                    harness prints 1 there, so a disagreement is a correspondence failure)
  `p <pattern>`                   → `ok <neg><dirOnly><leaf> <pattern>` | `err <kind>`  newIgnorePattern
  `i <dir> <path> <patterns>`     → `<status> <cont>` | `invalid <kind>`   NewIgnorer + Ignore
  `v <dir> <path> <patterns>`     → the same through ignore.IgnoreVCS
  `s <vcs> <patterns> <tree>`     → snapshot of a real scan, `path:kind,…` in preorder
Tree: comma separated tokens `f:<name>` `l:<name>` `o:<name>` `d:<name>` `[` … `]`
(the bracket pair after a `d:` token holds its children; children sorted by name).
-/

def decStr (s : String) : Option Str := do
  let bs ← decHex s
  let str ← String.fromUTF8? (ByteArray.mk bs.toArray)
  pure str.toList

def encStr (s : Str) : String := encHex (String.ofList s).toUTF8.toList

def patList (s : String) : Option (List Str) :=
  if s == "-" then some [] else
  (s.splitOn ",").mapM fun t => if t == "_" then some [] else decStr t

def showStatus : Status → String
  | .nominal => "nominal" | .ignored => "ignored" | .unignored => "unignored"

def showParseErr : ParseErr → String
  | .empty => "empty" | .negatedEmpty => "negated-empty" | .root => "root"
  | .rootDirectory => "root-directory" | .badPattern => "bad-pattern" | .panic => "panic"

def bit (b : Bool) : String := if b then "1" else "0"

/-- Recursive-descent parser of the tree tokens; fuel = number of tokens. -/
def parseItems : Nat → List String → Option (List (Str × Node) × List String)
  | 0, _ => none
  | _ + 1, [] => some ([], [])
  | fuel + 1, tok :: rest =>
    if tok == "]" then some ([], tok :: rest) else
    match tok.splitOn ":" with
    | [k, h] =>
      match decStr h with
      | none => none
      | some name =>
        if k == "d" then
          match rest with
          | "[" :: rest1 =>
            match parseItems fuel rest1 with
            | some (cs, "]" :: rest2) =>
              match parseItems fuel rest2 with
              | some (sibs, r) => some ((name, Node.dir cs) :: sibs, r)
              | none => none
            | _ => none
          | _ => none
        else
          let node? : Option Node := if k == "f" then some .file else if k == "l" then some .link
            else if k == "o" then some .other else none
          match node?, parseItems fuel rest with
          | some node, some (sibs, r) => some ((name, node) :: sibs, r)
          | _, _ => none
    | _ => none

def parseTree (s : String) : Option (List (Str × Node)) :=
  if s == "-" then some [] else
  let toks := s.splitOn ","
  match parseItems (toks.length + 1) toks with
  | some (cs, []) => some cs
  | _ => none

mutual
def showEntries (prefixPath : Str) : List (Str × SEntry) → List String
  | [] => []
  | (name, e) :: rest => showEntry (joinable prefixPath ++ name) e ++ showEntries prefixPath rest
def showEntry (path : Str) : SEntry → List String
  | .file => [s!"{encStr path}:f"]
  | .link => [s!"{encStr path}:l"]
  | .untracked => [s!"{encStr path}:u"]
  | .dir ph cs => s!"{encStr path}:{if ph then "p" else "d"}" :: showEntries path cs
end

def showSnapshot (e : SEntry) : String :=
  match e with
  | .dir _ cs => let l := showEntries [] cs; if l.isEmpty then "-" else ",".intercalate l
  | _ => "bad-root"

def ignoreLine (vcs : Bool) (d p pats : String) : String :=
  match decStr p, patList pats with
  | some path, some ps =>
    if ps.any (fun q => !supported q) then "unsupported" else
    match newIgnorer ps with
    | .error e => s!"invalid {showParseErr e}"
    | .ok ig =>
      let dir := d == "1"
      if vcs then
        match vcsIgnore ig.ignore path dir with
        | none => "panic"
        | some (st, c) => s!"{showStatus st} {bit c}"
      else
        let (st, c) := ig.ignore path dir
        s!"{showStatus st} {bit c}"
  | _, _ => "bad-op"

def handle (line : String) : String :=
  match fields line with
  | ["g", reg, p, n] =>
    match decStr p, decStr n with
    | some p, some n =>
      if !supported p then "unsupported" else
      match Mutagen.Model.Doublestar.dsMatch? p n with
      | none => "fuel"
      | some r =>
        let rs := match r with | .yes => "1" | .no => "0" | .bad => "bad"
        -- on regular patterns the transcription must agree with the specification
        let agree := if reg == "1" then bit (valid p && r != .bad && gmatch p n == (r == .yes)) else "-"
        s!"{bit (valid p)} {rs} {agree}"
    | _, _ => "bad-op"
  | ["p", p] =>
    match decStr p with
    | some p =>
      if !supported p then "unsupported" else
      match parse p with
      | .ok q => s!"ok {bit q.negated}{bit q.directoryOnly}{bit q.matchLeaf} {encStr q.pattern}"
      | .error e => s!"err {showParseErr e}"
    | none => "bad-op"
  | ["i", d, p, pats] => ignoreLine false d p pats
  | ["v", d, p, pats] => ignoreLine true d p pats
  | ["s", vcs, pats, tree] =>
    match patList pats, parseTree tree with
    | some ps, some cs =>
      if ps.any (fun q => !supported q) then "unsupported" else
      match newIgnorer ps with
      | .error e => s!"invalid {showParseErr e}"
      | .ok ig =>
        let inner : IgnoreFn := ig.ignore
        let ign : IgnoreFn := if vcs == "1" then
            fun path dir => (vcsIgnore inner path dir).getD (.nominal, false)
          else inner
        showSnapshot (scanRoot ign cs)
    | _, _ => "bad-op"
  | _ => "bad-op"

end Mutagen.Driver.C14
