import Mutagen.Driver.Util
namespace Mutagen.Driver.C14

/-- Model-side handler for one line of the C14 correspondence stream. -/
def handle (_line : String) : String := "unimplemented"

end Mutagen.Driver.C14
