import Mutagen.Driver.ScanText
namespace Mutagen.Driver.C12

/-- Model-side handler for one line of the C12 correspondence stream: one or
more scans of abstract filesystems (grammar in `Mutagen.Driver.ScanText`). -/
def handle (line : String) : String := Mutagen.Driver.ScanText.handle line

end Mutagen.Driver.C12
