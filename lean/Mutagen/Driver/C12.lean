import Mutagen.Driver.Util
namespace Mutagen.Driver.C12

/-- Model-side handler for one line of the C12 correspondence stream. -/
def handle (_line : String) : String := "unimplemented"

end Mutagen.Driver.C12
