import Mutagen.Driver.Util
import Mutagen.Model.Mux
namespace Mutagen.Driver.C24
open Mutagen.Driver Mutagen.Model.Mux

/-!
Replays one schedule of the multiplexer harness (`harness/muxh`) on the model.

Line: `T <cfgA> <cfgB> <step> … end` with `cfg = window,buffers,backlog` (raw,
normalised here like `Configuration.normalize`) and steps

  `o:S` OpenStream            `a:S:k` AcceptStream (k = observed stale skips)
  `r:S:id:n` Read             `w:S:id:hex` Write
  `cw:S:id` CloseWrite        `c:S:id` Close
  `dr|dw:S:id:z|p|f<ms>`      SetRead/WriteDeadline (zero, past, now+ms)
  `x:k` cancel the context of call k      `t:ms` let model time pass
  `d:S:<frame>` deliver the oldest in-flight frame to S's reader (the frame is
                what the harness took off the real wire; it must be the model's)
  `i:S:<frame>` feed an arbitrary frame to S's reader (adversarial peer)
  `dcw:S:id:<frame>:n` the next frame reaches S's reader *while* the program
                calls CloseWrite(id): a Write blocked mid-payload may still send
                what the frame entitles it to (n bytes observed), then returns;
                only then is the close-write enqueued (no data behind it)
  `st:S`/`us:S` stall / release S's carrier writes    `mc:S` Multiplexer.Close
  `end`         release stalls, close A, then B; print both internal errors

Asynchronous calls (o, a, r, w) are numbered in order of issue. After every
step all pending calls are re-evaluated (the real ones run until every
goroutine is blocked). Output per step: `sync|completions|framesA|framesB`.

`S …` lines (concurrent stress workloads, judged by the oracle only) answer `ok`.
-/

inductive OpKind
  | openWait (id : Nat)
  | acceptWait (stale : Nat)
  | read (id n : Nat)
  | write (id : Nat) (rest : List UInt8) (count : Nat)

structure Op where
  side : Who
  kind : OpKind
  done : Bool := false
  canceled : Bool := false

structure DState where
  net : Net
  now : Nat := 0
  ops : Array Op := #[]
  bufsA : Nat
  bufsB : Nat
  stalledA : Bool := false
  stalledB : Bool := false
  heldA : Bool := false
  heldB : Bool := false
  /-- stream handles the program holds -/
  handles : List (Who × Nat) := []
  emA : List Msg := []
  emB : List Msg := []
  comps : List (Nat × String) := []
  bad : Option String := none

def DState.stalled (d : DState) : Who → Bool
  | .a => d.stalledA
  | .b => d.stalledB

def DState.held (d : DState) : Who → Bool
  | .a => d.heldA
  | .b => d.heldB

def DState.bufs (d : DState) : Who → Nat
  | .a => d.bufsA
  | .b => d.bufsB

def DState.setSide (d : DState) (w : Who) (s : Side) : DState := { d with net := d.net.setSide w s }

/-- Messages handed to the carrier by `w` (one write buffer). -/
def DState.emit (d : DState) (w : Who) (ms : List Msg) : DState :=
  if ms.isEmpty then d else
  let d := { d with net := d.net.send w ms }
  match w with
  | .a => { d with emA := d.emA ++ ms, heldA := d.stalledA }
  | .b => { d with emB := d.emB ++ ms, heldB := d.stalledB }

def idBound (s : Side) : Nat := max s.nextOut s.largestIn + 3

/-- The enqueue goroutine obtained a write buffer: all pending increments, then
close-writes, then closes (each group ordered by identifier: canonical form of
Go's map iteration order). -/
def DState.flush (d : DState) (w : Who) : DState :=
  if d.held w ∨ (d.net.side w).closedMux then d else
  let s := d.net.side w
  let ids := List.range (idBound s)
  let (s, m1) := ids.foldl (fun (acc : Side × List Msg) id => let (s', ms) := acc.1.flushIncr id; (s', acc.2 ++ ms)) (s, [])
  let (s, m2) := ids.foldl (fun (acc : Side × List Msg) id => let (s', ms) := acc.1.flushCW id; (s', acc.2 ++ ms)) (s, m1)
  let (s, m3) := ids.foldl (fun (acc : Side × List Msg) id => let (s', ms) := acc.1.flushClose id; (s', acc.2 ++ ms)) (s, m2)
  (d.setSide w s).emit w m3

def showReadRes : ReadRes → String
  | .data bs => s!"{encHex bs}/ok"
  | .eof => "-/eof" | .closed => "-/closed" | .muxClosed => "-/muxclosed"
  | .deadline => "-/deadline" | .block => "block" | .noStream => "nostream"

def showWriteErr : WriteErr → String
  | .ok => "ok" | .closed => "closed" | .writeClosed => "writeclosed" | .muxClosed => "muxclosed"
  | .remoteClosed => "remoteclosed" | .deadline => "deadline"

def DState.complete (d : DState) (k : Nat) (res : String) : DState :=
  { d with comps := d.comps ++ [(k, res)],
           ops := d.ops.modify k fun o => { o with done := true } }

/-- AcceptStream: `stale` annotated stale skips, then one real accept. -/
def acceptLoop : Nat → Side → Nat → Bool → Side × List Msg × Nat × Option String
  | 0, s, stale, _ => (s, [], stale, none)
  | fuel + 1, s, stale, canceled =>
    match s.backlog with
    | [] =>
      if canceled then (s, [], stale, some "canceled")
      else if s.closedMux then (s, [], stale, some "muxclosed")
      else (s, [], stale, none)
    | id :: _ =>
      if stale > 0 then
        match s.streams id with
        | some st =>
          if st.remoteClosed then
            let (s', _, _) := s.acceptOne true canceled
            acceptLoop fuel s' (stale - 1) canceled
          else (s, [], stale, some "bad-annotation")
        | none => (s, [], stale, some "bad-annotation")
      else
        match s.acceptOne false canceled with
        | (s', ms, .ok id') => (s', ms, 0, some s!"ok:{id'}")
        | (s', ms, _) => (s', ms, 0, some "bad-accept")

/-- Re-evaluate pending call `k`. -/
def DState.progress (d : DState) (k : Nat) : DState :=
  match d.ops[k]? with
  | none => d
  | some o =>
    if o.done then d else
    let s := d.net.side o.side
    match o.kind with
    | .openWait id =>
      match s.openWait id o.canceled with
      | (_, .block) => d
      | (s', .ok) => ({ d.setSide o.side s' with handles := d.handles ++ [(o.side, id)] }).complete k s!"ok:{id}"
      | (s', .rejected) => (d.setSide o.side s').complete k "rejected"
      | (s', .canceled) => (d.setSide o.side s').complete k "canceled"
      | (s', .muxClosed) => (d.setSide o.side s').complete k "muxclosed"
    | .acceptWait stale =>
      match acceptLoop (stale + 2) s stale o.canceled with
      | (s', ms, stale', none) =>
        let d := (d.setSide o.side s').emit o.side ms
        { d with ops := d.ops.modify k fun o => { o with kind := .acceptWait stale' } }
      | (s', ms, _, some res) =>
        let d := (d.setSide o.side s').emit o.side ms
        let d := if res.startsWith "ok:" then
            { d with handles := d.handles ++ [(o.side, (res.drop 3).toNat!)] } else d
        d.complete k res
    | .read id n =>
      match s.read id n d.now with
      | (_, .block) => d
      | (s', r) => (d.setSide o.side s').complete k (showReadRes r)
    | .write id rest count =>
      match s.writePre id d.now with
      | (s', some e) => (d.setSide o.side s').complete k s!"{count}/{showWriteErr e}"
      | (s', none) =>
        if rest.isEmpty then (d.setSide o.side s').complete k s!"{count}/ok" else
        let (s'', ms, rest') := Side.writeLoop (rest.length + 1) s' id rest []
        let count' := count + (rest.length - rest'.length)
        let d := (d.setSide o.side s'').emit o.side ms
        if rest'.isEmpty then d.complete k s!"{count'}/ok"
        else { d with ops := d.ops.modify k fun o => { o with kind := .write id rest' count' } }

def DState.progressAll (d : DState) : DState :=
  (List.range d.ops.size).foldl (fun d k => d.progress k) d

/-- Run until nothing moves: pending calls, then the enqueue goroutines. -/
def DState.settle (d : DState) : DState :=
  let d := d.progressAll
  let d := (d.flush .a).flush .b
  let d := d.progressAll
  (d.flush .a).flush .b

/-- A writer that raced with `CloseWrite`: of the chunks it could still send
it sent exactly `n` bytes (observed on the wire) before it noticed
`closedWrite`; `none` if `n` is not a sum of whole chunks it was entitled to. -/
def writeBudget : Nat → DState → Nat → Nat → Nat → Option DState
  | 0, d, _, _, n => if n = 0 then some d else none
  | fuel + 1, d, k, id, n =>
    if n = 0 then some d else
    match d.ops[k]? with
    | some { side := w, kind := .write _ rest count, done := false, .. } =>
      let (s', ms, rest') := (d.net.side w).writeChunk id rest
      let sent := rest.length - rest'.length
      if ms.isEmpty ∨ sent > n then none else
      let d := (d.setSide w s').emit w ms
      let d := { d with ops := d.ops.modify k fun o => { o with kind := .write id rest' (count + sent) } }
      writeBudget fuel d k id (n - sent)
    | _ => none

def DState.findWrite (d : DState) (w : Who) (id : Nat) : Option Nat :=
  (List.range d.ops.size).find? fun k =>
    match d.ops[k]? with
    | some o => !o.done && o.side == w && (match o.kind with | .write i _ _ => i == id | _ => false)
    | none => false

def parseWho : String → Option Who
  | "A" => some .a
  | "B" => some .b
  | _ => none

def showReject (r : Reject) : String :=
  match r with
  | .unknownKind => "unknownKind" | .zeroId => "zeroId" | .openOutboundId => "openOutboundId"
  | .openNotMonotone => "openNotMonotone" | .acceptInboundId => "acceptInboundId"
  | .unopenedInbound => "unopenedInbound" | .unusedOutbound => "unusedOutbound"
  | .acceptTwice => "acceptTwice" | .acceptAfterClose => "acceptAfterClose"
  | .zeroLengthData => "zeroLengthData" | .dataPartial => "dataPartial"
  | .dataAfterCloseWrite => "dataAfterCloseWrite" | .dataAfterClose => "dataAfterClose"
  | .windowViolated => "windowViolated" | .zeroIncrement => "zeroIncrement"
  | .incrPartialOutbound => "incrPartialOutbound" | .incrAfterClose => "incrAfterClose"
  | .incrOverflow => "incrOverflow" | .cwPartialOutbound => "cwPartialOutbound"
  | .cwAfterClose => "cwAfterClose" | .cwTwice => "cwTwice" | .closeTwice => "closeTwice"
  | .carrier => "carrier"

def showInternal : Option Reject → String
  | none => "nil"
  | some r => showReject r

/-- `kind.id[.arg|.hex]` with the numeric kinds of the wire. -/
def showFrame (f : Frame) : String :=
  if f.kind = 0 ∨ f.kind > 6 then toString f.kind
  else if f.kind = 1 ∨ f.kind = 2 ∨ f.kind = 4 then s!"{f.kind}.{f.id}.{f.arg}"
  else if f.kind = 3 then s!"{f.kind}.{f.id}.{encHex f.bytes}"
  else s!"{f.kind}.{f.id}"

def parseFrame (s : String) : Option Frame :=
  match s.splitOn "." with
  | [k] => do pure ⟨← k.toNat?, 0, 0, []⟩
  | [k, id] => do pure ⟨← k.toNat?, ← id.toNat?, 0, []⟩
  | [k, id, arg] => do
    let k ← k.toNat?
    if k = 3 then pure ⟨k, ← id.toNat?, 0, ← decHex arg⟩
    else pure ⟨k, ← id.toNat?, ← arg.toNat?, []⟩
  | _ => none

def showFrames (ms : List Msg) : String :=
  if ms.isEmpty then "-" else ",".intercalate (ms.map fun m => showFrame m.toFrame)

/-- Frames of different streams written during one step commute (and their
order depends on goroutine scheduling): both sides of the comparison order them
by stream identifier, keeping the order within a stream. -/
def canonWire (wire em : List Msg) : List Msg × List Msg :=
  let em' := em.mergeSort fun x y => x.id ≤ y.id
  (wire.take (wire.length - em.length) ++ em', em')

def DState.canon (d : DState) : DState :=
  let (ab, emA) := canonWire d.net.ab d.emA
  let (ba, emB) := canonWire d.net.ba d.emB
  { d with net := { d.net with ab := ab, ba := ba }, emA := emA, emB := emB }

def DState.render (d : DState) (sync : String) : DState × String :=
  let d := d.canon
  let sorted := (d.comps.toArray.qsort fun x y => x.1 < y.1).toList
  let comps := if sorted.isEmpty then "-" else
    ",".intercalate (sorted.map fun (k, r) => s!"{k}={r}")
  ({ d with emA := [], emB := [], comps := [] }, s!"{sync}|{comps}|{showFrames d.emA}|{showFrames d.emB}")

def DState.hasHandle (d : DState) (w : Who) (id : Nat) : Bool := d.handles.contains (w, id)

def DState.inFlight (d : DState) (w : Who) (p : OpKind → Bool) : Bool :=
  d.ops.any fun o => !o.done && o.side == w && p o.kind

def okStar (s : Side) : String := if s.closedMux then "ok*" else "ok"

def parseDeadline (s : String) (now : Nat) : Option Deadline :=
  if s == "z" then some .zero
  else if s == "p" then some .past
  else if s.startsWith "f" then (s.drop 1).toNat?.map fun ms => .future (now + ms)
  else none

def DState.setStalled (d : DState) (w : Who) (v : Bool) : DState :=
  match w with
  | .a => { d with stalledA := v, heldA := if v then d.heldA else false }
  | .b => { d with stalledB := v, heldB := if v then d.heldB else false }

/-- Execute one step token; `none` = malformed. -/
def DState.step (d : DState) (tok : String) : Option (DState × String) :=
  match tok.splitOn ":" with
  | ["o", w] => do
    let w ← parseWho w
    if d.stalled w then return (d, "unsupported")
    let s := d.net.side w
    let k := d.ops.size
    match s.openStream with
    | (s', ms, .started id) =>
      let d := { (d.setSide w s').emit w ms with ops := d.ops.push { side := w, kind := .openWait id } }
      pure (d.settle.render "-")
    | (_, _, .muxClosed) =>
      let d := { d with ops := d.ops.push { side := w, kind := .openWait 0, done := true }, comps := [(k, "muxclosed")] }
      pure (d.settle.render "-")
    | (_, _, .exhausted) =>
      let d := { d with ops := d.ops.push { side := w, kind := .openWait 0, done := true }, comps := [(k, "other")] }
      pure (d.settle.render "-")
  | ["a", w, stale] => do
    let w ← parseWho w
    let stale ← stale.toNat?
    if d.stalled w ∨ (d.net.side w).closedMux then return (d, "unsupported")
    let d := { d with ops := d.ops.push { side := w, kind := .acceptWait stale } }
    pure (d.settle.render "-")
  | ["r", w, id, n] => do
    let w ← parseWho w
    let id ← id.toNat?
    let n ← n.toNat?
    if !d.hasHandle w id then return (d, "nostream")
    let d := { d with ops := d.ops.push { side := w, kind := .read id n } }
    pure (d.settle.render "-")
  | ["w", w, id, h] => do
    let w ← parseWho w
    let id ← id.toNat?
    let data ← decHex h
    if !d.hasHandle w id then return (d, "nostream")
    if d.stalled w then return (d, "unsupported")
    let d := { d with ops := d.ops.push { side := w, kind := .write id data 0 } }
    pure (d.settle.render "-")
  | ["cw", w, id] => do
    let w ← parseWho w
    let id ← id.toNat?
    if !d.hasHandle w id then return (d, "nostream")
    -- close(s.closedWrite); wait for writers; enqueue the close-write message
    let already := ((d.net.side w).streams id).any (·.closedWrite)
    let d := if already then d else
      let d := (d.setSide w ((d.net.side w).markClosedWrite id)).progressAll
      d.setSide w ((d.net.side w).enqCW id)
    pure (d.settle.render (okStar (d.net.side w)))
  | ["c", w, id] => do
    let w ← parseWho w
    let id ← id.toNat?
    if !d.hasHandle w id then return (d, "nostream")
    let st ← (d.net.side w).streams id
    let d := if st.closed then d else
      -- closeWrite(false): writers leave; close(s.closed): readers leave; enqueue; deregister
      let d := if st.closedWrite then d else (d.setSide w ((d.net.side w).markClosedWrite id)).progressAll
      let d := (d.setSide w ((d.net.side w).markClosed id)).progressAll
      d.setSide w (((d.net.side w).enqClose id).deregister id)
    pure (d.settle.render (okStar (d.net.side w)))
  | [dk, w, id, dl] => do
    let w ← parseWho w
    let id ← id.toNat?
    let dl ← parseDeadline dl d.now
    if !d.hasHandle w id then return (d, "nostream")
    if dk == "dr" then
      let (s', ok) := (d.net.side w).setReadDeadline id dl
      pure ((d.setSide w s').settle.render (if ok then "ok" else "closed"))
    else if dk == "dw" then
      let (s', ok) := (d.net.side w).setWriteDeadline id dl
      pure ((d.setSide w s').settle.render (if ok then "ok" else "writeclosed"))
    else none
  | ["dcw", w, id, fr, n] => do
    -- the next frame reaches `w`'s reader while the program calls CloseWrite(id):
    -- an in-flight Write may still send what the frame entitles it to (n bytes
    -- were observed), then it returns, and only then the close-write is enqueued
    let w ← parseWho w
    let id ← id.toNat?
    let n ← n.toNat?
    let f ← parseFrame fr
    if !d.hasHandle w id then return (d, "nostream")
    match d.net.inbox w with
    | [] => return (d, "wire-mismatch")
    | m :: rest =>
      if m.toFrame ≠ f then return (d, s!"wire-mismatch:{showFrame m.toFrame}")
      let d := { d with net := d.net.setInbox w rest }
      if (d.net.side w).closedMux then return (d.settle.render "-")
      match (d.net.side w).deliverFrame f with
      | .error e => pure (({ d with net := d.net.fail w (some e) }).settle.render s!"rej:{showReject e}")
      | .ok s' =>
        let d := d.setSide w s'
        let d ← match d.findWrite w id with
          | some k => writeBudget (n + 1) d k id n
          | none => if n = 0 then some d else none
        -- a writer that got everything out returns nil, not ErrWriteClosed
        let d := match d.findWrite w id with
          | some k =>
            match d.ops[k]? with
            | some { kind := .write _ [] count, .. } => d.complete k s!"{count}/ok"
            | _ => d
          | none => d
        let already := ((d.net.side w).streams id).any (·.closedWrite)
        let d := if already then d else
          let d := (d.setSide w ((d.net.side w).markClosedWrite id)).progressAll
          d.setSide w ((d.net.side w).enqCW id)
        pure (d.settle.render (okStar (d.net.side w)))
  | ["x", k] => do
    let k ← k.toNat?
    let d := { d with ops := d.ops.modify k fun o => { o with canceled := true } }
    pure (d.settle.render "-")
  | [di, w, fr] => do
    let w ← parseWho w
    if di == "d" ∧ fr == "none" then
      if (d.net.inbox w).isEmpty then return (d.settle.render "-") else return (d, "wire-mismatch")
    let f ← parseFrame fr
    if di == "d" then
      match d.net.inbox w with
      | [] => return (d, "wire-mismatch")
      | m :: rest =>
        if m.toFrame ≠ f then return (d, s!"wire-mismatch:{showFrame m.toFrame}")
        let d := { d with net := d.net.setInbox w rest }
        if (d.net.side w).closedMux then return (d.settle.render "-")
        match (d.net.side w).deliverFrame f with
        | .ok s' => pure ((d.setSide w s').settle.render "-")
        | .error e => pure (({ d with net := d.net.fail w (some e) }).settle.render s!"rej:{showReject e}")
    else if di == "i" then
      if (d.net.side w).closedMux then return (d.settle.render "-")
      match (d.net.side w).deliverFrame f with
      | .ok s' => pure ((d.setSide w s').settle.render "-")
      | .error e => pure (({ d with net := d.net.fail w (some e) }).settle.render s!"rej:{showReject e}")
    else none
  | ["t", ms] => do
    let ms ← ms.toNat?
    pure (({ d with now := d.now + ms }).settle.render "-")
  | ["st", w] => do
    let w ← parseWho w
    if d.bufs w ≠ 1 ∨ d.inFlight w (fun | .acceptWait _ => true | .write .. => true | _ => false) then
      return (d, "unsupported")
    pure ((d.setStalled w true).settle.render "-")
  | ["us", w] => do
    let w ← parseWho w
    pure ((d.setStalled w false).settle.render "-")
  | ["mc", w] => do
    let w ← parseWho w
    pure (({ d with net := d.net.fail w none }).settle.render "ok")
  | ["end"] =>
    let d := ((d.setStalled .a false).setStalled .b false).settle
    let d := ({ d with net := d.net.fail .a none }).settle
    let d := ({ d with net := d.net.fail .b none }).settle
    let (d, out) := d.render "end"
    some (d, s!"{out}|{showInternal d.net.a.internalErr}|{showInternal d.net.b.internalErr}")
  | _ => none

def parseCfg (s : String) : Option (Int × Nat × Int) :=
  match s.splitOn "," with
  | [w, b, k] => do
    let w ← w.toInt?
    let b ← b.toInt?
    let k ← k.toInt?
    pure (w, if b ≤ 0 then 1 else b.toNat, k)
  | _ => none

def runSteps (d : DState) : List String → List String → String
  | [], acc => " ".intercalate acc.reverse
  | tok :: rest, acc =>
    match d.step tok with
    | none => " ".intercalate (("bad-step:" ++ tok) :: acc).reverse
    | some (d', out) => runSteps d' rest (out :: acc)

def handle (line : String) : String :=
  match fields line with
  | "S" :: _ => "ok"
  | "T" :: ca :: cb :: steps =>
    match parseCfg ca, parseCfg cb with
    | some (wa, ba, ka), some (wb, bb, kb) =>
      let d : DState := { net := Net.init wa ka wb kb, bufsA := ba, bufsB := bb }
      runSteps d steps []
    | _, _ => "bad-line"
  | _ => "bad-line"

end Mutagen.Driver.C24
