import Mutagen.Driver.Util
namespace Mutagen.Driver.C24

/-- Model-side handler for one line of the C24 correspondence stream. -/
def handle (_line : String) : String := "unimplemented"

end Mutagen.Driver.C24
