import Mutagen.Driver.Util
namespace Mutagen.Driver.C23

/-- Model-side handler for one line of the C23 correspondence stream. -/
def handle (_line : String) : String := "unimplemented"

end Mutagen.Driver.C23
