import Mutagen.Driver.Util
import Mutagen.Model.DaemonLock
namespace Mutagen.Driver.C28
open Mutagen.Driver Mutagen.Model.DaemonLock

/-!
Line: `<n> <event> …` — the journal (one shared O_APPEND file, so one total
order) of real processes `1..n` operating on one daemon lock file:

* `c<p>:<cmd>`  process `p` is about to run `<cmd>`: `a` daemon.AcquireLock,
                `r` Release, `n` NewLocker, `l` Lock(false), `u` Unlock,
                `c` Close, `h` Held;
* `r<p>=<res>`  it finished with `<res>` (`ok busy err refused yes no`);
* `k<p>`        the parent is about to SIGKILL `p` (or tell it to exit);
* `z<p>`        the parent has reaped `p`.

System calls and deaths are not journalled: they are internal steps (`sys p`,
`die p`) that may happen anywhere between the journalled events. The
validator tracks the *set* of model states reachable by internal steps and
requires every journalled event to be possible in at least one of them
(weak trace inclusion). For every return event it prints the observed result
if some tracked state produces it, else `!<position>:<results the model
allows>` and stops.
-/

def parseCmd : String → Option Cmd
  | "a" => some .acquire | "r" => some .release | "n" => some .new | "l" => some .lock
  | "u" => some .unlock | "c" => some .close | "h" => some .held | _ => none

def showRes : Res → String
  | .ok => "ok" | .busy => "busy" | .err => "err" | .refused => "refused" | .yes => "yes" | .no => "no"

/-- Finite projection used to compare states. -/
def key (n : Nat) (s : State) : Option Nat × List Proc :=
  (s.owner, (List.range (n + 1)).map s.procs)

def insertNew (n : Nat) (seen : List (Option Nat × List Proc)) (acc : List State) (s : State) :
    List (Option Nat × List Proc) × List State × Bool :=
  let k := key n s
  if seen.contains k then (seen, acc, false) else (k :: seen, s :: acc, true)

/-- Closure under internal steps (`sys p`, `die p`), breadth first with fuel. -/
def closure (n : Nat) (states : List State) : List State :=
  let acts : List Action := (List.range (n + 1)).flatMap fun p => [Action.sys p, Action.die p]
  let rec go (fuel : Nat) (seen : List (Option Nat × List Proc)) (all : List State) (frontier : List State) : List State :=
    match fuel, frontier with
    | 0, _ => all
    | _, [] => all
    | fuel + 1, s :: rest =>
      let succs := acts.filterMap (step s)
      let (seen, all, fresh) := succs.foldl
        (fun (acc : List (Option Nat × List Proc) × List State × List State) s' =>
          let (seen, all, fresh) := acc
          let (seen', all', isNew) := insertNew n seen all s'
          (seen', all', if isNew then s' :: fresh else fresh))
        (seen, all, [])
      go fuel seen all (rest ++ fresh)
  let (seen, all) := states.foldl
    (fun (acc : List (Option Nat × List Proc) × List State) s =>
      let (seen, all, _) := insertNew n acc.1 acc.2 s; (seen, all)) ([], [])
  go 100000 seen all all

def resultOf (s : State) (p : Nat) : Option Res :=
  match (s.procs p).pc with
  | .done r => some r
  | _ => none

inductive Out | silent | tok (t : String) | reject (t : String)

def event (n : Nat) (states : List State) (i : Nat) (tok : String) : List State × Out :=
  let body := (tok.splitOn "=").headD ""
  let obs := ((tok.splitOn "=").drop 1).headD ""
  match body.toList with
  | 'c' :: rest =>
    match (String.ofList rest).splitOn ":" with
    | [p, c] =>
      match p.toNat?, parseCmd c with
      | some p, some c =>
        let next := states.filterMap fun s => step s (.call p c)
        if next.isEmpty then ([], .reject s!"!{i}") else (closure n next, .silent)
      | _, _ => ([], .reject s!"!{i}")
    | _ => ([], .reject s!"!{i}")
  | 'r' :: rest =>
    match (String.ofList rest).toNat? with
    | some p =>
      let results := (states.filterMap fun s => resultOf s p).map showRes |>.eraseDups
      if results.contains obs then
        let next := states.filterMap fun s =>
          if (resultOf s p).map showRes == some obs then step s (.ret p) else none
        (closure n next, .tok obs)
      else ([], .reject s!"!{i}:[{",".intercalate results}]")
    | none => ([], .reject s!"!{i}")
  | 'k' :: rest =>
    match (String.ofList rest).toNat? with
    | some p => (closure n (states.filterMap fun s => step s (.signal p)), .silent)
    | none => ([], .reject s!"!{i}")
  | 'z' :: rest =>
    match (String.ofList rest).toNat? with
    | some p =>
      let next := states.filter fun s => !(s.procs p).alive
      if next.isEmpty then ([], .reject s!"!{i}") else (next, .silent)
    | none => ([], .reject s!"!{i}")
  | _ => ([], .reject s!"!{i}")

def runAll (n : Nat) : List State → Nat → List String → List String → List String
  | _, _, [], acc => acc.reverse
  | states, i, tok :: toks, acc =>
    match event n states i tok with
    | (_, .reject t) => (t :: acc).reverse
    | (next, .silent) => runAll n next (i + 1) toks acc
    | (next, .tok t) => runAll n next (i + 1) toks (t :: acc)

def handle (line : String) : String :=
  match fields line with
  | n :: evs =>
    match n.toNat? with
    | some n =>
      let outs := runAll n [init] 0 evs []
      if outs.isEmpty then "-" else " ".intercalate outs
    | none => "bad-line"
  | _ => "bad-line"

end Mutagen.Driver.C28
