import Mutagen.Driver.Util
namespace Mutagen.Driver.C28

/-- Model-side handler for one line of the C28 correspondence stream. -/
def handle (_line : String) : String := "unimplemented"

end Mutagen.Driver.C28
