import Mutagen.Driver.Util
import Mutagen.Driver.Tree
import Mutagen.Driver.Cycle
import Mutagen.Model.SyncCycle
namespace Mutagen.Driver.C11
open Mutagen.Driver Mutagen.Driver.Tree Mutagen.Driver.Cycle Mutagen.Model

/-!
Lines (trees, changes in the encoding of `Driver/Tree.lean`):

* `e <A> <alpha> <beta>` → `oneEndpointEmptiedRoot` as 0/1.
* `r <changes>` → `containsRootDeletion`, `containsRootTypeChange` as two 0/1 digits.
* `f <filtered> <original>` → `filteredPathsAreSubset` as 0/1 (comma-separated
  text tokens, `-` = empty list).
* `s <mode> <portable> <αpreserves> <βpreserves> <A> <alpha> <beta>` → one cycle
  of a real session over scripted endpoints (see `Driver/Cycle.lean`), followed
  by ` again=<…>`: the answer to a second flush with unchanged contents
  (`refused` when the session is halted).
* `S <mode> <A> <alpha> <beta> <script>` → the run loop over scripted endpoints
  (both preserve executability). Script items: `t` (flush), `t=<alpha>=<beta>`
  (the endpoints' contents are replaced, then flush), `pr` (pause + resume).
  Items are separated by `;`. One answer per item, joined by ` | `; processing
  stops after a failed cycle.
* `R <mode> <steps>` → a real session between two real directories (both local
  endpoints). Steps edit one root (`a`/`b`) or drive the session; file contents
  are one byte, written as the digest. See `fsStep`.
-/

def parseTextList (s : String) : Option (List String) :=
  if s == "-" then some [] else (s.splitOn ",").mapM decText

structure World where
  run : RunState
  α : Option Entry
  β : Option Entry

def ancestorOf : RunState → Option Entry
  | .synchronizing a => a
  | .halted _ a => a
  | .reconnecting a => a
  | .terminated => none

def showWorld (w : World) : String :=
  "anc=" ++ showOEntry (ancestorOf w.run) ++ " alpha=" ++ showOEntry w.α ++ " beta=" ++ showOEntry w.β

/-- A flush: one trigger of the run loop with the current contents; both
endpoints preserve executability and apply transitions exactly. -/
def trigger (mode : Mode) (w : World) (transOnly : Bool := false) : String × World :=
  match w.run with
  | .halted h _ => ("refused:" ++ showHalt h ++ " ev=- " ++ showWorld w, w)
  | .synchronizing a =>
    let sα : Scan := { content := w.α, preserves := true }
    let sβ : Scan := { content := w.β, preserves := true }
    let eps := worldEndpoints w.α w.β false false
    let r := cycle mode true eps a sα sβ
    let (run', evs) := runStep mode true eps w.run (.trigger sα sβ)
    let (α', β') := worldAfter w.α w.β false false evs
    let w' : World := { run := run', α := α', β := β' }
    let shown := if transOnly then evs.filter (fun | .transition _ _ => true | _ => false) else evs
    (showOutcome r.outcome ++ " ev=" ++ showEvents shown ++ " " ++ showWorld w', w')
  | _ => ("not-running", w)

/-- Pause + resume: the context is cancelled, then a new run loop starts from
the archive on disk. -/
def pauseResume (mode : Mode) (w : World) : String × World :=
  let a := ancestorOf w.run
  let (s1, _) := runStep mode true Endpoints.ideal w.run .cancel
  let w' : World := { w with run := match s1 with | .terminated => .synchronizing a | s => s }
  ("resumed " ++ showWorld w', w')

def failedOutcome (s : String) : Bool := s.startsWith "failed"

def script (mode : Mode) : World → List String → Option (List String)
  | _, [] => some []
  | w, item :: rest =>
    match item.splitOn "=" with
    | ["t"] =>
      let (out, w') := trigger mode w
      if failedOutcome out then some [out] else (script mode w' rest).map (out :: ·)
    | ["t", al, be] => do
      let w := { w with α := ← parseOEntry al, β := ← parseOEntry be }
      let (out, w') := trigger mode w
      if failedOutcome out then some [out] else (script mode w' rest).map (out :: ·)
    | ["pr"] =>
      let (out, w') := pauseResume mode w
      (script mode w' rest).map (out :: ·)
    | _ => none

/-! ### Real directories -/

/-- The directory that holds the last component of `path`, if it is one. -/
def parentIsDir (t : Option Entry) (path : Path) : Bool :=
  match path with
  | [] => true
  | _ => isKind (getPath t path.dropLast) .directory

def setAt (t : Option Entry) (path : Path) (v : Option Entry) : Option Entry :=
  if !parentIsDir t path then t
  else if path.isEmpty then v
  else if v.isNone && (getPath t path).isNone then t
  else match apply t [{ path := path, old := none, new := v }] with
    | .ok t' => t'
    | .error _ => t

def fileEntry (d : List UInt8) (x : Bool) : Entry := .mk { kind := .file, executable := x, digest := d } []
def dirEntry : Entry := .mk { kind := .directory } []

/-- One edit of a root: `w=<path>=<hex>[x]` write a file (replacing whatever
is there), `m=<path>` make an empty directory (replacing whatever is there),
`d=<path>` delete recursively (`/` deletes the root), `e` delete every child of
the root directory. All are no-ops when the parent is not a directory. -/
def fsEdit (t : Option Entry) : List String → Option (Option Entry)
  | ["w", p, d] => do
    let path ← parsePath p
    let (hex, x) := if d.endsWith "x" then ((d.dropEnd 1).toString, true) else (d, false)
    let dg ← decHex hex
    pure (setAt t path (some (fileEntry dg x)))
  | ["m", p] => do
    pure (setAt t (← parsePath p) (some dirEntry))
  | ["d", p] => do
    pure (setAt t (← parsePath p) none)
  | ["e"] =>
    match t with
    | some (.mk p _) => if p.kind == .directory then some (some (.mk p [])) else some t
    | none => some t
  | _ => none

def fsScript (mode : Mode) : World → List String → Option (List String)
  | _, [] => some []
  | w, item :: rest =>
    match item.splitOn "=" with
    | ["f"] =>
      let (out, w') := trigger mode w true
      if failedOutcome out then some [out] else (fsScript mode w' rest).map (out :: ·)
    | ["pr"] =>
      let (out, w') := pauseResume mode w
      (fsScript mode w' rest).map (out :: ·)
    | side :: edit =>
      if side == "a" then do
        let t ← fsEdit w.α edit
        fsScript mode { w with α := t } rest
      else if side == "b" then do
        let t ← fsEdit w.β edit
        fsScript mode { w with β := t } rest
      else none
    | _ => none

def run : List String → Option String
  | ["e", a, al, be] => do
    pure (showBool (oneEndpointEmptiedRoot (← parseOEntry a) (← parseOEntry al) (← parseOEntry be)))
  | ["r", cs] => do
    let cs ← parseChanges cs
    pure (showBool (containsRootDeletion cs) ++ showBool (containsRootTypeChange cs))
  | ["f", fl, orig] => do
    pure (showBool (filteredPathsAreSubset (← parseTextList fl) (← parseTextList orig)))
  | ["s", m, perm, pa, pb, a, al, be] => do
    let mode ← parseMode m
    let α : Scan := { content := ← parseOEntry al, preserves := ← parseFlag pa }
    let β : Scan := { content := ← parseOEntry be, preserves := ← parseFlag pb }
    let portable ← parseFlag perm
    let (out, r, α', β') := sessionCycle mode portable (← parseOEntry a) α β
    let again :=
      match r.outcome with
      | .halted _ => "refused"
      | .failed _ => "-"
      | .completed =>
        (sessionCycle mode portable r.ancestor { α with content := α' } { β with content := β' }).1
    pure (out ++ " again=" ++ again)
  | ["S", m, a, al, be, sc] => do
    let mode ← parseMode m
    let w : World := { run := .synchronizing (← parseOEntry a), α := ← parseOEntry al, β := ← parseOEntry be }
    let outs ← script mode w (if sc == "-" then [] else sc.splitOn ";")
    pure (" | ".intercalate outs)
  | ["R", m, steps] => do
    let mode ← parseMode m
    let w : World := { run := .synchronizing none, α := some dirEntry, β := some dirEntry }
    let outs ← fsScript mode w (listField steps)
    pure (" | ".intercalate outs)
  | _ => none

def handle (line : String) : String :=
  match run (fields line) with
  | some out => out
  | none => "bad-op"

end Mutagen.Driver.C11
