import Mutagen.Driver.Util
namespace Mutagen.Driver.C11

/-- Model-side handler for one line of the C11 correspondence stream. -/
def handle (_line : String) : String := "unimplemented"

end Mutagen.Driver.C11
