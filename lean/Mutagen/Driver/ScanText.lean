import Mutagen.Driver.Util
import Mutagen.Driver.Tree
import Mutagen.Model.ScanFS
/-!
Line protocol of the scan streams (C12, C13), shared with
`harness/scanx/scanx.go` (same grammar, same canonical form).

```
line   := sl pm ign nfc faults step+
sl     := 'i' | 'p' | 'r'            symbolic link mode ignore / portable / posix-raw
pm     := 'p' | 'm'                  permissions mode portable / manual
ign    := '-' | item {';' item}      item = pathtext '|' ('d'|'f') '|' ('n'|'i'|'u') ('0'|'1')
                                     (the ignorer as a table; absent keys: nominal, no traversal)
nfc    := '-' | text '>' text {';' …} NFC recomposition table (absent names: unchanged)
faults := '-' | op '|' pathtext '|' ('e'|'n') {';' …}
                                     op = of OpenFile, od OpenDirectory, rd ReadContents, rl ReadSymbolicLink;
                                     e = generic error, n = does-not-exist error
step   := beh recheck cachemod fs
beh    := ('0'|'1') ('0'|'1')        preservesExecutability, decomposesUnicode probed for this scan
recheck:= '-' | pathtext {';' pathtext}
cachemod := '=' | '0' | 'w' | 'c'    '=' : pass the previous scan's outputs as acceleration inputs,
                                     '0' : pass the previous snapshot but an empty digest cache,
                                     'w' : pass the caches but no baseline, 'c' : pass nothing
                                     (a failed previous scan always means: nothing)
fs     := '~' | node
node   := 'D' dev '(' [pair {',' pair}] ')'
        | 'F' perm '.' sec '.' nsec '.' size '.' ino '.' content      (perm octal, rest decimal, sec may be negative)
        | 'L' text
        | 'O' typ
pair   := hexname ':' node           children in readdir order, names as hex bytes
content:= hex* | '*' n '*' hexbyte   literal bytes or n copies of one byte
```
Answer per step (steps joined by ` || `):
`ok <entry> d=<n> f=<n> l=<n> s=<n> x=<beh> cache=<…> ign=<…>` or `err:<class>`.
-/
namespace Mutagen.Driver.ScanText
open Mutagen.Driver Mutagen.Driver.Tree Mutagen.Model Mutagen.Model.ScanFS

/-! ## Concrete instances of the abstract parameters -/

/-- FNV-1a, 64 bit (`hash/fnv.New64a`), digest big-endian. -/
def fnv1a (bs : Bytes) : Bytes :=
  let h : UInt64 := bs.foldl (fun h b => (h ^^^ b.toUInt64) * 1099511628211) 14695981039346656037
  (List.range 8).map fun i => (h >>> (UInt64.ofNat (8 * (7 - i)))).toUInt8

def inRange (b : UInt8) (lo hi : Nat) : Bool := lo ≤ b.toNat && b.toNat ≤ hi

/-- Width of the valid UTF-8 sequence at the head of `bs` as `utf8.DecodeRune`
sees it; `0` = invalid (Go reports `RuneError, 1`). -/
def utf8Width : Bytes → Nat
  | [] => 0
  | b0 :: r =>
    if b0.toNat < 0x80 then 1 else
    let cont (b : UInt8) := inRange b 0x80 0xBF
    match r with
    | [] => 0
    | b1 :: r1 =>
      if inRange b0 0xC2 0xDF then (if cont b1 then 2 else 0) else
      match r1 with
      | [] => 0
      | b2 :: r2 =>
        let three (lo hi : Nat) := if inRange b1 lo hi && cont b2 then 3 else 0
        if b0.toNat == 0xE0 then three 0xA0 0xBF
        else if inRange b0 0xE1 0xEC || inRange b0 0xEE 0xEF then three 0x80 0xBF
        else if b0.toNat == 0xED then three 0x80 0x9F
        else
        match r2 with
        | [] => 0
        | b3 :: _ =>
          let four (lo hi : Nat) := if inRange b1 lo hi && cont b2 && cont b3 then 4 else 0
          if b0.toNat == 0xF0 then four 0x90 0xBF
          else if inRange b0 0xF1 0xF3 then four 0x80 0xBF
          else if b0.toNat == 0xF4 then four 0x80 0x8F
          else 0

def decodeUTF8 (bs : Bytes) : Option String := String.fromUTF8? (ByteArray.mk bs.toArray)

/-- `strings.ToValidUTF8(s, "�")`: every maximal run of bytes that do not
start a valid sequence becomes one replacement character. -/
def toValidUTF8 : Nat → Bytes → Bool → List Char → String
  | 0, _, _, acc => String.ofList acc.reverse
  | _, [], _, acc => String.ofList acc.reverse
  | fuel + 1, bs, invalid, acc =>
    let w := utf8Width bs
    if w == 0 then
      toValidUTF8 fuel (bs.drop 1) true (if invalid then acc else '�' :: acc)
    else
      let cs := match decodeUTF8 (bs.take w) with | some s => s.toList | none => ['?']
      toValidUTF8 fuel (bs.drop w) false (cs.reverse ++ acc)

def escapeName (bs : Bytes) : String := toValidUTF8 (bs.length + 1) bs false []

/-- `strings.Split(s, "/")` on characters. -/
def splitSlash : List Char → List (List Char)
  | [] => [[]]
  | c :: cs =>
    if c = '/' then [] :: splitSlash cs
    else match splitSlash cs with
      | h :: t => (c :: h) :: t
      | [] => [[c]]

def depthWalk : Int → List (List Char) → Bool
  | _, [] => true
  | d, c :: cs =>
    let d' := if c = ['.'] then d else if c = ['.', '.'] then d - 1 else d + 1
    if d' < 0 then false else depthWalk d' cs

/-- symbolic_link.go `normalizeSymbolicLinkAndEnsurePortable` (POSIX branch) as it
stands in the source; its own model and theorems are C16's. The scan streams
never generate targets with empty components, on which the repaired and the
unrepaired walk differ. -/
def normalizePortable (path target : String) : Option String :=
  let t := target.toList
  if target = "" then none
  else if target.utf8ByteSize > Mutagen.Facts.scanSymlinkMaxTarget then none
  else if t.contains ':' then none
  else if t.contains '\\' then none
  else if t.head? = some '/' then none
  else if depthWalk (Int.ofNat (path.toList.count '/')) (splitSlash t) then some target
  else none

/-! ## Parsing -/

def parseNat (cs : List Char) : Option (Nat × List Char) :=
  let (d, r) := spanChars Char.isDigit cs
  if d.isEmpty then none else (String.ofList d).toNat?.map (·, r)

def parseInt (cs : List Char) : Option (Int × List Char) :=
  match cs with
  | '-' :: r => (parseNat r).map fun (n, r') => (-(Int.ofNat n), r')
  | _ => (parseNat cs).map fun (n, r') => (Int.ofNat n, r')

def parseOct (cs : List Char) : Option (Nat × List Char) :=
  let (d, r) := spanChars (fun c => '0' ≤ c && c ≤ '7') cs
  if d.isEmpty then none else some (d.foldl (fun a c => a * 8 + (c.toNat - 48)) 0, r)

def isHexChar (c : Char) : Bool := c.isDigit || ('a' ≤ c && c ≤ 'f')

def expect (c : Char) : List Char → Option (List Char)
  | d :: r => if c = d then some r else none
  | [] => none

def parseContent (cs : List Char) : Option (Bytes × List Char) :=
  match cs with
  | '*' :: r => do
    let (n, r1) ← parseNat r
    let r2 ← expect '*' r1
    let (h, r3) := spanChars isHexChar r2
    match ← decHexChars h with
    | [b] => some (List.replicate n b, r3)
    | _ => none
  | _ =>
    let (h, r) := spanChars isHexChar cs
    (decHexChars h).map (·, r)

mutual
partial def parseFsNode : List Char → Option (Node × List Char)
  | 'D' :: r => do
    let (dev, r1) ← parseNat r
    let r2 ← expect '(' r1
    match r2 with
    | ')' :: r3 => some (.dir dev [], r3)
    | _ =>
      let (kids, r3) ← parseFsPairs r2 []
      some (.dir dev kids, r3)
  | 'F' :: r => do
    let (perm, r1) ← parseOct r
    let (sec, r2) ← parseInt (← expect '.' r1)
    let (nsec, r3) ← parseNat (← expect '.' r2)
    let (size, r4) ← parseNat (← expect '.' r3)
    let (ino, r5) ← parseNat (← expect '.' r4)
    let (content, r6) ← parseContent (← expect '.' r5)
    some (.file content perm { sec, nsec } size ino, r6)
  | 'L' :: r => do
    let (t, r1) ← parseText r
    some (.symlink t, r1)
  | 'O' :: r => do
    let (t, r1) ← parseNat r
    some (.other t, r1)
  | _ => none
partial def parseFsPairs (cs : List Char) (acc : Children) : Option (Children × List Char) := do
  let (h, r1) := spanChars isHexChar cs
  let name ← decHexChars h
  let r2 ← expect ':' r1
  let (n, r3) ← parseFsNode r2
  match r3 with
  | ',' :: r4 => parseFsPairs r4 ((name, n) :: acc)
  | ')' :: r4 => some (((name, n) :: acc).reverse, r4)
  | _ => none
end

def parseFs (s : String) : Option (Option Node) :=
  if s == "~" then some none else
  match parseFsNode s.toList with
  | some (n, []) => some (some n)
  | _ => none

def items (s : String) : List String := if s == "-" then [] else s.splitOn ";"

def parseIgnTable (s : String) : Option (List ((String × Bool) × IgnoreVal)) :=
  (items s).mapM fun it =>
    match it.splitOn "|" with
    | [p, d, v] => do
      let path ← if p == "%" then some "" else decText p
      let dir ← match d with | "d" => some true | "f" => some false | _ => none
      let (st, c) ← match v.toList with
        | [a, b] => do
          let st ← match a with
            | 'n' => some IgnoreStatus.nominal | 'i' => some .ignored | 'u' => some .unignored | _ => none
          let c ← match b with | '0' => some false | '1' => some true | _ => none
          pure (st, c)
        | _ => none
      pure ((path, dir), { status := st, cont := c })
    | _ => none

def parseNfcTable (s : String) : Option (List (String × String)) :=
  (items s).mapM fun it =>
    match it.splitOn ">" with
    | [a, b] => do pure (← decText a, ← decText b)
    | _ => none

structure Faults where
  openFile : List (String × Fault) := []
  openDir : List (String × Fault) := []
  readDir : List String := []
  readlink : List (String × Fault) := []

def parseFaults (s : String) : Option Faults :=
  (items s).foldlM (init := {}) fun (f : Faults) it =>
    match it.splitOn "|" with
    | [op, p, k] => do
      let path ← if p == "%" then some "" else decText p
      let kind ← match k with | "e" => some Fault.err | "n" => some Fault.notExist | _ => none
      match op with
      | "of" => some { f with openFile := (path, kind) :: f.openFile }
      | "od" => some { f with openDir := (path, kind) :: f.openDir }
      | "rd" => some { f with readDir := path :: f.readDir }
      | "rl" => some { f with readlink := (path, kind) :: f.readlink }
      | _ => none
    | _ => none

def parsePathList (s : String) : Option (List String) :=
  (items s).mapM fun p => if p == "%" then some "" else decText p

def faultOf (t : List (String × Fault)) (p : String) : Fault := (alookup p t).getD .none

def mkCfg (sl : SymlinkMode) (pm : PermsMode) (ign : List ((String × Bool) × IgnoreVal))
    (nfc : List (String × String)) (f : Faults) (px du : Bool) : Cfg :=
  { ignorer := fun p d => (alookup (p, d) ign).getD { status := .nominal, cont := false }
    symlinkMode := sl, permsMode := pm, preservesExec := px, decomposes := du
    nfc := fun s => (alookup s nfc).getD s
    hash := fnv1a, utf8 := decodeUTF8, escape := escapeName, normalize := normalizePortable
    openFileFault := faultOf f.openFile, openDirFault := faultOf f.openDir
    readDirFault := fun p => f.readDir.contains p, readlinkFault := faultOf f.readlink
    deviceID := 0, linux := true }

/-! ## Printing -/

def showPathText (p : String) : String := if p == "" then "%" else encText p

/-- Keep the newest binding of every key (the lists are newest first). -/
def dedupFirst {α β} [BEq α] : List (α × β) → List α → List (α × β)
  | [], _ => []
  | (k, v) :: r, seen => if seen.contains k then dedupFirst r seen else (k, v) :: dedupFirst r (k :: seen)

def octDigits : Nat → Nat → List Char
  | 0, _ => []
  | fuel + 1, n => if n < 8 then [Char.ofNat (48 + n)] else octDigits fuel (n / 8) ++ [Char.ofNat (48 + n % 8)]

def showOct (n : Nat) : String := String.ofList (octDigits 32 n)

def showCache (c : Cache) : String :=
  showList (sortStrings ((dedupFirst c []).map fun (p, e) =>
    s!"{showPathText p}|{showOct e.mode}|{e.mtime.sec}|{e.mtime.nsec}|{e.size}|{e.fileID}|{encHex e.digest}"))

def showIgnoreVal (v : IgnoreVal) : String :=
  (match v.status with | .nominal => "n" | .ignored => "i" | .unignored => "u") ++ (if v.cont then "1" else "0")

def showIgnoreCache (c : IgnoreCache) : String :=
  showList (sortStrings ((dedupFirst c []).map fun ((p, d), v) =>
    s!"{showPathText p}|{if d then "d" else "f"}|{showIgnoreVal v}"))

def showOut (o : Out) : String :=
  let s := o.snapshot
  s!"ok {showOEntry s.content} d={s.dirs} f={s.files} l={s.links} s={s.size} " ++
  s!"x={showBool s.preservesExec}{showBool s.decomposes} cache={showCache o.cache} ign={showIgnoreCache o.ignoreCache}"

def showResult : Except ScanErr Out → String
  | .ok o => showOut o
  | .error .openRoot => "err:open-root"
  | .error .failed => "err:failed"
  | .error .panic => "err:panic"

/-! ## The step loop -/

structure Step where
  px : Bool
  du : Bool
  recheck : List String
  cacheMod : String
  fs : Option Node

def parseSteps : List String → Option (List Step)
  | [] => some []
  | beh :: rc :: cm :: fs :: rest => do
    let (px, du) ← match beh.toList with
      | [a, b] => some (a == '1', b == '1')
      | _ => none
    if !(["=", "0", "w", "c"].contains cm) then none else
    let step : Step := { px, du, recheck := ← parsePathList rc, cacheMod := cm, fs := ← parseFs fs }
    (parseSteps rest).map (step :: ·)
  | _ => none

/-- Runs the steps; each scan receives the previous scan's outputs (when it
succeeded) as baseline / cache / ignore cache. -/
def runSteps (mk : Bool → Bool → Cfg) : List Step → Option Out → List String → List String
  | [], _, acc => acc.reverse
  | s :: rest, prev, acc =>
    let p : Prev :=
      match prev with
      | none => {}
      | some o =>
        match s.cacheMod with
        | "=" => { baseline := some o.snapshot, recheck := s.recheck, cache := o.cache, ignoreCache := o.ignoreCache }
        | "0" => { baseline := some o.snapshot, recheck := s.recheck, cache := [], ignoreCache := o.ignoreCache }
        | "w" => { baseline := none, recheck := s.recheck, cache := o.cache, ignoreCache := o.ignoreCache }
        | _ => {}
    let r := scan (mk s.px s.du) p s.fs
    let prev' := match r with | .ok o => some o | .error _ => none
    runSteps mk rest prev' (showResult r :: acc)

def handle (line : String) : String :=
  match fields line with
  | sl :: pm :: ign :: nfc :: faults :: steps =>
    let parsed : Option (List String) := do
      let sl ← match sl with | "i" => some SymlinkMode.ignore | "p" => some .portable | "r" => some .posixRaw | _ => none
      let pm ← match pm with | "p" => some PermsMode.portable | "m" => some .manual | _ => none
      let ign ← parseIgnTable ign
      let nfc ← parseNfcTable nfc
      let f ← parseFaults faults
      let steps ← parseSteps steps
      if steps.isEmpty then none else
      pure (runSteps (mkCfg sl pm ign nfc f) steps none [])
    match parsed with
    | some outs => " || ".intercalate outs
    | none => "bad-op"
  | _ => "bad-op"

end Mutagen.Driver.ScanText
