import Mutagen.Driver.Util
namespace Mutagen.Driver.C21

/-- Model-side handler for one line of the C21 correspondence stream. -/
def handle (_line : String) : String := "unimplemented"

end Mutagen.Driver.C21
