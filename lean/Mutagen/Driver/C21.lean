import Mutagen.Driver.Util
import Mutagen.Driver.Tree
import Mutagen.Model.Remote
import Mutagen.Driver.C11
namespace Mutagen.Driver.C21
open Mutagen.Driver Mutagen.Driver.Tree Mutagen.Model Mutagen.Model.Remote

/-!
Lines (trees, changes, paths in the encoding of `Driver/Tree.lean`; `-` = empty list):

* `k <request paths> <digest count> !` / `k <request paths> <digest count> <paths> <sigs>`
  → `Stage` through client and server when the underlying endpoint fails /
  returns the given paths and signatures (`sigs`: one `0|1` validity digit per
  signature): `local-error` | `none` | `rejected` | `invalid` | `remote-error` |
  `need <paths> <signature count>`.
* `t <changes> !` / `t <changes> <results> <problems> <missing 0|1>` → `Transition`
  (`results`: entries joined by `;`, `problems`: `path!text` joined by `;`):
  `rejected` | `invalid` | `remote-error` | `done <results> <problems> <missing>`.
* `n <scan> <scan> …` → a history of scans on one client; a scan is
  `<ancestor>+!<tryAgain>` (the endpoint fails) or `<ancestor>+<tree>+<p><d>`
  (snapshot content, preserves-executability and decomposes-unicode flags).
  Per scan: `<result>/last=<stored snapshot or ->`, result = `ok:<tree>+<pd>` |
  `remote-error:<tryAgain>` | `invalid`.
* `v <mode> <A> <alpha> <beta>` → number of alpha and beta changes of `Reconcile`
  that fail `Change.EnsureValid(true)`: `<n>,<n>`.
* `m <steps>` → mirrored real roots (one behind a local endpoint, one behind a
  remote endpoint); steps, comma separated: the root edits of `Driver/C11`
  (`w=…`, `m=…`, `d=…`, `e`), `s` / `S` (scan / full scan → `scan:<tree>`),
  `T=<path>=<hex>[x]…` (stage, supply and transition new file contents →
  `T:need=<paths still to be staged>:<results>:ok:0`), `D=<path>` (transition
  deleting the path), `X=<path>` (a transition whose expectation about the disk
  is wrong → `X:problem`). Answers joined by ` | `.
* `q <poll|scan|transition> <r|c|b>` → one cancellable operation whose
  response comes first (`r`), whose context is cancelled while the endpoint
  blocks (`c`) or before the call (`b`), followed by a `Stage` on the same
  connection: `<ok|remote-error|invalid> <aligned|misaligned>`.
-/

def parseTextList (s : String) : Option (List String) :=
  if s == "-" then some [] else (s.splitOn ",").mapM decText

def showTextList (l : List String) : String :=
  if l.isEmpty then "-" else ",".intercalate (l.map encText)

def parseSigs (s : String) : Option (List Bool) :=
  if s == "-" then some [] else s.toList.mapM fun c => if c == '1' then some true else if c == '0' then some false else none

def showStage : StageResult → String
  | .localError => "local-error"
  | .nothing => "none"
  | .requestRejected => "rejected"
  | .invalidResponse => "invalid"
  | .remoteError => "remote-error"
  | .need paths sigs => "need " ++ showTextList paths ++ " " ++ toString sigs.length

def parseEntries (s : String) : Option (List (Option Entry)) :=
  if s == "-" then some [] else (s.splitOn ";").mapM parseOEntry

def showEntries (l : List (Option Entry)) : String :=
  if l.isEmpty then "-" else ";".intercalate (l.map showOEntry)

def parseProblem (s : String) : Option (Path × String) :=
  match s.splitOn "!" with
  | [p, t] => do pure (← parsePath p, ← decText t)
  | _ => none

def parseProblems (s : String) : Option (List (Path × String)) :=
  if s == "-" then some [] else (s.splitOn ";").mapM parseProblem

def showProblems (l : List (Path × String)) : String :=
  if l.isEmpty then "-" else ";".intercalate (l.map fun p => showPath p.1 ++ "!" ++ encText p.2)

def showTransition : TransitionResult → String
  | .requestRejected => "rejected"
  | .invalidResponse => "invalid"
  | .remoteError => "remote-error"
  | .done rs ps m => "done " ++ showEntries rs ++ " " ++ showProblems ps ++ " " ++ showBool m

/-- A snapshot token `<tree>+<pd>` as opaque bytes. -/
def tokenBytes (s : String) : Bytes := s.toUTF8.toList

def bytesToken (b : Bytes) : String := (String.fromUTF8? (ByteArray.mk b.toArray)).getD "?"

def tokenTree (b : Bytes) : Option (Option Entry) :=
  match (bytesToken b).splitOn "+" with
  | [t, _] => parseOEntry t
  | _ => none

def snapshotValid (b : Bytes) : Bool :=
  match tokenTree b with
  | some t => oensureValid false t
  | none => false

def snapshotHasContent (b : Bytes) : Bool :=
  match tokenTree b with
  | some (some _) => true
  | _ => false

/-- The ancestor-based baseline: `Snapshot{Content: ancestor, PreservesExecutability: true}`. -/
def ancestorToken (a : String) : Bytes := tokenBytes (a ++ "+10")

def parseScan (s : String) : Option (Bytes × ScanOutcome) :=
  match s.splitOn "+" with
  | [a, "!0"] => do let _ ← parseOEntry a; pure (ancestorToken a, .error false)
  | [a, "!1"] => do let _ ← parseOEntry a; pure (ancestorToken a, .error true)
  | [a, t, pd] => do
    let _ ← parseOEntry a
    let tree ← parseOEntry t
    if pd.length != 2 then none
    else pure (ancestorToken a, .snapshot (tokenBytes (showOEntry tree ++ "+" ++ pd)))
  | _ => none

def showScanResult : ScanResult → String
  | .ok b => "ok:" ++ bytesToken b
  | .remoteError t => "remote-error:" ++ showBool t
  | .patchFailed => "patch-failed"
  | .invalidSnapshot => "invalid"

def scans : Client → List (Bytes × ScanOutcome) → List String
  | _, [] => []
  | st, (anc, o) :: rest =>
    let (r, st') := remoteScan Codec.trivial snapshotValid snapshotHasContent st anc o
    (showScanResult r ++ "/last=" ++ (match st'.last with | some b => bytesToken b | none => "-")) :: scans st' rest

/-- The schedules of the three timings, in an order in which every step is
enabled when reached. -/
def schedule : String → Option (List Step)
  -- the operation finishes by itself, the response arrives, then the completion is sent
  | "r" => some [.sendRequest, .receiveRequest, .finishOperation, .sendResponse, .receiveResponse,
      .sendCompletion, .receiveCompletion]
  -- the caller cancels while the operation blocks: completion first, it cancels the operation
  | "c" => some [.sendRequest, .receiveRequest, .cancelContext, .sendCompletion, .receiveCompletion,
      .finishOperation, .sendResponse, .receiveResponse]
  -- the caller's context is already cancelled: request and completion are sent back to back
  | "b" => some [.cancelContext, .sendRequest, .sendCompletion, .receiveRequest, .receiveCompletion,
      .finishOperation, .sendResponse, .receiveResponse]
  | _ => none

/-- The digests of the files of a tree (the endpoint's reverse lookup map). -/
def fileDigests : Option Entry → List (List UInt8)
  | none => []
  | some e => (e.stagingPaths []).map (·.2)

def parseFileSpecs : List String → Option (List (Path × Entry))
  | [] => some []
  | p :: d :: rest => do
    let path ← parsePath p
    let (hex, x) := if d.endsWith "x" then ((d.dropEnd 1).toString, true) else (d, false)
    let dg ← decHex hex
    let more ← parseFileSpecs rest
    pure ((path, C11.fileEntry dg x) :: more)
  | _ => none

def mirrorSteps : Option Entry → List String → Option (List String)
  | _, [] => some []
  | t, step :: rest =>
    match step.splitOn "=" with
    | ["s"] => (mirrorSteps t rest).map (("scan:" ++ showOEntry t) :: ·)
    | ["S"] => (mirrorSteps t rest).map (("scan:" ++ showOEntry t) :: ·)
    | "T" :: specs => do
      let files ← parseFileSpecs specs
      if files.isEmpty then none
      let changes : List Change := files.map fun f => { path := f.1, old := getPath t f.1, new := some f.2 }
      let deps := transitionDependencies changes
      let have_ := fileDigests t
      let need := (deps.filter fun d => !have_.contains d.2).map fun d => pathString d.1
      let t' := files.foldl (fun acc f => C11.setAt acc f.1 (some f.2)) t
      let out := "T:need=" ++ showTextList need ++ ":" ++ showEntries (files.map fun f => some f.2) ++ ":ok:0"
      (mirrorSteps t' rest).map (out :: ·)
    | ["D", p] => do
      let path ← parsePath p
      (mirrorSteps (C11.setAt t path none) rest).map ("D:need=-:~:ok:0" :: ·)
    | ["X", _] => (mirrorSteps t rest).map ("X:problem" :: ·)
    | edit => do
      let t' ← C11.fsEdit t edit
      mirrorSteps t' rest

def run : List String → Option String
  | ["m", steps] => do
    let outs ← mirrorSteps (some C11.dirEntry) (listField steps)
    pure (" | ".intercalate outs)
  | ["k", req, nd, "!"] => do
    pure (showStage (remoteStage (← parseTextList req) (← nd.toNat?) .error))
  | ["k", req, nd, paths, sigs] => do
    pure (showStage (remoteStage (← parseTextList req) (← nd.toNat?) (.need (← parseTextList paths) (← parseSigs sigs))))
  | ["t", cs, "!"] => do
    pure (showTransition (remoteTransition (← parseChanges cs) .error))
  | ["t", cs, rs, ps, m] => do
    let missing ← if m == "1" then some true else if m == "0" then some false else none
    pure (showTransition (remoteTransition (← parseChanges cs) (.done (← parseEntries rs) (← parseProblems ps) missing)))
  | "n" :: toks => do
    let hist ← toks.mapM parseScan
    pure (" ".intercalate (scans {} hist))
  | ["v", m, a, al, be] => do
    let (m, a, al, be) ← parseTriple [m, a, al, be]
    let p := Reconcile a al be m
    let bad (cs : List Change) : Nat := (cs.filter fun c => !c.ensureValid true).length
    pure (toString (bad p.alpha) ++ "," ++ toString (bad p.beta))
  | ["q", op, timing] => do
    let sched ← schedule timing
    let w := Wire.run {} sched
    let result ←
      match op, timing with
      | "poll", "r" => some "ok" | "scan", "r" => some "ok" | "transition", "r" => some "ok"
      | "poll", _ => some "remote-error" | "scan", _ => some "remote-error"
      -- an error response carries no results and fails the result-count check
      | "transition", _ => some (match remoteTransition [{ path := [] }] .error with
          | .remoteError => "remote-error" | _ => "invalid")
      | _, _ => none
    pure (result ++ " " ++ (if w.returned && w.aligned then "aligned" else "misaligned"))
  | _ => none

def handle (line : String) : String :=
  match run (fields line) with
  | some out => out
  | none => "bad-op"

end Mutagen.Driver.C21
