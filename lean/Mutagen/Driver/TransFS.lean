import Mutagen.Driver.Util
import Mutagen.Driver.Tree
import Mutagen.Model.TransitionFS
/-!
Line protocol of the transition scenarios shared by C08 and C09 (Go side:
`harness/transx`).

One case = 8 space-separated fields:
```
cfg    := sl ':' fileModeOct ':' dirModeOct ':' rootName ':' preCancelled      sl = 'p' portable | 'i' ignore | 'r' posix-raw
cache  := '-' | item {';' item}       item = path '>' modeOct '/' mtime '/' size '/' ino '/' digestHex
fs     := '~' | node                  (the synchronization root)
node   := 'd' permOct '(' [name ':' node {',' name ':' node}] ')'
        | 'f' permOct '/' mtime '/' ino '/' dataHex
        | 'l' text
        | 'o'
staged := '-' | item {';' item}       item = path '#' digestHex '=' ( permOct '/' mtime '/' ino '/' dataHex | '!' )   ('!': Provide fails)
plan   := change list of Tree (ordered)
faults := '-' | f {',' f}             f = op ':' name ':' occurrence ':' ('f' fail | 'x' EXDEV | 'c' cancel)
order  := '-' | name {',' name}       observed sibling order (globally unique leaf names)
hash   := '-' | dataHex '>' digestHex {',' …}    the hash function on the contents that occur
```
Answer: `res=<entries ;> prob=<path:class ,> miss=<0|1> fs=<node|~> scan=<entry|~|err> staged=<keys ,>`.
-/
namespace Mutagen.Driver.TransFS
open Mutagen.Driver Mutagen.Driver.Tree Mutagen.Model Mutagen.Model.TFS

def octDigits : Nat → Nat → List Char
  | 0, _ => []
  | fuel + 1, n => if n < 8 then [Char.ofNat (48 + n)] else octDigits fuel (n / 8) ++ [Char.ofNat (48 + n % 8)]

def showOct (n : Nat) : String := String.ofList (octDigits 64 n)

def parseOct (s : String) : Option Nat :=
  if s.isEmpty then none else
  s.toList.foldlM (fun acc c => if '0' ≤ c ∧ c ≤ '7' then some (acc * 8 + (c.toNat - 48)) else none) 0

/-- File contents: hex, or `*<n>x<hh>` for `n > 64` copies of the byte `hh`
(large files of the copy-preemption cases). -/
def decData (s : String) : Option (List UInt8) :=
  match s.toList with
  | '*' :: rest =>
    match (String.ofList rest).splitOn "x" with
    | [n, h] => do
      let k ← n.toNat?
      match ← decHex h with
      | [b] => some (List.replicate k b)
      | _ => none
    | _ => none
  | _ => decHex s

def encData (d : List UInt8) : String :=
  match d with
  | [] => "-"
  | b :: r => if d.length > 64 && r.all (· == b) then "*" ++ toString d.length ++ "x" ++ encHex [b] else encHex d

partial def showNode : Node → String
  | .dir p cs =>
    let kids := (cs.map fun (n, c) => (n, encText n ++ ":" ++ showNode c)).mergeSort (fun a b => strLe a.1 b.1)
    "d" ++ showOct p ++ "(" ++ ",".intercalate (kids.map (·.2)) ++ ")"
  | .file d p m i => "f" ++ showOct p ++ "/" ++ toString m ++ "/" ++ toString i ++ "/" ++ encData d
  | .symlink t => "l" ++ encText t
  | .other => "o"

def isOctChar (c : Char) : Bool := '0' ≤ c && c ≤ '7'
def isHexOrDash (c : Char) : Bool := c.isDigit || ('a' ≤ c && c ≤ 'f') || c == '-' || c == '*' || c == 'x'

/-- `perm/mtime/ino/data` -/
def parseFileBody (cs : List Char) : Option ((List UInt8 × Nat × Nat × Nat) × List Char) := do
  let (p, r1) := spanChars isOctChar cs
  let perm ← parseOct (String.ofList p)
  let r1 ← match r1 with | '/' :: r => some r | _ => none
  let (m, r2) := spanChars Char.isDigit r1
  let mtime ← (String.ofList m).toNat?
  let r2 ← match r2 with | '/' :: r => some r | _ => none
  let (i, r3) := spanChars Char.isDigit r2
  let ino ← (String.ofList i).toNat?
  let r3 ← match r3 with | '/' :: r => some r | _ => none
  let (h, r4) := spanChars isHexOrDash r3
  let data ← decData (String.ofList h)
  pure ((data, perm, mtime, ino), r4)

mutual
partial def parseNode : List Char → Option (Node × List Char)
  | 'd' :: r => do
    let (p, r1) := spanChars isOctChar r
    let perm ← parseOct (String.ofList p)
    match r1 with
    | '(' :: ')' :: r2 => some (.dir perm [], r2)
    | '(' :: r2 => do
      let (kids, r3) ← parseKids r2 []
      some (.dir perm kids, r3)
    | _ => none
  | 'f' :: r => do
    let ((d, p, m, i), r1) ← parseFileBody r
    some (.file d p m i, r1)
  | 'l' :: r => do
    let (t, r1) ← parseText r
    some (.symlink t, r1)
  | 'o' :: r => some (.other, r)
  | _ => none
partial def parseKids (cs : List Char) (acc : Kids) : Option (Kids × List Char) := do
  let (name, r1) ← parseText cs
  match r1 with
  | ':' :: r2 =>
    let (nd, r3) ← parseNode r2
    match r3 with
    | ',' :: r4 => parseKids r4 ((name, nd) :: acc)
    | ')' :: r4 => some (((name, nd) :: acc).reverse, r4)
    | _ => none
  | _ => none
end

def parseONode (s : String) : Option (Option Node) :=
  if s == "~" then some none else
  match parseNode s.toList with
  | some (n, []) => some (some n)
  | _ => none

def showONode : Option Node → String
  | none => "~"
  | some n => showNode n

def parseSL : String → Option SLMode
  | "p" => some .portable | "i" => some .ignore | "r" => some .posixRaw | _ => none

structure Cfg where
  sl : SLMode
  fileMode : Nat
  dirMode : Nat
  rootName : Name
  preCancelled : Bool

def parseCfg (s : String) : Option Cfg :=
  match s.splitOn ":" with
  | [sl, fm, dm, root, pc] => do
    pure { sl := ← parseSL sl, fileMode := ← parseOct fm, dirMode := ← parseOct dm, rootName := ← decText root,
           preCancelled := pc == "1" }
  | _ => none

def parseCacheItem (s : String) : Option (Path × CEntry) :=
  match s.splitOn ">" with
  | [p, body] =>
    match body.splitOn "/" with
    | [mode, mtime, size, ino, dig] => do
      pure (← parsePath p, { mode := ← parseOct mode, mtime := ← mtime.toNat?, size := ← size.toNat?, ino := ← ino.toNat?,
                              digest := ← decHex dig })
    | _ => none
  | _ => none

def parseCache (s : String) : Option Cache :=
  if s == "-" then some [] else (s.splitOn ";").mapM parseCacheItem

/-- Staged files and the set of keys for which `Provide` fails. -/
def parseStagedItem (s : String) : Option (((Path × List UInt8) × Option SFile)) :=
  match s.splitOn "=" with
  | [k, body] =>
    match k.splitOn "#" with
    | [p, d] => do
      let key := (← parsePath p, ← decHex d)
      if body == "!" then pure (key, none) else
      match parseFileBody body.toList with
      | some ((data, perm, mtime, ino), []) => pure (key, some { data, perm, mtime, ino })
      | _ => none
    | _ => none
  | _ => none

def parseStaged (s : String) : Option (List ((Path × List UInt8) × Option SFile)) :=
  if s == "-" then some [] else (s.splitOn ";").mapM parseStagedItem

def parseOp : String → Option Op
  | "mkdir" => some .mkdir | "mktemp" => some .mktemp | "symlink" => some .symlink | "chmod" => some .chmod
  | "opendir" => some .opendir | "openfile" => some .openfile | "readdir" => some .readdir
  | "readlink" => some .readlink | "lstat" => some .lstat | "rmdir" => some .rmdir | "unlink" => some .unlink
  | "rename" => some .rename | _ => none

def parseAction : String → Option Action
  | "f" => some .fail | "x" => some .exdev | "c" => some .cancel | _ => none

structure Fault where
  op : Op
  name : Name
  k : Nat
  act : Action

def parseFault (s : String) : Option Fault :=
  match s.splitOn ":" with
  | [op, n, k, a] => do pure { op := ← parseOp op, name := ← decText n, k := ← k.toNat?, act := ← parseAction a }
  | _ => none

def parseFaults (s : String) : Option (List Fault) :=
  if s == "-" then some [] else (s.splitOn ",").mapM parseFault

def parseNames (s : String) : Option (List Name) :=
  if s == "-" then some [] else (s.splitOn ",").mapM decText

def parseHashItem (s : String) : Option (List UInt8 × List UInt8) :=
  match s.splitOn ">" with
  | [a, b] => do pure (← decData a, ← decHex b)
  | _ => none

def parseHash (s : String) : Option (List (List UInt8 × List UInt8)) :=
  if s == "-" then some [] else (s.splitOn ",").mapM parseHashItem

/-- The oracle of a fault list: the k-th call (from 0) of (op, name). -/
def oracleOf (fs : List Fault) (trace : List (Op × Name)) (op : Op) (name : Name) : Action :=
  let k := (trace.filter fun c => c.1 == op && c.2 == name).length
  match fs.find? fun f => f.op == op && f.name == name && f.k == k with
  | some f => f.act
  | none => .pass

def indexOf (n : Name) : List Name → Nat → Nat
  | [], i => i
  | m :: r, i => if m == n then i else indexOf n r (i + 1)

/-- Sibling order from the observed global order: observed names first, in
observed order, the rest in byte order. -/
def ordOf (obs : List Name) (l : List Name) : List Name :=
  let key (n : Name) : Nat := indexOf n obs 0
  (l.mergeSort strLe).mergeSort fun a b => key a ≤ key b

/-- Temporary name: the pattern followed by the first free index ≥ count. -/
def tmpNameOf : Nat → Nat → List Name → Name
  | 0, k, _ => tmpPattern ++ toString k
  | fuel + 1, k, l => if l.contains (tmpPattern ++ toString k) then tmpNameOf fuel (k + 1) l else tmpPattern ++ toString k

/-- `normalizeSymbolicLinkAndEnsurePortable` on POSIX (symbolic_link.go:34-108). -/
def normPortable (path : Path) (target : String) : Option String :=
  if target == "" then none else
  if target.utf8ByteSize > Mutagen.Facts.transitionMaxPortableLinkLength then none else
  if target.toList.contains ':' then none else
  if target.toList.contains '\\' then none else
  if target.toList.head? == some '/' then none else
  let depth0 : Int := (path.length : Int) - 1
  let rec go : List String → Int → Bool
    | [], _ => true
    | c :: r, d =>
      let d := if c == "." then d else if c == ".." then d - 1 else d + 1
      if d < 0 then false else go r d
  if go (target.splitOn "/") (if path.isEmpty then 0 else depth0) then some target else none

def showProblems (ps : List (Path × String)) : String :=
  if ps.isEmpty then "-" else ",".intercalate (sortStrings (ps.map fun (p, c) => showPath p ++ ":" ++ c))

def showStagedKeys (s : Staged) : String :=
  if s.isEmpty then "-" else ",".intercalate (sortStrings (s.map fun ((p, d), _) => showPath p ++ "#" ++ encHex d))

def handle (line : String) : String :=
  -- a ninth field (history of the case, for the Go-side oracles) is ignored
  match (fields line).take 8 with
  | [cfg, cache, fs, staged, plan, faults, order, hash] =>
    let parsed := do
      let cfg ← parseCfg cfg
      let cache ← parseCache cache
      let root ← parseONode fs
      let staged ← parseStaged staged
      let plan ← parseChanges plan
      let faults ← parseFaults faults
      let order ← parseNames order
      let hash ← parseHash hash
      pure (cfg, cache, root, staged, plan, faults, order, hash)
    match parsed with
    | none => "bad-op"
    | some (cfg, cache, root, staged, plan, faults, order, hash) =>
      let env : Env := {
        rootName := cfg.rootName, cache := cache, slMode := cfg.sl, fileMode := cfg.fileMode, dirMode := cfg.dirMode,
        oracle := oracleOf faults, ord := ordOf order, norm := normPortable,
        provideErr := fun p d => staged.any fun (k, v) => k == (p, d) && v.isNone,
        tmpName := tmpNameOf 1000 }
      let top : Node := .dir 0o755 (match root with | none => [] | some r => [(cfg.rootName, r)])
      let st0 : St := { fs := top, staged := staged.filterMap fun (k, v) => v.map (k, ·), cancelled := cfg.preCancelled }
      let (rs, st) := transition env st0 plan
      let H (d : List UInt8) : List UInt8 := (hash.find? (·.1 == d)).map (·.2) |>.getD []
      let sc : ScanCfg := { slMode := cfg.sl, norm := normPortable, H := H }
      let root' := rootOf env st.fs
      let scan := match scanRoot sc root' with
        | none => "err"
        | some e => showOEntry e
      "res=" ++ showList (rs.map showOEntry) ++ " prob=" ++ showProblems st.problems ++
        " miss=" ++ showBool st.missing ++ " fs=" ++ showONode root' ++ " scan=" ++ scan ++
        " staged=" ++ showStagedKeys st.staged
  | _ => "bad-op"

end Mutagen.Driver.TransFS
