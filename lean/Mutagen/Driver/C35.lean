import Mutagen.Driver.Util
import Mutagen.Model.CloseLadder
namespace Mutagen.Driver.C35
open Mutagen.Driver Mutagen.Model.CloseLadder

/-!
Line: `<delay> <g1> <g2> <self> <onStdin> <onTerm> <killLatency> <holders> <R|N> = <observed>`
(milliseconds; `-` for a reaction the agent does not have; `<holders>`: the
standard streams — subset of `eoi`, `-` none — inherited by a descendant that
outlives the agent; `R`: NewStream got a standard-error receiver; a further
field `W`/`-`: a `Stream.Write` is blocked on the full input pipe when Close is
called). The last three fields may be missing (older lines). Only the explorer's ladder steps matter
for the outcome: by `holders_do_not_matter` the descendant's and the copier's
steps change nothing Close can see. `<observed>` is the
stage in which the real `Close` returned (`wait stdin term kill`). The model
explores its runs under the promptness assumptions and prints the observed
stage if one of its runs returns there, else the stage of its first run.
-/

def optNat (s : String) : Option (Option Nat) :=
  if s == "-" then some none else s.toNat?.map some

def showStage : Stage → String
  | .wait => "wait" | .stdin => "stdin" | .term => "term" | .kill => "kill"

def handle (line : String) : String :=
  match fields line with
  | [d, g1, g2, self, onStdin, onTerm, kl, "=", obs] => go d g1 g2 self onStdin onTerm kl "-" "N" "-" obs
  | [d, g1, g2, self, onStdin, onTerm, kl, holders, r, "=", obs] => go d g1 g2 self onStdin onTerm kl holders r "-" obs
  | [d, g1, g2, self, onStdin, onTerm, kl, holders, r, w, "=", obs] => go d g1 g2 self onStdin onTerm kl holders r w obs
  | _ => "bad-line"
where
  go (d g1 g2 self onStdin onTerm kl holders r w obs : String) : String :=
    match d.toNat?, g1.toNat?, g2.toNat?, optNat self, optNat onStdin, optNat onTerm, kl.toNat? with
    | some d, some g1, some g2, some self, some onStdin, some onTerm, some kl =>
      if (w == "W" || w == "-") && (r == "R" || r == "N") && (holders == "-" || holders.toList.all fun c => c == 'e' || c == 'o' || c == 'i') then
        let p : Params := { delay := d, g1 := g1, g2 := g2, recv := r == "R", writer := w == "W" }
        let b : Behaviour := { self := self, onStdin := onStdin, onTerm := onTerm, killLatency := kl,
                               holder := holders.toList.contains 'e' }
        let stages := ((outcomes p b 64 (init p b)).map fun r => showStage r.1).eraseDups
        if stages.contains obs then obs else stages.headD "no-return"
      else "bad-line"
    | _, _, _, _, _, _, _ => "bad-line"

end Mutagen.Driver.C35
