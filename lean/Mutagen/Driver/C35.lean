import Mutagen.Driver.Util
namespace Mutagen.Driver.C35

/-- Model-side handler for one line of the C35 correspondence stream. -/
def handle (_line : String) : String := "unimplemented"

end Mutagen.Driver.C35
