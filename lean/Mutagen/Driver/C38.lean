import Mutagen.Driver.Util
namespace Mutagen.Driver.C38

/-- Model-side handler for one line of the C38 correspondence stream. -/
def handle (_line : String) : String := "unimplemented"

end Mutagen.Driver.C38
