import Mutagen.Driver.Util
import Mutagen.Model.URL
namespace Mutagen.Driver.C38
open Mutagen.Driver Mutagen.Model.URL

/-!
Line: `<kind> <first> <raw> <env> <norm>`
* kind `s` (synchronization) | `f` (forwarding) | `x` (unsupported), first `0|1`;
* raw: the URL text, hex bytes;
* env: `-` or `NAME=<hex>,…` — the process environment seen by `os.LookupEnv`;
* norm: `-` or `<hex in>><hex out>,…` (`!` for an error) — the answers of
  `filesystem.Normalize` for every string the parsers can ask about in this case.

Output: `err:<class>` or
`ok <url> <valid|invalid:class> <Format("") hex> <Format(";") hex> <same|diff:<url>|err:<class>>`
where the last field is `Parse(Format(""))` compared with the first result and
`<url>` is `proto/user/host/port/path/env` (hex fields).
-/

def hexStr (s : Str) : String := encHex (charsToBytes s)

def unhexStr (s : String) : Option Str := (decHex s).map bytesToChars

def showErr : Err → String
  | .unsupportedKind => "unsupported-kind" | .emptyURL => "empty-url"
  | .emptyUsername => "empty-username" | .emptyHostname => "empty-hostname" | .noHostname => "no-hostname"
  | .optionLike => "option-like" | .invalidPort => "invalid-port" | .emptyPath => "empty-path"
  | .invalidEndpoint => "invalid-endpoint" | .emptyContainer => "empty-container"
  | .missingPath => "missing-path" | .missingEndpoint => "missing-endpoint"
  | .normalize => "normalize" | .normalizeSocket => "normalize-socket"

def showVErr : VErr → String
  | .kind => "kind"
  | .localUser => "local-user" | .localHost => "local-host" | .localPort => "local-port"
  | .localEnvironment => "local-environment" | .localParameters => "local-parameters"
  | .sshHost => "ssh-host" | .sshPort => "ssh-port" | .sshEnvironment => "ssh-environment" | .sshOption => "ssh-option"
  | .dockerHost => "docker-host" | .dockerPort => "docker-port" | .dockerOption => "docker-option"
  | .protocol => "protocol"
  | .emptyPath => "empty-path" | .relativePath => "relative-path" | .dockerFirstCharacter => "docker-first-character"
  | .endpoint => "endpoint" | .relativeSocket => "relative-socket"

def showProtocol : Protocol → String
  | .local => "local" | .ssh => "ssh" | .docker => "docker" | .unknown => "unknown"

def showPairs (l : List (Str × Str)) : String :=
  if l.isEmpty then "-" else ";".intercalate (l.map fun (k, v) => s!"{String.ofList k}={hexStr v}")

def showURL (u : URL) : String :=
  s!"{showProtocol u.protocol}/{hexStr u.user}/{hexStr u.host}/{u.port}/{hexStr u.path}/{showPairs u.environment}"

def showValid (P : Platform) (u : URL) : String :=
  match ensureValid P u with
  | .ok () => "valid"
  | .error e => s!"invalid:{showVErr e}"

def parseKind : String → Option Kind
  | "s" => some .synchronization | "f" => some .forwarding | "x" => some .unsupported | _ => none

def parseEnv (s : String) : Option (List (Str × Str)) :=
  (listField s).mapM fun item =>
    match item.splitOn "=" with
    | [k, v] => do pure (k.toList, ← unhexStr v)
    | _ => none

def parseNorm (s : String) : Option (List (Str × Option Str)) :=
  (listField s).mapM fun item =>
    match item.splitOn ">" with
    | [k, "!"] => do pure (← unhexStr k, none)
    | [k, v] => do pure (← unhexStr k, some (← unhexStr v))
    | _ => none

def assoc {β : Type} (k : Str) : List (Str × β) → Option β
  | [] => none
  | (k', v) :: rest => if k' = k then some v else assoc k rest

/-- The platform of one case: POSIX, not the Docker Desktop extension. -/
def platform (env : List (Str × Str)) (norm : List (Str × Option Str)) : Platform :=
  posix false (fun s => (assoc s norm).join) (fun k => assoc k env)

def handle (line : String) : String :=
  match fields line with
  | [k, f, raw, env, norm] =>
    match parseKind k, unhexStr raw, parseEnv env, parseNorm norm with
    | some kind, some raw, some env, some norm =>
      let P := platform env norm
      let first := f == "1"
      match parse P raw kind first with
      | .error e => s!"err:{showErr e}"
      | .ok u =>
        let f0 := (format u []).getD []
        let f1 := (format u [';']).getD []
        let re := match parse P f0 kind first with
          | .error e => s!"err:{showErr e}"
          | .ok u' => if u' = u then "same" else s!"diff:{showURL u'}"
        s!"ok {showURL u} {showValid P u} {hexStr f0} {hexStr f1} {re}"
    | _, _, _, _ => "bad-line"
  | _ => "bad-line"

end Mutagen.Driver.C38
