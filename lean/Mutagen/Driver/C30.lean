import Mutagen.Driver.Util
namespace Mutagen.Driver.C30

/-- Model-side handler for one line of the C30 correspondence stream. -/
def handle (_line : String) : String := "unimplemented"

end Mutagen.Driver.C30
