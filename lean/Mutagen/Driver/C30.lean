import Mutagen.Driver.Util
import Mutagen.Model.Tracker
namespace Mutagen.Driver.C30
open Mutagen.Driver Mutagen.Model.Tracker

/-!
Two kinds of lines.

`conc <n> <event> <event> …` — a journal of one concurrent execution of the
real Tracker/TrackingLock with callers `0..n` (trace validation). Events, in
the order they were journalled:

* `c<w>:<op>`   caller `w` is about to call `<op>`: `n` NotifyOfChange,
                `p<prev>` WaitForChange(prev), `t` Terminate, `l`/`u`/`v`
                TrackingLock Lock/Unlock/UnlockWithoutNotify;
* `x<w>`        the context of `w`'s current call is about to be cancelled;
* `s<w>=<snap>` `w` released the tracker mutex (end of a critical section);
                `sT=<snap>` the tracking goroutine did (`Cond.Wait` or exit).
                `<snap>` = `index,terminated,len(pollRequests)` read while
                the mutex was still held;
* `r<w>=<res>`  `w`'s call returned `<res>` (`index/err` or `-`).

The text after `=` is what was observed; the model ignores it and prints its
own value for every `s`/`r` event. An event that is not enabled in the model
prints `!<position>` and stops. Internal steps without a journal entry are
placed canonically: `recv`/`termDone`/`tlAcq` at the return event (latest
possible), `tlRel` at the call event (earliest possible).

`seq <op> …` — a sequential script run to quiescence after every op on a
Tracker built by the real `NewTracker`: `n`, `w<prev>` (start a background
WaitForChange, waiter ids count from 1), `x<k>` (cancel waiter k), `t`, `l`,
`u`, `v`. Output per op: the waiters that completed during that op,
`k:index/err,…` or `-`.
-/

def showErr : Err → String
  | .ok => "ok" | .terminated => "term" | .canceled => "canc"

def showRes : Option Result → String
  | none => "-"
  | some r => s!"{r.index}/{showErr r.err}"

def nreq (s : State) (n : Nat) : Nat :=
  ((List.range (n + 1)).filter fun w => (s.reqs w).isSome).length

def snap (s : State) (n : Nat) : String :=
  s!"{s.index},{if s.terminated then 1 else 0},{nreq s n}"

def parseOp (t : String) : Option Op :=
  match t.toList with
  | ['n'] => some .notify
  | ['t'] => some .terminate
  | ['l'] => some .tlLock
  | ['u'] => some .tlUnlock
  | ['v'] => some .tlUnlockQuiet
  | 'p' :: rest => (String.ofList rest).toNat?.map Op.poll
  | _ => none

/-- The return event of caller `w`: place the pending internal step, then return. -/
def returnStep (s : State) (w : Nat) : Option (State × Option Result) := do
  let s1 ← match s.pc w with
    | .done _ => some s
    | .pollWait _ => step s (.recv w)
    | .termWait => step s (.termDone w)
    | .tlLock => step s (.tlAcq w)
    | _ => none
  match s1.pc w with
  | .done r => do
    let s2 ← step s1 (.ret w)
    pure (s2, r)
  | _ => none

/-- One journal event: new state and the model's output token (if any). -/
def concEvent (n : Nat) (s : State) (tok : String) : Option (State × Option String) :=
  let body := (tok.splitOn "=").headD ""
  match body.toList with
  | 'c' :: rest =>
    match (String.ofList rest).splitOn ":" with
    | [w, op] => do
      let w ← w.toNat?
      let op ← parseOp op
      let s1 ← step s (.call w op)
      match op with
      | .tlUnlock | .tlUnlockQuiet => do
        let s2 ← step s1 (.tlRel w)
        pure (s2, none)
      | _ => pure (s1, none)
    | _ => none
  | 'x' :: rest => do
    let w ← (String.ofList rest).toNat?
    let s1 ← step s (.cancel w)
    pure (s1, none)
  | ['s', 'T'] => do
    let s1 ← step s .track
    pure (s1, some (snap s1 n))
  | 's' :: rest => do
    let w ← (String.ofList rest).toNat?
    let s1 ← step s (.cs w)
    pure (s1, some (snap s1 n))
  | 'r' :: rest => do
    let w ← (String.ofList rest).toNat?
    let (s1, r) ← returnStep s w
    pure (s1, some (showRes r))
  | _ => none

def concRun (n : Nat) : State → List String → Nat → List String → List String
  | _, [], _, acc => acc.reverse
  | s, tok :: toks, i, acc =>
    match concEvent n s tok with
    | none => (s!"!{i}" :: acc).reverse
    | some (s1, none) => concRun n s1 toks (i + 1) acc
    | some (s1, some out) => concRun n s1 toks (i + 1) (out :: acc)

/-! Sequential scripts. -/

/-- Complete every waiter that can complete; returns the completions. -/
def collect (s : State) : List Nat → State × List (Nat × Option Result)
  | [] => (s, [])
  | k :: ks =>
    let try1 : Option (State × Option Result) :=
      match s.pc k with
      | .done _ => returnStep s k
      | .pollWait _ =>
        match s.chan k with
        | some _ => returnStep s k
        | none => if s.cancelled k then (step s (.cs k)).bind fun s1 => returnStep s1 k else none
      | _ => none
    match try1 with
    | some (s1, r) =>
      let (s2, rest) := collect s1 ks
      (s2, (k, r) :: rest)
    | none => collect s ks

/-- Run the tracking goroutine if it is runnable, then let waiters complete. -/
def settle (s : State) (waiters : List Nat) : State × List (Nat × Option Result) :=
  let s1 := match step s .track with | some s' => s' | none => s
  collect s1 waiters

def showDone (l : List (Nat × Option Result)) : String :=
  if l.isEmpty then "-" else ",".intercalate (l.map fun (k, r) => s!"{k}:{showRes r}")

/-- Foreground call by caller 0 that finishes with critical section + return
(possibly after settling, for Terminate). -/
def seqOp (s : State) (nw : Nat) (tok : String) : Option (State × Nat × String) :=
  let waiters := (List.range nw).map (· + 1)
  match tok.toList with
  | ['n'] => do
    let s ← step s (.call 0 .notify)
    let s ← step s (.cs 0)
    let (s, _) ← returnStep s 0
    let (s, d) := settle s waiters
    pure (s, nw, showDone d)
  | ['t'] => do
    let s ← step s (.call 0 .terminate)
    let s ← step s (.cs 0)
    let (s, d) := settle s waiters
    let (s, _) ← returnStep s 0
    pure (s, nw, showDone d)
  | ['l'] => do
    let s ← step s (.call 0 .tlLock)
    let (s, _) ← returnStep s 0
    pure (s, nw, "-")
  | ['u'] => do
    let s ← step s (.call 0 .tlUnlock)
    let s ← step s (.tlRel 0)
    let s ← step s (.cs 0)
    let (s, _) ← returnStep s 0
    let (s, d) := settle s waiters
    pure (s, nw, showDone d)
  | ['v'] => do
    let s ← step s (.call 0 .tlUnlockQuiet)
    let s ← step s (.tlRel 0)
    let (s, _) ← returnStep s 0
    pure (s, nw, "-")
  | 'w' :: rest => do
    let prev ← (String.ofList rest).toNat?
    let k := nw + 1
    let s ← step s (.call k (.poll prev))
    let s ← step s (.cs k)
    let (s, d) := settle s (waiters ++ [k])
    pure (s, k, showDone d)
  | 'x' :: rest => do
    let k ← (String.ofList rest).toNat?
    let s ← step s (.cancel k)
    let (s, d) := settle s waiters
    pure (s, nw, showDone d)
  | _ => none

def seqRun : State → Nat → List String → List String → List String
  | _, _, [], acc => acc.reverse
  | s, nw, tok :: toks, acc =>
    match seqOp s nw tok with
    | none => ("bad-op" :: acc).reverse
    | some (s1, nw1, out) => seqRun s1 nw1 toks (out :: acc)

def handle (line : String) : String :=
  match fields line with
  | "conc" :: n :: evs =>
    match n.toNat? with
    | some n => " ".intercalate (concRun n init evs 0 [])
    | none => "bad-line"
  | "seq" :: ops =>
    -- the tracking goroutine runs once right after NewTracker
    let s0 := (settle init []).1
    " ".intercalate (seqRun s0 0 ops [])
  | _ => "bad-line"

end Mutagen.Driver.C30
