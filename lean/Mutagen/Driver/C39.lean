import Mutagen.Driver.Util
import Mutagen.Model.Identifier
namespace Mutagen.Driver.C39
open Mutagen.Driver Mutagen.Model.Identifier

/-!
Strings travel as `s:<text>` (printable ASCII without spaces) or
`u:<cp>.<cp>…` (decimal code points as `range` over the Go string yields them;
a code point ≥ 128 may carry the suffix `L`/`N` when `unicode.IsLetter` /
`unicode.IsNumber` holds for it).

Lines:
* `b62 <hex>` — `encoding.EncodeBase62`; answer: the text (`-` when empty).
* `new <prefix hex> <random hex>` — `identifier.New` with the random source
  delivering the given bytes; answer `ok <identifier>`, `error` or `panic`.
* `valid <string>` — `identifier.IsValid`; `true`/`false`.
* `trunc <string>` — `identifier.Truncated`; the text or `-`.
* `name <string>` — `selection.EnsureNameValid`; `ok`/`error`.
* `re` — sources of the two regular expressions.
-/

def parseCp (tok : String) : Option (Char × CharClass) :=
  let cs := tok.toList
  let (digits, cls) :=
    match cs.getLast? with
    | some 'L' => (cs.dropLast, CharClass.letter)
    | some 'N' => (cs.dropLast, CharClass.number)
    | _ => (cs, CharClass.other)
  (String.ofList digits).toNat?.map fun n => (Char.ofNat n, cls)

/-- The string and the classification of its non-ASCII code points. -/
def parseStr (tok : String) : Option (List Char × (Char → CharClass)) :=
  match tok.toList with
  | 's' :: ':' :: rest => some (rest, fun _ => .other)
  | 'u' :: ':' :: rest =>
    if rest.isEmpty then some ([], fun _ => .other) else do
    let cps ← ((String.ofList rest).splitOn ".").mapM parseCp
    pure (cps.map (·.1), fun c => match cps.find? (·.1 == c) with
      | some (_, k) => k
      | none => .other)
  | _ => none

def showText (cs : List Char) : String := if cs.isEmpty then "-" else String.ofList cs

def handle (line : String) : String :=
  match fields line with
  | ["b62", h] =>
    match decHex h with
    | some v => showText (encodeBase62 v)
    | none => "bad-op"
  | ["new", p, r] =>
    match decHex p, decHex r with
    | some p, some r =>
      match new p r with
      | .ok id => "ok " ++ String.ofList id
      | .error => "error"
      | .panic => "panic"
    | _, _ => "bad-op"
  | ["valid", s] =>
    match parseStr s with
    | some (cs, _) => toString (isValid cs)
    | none => "bad-op"
  | ["trunc", s] =>
    match parseStr s with
    | some (cs, _) => showText (truncated cs)
    | none => "bad-op"
  | ["name", s] =>
    match parseStr s with
    | some (cs, extra) => if ensureNameValid extra cs = .ok then "ok" else "error"
    | none => "bad-op"
  | ["re"] => matcherSource ++ " " ++ legacyMatcherSource
  | _ => "bad-op"

end Mutagen.Driver.C39
