import Mutagen.Driver.Util
namespace Mutagen.Driver.C39

/-- Model-side handler for one line of the C39 correspondence stream. -/
def handle (_line : String) : String := "unimplemented"

end Mutagen.Driver.C39
