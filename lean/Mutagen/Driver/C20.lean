import Mutagen.Driver.Util
namespace Mutagen.Driver.C20

/-- Model-side handler for one line of the C20 correspondence stream. -/
def handle (_line : String) : String := "unimplemented"

end Mutagen.Driver.C20
