import Mutagen.Driver.Util
import Mutagen.Driver.C19
import Mutagen.Model.Rsync
namespace Mutagen.Driver.C20
open Mutagen.Driver Mutagen.Driver.C19 Mutagen.Model.Rsync

/-!
Lines (the model is the *repaired* `sendBlock`, fixes/C20.patch):
* `e <hasher> <blockSize> <maxOp> <base hex> <target hex> <failspec>` —
  `Engine.Deltify` with a scripted transmitter.
  Output `ret=<ok|err> log=<op>/<1|0>,…` (every attempted call, 1 = accepted).
* `t <blockSize> <failspec> <finalizeFails 0|1> <extraSigs> <file>;<file>…` —
  `rsync.Transmit` (SHA-1) over files `<base hex>:<target hex>` (`!` as target:
  the file cannot be opened) into a scripted receiver; `extraSigs` additional
  signatures provoke the length mismatch.
  Output `ret=<ok|err> fin=<finalize calls> log=<msg>/<1|0>,…` with msg
  `O<expectedSize>:<op>` or `F<0|1>` (done, with/without error text).
failspec: `none`, `once:k`, `from:k`, `set:a.b.c` (call indices, 0-based).
-/

def parseFails (s : String) : Option (Nat → Bool) :=
  match s.splitOn ":" with
  | ["none"] => some fun _ => false
  | ["once", k] => do let k ← k.toNat?; pure fun i => i == k
  | ["from", k] => do let k ← k.toNat?; pure fun i => i ≥ k
  | ["set", l] => do let ks ← (l.splitOn ".").mapM String.toNat?; pure fun i => ks.contains i
  | _ => none

def showMsg : Msg → String
  | .op n o => s!"O{n}:{showOp o}"
  | .done e => if e then "F1" else "F0"

def parseFile (bs : Nat) (s : String) : Option (Option (List UInt8) × Signature (List UInt8)) :=
  match s.splitOn ":" with
  | [b, t] => do
    let base ← decHex b
    let sig := signature Mutagen.Model.Sha1.sha1 base bs
    if t == "!" then pure (none, sig) else do
      let target ← decHex t
      pure (some target, sig)
  | _ => none

def handle (line : String) : String :=
  match fields line with
  | ["e", hn, bs, mx, b, t, fs] =>
    match hasher hn, bs.toNat?, mx.toNat?, decHex b, decHex t, parseFails fs with
    | some H, some bs, some mx, some base, some target, some fails =>
      let sig := signature H base bs
      let (tx, ex) := deltify (Tx.transmit fails) H true target sig mx Tx.empty
      let ret := if ex == .ok then "ok" else showExit ex
      s!"ret={ret} log=" ++ showList (tx.log.map fun (o, ok) => s!"{showOp o}/{if ok then 1 else 0}")
    | _, _, _, _, _, _ => "bad-op"
  | ["t", bs, fs, ff, extra, files] =>
    match bs.toNat?, parseFails fs, extra.toNat?, (listSemi files).mapM (parseFile (bs.toNat?.getD 1)) with
    | some _, some fails, some extra, some fl =>
      let sigs := fl.map (·.2) ++ List.replicate extra { blockSize := 0, lastBlockSize := 0, hashes := [] }
      let (rx, e) := transmit Mutagen.Model.Sha1.sha1 true fails (ff == "1") (fl.map (·.1)) sigs
      s!"ret={if e then "err" else "ok"} fin={rx.finalized} log=" ++
        showList (rx.log.map fun (m, ok) => s!"{showMsg m}/{if ok then 1 else 0}")
    | _, _, _, _ => "bad-op"
  | _ => "bad-op"
where
  listSemi (s : String) : List String := if s == "-" then [] else s.splitOn ";"

end Mutagen.Driver.C20
