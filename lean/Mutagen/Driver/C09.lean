import Mutagen.Driver.Util
namespace Mutagen.Driver.C09

/-- Model-side handler for one line of the C09 correspondence stream. -/
def handle (_line : String) : String := "unimplemented"

end Mutagen.Driver.C09
