import Mutagen.Driver.TransFS
namespace Mutagen.Driver.C09

/-- Model-side handler for one line of the C09 correspondence stream: a
transition scenario (see `Mutagen.Driver.TransFS`). -/
def handle (line : String) : String := Mutagen.Driver.TransFS.handle line

end Mutagen.Driver.C09
