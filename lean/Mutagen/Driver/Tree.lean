import Mutagen.Driver.Util
import Mutagen.Model.Entry
import Mutagen.Model.Reconcile
/-!
Compact textual encoding of entry trees, changes, conflicts and plans, shared
with the Go harness (`harness/hx/tree.go`, same grammar, same canonical form).

```
entry  := '~'                                   (nil)
        | kind ['x'] ['#' hex+] ['@' text] ['!' text] ['(' [pair {',' pair}] ')']
kind   := 'D' directory | 'F' file | 'L' symlink | 'U' untracked
        | 'X' problematic | 'P' phantom directory | '?' unknown kind
          'x' executable, '#' digest, '@' link target, '!' problem, '(…)' contents
pair   := text ':' entry                        (entry ≠ '~')
text   := safe+ | '%' hex*                      safe = [A-Za-z0-9._-]; %hex = UTF-8 bytes
path   := '/' [text {'/' text}]                 ('/' alone = root)
change := path '=' entry '>' entry              (old, new)
list   := '-' | item {';' item}
conflict := path '[' changes '|' changes ']'    conflicts are joined with '&'
```
Canonical form: contents sorted by name (byte order), empty fields omitted,
a name/target/problem is written raw iff it is non-empty and all-safe; change
and conflict lists sorted as rendered strings.
-/
namespace Mutagen.Driver.Tree
open Mutagen.Driver Mutagen.Model

def isSafe (c : Char) : Bool :=
  c.isAlphanum || c == '.' || c == '_' || c == '-'

def encText (s : String) : String :=
  if s != "" && s.toList.all isSafe then s
  else
    let h := encHex s.toUTF8.toList
    "%" ++ (if h == "-" then "" else h)

def decText (s : String) : Option String :=
  match s.toList with
  | '%' :: rest =>
    if rest.isEmpty then some "" else do
      let bs ← decHexChars rest
      String.fromUTF8? (ByteArray.mk bs.toArray)
  | cs => if !cs.isEmpty && cs.all isSafe then some s else none

def kindChar : Kind → Char
  | .directory => 'D' | .file => 'F' | .symlink => 'L' | .untracked => 'U'
  | .problematic => 'X' | .phantom => 'P' | .unknown => '?'

def charKind : Char → Option Kind
  | 'D' => some .directory | 'F' => some .file | 'L' => some .symlink | 'U' => some .untracked
  | 'X' => some .problematic | 'P' => some .phantom | '?' => some .unknown | _ => none

def strLe (a b : String) : Bool := !(b < a)

def sortStrings (l : List String) : List String := l.mergeSort strLe

partial def showEntry : Entry → String
  | .mk p cs =>
    let kids := (cs.map fun (n, c) => (n, encText n ++ ":" ++ showEntry c)).mergeSort
      (fun a b => strLe a.1 b.1)
    String.singleton (kindChar p.kind) ++
    (if p.executable then "x" else "") ++
    (if p.digest.isEmpty then "" else "#" ++ encHex p.digest) ++
    (if p.target == "" then "" else "@" ++ encText p.target) ++
    (if p.problem == "" then "" else "!" ++ encText p.problem) ++
    (if cs.isEmpty then "" else "(" ++ ",".intercalate (kids.map (·.2)) ++ ")")

def showOEntry : Option Entry → String
  | none => "~"
  | some e => showEntry e

/-- Take the longest prefix satisfying `p`. -/
def spanChars (p : Char → Bool) : List Char → List Char × List Char
  | [] => ([], [])
  | c :: r => if p c then let (a, b) := spanChars p r; (c :: a, b) else ([], c :: r)

def isTextChar (c : Char) : Bool := isSafe c || c == '%'

/-- Parse a `text` token. -/
def parseText (cs : List Char) : Option (String × List Char) :=
  let (tok, rest) := spanChars isTextChar cs
  (decText (String.ofList tok)).map (·, rest)

mutual
partial def parseNode : List Char → Option (Entry × List Char)
  | k :: r0 => do
    let kind ← charKind k
    let (exec, r1) := match r0 with | 'x' :: r => (true, r) | r => (false, r)
    let (digest, r2) ← match r1 with
      | '#' :: r =>
        let (h, r') := spanChars (fun c => c.isDigit || ('a' ≤ c && c ≤ 'f')) r
        if h.isEmpty then none else (decHexChars h).map (·, r')
      | r => some ([], r)
    let (target, r3) ← match r2 with
      | '@' :: r => parseText r
      | r => some ("", r)
    let (problem, r4) ← match r3 with
      | '!' :: r => parseText r
      | r => some ("", r)
    let p : Props := { kind, executable := exec, digest, target, problem }
    match r4 with
    | '(' :: ')' :: r => some (.mk p [], r)
    | '(' :: r => do
      let (kids, r') ← parsePairs r []
      some (.mk p kids, r')
    | r => some (.mk p [], r)
  | [] => none
partial def parsePairs (cs : List Char) (acc : List (Name × Entry)) : Option (List (Name × Entry) × List Char) := do
  let (name, r1) ← parseText cs
  match r1 with
  | ':' :: r2 =>
    let (e, r3) ← parseNode r2
    if acc.any (·.1 == name) then none else
    match r3 with
    | ',' :: r4 => parsePairs r4 ((name, e) :: acc)
    | ')' :: r4 => some (((name, e) :: acc).reverse, r4)
    | _ => none
  | _ => none
end

def parseOEntryChars : List Char → Option (Option Entry × List Char)
  | '~' :: r => some (none, r)
  | cs => (parseNode cs).map fun (e, r) => (some e, r)

/-- Parse a complete `entry` token. -/
def parseOEntry (s : String) : Option (Option Entry) :=
  match parseOEntryChars s.toList with
  | some (e, []) => some e
  | _ => none

def showPath (p : Path) : String := "/" ++ "/".intercalate (p.map encText)

def parsePath (s : String) : Option Path :=
  match s.toList with
  | '/' :: rest =>
    if rest.isEmpty then some [] else ((String.ofList rest).splitOn "/").mapM decText
  | _ => none

def showChange (c : Change) : String :=
  showPath c.path ++ "=" ++ showOEntry c.old ++ ">" ++ showOEntry c.new

def parseChange (s : String) : Option Change :=
  match s.splitOn "=" with
  | [p, rest] =>
    match rest.splitOn ">" with
    | [o, n] => do pure { path := ← parsePath p, old := ← parseOEntry o, new := ← parseOEntry n }
    | _ => none
  | _ => none

def showList (items : List String) : String :=
  if items.isEmpty then "-" else ";".intercalate items

/-- Changes in the given order. -/
def showChangesOrdered (cs : List Change) : String := showList (cs.map showChange)

/-- Changes in canonical (sorted) order. -/
def showChanges (cs : List Change) : String := showList (sortStrings (cs.map showChange))

def parseChanges (s : String) : Option (List Change) :=
  if s == "-" then some [] else (s.splitOn ";").mapM parseChange

def showConflict (c : Conflict) : String :=
  showPath c.root ++ "[" ++ showChanges c.alphaChanges ++ "|" ++ showChanges c.betaChanges ++ "]"

def showConflicts (cs : List Conflict) : String :=
  if cs.isEmpty then "-" else "&".intercalate (sortStrings (cs.map showConflict))

def showPlan (p : Plan) : String :=
  "anc=" ++ showChanges p.anc ++ " alpha=" ++ showChanges p.alpha ++ " beta=" ++ showChanges p.beta ++
    " conf=" ++ showConflicts p.conflicts

def parseMode : String → Option Mode
  | "two-way-safe" => some .twoWaySafe
  | "two-way-resolved" => some .twoWayResolved
  | "one-way-safe" => some .oneWaySafe
  | "one-way-replica" => some .oneWayReplica
  | _ => none

def showBool (b : Bool) : String := if b then "1" else "0"

def showApplyResult : Except ApplyErr (Option Entry) → String
  | .ok e => showOEntry e
  | .error .unresolved => "err:unresolved"
  | .error .nilDeref => "err:panic"

end Mutagen.Driver.Tree

namespace Mutagen.Driver.Tree
open Mutagen.Driver Mutagen.Model

/-- Parsed `<mode> <A> <alpha> <beta>` fields. -/
def parseTriple : List String → Option (Mode × Option Entry × Option Entry × Option Entry)
  | [m, a, al, be] => do
    pure (← parseMode m, ← parseOEntry a, ← parseOEntry al, ← parseOEntry be)
  | _ => none

/-- The `reconcile` stream shared by C01, C02, C03 and C06:
`<mode> <A> <alpha> <beta>` → the canonical plan of `Reconcile`. -/
def handleReconcile (line : String) : String :=
  match parseTriple (fields line) with
  | some (m, a, al, be) => showPlan (Reconcile a al be m)
  | none => "bad-op"

end Mutagen.Driver.Tree

namespace Mutagen.Driver.Tree
open Mutagen.Driver Mutagen.Model

/-- Parse `path[changes|changes]`. -/
def parseConflict (s : String) : Option Conflict :=
  match s.splitOn "[" with
  | [p, rest] =>
    if !rest.endsWith "]" then none else
    match (String.ofList rest.toList.dropLast).splitOn "|" with
    | [a, b] => do
      pure { root := ← parsePath p, alphaChanges := ← parseChanges a, betaChanges := ← parseChanges b }
    | _ => none
  | _ => none

/-- `cfvalid <conflict>` → `Conflict.EnsureValid() == nil` as 0/1, `|`, the slim conflict. -/
def handleConflictValid (s : String) : String :=
  match parseConflict s with
  | some c => showBool c.ensureValid ++ "|" ++ showConflict c.slim
  | none => "bad-op"

end Mutagen.Driver.Tree
