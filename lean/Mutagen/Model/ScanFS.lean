import Mutagen.Model.Entry
import Mutagen.Generated.Facts
/-
Abstract filesystem and model of filesystem scanning (core Lean only, executable).

Mirrors, function by function, /repo/pkg/synchronization/core/scan.go:
  scanner.file (148-262), scanner.symbolicLink (265-308),
  scanner.directory (317-645) incl. the baseline-reuse walk (527-576),
  Scan (651-902): root dispatch, baseline validation, the
  `len(recheckPaths) == 0` shortcut, the dirty-path closure over
  `fastpath.Dir` (fastpath.go:24-48), cache initialisation;
and entry.go `walk` (222-249) specialised to the reuse visitor.

What is a parameter (all in `Cfg`):
* the ignorer (`Ignore(path, directory)`), the symbolic link mode, the
  permissions mode, the two probed filesystem behaviours (executability
  preservation, Unicode decomposition) and the NFC function used when
  decomposition is reported;
* the hash function `hash` (the `hash.Hash` handed to `Scan`);
* UTF-8 validity/decoding of on-disk names (`utf8`), `strings.ToValidUTF8`
  (`escape`), and `normalizeSymbolicLinkAndEnsurePortable` (`normalize`; its
  own model and theorems are C16's);
* the fault sets: paths whose `OpenFile` / `OpenDirectory` / `ReadContents` /
  `ReadSymbolicLink` fails (either with a generic error or with a
  does-not-exist error, which scan treats as "vanished concurrently");
* `runtime.GOOS == "linux"` (`linux`); `deviceID` is set by `scan` to the root
  directory's own device, as scan.go:870 does.

The filesystem is a finite tree of inodes `Node`.  Names are byte strings (as
the OS returns them).  Directory children are listed in `readdir` order.
Cancellation (`ctx.Done`) and `uint64` overflow of the counters are not
modelled.  A file whose content changes while it is being hashed is
represented by `size ≠ content.length` ("hashed size mismatch").
-/
namespace Mutagen.Model.ScanFS
open Mutagen.Model

abbrev Bytes := List UInt8

/-- `time.Time` as returned by `time.Unix(sec, nsec)` for a normalised stat
timestamp (`0 ≤ nsec < 10⁹`). -/
structure MTime where
  sec : Int
  nsec : Nat
  deriving DecidableEq, Repr, Inhabited

/-- `timestamppb.Timestamp.CheckValid` (protobuf library): seconds within
0001-01-01 … 9999-12-31, nanos within `[0, 10⁹)`. -/
def MTime.valid (t : MTime) : Bool :=
  decide (-62135596800 ≤ t.sec) && decide (t.sec ≤ 253402300799) && decide (t.nsec < 1000000000)

/-- One inode with everything `lstat`/`read`/`readlink` can observe. -/
inductive Node where
  /-- directory on device `dev` with its entries in `readdir` order -/
  | dir (dev : Nat) (children : List (Bytes × Node))
  /-- regular file: bytes read, permission bits (`st_mode & 07777`), mtime,
  `st_size`, inode number -/
  | file (content : Bytes) (perm : Nat) (mtime : MTime) (size : Nat) (ino : Nat)
  /-- symbolic link -/
  | symlink (target : String)
  /-- FIFO, socket, device … (`st_mode & S_IFMT` given for documentation only) -/
  | other (typ : Nat)
  deriving Repr, Inhabited

abbrev Children := List (Bytes × Node)

/-- `S_IFREG`; `filesystem.Mode` of a regular file is `S_IFREG | perm`. -/
def modeTypeFile : Nat := 0o100000
/-- `S_IFMT`. -/
def modeTypeMask : Nat := 0o170000

/-- `core.CacheEntry`. -/
structure CacheEntry where
  mode : Nat
  mtime : MTime
  size : Nat
  fileID : Nat
  digest : Bytes
  deriving DecidableEq, Repr, Inhabited

/-- `core.Cache.Entries` as an association list, newest binding first
(`m[k] = v` is `cons`, `m[k]` is the first match). -/
abbrev Cache := List (String × CacheEntry)

inductive IgnoreStatus | nominal | ignored | unignored
  deriving DecidableEq, Repr, Inhabited

/-- `ignore.IgnoreCacheValue`. -/
structure IgnoreVal where
  status : IgnoreStatus
  cont : Bool
  deriving DecidableEq, Repr, Inhabited

/-- `ignore.IgnoreCache`, newest binding first; the key is (path, directory). -/
abbrev IgnoreCache := List ((String × Bool) × IgnoreVal)

def alookup {α β} [DecidableEq α] (k : α) : List (α × β) → Option β
  | [] => none
  | (k', v) :: r => if k' = k then some v else alookup k r

inductive SymlinkMode | ignore | portable | posixRaw
  deriving DecidableEq, Repr, Inhabited

inductive PermsMode | portable | manual
  deriving DecidableEq, Repr, Inhabited

/-- Outcome of a primitive that the fault sets can make fail. -/
inductive Fault | none | err | notExist
  deriving DecidableEq, Repr, Inhabited

structure Cfg where
  ignorer : String → Bool → IgnoreVal
  symlinkMode : SymlinkMode
  permsMode : PermsMode
  preservesExec : Bool
  decomposes : Bool
  nfc : String → String
  hash : Bytes → Bytes
  /-- `some s` iff the name is valid UTF-8 (then `s` is the name) -/
  utf8 : Bytes → Option String
  /-- `strings.ToValidUTF8(name, "�")` -/
  escape : Bytes → String
  /-- `normalizeSymbolicLinkAndEnsurePortable(path, target)`; `none` = error -/
  normalize : String → String → Option String
  openFileFault : String → Fault
  openDirFault : String → Fault
  readDirFault : String → Bool
  readlinkFault : String → Fault
  deviceID : Nat
  linux : Bool

/-- Acceleration inputs of one scan (`dirtyPaths`, `cache`, `ignoreCache`). -/
structure Accel where
  dirty : List String := []
  cache : Cache := []
  ignoreCache : IgnoreCache := []
  deriving Repr, Inhabited

/-- The mutable fields of `scanner`. -/
structure St where
  newCache : Cache := []
  newIgnore : IgnoreCache := []
  dirs : Nat := 0
  files : Nat := 0
  links : Nat := 0
  size : Nat := 0
  deriving Repr, Inhabited

/-- Result of a per-kind handler: `(entry, nil)`, `(nil, err)` with
`os.IsNotExist(err)`, or `(nil, err)` with any other error. -/
inductive Res
  | entry (e : Entry)
  | notExist
  | abort
  deriving Repr, Inhabited

def problematic (msg : String) : Entry := .mk { kind := .problematic, problem := msg } []
def untracked : Entry := .mk { kind := .untracked } []

/-! ## fastpath.go -/

/-- `fastpath.Joinable`. -/
def joinable (base : String) : String := if base = "" then "" else base ++ "/"

/-- Index of the last `/` (`strings.LastIndexByte`). -/
def lastSlash : List Char → Option Nat
  | [] => none
  | c :: r =>
    match lastSlash r with
    | some i => some (i + 1)
    | none => if c = '/' then some 0 else none

/-- `fastpath.Dir` on characters; `none` = panic ("empty path" / "empty parent path"). -/
def dirChars (cs : List Char) : Option (List Char) :=
  if cs.isEmpty then none else
  match lastSlash cs with
  | none => some []
  | some 0 => none
  | some i => some (cs.take i)

/-- `fastpath.Dir`. -/
def dirS (p : String) : Option String := (dirChars p.toList).map String.ofList

/-- scan.go:819-827, the inner `for` of one recheck path (`fuel` ≥ length + 1
is never the reason the loop stops). `none` = `fastpath.Dir` panicked. -/
def dirtyChain : Nat → String → List String → Option (List String)
  | 0, _, acc => some acc
  | fuel + 1, p, acc =>
    let acc := p :: acc
    if p = "" then some acc else
    match dirS p with
    | none => none
    | some d => dirtyChain fuel d acc

/-- scan.go:816-828: recheck paths → dirty paths. -/
def dirtyClosure : List String → List String → Option (List String)
  | [], acc => some acc
  | p :: r, acc =>
    match dirtyChain (p.length + 1) p acc with
    | none => none
    | some acc' => dirtyClosure r acc'

/-! ## scanner.file -/

/-- permissions.go `anyExecutableBitSet`. -/
def anyExecBit (perm : Nat) : Bool := perm &&& 0o111 != 0

/-- scan.go:171-177: may the cached digest / the cached entry be reused? -/
def cacheContentMatch (cached : Option CacheEntry) (mode : Nat) (mtime : MTime) (size ino : Nat) : Bool :=
  match cached with
  | none => false
  | some c =>
    (mode &&& modeTypeMask) == (c.mode &&& modeTypeMask) && mtime == c.mtime &&
      size == c.size && ino == c.fileID

def cacheEntryReusable (cached : Option CacheEntry) (mode : Nat) (mtime : MTime) (size ino : Nat) : Bool :=
  match cached with
  | none => false
  | some c => cacheContentMatch cached mode mtime size ino && mode == c.mode

/-- scan.go:181-227: the digest, from the cache or by opening and hashing the
file; `.error r` = the handler returns `r` at once. -/
def fileDigest (cfg : Cfg) (path : String) (isRoot : Bool) (content : Bytes) (size : Nat)
    (cached : Option CacheEntry) (contentMatch : Bool) : Except Res Bytes :=
  match cached, contentMatch with
  | some c, true => .ok c.digest
  | _, _ =>
    let opened : Fault := if isRoot then .none else cfg.openFileFault path
    match opened with
    | .notExist => .error .notExist
    | .err => .error (.entry (problematic "unable to open file"))
    | .none =>
      if content.length ≠ size then .error (.entry (problematic "hashed size mismatch"))
      else .ok (cfg.hash content)

/-- scan.go:229-250: the entry for the new cache (`none` = the modification
time cannot be converted). -/
def fileCacheEntry (cached : Option CacheEntry) (reusable : Bool) (mode : Nat) (mtime : MTime) (size ino : Nat)
    (digest : Bytes) : Option CacheEntry :=
  match cached, reusable with
  | some c, true => some c
  | _, _ =>
    if !mtime.valid then none
    else some { mode := mode, mtime := mtime, size := size, fileID := ino, digest := digest }

/-- scan.go:148-262 `scanner.file`. `isRoot` ⇔ the file was handed in already
open (`file != nil`). -/
def scanFile (cfg : Cfg) (acc : Accel) (path : String) (isRoot : Bool)
    (content : Bytes) (perm : Nat) (mtime : MTime) (size ino : Nat) (st : St) : Res × St :=
  let mode := modeTypeFile + perm
  let executable := cfg.permsMode == .portable && cfg.preservesExec && anyExecBit perm
  let cached := alookup path acc.cache
  let contentMatch := cacheContentMatch cached mode mtime size ino
  let reusable := cacheEntryReusable cached mode mtime size ino
  match fileDigest cfg path isRoot content size cached contentMatch with
  | .error r => (r, st)
  | .ok digest =>
    match fileCacheEntry cached reusable mode mtime size ino digest with
    | none => (.entry (problematic "unable to convert file modification time"), st)
    | some ce =>
      (.entry (.mk { kind := .file, executable := executable, digest := digest } []),
       { st with newCache := (path, ce) :: st.newCache, files := st.files + 1, size := st.size + size })

/-! ## scanner.symbolicLink -/

/-- What `readlinkat(parent, name)` finds. The scan passes the *recomposed*
content name (scan.go:588/592), so on a filesystem that compares names byte by
byte a link whose on-disk name is not in NFC is looked up under another name:
`lookupLink` resolves the recomposed name among the siblings. -/
def lookupRaw (name : Bytes) : List (Bytes × Node) → Option Node
  | [] => none
  | (n, c) :: r => if n = name then some c else lookupRaw name r

def lookupLink (siblings : List (Bytes × Node)) (decoded name : String) (target : String) : Fault × String :=
  if name = decoded then (.none, target) else
  match lookupRaw name.toUTF8.toList siblings with
  | some (.symlink t) => (.none, t)
  | some _ => (.err, "")
  | none => (.notExist, "")

/-- The `readlinkat` outcome handed to the handler of a child (only links read). -/
def linkFor (siblings : List (Bytes × Node)) (decoded name : String) : Node → Fault × String
  | .symlink t => lookupLink siblings decoded name t
  | _ => (.none, "")

/-- scan.go:283-298: portability enforcement, or the non-emptiness check of the
raw mode. -/
def linkTarget (cfg : Cfg) (path target : String) (enforcePortable : Bool) : Except Entry String :=
  if enforcePortable then
    match cfg.normalize path target with
    | none => .error (problematic "invalid symbolic link")
    | some t => .ok t
  else if target = "" then .error (problematic "symbolic link target is empty")
  else .ok target

/-- The outcome of `parent.ReadSymbolicLink(name)`: an injected fault, else the lookup's. -/
def linkFault (cfg : Cfg) (path : String) (link : Fault × String) : Fault :=
  match cfg.readlinkFault path with
  | .none => link.1
  | f => f

/-- scan.go:265-308 `scanner.symbolicLink`; `link` is the outcome of the
`readlinkat` lookup (`lookupLink`). -/
def scanSymlink (cfg : Cfg) (path : String) (link : Fault × String) (enforcePortable : Bool) (st : St) : Res × St :=
  match linkFault cfg path link with
  | .notExist => (.notExist, st)
  | .err => (.entry (problematic "unable to read symbolic link target"), st)
  | .none =>
    match linkTarget cfg path link.2 enforcePortable with
    | .error e => (.entry e, st)
    | .ok t => (.entry (.mk { kind := .symlink, target := t } []), { st with links := st.links + 1 })

/-! ## The baseline-reuse walk (scan.go:536-570 over entry.go:222-249) -/

/-- The visitor of scan.go:536-570 on one entry at `path`; the `Bool` is
`missingCacheEntries`. -/
def reuseVisit (acc : Accel) (path : String) (p : Props) : St × Bool → St × Bool
  | (st, missing) =>
    let isDirKind := p.kind == .directory || p.kind == .phantom
    let st :=
      if isDirKind then { st with dirs := st.dirs + 1 }
      else if p.kind == .file then { st with files := st.files + 1 }
      else if p.kind == .symlink then { st with links := st.links + 1 }
      else st
    let st :=
      if p.kind != .untracked && p.kind != .problematic then
        match alookup (path, isDirKind) acc.ignoreCache with
        | some v => { st with newIgnore := ((path, isDirKind), v) :: st.newIgnore }
        | none => st
      else st
    if p.kind == .file then
      match alookup path acc.cache with
      | some ce => ({ st with newCache := (path, ce) :: st.newCache, size := st.size + ce.size }, missing)
      | none => (st, true)
    else (st, missing)

mutual
/-- `directoryBaseline.walk(path, visitor, false)` (entry.go:222-249) with the
visitor of scan.go:536-570. -/
def reuseWalk (acc : Accel) (path : String) : Entry → St × Bool → St × Bool
  | .mk p cs, s =>
    reuseWalkL acc (if cs.isEmpty then "" else joinable path) cs (reuseVisit acc path p s)
def reuseWalkL (acc : Accel) (pfx : String) : Contents → St × Bool → St × Bool
  | [], s => s
  | (n, c) :: r, s => reuseWalkL acc pfx r (reuseWalk acc (pfx ++ n) c s)
end

/-! ## scanner.directory -/

/-- The bytes of `filesystem.TemporaryNamePrefix` (an ASCII string, see
`temporaryPrefix_ascii`: one byte per character). -/
def temporaryPrefixBytes : Bytes :=
  Mutagen.Facts.scanTemporaryNamePrefix.toList.map fun c => UInt8.ofNat c.toNat

theorem temporaryPrefix_ascii : Mutagen.Facts.scanTemporaryNamePrefix.toList.all (·.toNat < 128) = true := by decide

/-- `strings.HasPrefix(contentName, filesystem.TemporaryNamePrefix)` on the raw name. -/
def hasTemporaryPrefix (name : Bytes) : Bool :=
  temporaryPrefixBytes.isPrefixOf name

/-- scan.go:495-501: the directory baseline of a child. -/
def childBaseline (baseline : Option Entry) (isDir : Bool) (name : String) : Option Entry :=
  if isDir then
    match baseline with
    | none => none
    | some b =>
      match lookup name b.children with
      | some c => if c.kind == .directory then some c else none
      | none => none
  else none

/-- What the loop body decides before dispatching to a handler (scan.go:455-481). -/
inductive IgnoreDecision
  | untracked
  | proceed (mask : Bool)
  deriving DecidableEq, Repr

def ignoreDecision (b : IgnoreVal) (mask : Bool) : IgnoreDecision :=
  match b.status with
  | .nominal => if mask && !b.cont then .untracked else .proceed mask
  | .ignored => if !b.cont then .untracked else .proceed true
  | .unignored => .proceed false

/-- What the loop body of `scanner.directory` decides about one directory entry
before any handler runs (scan.go:392-481): skip it (temporary name), record an
entry at once (non-UTF-8 name, unsupported type, ignored), or go on to the
baseline / handler stage. `ign` is the binding added to the new ignore cache. -/
inductive Pre
  | skip
  | put (name : Name) (e : Entry) (ign : Option ((String × Bool) × IgnoreVal))
  | go (name decoded contentPath : String) (isDir : Bool) (ign : (String × Bool) × IgnoreVal) (childMask : Bool)
  deriving Repr

/-- scan.go:458-463: the ignore behaviour of a path, from the old ignore cache
if it is there, else from the ignorer. -/
def ignoreBehavior (cfg : Cfg) (acc : Accel) (key : String × Bool) : IgnoreVal :=
  match alookup key acc.ignoreCache with
  | some v => v
  | none => cfg.ignorer key.1 key.2

def preDispatch (cfg : Cfg) (acc : Accel) (pfx : String) (mask : Bool) (rawName : Bytes) (node : Node) : Pre :=
  if hasTemporaryPrefix rawName then .skip else
  match cfg.utf8 rawName with
  | none =>
    .put (cfg.escape rawName ++ " (non-UTF-8)") (if mask then untracked else problematic "non-UTF-8 filename") none
  | some decoded =>
    let name := if cfg.decomposes then cfg.nfc decoded else decoded
    let contentPath := pfx ++ name
    -- kind switch (scan.go:442-453)
    match node with
    | .other _ => .put name untracked none
    | _ =>
      let isDir := match node with | .dir _ _ => true | _ => false
      let key := (contentPath, isDir)
      let behavior := ignoreBehavior cfg acc key
      match ignoreDecision behavior mask with
      | .untracked => .put name untracked (some (key, behavior))
      | .proceed childMask => .go name decoded contentPath isDir (key, behavior) childMask

/-- scan.go:527-533: the baseline entry to reuse for a directory, if any. -/
def reuseDecision (cfg : Cfg) (acc : Accel) (contentPath : String) (dirBaseline : Option Entry) : Option Entry :=
  match dirBaseline with
  | none => none
  | some b =>
    let contentDirty := acc.dirty.contains contentPath
    let contentDirty := contentDirty || (cfg.linux && b.children.isEmpty)
    if contentDirty then none else some b

mutual
/-- Dispatch on the kind of a child that passed the ignore stage
(scan.go:582-605; `baseline` is its directory baseline), with
scan.go:317-645 `scanner.directory` inlined for directories. `isRoot` ⇔ the
object was handed in already open (the synchronization root). -/
def scanNode (cfg : Cfg) (acc : Accel) (path : String) (isRoot : Bool) (baseline : Option Entry)
    (mask : Bool) (link : Fault × String) : Node → St → Res × St
  | .file content perm mtime size ino, st => scanFile cfg acc path isRoot content perm mtime size ino st
  | .symlink _, st =>
    match cfg.symlinkMode with
    | .portable => scanSymlink cfg path link true st
    | .ignore => (.entry untracked, st)
    | .posixRaw => scanSymlink cfg path link false st
  | .other _, st => (.entry untracked, st)
  | .dir dev children, st =>
    if dev ≠ cfg.deviceID then (.entry (problematic "scan crossed filesystem boundary"), st) else
    let opened : Fault := if isRoot then .none else cfg.openDirFault path
    match opened with
    | .notExist => (.notExist, st)
    | .err => (.entry (problematic "unable to open directory"), st)
    | .none =>
      if cfg.readDirFault path then (.entry (problematic "unable to read directory contents"), st) else
      let pfx := if children.isEmpty then "" else joinable path
      match scanChildren cfg acc pfx children children baseline mask [] st with
      | none => (.abort, st)
      | some (contents, st) =>
        let kind := if mask then Kind.phantom else Kind.directory
        (.entry (.mk { kind := kind } contents), { st with dirs := st.dirs + 1 })

/-- The loop of scan.go:384-619 over the directory contents; `none` = the scan
aborts with an error. `all` is the complete listing (for `lookupLink`). -/
def scanChildren (cfg : Cfg) (acc : Accel) (pfx : String) (all : Children) :
    Children → Option Entry → Bool → Contents → St → Option (Contents × St)
  | [], _, _, contents, st => some (contents, st)
  | (rawName, node) :: rest, baseline, mask, contents, st =>
    match preDispatch cfg acc pfx mask rawName node with
    | .skip => scanChildren cfg acc pfx all rest baseline mask contents st
    | .put name e ign =>
      scanChildren cfg acc pfx all rest baseline mask (upsert name e contents)
        { st with newIgnore := ign.toList ++ st.newIgnore }
    | .go name decoded contentPath isDir ign childMask =>
      let st := { st with newIgnore := ign :: st.newIgnore }
      let dirBaseline := childBaseline baseline isDir name
      -- baseline reuse (scan.go:527-576)
      match reuseDecision cfg acc contentPath dirBaseline with
      | some b =>
        let (st, missing) := reuseWalk acc contentPath b (st, false)
        if missing then none
        else scanChildren cfg acc pfx all rest baseline mask (upsert name b contents) st
      | none =>
        let link := linkFor all decoded name node
        match scanNode cfg acc contentPath false dirBaseline childMask link node st with
        | (.abort, _) => none
        | (.notExist, st) => scanChildren cfg acc pfx all rest baseline mask contents st
        | (.entry e, st) => scanChildren cfg acc pfx all rest baseline mask (upsert name e contents) st
end

/-! ## Scan -/

/-- `core.Snapshot` (content, the two behaviour flags, the four counters). -/
structure Snapshot where
  content : Option Entry := none
  preservesExec : Bool := false
  decomposes : Bool := false
  dirs : Nat := 0
  files : Nat := 0
  links : Nat := 0
  size : Nat := 0
  deriving Repr, Inhabited

/-- What `Scan` returns. `ignoreCache = none` is the nil map of the
absent-root return. -/
structure Out where
  snapshot : Snapshot
  cache : Cache
  ignoreCache : IgnoreCache
  deriving Repr, Inhabited

inductive ScanErr
  /-- `filesystem.Open` failed (symbolic link or unsupported type at the root) -/
  | openRoot
  /-- a handler returned an error ("old cache entries don't correspond to baseline") -/
  | failed
  /-- `fastpath.Dir` panicked on a recheck path -/
  | panic
  deriving DecidableEq, Repr

/-- Acceleration arguments of `Scan` as the caller passes them. -/
structure Prev where
  baseline : Option Snapshot := none
  recheck : List String := []
  cache : Cache := []
  ignoreCache : IgnoreCache := []
  deriving Repr, Inhabited

/-- scan.go:888-901: the values `Scan` returns for a handler result. -/
def outOf (cfg : Cfg) : Res × St → Except ScanErr Out
  | (.entry e, st) =>
    .ok { snapshot := { content := some e, preservesExec := cfg.preservesExec, decomposes := cfg.decomposes,
                        dirs := st.dirs, files := st.files, links := st.links, size := st.size },
          cache := st.newCache, ignoreCache := st.newIgnore }
  | _ => .error .failed

/-- scan.go:651-902 `Scan` on the root inode (`none` = the root does not exist). -/
def scan (cfg : Cfg) (prev : Prev) (root : Option Node) : Except ScanErr Out :=
  match root with
  | none => .ok { snapshot := {}, cache := [], ignoreCache := [] }
  | some (.symlink _) => .error .openRoot
  | some (.other _) => .error .openRoot
  | some node =>
    -- scan.go:870 `deviceID: metadata.DeviceID` (the root's own device)
    let cfg := match node with | .dir dev _ => { cfg with deviceID := dev } | _ => cfg
    let rootIsDir := match node with | .dir _ _ => true | _ => false
    let rootKind := if rootIsDir then Kind.directory else Kind.file
    -- scan.go:794-802
    let baseline : Option Snapshot :=
      match prev.baseline with
      | none => none
      | some b =>
        match b.content with
        | none => none
        | some c =>
          if c.kind != rootKind || b.preservesExec != cfg.preservesExec || b.decomposes != cfg.decomposes
          then none else some b
    -- scan.go:809-811
    match baseline, prev.recheck with
    | some b, [] => .ok { snapshot := b, cache := prev.cache, ignoreCache := prev.ignoreCache }
    | _, _ =>
      let dirty? : Option (List String) :=
        match baseline with
        | none => some []
        | some _ => dirtyClosure prev.recheck []
      match dirty? with
      | none => .error .panic
      | some dirty =>
        let acc : Accel := { dirty := dirty, cache := prev.cache, ignoreCache := prev.ignoreCache }
        let dirBaseline : Option Entry := if rootIsDir then baseline.bind (·.content) else none
        outOf cfg (scanNode cfg acc "" true dirBaseline false (.none, "") node {})

/-- A scan without acceleration inputs. -/
def scanCold (cfg : Cfg) (root : Option Node) : Except ScanErr Out := scan cfg {} root

end Mutagen.Model.ScanFS
