import Mutagen.Generated.Facts
/-
Model of pkg/synchronization/rsync/engine.go (weakHash, rollWeakHash,
Signature, Deltify with its `sendBlock`/`sendData` closures, chunkAndTransmitAll,
Patch/PatchBytes, Operation.EnsureValid) and transmit.go (Transmit). Core Lean
only.

Conventions
* Byte strings are `List UInt8`; sizes are `Nat` (the Go code uses `uint64`; the
  check assumes sizes stay far below 2^63, see checks/C19.json). Weak hashes are
  `UInt32` with wrap-around arithmetic exactly as in Go.
* The strong hash is a parameter `H : List UInt8 → D` (`D` any type with
  decidable equality). The driver instantiates it with SHA-1 (the hash the real
  engine uses) and with a deliberately weak 1-byte hash (injected into the real
  engine through a `verif` export) so that collisions are exercised.
* The target stream is an in-memory list: `io.ReadFull` on it yields
  `io.EOF` / `io.ErrUnexpectedEOF` / a full buffer, `ReadByte` yields a byte or
  `io.EOF`; other read errors are outside the model.
* The transmit callback is a parameter `xmit : Operation → τ → τ × Bool`
  (`true` = it returned an error) with its own state `τ`. `Tx`/`Tx.transmit` is
  the scripted instance used by the drivers: call number `i` fails iff
  `fails i`, every attempted operation is logged with its outcome.
* Loops carry explicit fuel; `Exit.fuel` and `Exit.panic` (the Go `panic`
  "buffer contains less than a block worth of data") are proved unreachable in
  `Mutagen.Proofs.Rsync`.
* `fixed : Bool` selects the behaviour of `sendBlock` when flushing the pending
  coalesced block operation fails: `true` = the repaired code (fixes/C20.patch,
  `return err`), `false` = the code as found (`return nil`). All theorems are
  about `fixed = true`; `fixed = false` is kept to exhibit the defect.
-/
namespace Mutagen.Model.Rsync

/-- The weak hash modulus `m` of engine.go. -/
def m : UInt32 := UInt32.ofNat Mutagen.Facts.rsyncWeakModulus

structure BlockHash (D : Type) where
  weak : UInt32
  strong : D
  deriving Repr

structure Signature (D : Type) where
  blockSize : Nat
  lastBlockSize : Nat
  hashes : List (BlockHash D)
  deriving Repr

structure Operation where
  data : List UInt8
  start : Nat
  count : Nat
  deriving DecidableEq, Repr

/-- `Operation.EnsureValid` (`true` = valid). -/
def Operation.ensureValid (o : Operation) : Bool :=
  if o.data.length > 0 then
    if o.start != 0 then false else if o.count != 0 then false else true
  else if o.count == 0 then false
  else true

def dataOp (d : List UInt8) : Operation := { data := d, start := 0, count := 0 }
def blockOp (start count : Nat) : Operation := { data := [], start := start, count := count }

/-! ## Weak hash -/

/-- The loop of `weakHash`: `r1 += b; r2 += (uint32(blockSize) - uint32(i)) * b`. -/
def weakLoop (bs : UInt32) : List UInt8 → UInt32 → UInt32 → UInt32 → UInt32 × UInt32
  | [], _, r1, r2 => (r1, r2)
  | b :: rest, i, r1, r2 => weakLoop bs rest (i + 1) (r1 + b.toUInt32) (r2 + (bs - i) * b.toUInt32)

/-- `weakHash`: returns `(result, r1, r2)`. -/
def weakHash (data : List UInt8) (blockSize : Nat) : UInt32 × UInt32 × UInt32 :=
  let (r1, r2) := weakLoop (UInt32.ofNat blockSize) data 0 0 0
  let r1 := r1 % m
  let r2 := r2 % m
  (r1 + m * r2, r1, r2)

/-- `rollWeakHash`. -/
def rollWeakHash (r1 r2 : UInt32) (out inp : UInt8) (blockSize : Nat) : UInt32 × UInt32 × UInt32 :=
  let r1 := (r1 - out.toUInt32 + inp.toUInt32) % m
  let r2 := (r2 - UInt32.ofNat blockSize * out.toUInt32 + r1) % m
  (r1 + m * r2, r1, r2)

/-! ## Signature -/

section
variable {D : Type} (H : List UInt8 → D)

def hashBlock (blk : List UInt8) (blockSize : Nat) : BlockHash D :=
  { weak := (weakHash blk blockSize).1, strong := H blk }

/-- The read loop of `Signature`: returns the block hashes and `LastBlockSize`. -/
def signatureLoop (bs : Nat) : Nat → List UInt8 → List (BlockHash D) × Nat
  | 0, _ => ([], bs)
  | fuel + 1, base =>
    if base.isEmpty then ([], bs)                       -- io.EOF
    else if base.length < bs then ([hashBlock H base bs], base.length)  -- io.ErrUnexpectedEOF
    else
      let (hs, last) := signatureLoop bs fuel (base.drop bs)
      (hashBlock H (base.take bs) bs :: hs, last)

/-- `Engine.Signature` / `BytesSignature` for a non-zero block size. -/
def signature (base : List UInt8) (blockSize : Nat) : Signature D :=
  let (hs, last) := signatureLoop H blockSize (base.length + 1) base
  if hs.isEmpty then { blockSize := 0, lastBlockSize := 0, hashes := [] }
  else { blockSize := blockSize, lastBlockSize := last, hashes := hs }

/-- `Signature.EnsureValid` apart from the per-hash checks (`true` = valid). -/
def Signature.ensureValid (s : Signature D) : Bool :=
  if s.blockSize == 0 then s.lastBlockSize == 0 && s.hashes.isEmpty
  else if s.lastBlockSize == 0 then false
  else if s.lastBlockSize > s.blockSize then false
  else !s.hashes.isEmpty

end

/-! ## Deltify -/

inductive Exit | ok | err | panic | fuel
  deriving DecidableEq, Repr

/-- The two closures of `Deltify` as seen by its main loop (`sd` = `sendData`,
`sb` = `sendBlock`; the result flag is `true` when the closure returned an error). -/
abbrev SendData (σ : Type) := List UInt8 → σ → σ × Bool
abbrev SendBlock (σ : Type) := Nat → σ → σ × Bool

section
variable {D : Type} [DecidableEq D] (H : List UInt8 → D)

/-- The match search of one loop iteration: `potentials := weakToBlockHashes[weak]`
(indices of full-size blocks with that weak hash, ascending); if there are any,
the strong hash of the window is computed and the first potential with an equal
strong hash wins. -/
def findMatch (full : List (BlockHash D)) (weak : UInt32) (window : List UInt8) : Option Nat :=
  let potentials := full.zipIdx.filter fun p => p.1.weak == weak
  if potentials.isEmpty then none
  else
    let strong := H window
    (potentials.find? fun p => p.1.strong = strong).map (·.2)

/-- Second half of a loop iteration: look for a match for the block at the end
of the buffer, transmit, truncate. Returns the new buffer and an error flag
(on an error `Deltify` returns at once; the buffer is then reported as empty). -/
def matchStep {σ : Type} (sd : SendData σ) (sb : SendBlock σ) (bs cap : Nat) (full : List (BlockHash D))
    (buf : List UInt8) (weak : UInt32) (s : σ) : σ × List UInt8 × Bool :=
  match findMatch H full weak (buf.drop (buf.length - bs)) with
  | some p =>
    let (s1, e1) := sd (buf.take (buf.length - bs)) s
    if e1 then (s1, [], true) else
    let (s2, e2) := sb p s1
    if e2 then (s2, [], true) else (s2, [], false)
  | none =>
    if buf.length = cap then
      let (s1, e1) := sd (buf.take (buf.length - bs)) s
      if e1 then (s1, [], true) else (s1, buf.drop (buf.length - bs), false)
    else (s, buf, false)

/-- The main `for` loop of `Deltify`. `t` is the unread target, `buf` the
occupied prefix of the buffer (`occupancy = buf.length`), `r1 r2` the weak hash
parameters of the block at the end of the buffer. -/
def mainLoop {σ : Type} (sd : SendData σ) (sb : SendBlock σ) (bs cap : Nat) (full : List (BlockHash D)) :
    Nat → List UInt8 → List UInt8 → UInt32 → UInt32 → σ → σ × List UInt8 × Exit
  | 0, _, buf, _, _, s => (s, buf, .fuel)
  | fuel + 1, t, buf, r1, r2, s =>
    if buf.isEmpty then
      if t.length < bs then (s, t, .ok)       -- io.EOF / io.ErrUnexpectedEOF: occupancy = n; break
      else
        let buf' := t.take bs
        let (w, r1', r2') := weakHash buf' bs
        let (s', buf'', e) := matchStep H sd sb bs cap full buf' w s
        if e then (s', buf'', .err) else mainLoop sd sb bs cap full fuel (t.drop bs) buf'' r1' r2' s'
    else if buf.length < bs then (s, buf, .panic)
    else
      match t with
      | [] => (s, buf, .ok)                    -- ReadByte: io.EOF; break
      | b :: t' =>
        let (w, r1', r2') := rollWeakHash r1 r2 (buf.getD (buf.length - bs) 0) b bs
        let (s', buf'', e) := matchStep H sd sb bs cap full (buf ++ [b]) w s
        if e then (s', buf'', .err) else mainLoop sd sb bs cap full fuel t' buf'' r1' r2' s'

/-- The blocks that go into the lookup table `weakToBlockHashes`: all of them,
except a short last block. -/
def fullHashes (sig : Signature D) : List (BlockHash D) :=
  if sig.lastBlockSize != sig.blockSize then sig.hashes.take (sig.hashes.length - 1) else sig.hashes

/-- The check for a match of the short last block against the end of the
buffer after the main loop. -/
def shortMatch (sig : Signature D) (buf : List UInt8) : Bool :=
  if sig.lastBlockSize != sig.blockSize && decide (buf.length ≥ sig.lastBlockSize) then
    let cand := buf.drop (buf.length - sig.lastBlockSize)
    match sig.hashes[sig.hashes.length - 1]? with
    | some hb => (weakHash cand sig.blockSize).1 == hb.weak && decide (H cand = hb.strong)
    | none => false
  else false

/-- `Deltify` from the creation of the lookup table up to and including the
final `sendData(buffer[:occupancy])`; the final flush of the pending coalesced
operation is done by the caller (`deltify`). `maxOp` is already defaulted. -/
def deltifyCore {σ : Type} (sd : SendData σ) (sb : SendBlock σ) (sig : Signature D) (maxOp : Nat) (target : List UInt8)
    (s0 : σ) : σ × Exit :=
  let (s, buf, ex) := mainLoop H sd sb sig.blockSize (maxOp + sig.blockSize) (fullHashes sig)
    (target.length + 1) target [] 0 0 s0
  if ex != .ok then (s, ex) else
  if shortMatch H sig buf then
    let (s1, e1) := sd (buf.take (buf.length - sig.lastBlockSize)) s
    if e1 then (s1, .err) else
    let (s2, e2) := sb (sig.hashes.length - 1) s1
    if e2 then (s2, .err) else
    -- occupancy = 0; sendData(buffer[:0])
    let (s3, e3) := sd [] s2
    if e3 then (s3, .err) else (s3, .ok)
  else
    let (s3, e3) := sd buf s
    if e3 then (s3, .err) else (s3, .ok)

end

/-! ### The real closures: block coalescing and data chunking over a transmitter -/

/-- `coalescedStart`, `coalescedCount`. -/
structure Co where
  start : Nat
  count : Nat
  deriving DecidableEq, Repr

section
variable {τ : Type} (xmit : Operation → τ → τ × Bool)

/-- The closure `sendBlock`. On a failed flush of the pending operation the
code as found returns `nil` (`fixed = false`); the repaired code returns the
error. In both cases the coalescing state is left unchanged. -/
def sendBlock (fixed : Bool) (index : Nat) (s : Co × τ) : (Co × τ) × Bool :=
  let (co, tx) := s
  if co.count > 0 then
    if co.start + co.count = index then (({ co with count := co.count + 1 }, tx), false)
    else
      let (tx', failed) := xmit (blockOp co.start co.count) tx
      if failed then ((co, tx'), fixed)
      else (({ start := index, count := 1 }, tx'), false)
  else (({ start := index, count := 1 }, tx), false)

/-- The chunking loop of `sendData`: `for len(data) > 0 { … }`. -/
def chunkLoop (maxOp : Nat) : Nat → List UInt8 → τ → τ × Bool
  | 0, data, tx => (tx, !data.isEmpty)
  | fuel + 1, data, tx =>
    if data.length > 0 then
      let sendSize := min data.length maxOp
      let (tx', failed) := xmit (dataOp (data.take sendSize)) tx
      if failed then (tx', true) else chunkLoop maxOp fuel (data.drop sendSize) tx'
    else (tx, false)

/-- The closure `sendData`. -/
def sendData (maxOp : Nat) (data : List UInt8) (s : Co × τ) : (Co × τ) × Bool :=
  let (co, tx) := s
  if data.length > 0 ∧ co.count > 0 then
    let (tx', failed) := xmit (blockOp co.start co.count) tx
    if failed then ((co, tx'), true)
    else
      let (tx'', e) := chunkLoop xmit maxOp data.length data tx'
      (({ start := 0, count := 0 }, tx''), e)
  else
    let (tx'', e) := chunkLoop xmit maxOp data.length data tx
    ((co, tx''), e)

/-- `chunkAndTransmitAll` (after defaulting `maxDataOpSize`): `io.ReadFull` of
`maxOp` bytes per iteration. -/
def chunkAll (maxOp : Nat) : Nat → List UInt8 → τ → τ × Bool
  | 0, t, tx => (tx, !t.isEmpty)
  | fuel + 1, t, tx =>
    if t.isEmpty then (tx, false)                                   -- io.EOF
    else if t.length < maxOp then                                   -- io.ErrUnexpectedEOF
      let (tx', failed) := xmit (dataOp t) tx
      (tx', failed)
    else
      let (tx', failed) := xmit (dataOp (t.take maxOp)) tx
      if failed then (tx', true) else chunkAll maxOp fuel (t.drop maxOp) tx'

/-- `Engine.Deltify`. Returns the transmitter's final state and how the call
ended (`.ok` = returned nil, `.err` = returned an error). -/
def deltify {D : Type} [DecidableEq D] (H : List UInt8 → D) (fixed : Bool)
    (target : List UInt8) (sig : Signature D) (maxDataOpSize : Nat) (tx0 : τ) : τ × Exit :=
  let maxOp := if maxDataOpSize = 0 then Mutagen.Facts.rsyncDefaultMaxDataOpSize else maxDataOpSize
  if sig.hashes.length = 0 then
    let (tx, e) := chunkAll xmit maxOp (target.length + 1) target tx0
    (tx, if e then .err else .ok)
  else
    let ((co, tx), ex) := deltifyCore H (sendData xmit maxOp) (sendBlock xmit fixed) sig maxOp target
      (({ start := 0, count := 0 } : Co), tx0)
    if ex != .ok then (tx, ex)
    else if co.count > 0 then
      let (tx', failed) := xmit (blockOp co.start co.count) tx
      (tx', if failed then .err else .ok)
    else (tx, .ok)

end

/-! ### Scripted transmitter -/

/-- Number of calls so far and the log (newest first) of attempted operations
with their outcome (`true` = transmitted). -/
structure Tx where
  calls : Nat
  revLog : List (Operation × Bool)
  deriving Repr

def Tx.empty : Tx := { calls := 0, revLog := [] }

/-- Call number `calls` fails iff `fails calls`. -/
def Tx.transmit (fails : Nat → Bool) (op : Operation) (tx : Tx) : Tx × Bool :=
  let failed := fails tx.calls
  ({ calls := tx.calls + 1, revLog := (op, !failed) :: tx.revLog }, failed)

/-- All attempted operations in call order, with outcome. -/
def Tx.log (tx : Tx) : List (Operation × Bool) := tx.revLog.reverse

/-- The operations the transmitter accepted, in order. -/
def Tx.delivered (tx : Tx) : List Operation := (tx.log.filter (·.2)).map (·.1)

/-- `DeltifyBytes`: the transmitter appends to a slice and never fails. -/
def deltifyBytes {D : Type} [DecidableEq D] (H : List UInt8 → D) (target : List UInt8)
    (sig : Signature D) (maxDataOpSize : Nat) : List Operation × Exit :=
  let (tx, ex) := deltify (Tx.transmit fun _ => false) H true target sig maxDataOpSize Tx.empty
  (tx.delivered, ex)

/-! ## Patch -/

/-- The block copy loop of `Patch`: `rest` is the base after the seek, `idx`
is `operation.Start + c`. `none` = `io.ReadFull` failed. -/
def copyBlocks {D : Type} (sig : Signature D) : Nat → Nat → List UInt8 → Option (List UInt8)
  | 0, _, _ => some []
  | n + 1, idx, rest =>
    let copyLength :=
      if sig.hashes.length ≠ 0 ∧ idx = sig.hashes.length - 1 then sig.lastBlockSize else sig.blockSize
    if rest.length < copyLength then none
    else (copyBlocks sig n (idx + 1) (rest.drop copyLength)).map (rest.take copyLength ++ ·)

/-- `Engine.Patch`: the bytes written to the destination, `none` on error. -/
def patchOp {D : Type} (base : List UInt8) (sig : Signature D) (op : Operation) : Option (List UInt8) :=
  if op.data.length > 0 then some op.data
  else copyBlocks sig op.count op.start (base.drop (op.start * sig.blockSize))

/-- `Engine.PatchBytes`. -/
def patchBytes {D : Type} (base : List UInt8) (sig : Signature D) : List Operation → Option (List UInt8)
  | [] => some []
  | op :: ops =>
    match patchOp base sig op with
    | none => none
    | some out => (patchBytes base sig ops).map (out ++ ·)

/-! ## Transmit (transmit.go) -/

/-- A `Transmission` as the receiver sees it. -/
inductive Msg
  | op (expectedSize : Nat) (o : Operation)
  | done (withError : Bool)
  deriving DecidableEq, Repr

/-- Scripted receiver: call number `calls` of `Receive` fails iff the script
says so; `finalized` counts calls of `finalize`. -/
structure Rx where
  calls : Nat
  revLog : List (Msg × Bool)
  finalized : Nat
  deriving Repr

def Rx.empty : Rx := { calls := 0, revLog := [], finalized := 0 }

def Rx.receive (fails : Nat → Bool) (msg : Msg) (rx : Rx) : Rx × Bool :=
  let failed := fails rx.calls
  ({ rx with calls := rx.calls + 1, revLog := (msg, !failed) :: rx.revLog }, failed)

def Rx.finalize (rx : Rx) : Rx := { rx with finalized := rx.finalized + 1 }

def Rx.log (rx : Rx) : List (Msg × Bool) := rx.revLog.reverse

/-- State captured by the `transmit` closure inside `Transmit`. -/
structure TState where
  rx : Rx
  fileSize : Nat
  transmitError : Bool

/-- The `transmit` closure of `Transmit`. -/
def transmitClosure (fails : Nat → Bool) (o : Operation) (s : TState) : TState × Bool :=
  let (rx', failed) := s.rx.receive fails (.op s.fileSize o)
  ({ rx := rx', fileSize := 0, transmitError := failed }, failed)

/-- The per-file loop of `Transmit`. A file is `none` when opening it fails.
Returns the receiver and whether `Transmit` returned an error. `finalizeFails`
is the result of the last `receiver.finalize()`. -/
def transmitLoop {D : Type} [DecidableEq D] (H : List UInt8 → D) (fixed : Bool) (fails : Nat → Bool)
    (finalizeFails : Bool) : List (Option (List UInt8) × Signature D) → Rx → Rx × Bool
  | [], rx => (rx.finalize, finalizeFails)
  | (none, _) :: rest, rx =>
    let (rx', failed) := rx.receive fails (.done true)
    if failed then (rx'.finalize, true) else transmitLoop H fixed fails finalizeFails rest rx'
  | (some file, sig) :: rest, rx =>
    let (s, ex) := deltify (transmitClosure fails) H fixed file sig 0
      { rx := rx, fileSize := file.length, transmitError := false }
    if s.transmitError then (s.rx.finalize, true)
    else
      let (rx', failed) := s.rx.receive fails (.done (ex != .ok))
      if failed then (rx'.finalize, true) else transmitLoop H fixed fails finalizeFails rest rx'

/-- `Transmit`. -/
def transmit {D : Type} [DecidableEq D] (H : List UInt8 → D) (fixed : Bool) (fails : Nat → Bool)
    (finalizeFails : Bool) (files : List (Option (List UInt8))) (sigs : List (Signature D)) : Rx × Bool :=
  if files.length ≠ sigs.length then (Rx.empty.finalize, true)
  else transmitLoop H fixed fails finalizeFails (files.zip sigs) Rx.empty

end Mutagen.Model.Rsync
