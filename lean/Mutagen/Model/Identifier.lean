import Mutagen.Generated.Facts
/-
Model of pkg/identifier/identifier.go (`New`, `IsValid`, `Truncated`),
pkg/encoding/base62.go (`EncodeBase62`, i.e. github.com/eknkc/basex `Encode`
with the 62-character alphabet) and pkg/selection/names.go
(`EnsureNameValid`, with github.com/google/uuid `Parse`). Core Lean only.

Third-party code (basex, uuid.Parse) is *specified* here by transcribing its
algorithm and differentially tested against the real library on every run.
The random value of `New` is a parameter. The two regular expressions are
transcribed as predicates on character lists (their sources are compared with
the Go variables on every run). `unicode.IsLetter`/`unicode.IsNumber` are
computed for ASCII and are a parameter (`extra`) for other code points.
-/
namespace Mutagen.Model.Identifier

abbrev Bytes := List UInt8

-- basex / EncodeBase62 ---------------------------------------------------------------

/-- `Base62Alphabet` as runes. -/
def alphabet : List Char := Mutagen.Facts.encodingBase62Alphabet.toList

/-- `Encoding.base`. -/
def base : Nat := alphabet.length

/-- `for j := 0; j < len(digits); j++ { carry += digits[j] << 8; digits[j] = carry % base; carry = carry / base }`
(digits are little-endian); returns the new digits and the final carry. -/
def mulAddDigits (base : Nat) : List Nat → Nat → List Nat × Nat
  | [], carry => ([], carry)
  | d :: ds, carry =>
    let carry := carry + d * 256
    let (ds', out) := mulAddDigits base ds (carry / base)
    (carry % base :: ds', out)

/-- `for carry > 0 { digits = append(digits, carry%base); carry = carry / base }`. -/
def carryDigits (base : Nat) : Nat → Nat → List Nat
  | 0, _ => []
  | fuel + 1, carry => if carry > 0 then carry % base :: carryDigits base fuel (carry / base) else []

/-- One iteration of the outer loop of `Encode` (one source byte). -/
def pushByte (base : Nat) (digits : List Nat) (b : UInt8) : List Nat :=
  let (ds, carry) := mulAddDigits base digits b.toNat
  ds ++ carryDigits base carry carry

/-- The digit array after the outer loop (little-endian), starting from `[]int{0}`. -/
def encodeDigits (base : Nat) (source : Bytes) : List Nat := source.foldl (pushByte base) [0]

/-- `for k := 0; source[k] == 0 && k < len(source)-1; k++`: number of iterations. -/
def zeroPrefix : Bytes → Nat
  | [] => 0
  | [_] => 0
  | b :: rest => if b = 0 then zeroPrefix rest + 1 else 0

/-- `basex.Encoding.Encode`. -/
def encode (alphabet : List Char) (source : Bytes) : List Char :=
  if source.isEmpty then [] else
  List.replicate (zeroPrefix source) (alphabet.getD 0 '?') ++
    (encodeDigits alphabet.length source).reverse.map fun d => alphabet.getD d '?'

/-- `encoding.EncodeBase62`. -/
def encodeBase62 (value : Bytes) : List Char := encode alphabet value

-- identifier.go -----------------------------------------------------------------------

def requiredPrefixLength : Nat := Mutagen.Facts.identifierRequiredPrefixLength
def collisionResistantLength : Nat := Mutagen.Facts.identifierCollisionResistantLength
def targetBase62Length : Nat := Mutagen.Facts.identifierTargetBase62Length

inductive NewResult
  | ok (identifier : List Char)
  | error          -- incorrect prefix length / invalid prefix character
  | panic          -- "encoded random data length longer than expected"
  deriving DecidableEq, Repr

def isLowerAZ (c : Char) : Bool := 'a' ≤ c ∧ c ≤ 'z'
def isAlnum62 (c : Char) : Bool := ('0' ≤ c ∧ c ≤ '9') ∨ ('a' ≤ c ∧ c ≤ 'z') ∨ ('A' ≤ c ∧ c ≤ 'Z')
def isLowerHex (c : Char) : Bool := ('0' ≤ c ∧ c ≤ '9') ∨ ('a' ≤ c ∧ c ≤ 'f')

/-- `identifier.New(prefix)` with the value returned by `random.New` as a
parameter. The prefix is its UTF-8 bytes: `len(prefix)` counts bytes, and a
rune is in `'a'..'z'` exactly when it is a single byte in that range, so the
rune loop is a byte loop. -/
def new (pfx : Bytes) (random : Bytes) : NewResult :=
  if pfx.length ≠ requiredPrefixLength then .error
  else if ¬ pfx.all (fun b => isLowerAZ (Char.ofNat b.toNat)) then .error
  else
    let encoded := encodeBase62 random
    if encoded.length > targetBase62Length then .panic
    else .ok (pfx.map (fun b => Char.ofNat b.toNat) ++ ['_'] ++
      List.replicate (targetBase62Length - encoded.length) (alphabet.getD 0 '?') ++ encoded)

/-- `matcher`: `^[a-z]{4}_[0-9a-zA-Z]{43}$`. -/
def matcherSource : String := "^[a-z]{4}_[0-9a-zA-Z]{43}$"
def matchesId (s : List Char) : Bool :=
  s.length = 4 + 1 + 43 ∧ (s.take 4).all isLowerAZ ∧ s[4]? = some '_' ∧ (s.drop 5).all isAlnum62

/-- `legacyMatcher`: `^[0-9a-f]{8}-[0-9a-f]{4}-[0-9a-f]{4}-[0-9a-f]{4}-[0-9a-f]{12}$`. -/
def legacyMatcherSource : String := "^[0-9a-f]{8}-[0-9a-f]{4}-[0-9a-f]{4}-[0-9a-f]{4}-[0-9a-f]{12}$"

/-- Does `s` consist of the given groups of lower-case hex digits separated by `-`? -/
def hexGroups : List Nat → List Char → Bool
  | [], s => s.isEmpty
  | [n], s => s.length = n ∧ s.all isLowerHex
  | n :: ns, s => (s.take n).length = n ∧ (s.take n).all isLowerHex ∧ (s.drop n).head? = some '-' ∧
      hexGroups ns (s.drop (n + 1))

def legacyMatches (s : List Char) : Bool := hexGroups [8, 4, 4, 4, 12] s

def isValid (value : List Char) : Bool := matchesId value || legacyMatches value

def truncated (identifier : List Char) : List Char :=
  if matchesId identifier then identifier.take (requiredPrefixLength + 1 + 8)
  else if legacyMatches identifier then identifier.take 8
  else []

-- uuid.Parse ----------------------------------------------------------------------------

/-- `xvalues`/`xtob`: is the byte pair two hex digits (either case)? -/
def isHexByte (b : UInt8) : Bool :=
  (0x30 ≤ b ∧ b ≤ 0x39) ∨ (0x61 ≤ b ∧ b ≤ 0x66) ∨ (0x41 ≤ b ∧ b ≤ 0x46)

def xtobOk (s : Bytes) (i : Nat) : Bool := isHexByte (s.getD i 0xff) && isHexByte (s.getD (i + 1) 0xff)

def toLowerByte (b : UInt8) : UInt8 := if 0x41 ≤ b ∧ b ≤ 0x5a then b + 0x20 else b

/-- `uuid.Parse(s)` succeeded? (`s` as bytes; the switch is on the byte length). -/
def uuidParseOk (s : Bytes) : Bool :=
  let std (s : Bytes) : Bool :=
    s.getD 8 0 = 0x2d ∧ s.getD 13 0 = 0x2d ∧ s.getD 18 0 = 0x2d ∧ s.getD 23 0 = 0x2d ∧
    [0, 2, 4, 6, 9, 11, 14, 16, 19, 21, 24, 26, 28, 30, 32, 34].all (xtobOk s)
  if s.length = 36 then std s
  else if s.length = 36 + 9 then
    if (s.take 9).map toLowerByte = "urn:uuid:".toUTF8.toList then std (s.drop 9) else false
  else if s.length = 36 + 2 then std (s.drop 1)
  else if s.length = 32 then (List.range 16).all fun i => xtobOk s (i * 2)
  else false

-- names.go --------------------------------------------------------------------------------

inductive CharClass | letter | number | other
  deriving DecidableEq, Repr

/-- `unicode.IsLetter` / `unicode.IsNumber`: computed for ASCII, `extra` beyond. -/
def classify (extra : Char → CharClass) (c : Char) : CharClass :=
  if c.toNat < 128 then
    if ('a' ≤ c ∧ c ≤ 'z') ∨ ('A' ≤ c ∧ c ≤ 'Z') then .letter
    else if '0' ≤ c ∧ c ≤ '9' then .number
    else .other
  else extra c

inductive NameResult | ok | notLetterFirst | invalidChar | isUUID | reserved
  deriving DecidableEq, Repr

/-- The rune loop of `EnsureNameValid`; `first` says whether the rune is at index 0. -/
def nameLoop (extra : Char → CharClass) : List Char → Bool → Bool → NameResult × Bool
  | [], _, containsDash => (.ok, containsDash)
  | r :: rest, first, containsDash =>
    if classify extra r = .letter then nameLoop extra rest false containsDash
    else if first then (.notLetterFirst, containsDash)
    else if classify extra r = .number then nameLoop extra rest false containsDash
    else if r = '-' then nameLoop extra rest false true
    else (.invalidChar, containsDash)

/-- The UTF-8 bytes of a string (`len(s)` and `s[i]` in Go are on these). -/
def utf8 (s : List Char) : Bytes := s.flatMap String.utf8EncodeChar

/-- `selection.EnsureNameValid`. -/
def ensureNameValid (extra : Char → CharClass) (name : List Char) : NameResult :=
  match nameLoop extra name true false with
  | (.ok, containsDash) =>
    if containsDash ∧ uuidParseOk (utf8 name) then .isUUID
    else if name = "defaults".toList then .reserved
    else .ok
  | (e, _) => e

end Mutagen.Model.Identifier
