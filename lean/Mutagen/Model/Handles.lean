/-
Descriptor-relative filesystem access (core Lean only, executable).

Mirrors /repo/pkg/filesystem:
  directory_posix.go  ensureValidName (26-43), Directory.open (242-300: `openat`
                      with O_NOFOLLOW, O_DIRECTORY when a directory is wanted,
                      and the "is a regular file" check), OpenDirectory,
                      OpenFile, ReadContentNames, ReadSymbolicLink, and the
                      name-taking mutators (CreateDirectory, CreateSymbolicLink,
                      RemoveFile, RemoveDirectory, SetPermissions, Rename)
  open.go             Opener.OpenFile (84-161) with its stack of parent handles
  open_posix.go       Open / OpenDirectory(root, false) for the root path
and /repo/pkg/synchronization/core/transition.go
  walkToParentAndComputeLeafName (143-239), create (894-930), remove (509-550)
  as far as they decide *which directory handle and which single name* an
  operation is applied to.

The filesystem is an inode table.  A directory inode has named entries and a
parent pointer (what `..` resolves to).  Symbolic links are inodes holding a
target string; nothing in this file ever resolves a target — that is the
O_NOFOLLOW assumption: `openat(dirfd, name, O_NOFOLLOW)` on a single component
returns the inode bound to `name` in that directory or fails, and fails with
ELOOP when that inode is a symbolic link.  The kernel's treatment of names that
are *not* single components (`..`, names containing `/`) is modelled by
`klookup`, so that the role of `ensureValidName` is visible: with it, only
`entry` lookups happen.
-/
namespace Mutagen.Model.Handles

abbrev Ino := Nat
abbrev Name := String

inductive INode where
  | dir (parent : Ino) (entries : List (Name × Ino))
  | file (content : List UInt8)
  | symlink (target : String)
  deriving Repr, Inhabited, DecidableEq

/-- The inode table (first binding wins) and the inode bound to the
synchronization root path. -/
structure FS where
  nodes : List (Ino × INode)
  root : Ino
  deriving Repr, Inhabited

def FS.get (fs : FS) (i : Ino) : Option INode :=
  (fs.nodes.find? (·.1 == i)).map (·.2)

def assoc (n : Name) : List (Name × Ino) → Option Ino
  | [] => none
  | (m, i) :: r => if m = n then some i else assoc n r

/-- The inode bound to the single component `n` in directory `d`. -/
def FS.entry (fs : FS) (d : Ino) (n : Name) : Option Ino :=
  match fs.get d with
  | some (.dir _ es) => assoc n es
  | _ => none

/-- directory_posix.go:26-43 `ensureValidName` (`true` = no error). -/
def validName (n : Name) : Bool :=
  n != "." && n != ".." && !(n.toList.contains '/')

/-- `strings.Split(s, "/")` on characters (kernel-reducible, unlike `String.splitOn`). -/
def splitChars : List Char → List (List Char)
  | [] => [[]]
  | c :: cs =>
    if c = '/' then [] :: splitChars cs
    else match splitChars cs with
      | h :: t => (c :: h) :: t
      | [] => [[c]]

def components (s : String) : List Name := (splitChars s.toList).map String.ofList

/-- What the kernel does with an arbitrary `name` relative to a directory when
the final component must not be a symbolic link: `.` is the directory, `..` its
parent, a name with separators is walked component by component *following
intermediate symbolic links whose target is a single relative name or `..`*
(enough to exhibit an escape), a single component is an entry lookup. -/
def klookupFuel : Nat → FS → Ino → List Name → Option Ino
  | 0, _, _, _ => none
  | _, _, d, [] => some d
  | fuel + 1, fs, d, c :: rest =>
    let next : Option Ino :=
      if c = "." || c = "" then some d
      else if c = ".." then
        match fs.get d with
        | some (.dir p _) => some p
        | _ => none
      else fs.entry d c
    match next with
    | none => none
    | some i =>
      if rest.isEmpty then some i else
      match fs.get i with
      | some (.symlink t) => klookupFuel fuel fs d (components t ++ rest)
      | _ => klookupFuel fuel fs i rest

def FS.klookup (fs : FS) (d : Ino) (name : Name) : Option Ino :=
  klookupFuel 64 fs d (components name)

inductive Err
  | invalidName | notFound | isLink | notDirectory | notFile | rootNotDirectory | rootOpenedAsDirectory
  deriving DecidableEq, Repr

/-- directory_posix.go:242-300 `Directory.open(name, wantDirectory)`. -/
def openAt (fs : FS) (h : Ino) (name : Name) (wantDirectory : Bool) : Except Err Ino :=
  if wantDirectory && name == "." then .ok h
  else if !validName name then .error .invalidName
  else
    match fs.entry h name with
    | none => .error .notFound
    | some c =>
      match fs.get c with
      | none => .error .notFound
      | some (.symlink _) => .error .isLink
      | some (.dir _ _) => if wantDirectory then .ok c else .error .notFile
      | some (.file _) => if wantDirectory then .error .notDirectory else .ok c

/-- The same call without the name check (what `openat` alone would do): used
only to show that the check is necessary. -/
def openAtUnchecked (fs : FS) (h : Ino) (name : Name) : Option Ino := fs.klookup h name

/-- open_posix.go `OpenDirectory(root, false)`: the root path itself must be a
directory and not a symbolic link. -/
def openRoot (fs : FS) : Except Err Ino :=
  match fs.get fs.root with
  | some (.dir _ _) => .ok fs.root
  | _ => .error .rootNotDirectory

/-! ## Opener -/

/-- open.go:45-62 `Opener` (`rootDirectory`, `openParentNames`,
`openParentDirectories`). -/
structure Opener where
  rootDir : Option Ino := none
  names : List Name := []
  dirs : List Ino := []
  deriving Repr, Inhabited

/-- One access performed through a handle: the handle and the single name it
was applied to. -/
structure Access where
  handle : Ino
  name : Name
  deriving Repr, DecidableEq

/-- open.go:116-149: the walk over the parent components. `c` is the loop
index. Returns the opener, the parent handle or an error, and the accesses. -/
def walkParents (fs : FS) : List Name → Nat → Opener → Ino → List Access → Opener × Except Err Ino × List Access
  | [], _, o, parent, log => (o, .ok parent, log)
  | comp :: rest, c, o, parent, log =>
    -- satisfy the component from the stacks, or truncate them
    let hit : Option Ino :=
      if c < o.names.length then
        if o.names[c]? = some comp then o.dirs[c]? else none
      else none
    match hit with
    | some d => walkParents fs rest (c + 1) o d log
    | none =>
      let o : Opener := if c < o.names.length then { o with names := o.names.take c, dirs := o.dirs.take c } else o
      let log := log ++ [{ handle := parent, name := comp }]
      match openAt fs parent comp true with
      | .error e => (o, .error e, log)
      | .ok d => walkParents fs rest (c + 1) { o with names := o.names ++ [comp], dirs := o.dirs ++ [d] } d log

/-- open.go:84-161 `Opener.OpenFile(path)`: the resulting opener, the opened
file inode (or the error) and the accesses made. The root *file* case
(`path == ""`) opens the root path itself. -/
def Opener.openFile (fs : FS) (o : Opener) (path : String) : Opener × Except Err Ino × List Access :=
  if path = "" then
    if o.rootDir.isSome then (o, .error .rootOpenedAsDirectory, [])
    else
      match fs.get fs.root with
      | some (.file _) => (o, .ok fs.root, [])
      | _ => (o, .error .notFile, [])
  else
    let comps := components path
    let parents := comps.dropLast
    let leaf := comps.getLast!
    let opened : Except Err (Opener × Ino) :=
      match o.rootDir with
      | some r => .ok (o, r)
      | none =>
        match openRoot fs with
        | .error e => .error e
        | .ok r => .ok ({ o with rootDir := some r }, r)
    match opened with
    | .error e => (o, .error e, [])
    | .ok (o, r) =>
      match walkParents fs parents 0 o r [] with
      | (o, .error e, log) => (o, .error e, log)
      | (o, .ok parent, log) => (o, openAt fs parent leaf false, log ++ [{ handle := parent, name := leaf }])

def Opener.handles (o : Opener) : List Ino := o.rootDir.toList ++ o.dirs

/-! ## transition.go: walkToParentAndComputeLeafName -/

/-- transition.go:100-123 `nameExistsInDirectoryWithProperCase` (no Unicode
recomposition): the name is among the listed entries. -/
def nameExists (fs : FS) (d : Ino) (n : Name) : Bool := (fs.entry d n).isSome

/-- transition.go:193-223: the component loop. -/
def walkComponents (fs : FS) : List Name → Ino → List Access → Except Err Ino × List Access
  | [], parent, log => (.ok parent, log)
  | comp :: rest, parent, log =>
    if !nameExists fs parent comp then (.error .notFound, log) else
    let log := log ++ [{ handle := parent, name := comp }]
    match openAt fs parent comp true with
    | .error e => (.error e, log)
    | .ok d => walkComponents fs rest d log

/-- transition.go:143-239 for a non-root path: the parent handle and the leaf
name. -/
def walkToParent (fs : FS) (path : String) (validateLeaf : Bool) : Except Err (Ino × Name) × List Access :=
  let comps := components path
  match openRoot fs with
  | .error e => (.error e, [])
  | .ok r =>
    match walkComponents fs comps.dropLast r [] with
    | (.error e, log) => (.error e, log)
    | (.ok parent, log) =>
      let leaf := comps.getLast!
      if validateLeaf && !nameExists fs parent leaf then (.error .notFound, log)
      else (.ok (parent, leaf), log)

/-- What `create(path, target)` does for a file, directory or link target with
no content: the walk, then one creating primitive (`renameat2(…,
RENAME_NOREPLACE)`, `mkdirat`, `symlinkat`) on (parent, leaf), each of which
validates the name and fails when the name is bound. `true` = created. -/
def createAt (fs : FS) (path : String) : Bool × List Access :=
  match walkToParent fs path false with
  | (.error _, log) => (false, log)
  | (.ok (parent, leaf), log) =>
    -- (the kernel refuses the empty name with ENOENT)
    (validName leaf && leaf != "" && (fs.entry parent leaf).isNone, log ++ [{ handle := parent, name := leaf }])

/-- `fstatat(d, n, AT_SYMLINK_NOFOLLOW)` shows a regular file. -/
def isFileAt (fs : FS) (d : Ino) (n : Name) : Bool :=
  match (fs.entry d n).bind fs.get with
  | some (.file _) => true
  | _ => false

/-- What `remove(path, file entry)` does when the cache and the entry describe
the file on disk: the walk with leaf validation, `fstatat(parent, leaf,
AT_SYMLINK_NOFOLLOW)` and `unlinkat(parent, leaf)`. `true` = removed. -/
def removeFileAt (fs : FS) (path : String) : Bool × List Access :=
  match walkToParent fs path true with
  | (.error _, log) => (false, log)
  | (.ok (parent, leaf), log) =>
    (validName leaf && isFileAt fs parent leaf, log ++ [{ handle := parent, name := leaf }])

/-! ## SetPermissions, and the window between create / validate and it -/

/-- directory_posix.go:193-238 `Directory.SetPermissions(name, …)`: the name is
validated, then (on Linux) the entry is opened with `openat(O_NOFOLLOW)` and the
descriptor is `fchmod`-ed — a handle-relative single-name operation that refuses
symbolic links. The result is the inode whose mode (and ownership) changes. -/
def setPermAt (fs : FS) (h : Ino) (name : Name) : Except Err Ino :=
  if !validName name then .error .invalidName else
  match fs.entry h name with
  | none => .error .notFound
  | some c =>
    match fs.get c with
    | none => .error .notFound
    | some (.symlink _) => .error .isLink
    | some _ => .ok c

/-- `swapFile` when only executability changes (transition.go:693-736): the walk
with leaf validation and `ensureExpectedFile` (an `fstatat(…, NOFOLLOW)` that must
show the expected regular file) in the state `fs`, then `SetPermissions(parent,
leaf)` in the state `fs'` the filesystem has by then. `none` = SetPermissions is
not reached. -/
def chmodFileRace (fs fs' : FS) (path : String) : Option (Except Err Ino) × List Access :=
  match walkToParent fs path true with
  | (.error _, log) => (none, log)
  | (.ok (parent, leaf), log) =>
    if validName leaf && isFileAt fs parent leaf then (some (setPermAt fs' parent leaf), log ++ [{ handle := parent, name := leaf }])
    else (none, log ++ [{ handle := parent, name := leaf }])

/-- `createDirectory` (transition.go:799-826): the walk and `mkdirat(parent,
leaf)` in the state `fs`, then `SetPermissions(parent, leaf)` in the state `fs'`. -/
def createDirRace (fs fs' : FS) (path : String) : Option (Except Err Ino) × List Access :=
  match createAt fs path with
  | (false, log) => (none, log)
  | (true, log) =>
    match walkToParent fs path false with
    | (.ok (parent, leaf), _) => (some (setPermAt fs' parent leaf), log)
    | (.error _, _) => (none, log)

/-! ## Adversary: mutations between steps (used by the driver; the theorems
quantify over arbitrary successor filesystems instead) -/

def FS.set (fs : FS) (i : Ino) (n : INode) : FS := { fs with nodes := (i, n) :: fs.nodes }

def eraseName (n : Name) : List (Name × Ino) → List (Name × Ino)
  | [] => []
  | (m, i) :: r => if m = n then eraseName n r else (m, i) :: eraseName n r

/-- Bind `name` in directory `d` to inode `i` (replacing any binding). -/
def FS.bind (fs : FS) (d : Ino) (name : Name) (i : Ino) : FS :=
  match fs.get d with
  | some (.dir p es) => fs.set d (.dir p ((name, i) :: eraseName name es))
  | _ => fs

/-- Remove the binding of `name` in directory `d` (the inode stays in the
table: open handles keep working). -/
def FS.unbind (fs : FS) (d : Ino) (name : Name) : FS :=
  match fs.get d with
  | some (.dir p es) => fs.set d (.dir p (eraseName name es))
  | _ => fs

/-- Re-parent a directory inode (after a rename). -/
def FS.reparent (fs : FS) (i p : Ino) : FS :=
  match fs.get i with
  | some (.dir _ es) => fs.set i (.dir p es)
  | _ => fs

end Mutagen.Model.Handles
