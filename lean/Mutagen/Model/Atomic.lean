import Mutagen.Generated.Facts
/-
Model of `pkg/filesystem/atomic.go` `WriteFileAtomic` and of
`pkg/encoding/common.go` `MarshalAndSave` (core Lean only).

The file system is a tiny abstract directory: an association list from names
to files (content + permission bits). The code is modelled as the sequence of
primitive file-system operations it performs (`Op`, each with a flag saying
whether the operating system reported success); a failed operation has no
effect. External behaviour is a parameter (`Faults`): which step fails, how
the kernel splits the write, whether the cleanup `os.Remove` fails. The name
of the temporary file is chosen by `os.CreateTemp` (external): it is a
parameter `tmp`; the theorems assume what `O_EXCL` guarantees (`tmp` is not
in the directory and is not the target) and what the code guarantees (it
starts with `filesystem.TemporaryNamePrefix`, see `tmpName`).

A crash is modelled by executing only a prefix of the operation sequence.
-/
namespace Mutagen.Model.Atomic

/-- File names are character lists (so that prefix reasoning stays elementary). -/
abbrev Name := List Char
abbrev Content := List UInt8

structure File where
  content : Content
  mode : Nat
  deriving DecidableEq, Repr

abbrev Dir := List (Name × File)

def Dir.get (d : Dir) (n : Name) : Option File :=
  match d with
  | [] => none
  | (m, f) :: rest => if m = n then some f else Dir.get rest n

def Dir.erase (d : Dir) (n : Name) : Dir := d.filter fun e => e.1 ≠ n

/-- Set (create or replace) the entry `n`. -/
def Dir.set (d : Dir) (n : Name) (f : File) : Dir := (n, f) :: d.erase n

def Dir.names (d : Dir) : List Name := d.map (·.1)

/-- Primitive operations as seen at the system-call boundary. -/
inductive Op
  | create (n : Name)                 -- openat(O_RDWR|O_CREAT|O_EXCL, 0600)
  | write (n : Name) (bs : Content)   -- write on the descriptor of `n` (appends)
  | close (n : Name)
  | chmod (n : Name) (mode : Nat)
  | rename (src dst : Name)
  | unlink (n : Name)
  | rmdir (n : Name)                  -- second attempt of os.Remove; never succeeds on a file
  deriving DecidableEq, Repr

/-- One performed operation: the operation and whether it succeeded. -/
abbrev Event := Op × Bool

/-- Effect of a successful operation. -/
def Op.apply (d : Dir) : Op → Dir
  | .create n => d.set n { content := [], mode := 0o600 }
  | .write n bs =>
    match d.get n with
    | some f => d.set n { f with content := f.content ++ bs }
    | none => d
  | .close _ => d
  | .chmod n mode =>
    match d.get n with
    | some f => d.set n { f with mode := mode }
    | none => d
  | .rename src dst =>
    match d.get src with
    | some f => (d.erase src).set dst f
    | none => d
  | .unlink n => d.erase n
  | .rmdir _ => d

def Event.apply (d : Dir) (e : Event) : Dir := if e.2 then e.1.apply d else d

/-- State of the directory after the events (in order). -/
def replay (d : Dir) (es : List Event) : Dir := es.foldl Event.apply d

/-- External behaviour. `writeScript`: result of each `write` system call issued
by `os.File.Write` — `some k` = `k` bytes written (`0 < k`, clamped to what was
offered), `none` = error; when the script is exhausted the call writes
everything that remains. -/
structure Faults where
  marshalFails : Bool := false
  createFails : Bool := false
  writeScript : List (Option Nat) := []
  closeFails : Bool := false
  chmodFails : Bool := false
  renameFails : Bool := false
  removeFails : Bool := false
  deriving Repr

inductive Result | ok | errMarshal | errCreate | errWrite | errClose | errChmod | errRename
  deriving DecidableEq, Repr

/-- `os.File.Write`: loop over `write` system calls until everything is written
or a call fails (`some 0`, which Go reports as `io.ErrUnexpectedEOF`, counts as
a failure). At least one call is made, also for empty data. Returns the events
and whether the write succeeded. -/
def fileWrite (n : Name) : Nat → Content → List (Option Nat) → List Event × Bool
  | 0, _, _ => ([], false)
  | fuel + 1, data, script =>
    match script with
    | [] => ([(.write n data, true)], true)
    | none :: _ => ([(.write n data, false)], false)
    | some k :: rest =>
      let k := min k data.length
      if k = data.length then ([(.write n data, true)], true)
      else if k = 0 then ([(.write n [], true)], false)
      else
        let r := fileWrite n fuel (data.drop k) rest
        ((.write n (data.take k), true) :: r.1, r.2)

/-- `os.Remove(temporary.Name())`: `unlink`, and `rmdir` if that failed. -/
def osRemove (n : Name) (fails : Bool) : List Event :=
  if fails then [(.unlink n, false), (.rmdir n, false)] else [(.unlink n, true)]

/-- `WriteFileAtomic(path, data, permissions)`, statement by statement. -/
def writeFileAtomic (tmp path : Name) (data : Content) (perm : Nat) (f : Faults) : List Event × Result :=
  -- temporary, err := os.CreateTemp(filepath.Dir(path), prefix)
  if f.createFails then ([(Op.create tmp, false)], .errCreate) else
  let es : List Event := [(Op.create tmp, true)]
  -- temporary.Write(data)
  let w := fileWrite tmp (data.length + 1) data f.writeScript
  let es := es ++ w.1
  if !w.2 then
    -- temporary.Close(); os.Remove(temporary.Name())
    (es ++ [(Op.close tmp, !f.closeFails)] ++ osRemove tmp f.removeFails, .errWrite) else
  -- temporary.Close()
  if f.closeFails then (es ++ [(Op.close tmp, false)] ++ osRemove tmp f.removeFails, .errClose) else
  let es := es ++ [(Op.close tmp, true)]
  -- os.Chmod(temporary.Name(), permissions)
  if f.chmodFails then (es ++ [(Op.chmod tmp perm, false)] ++ osRemove tmp f.removeFails, .errChmod) else
  let es := es ++ [(Op.chmod tmp perm, true)]
  -- Rename(nil, temporary.Name(), nil, path, true)
  if f.renameFails then (es ++ [(Op.rename tmp path, false)] ++ osRemove tmp f.removeFails, .errRename) else
  (es ++ [(Op.rename tmp path, true)], .ok)

/-- `MarshalAndSave(path, marshal)`: marshal, then write atomically with mode 0600. -/
def marshalAndSave (tmp path : Name) (data : Content) (f : Faults) : List Event × Result :=
  if f.marshalFails then ([], .errMarshal) else writeFileAtomic tmp path data 0o600 f

/-- The name `os.CreateTemp` produces: the atomic-write prefix followed by a
decimal number chosen by the standard library. -/
def tmpName (suffix : List Char) : Name := Mutagen.Facts.atomicWriteTemporaryNamePrefix.toList ++ suffix

/-- Names that scans ignore (`strings.HasPrefix(name, filesystem.TemporaryNamePrefix)`). -/
def isTemporary (n : Name) : Bool := Mutagen.Facts.atomicTemporaryNamePrefix.toList.isPrefixOf n

end Mutagen.Model.Atomic
