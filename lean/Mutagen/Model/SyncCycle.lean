import Mutagen.Model.Entry
import Mutagen.Model.Reconcile
import Mutagen.Model.Executability
import Mutagen.Model.Phantom
/-
Model of the decision part of one synchronization cycle and of the run loop
around it (core Lean only, executable).

  /repo/pkg/synchronization/safety.go
    oneEndpointEmptiedRoot           10-39
    containsRootDeletion             43-54
    containsRootTypeChange           58-69
    filteredPathsAreSubset           74-100
  /repo/pkg/synchronization/core/stage.go
    stagingPathFinder.find           20-41
    TransitionDependencies           47-68
  /repo/pkg/synchronization/controller.go
    synchronize, after the scans     1108-1441  (`cycle`)
    run                              677-846    (`RunState`, `runStep`)

Everything the controller obtains from the two endpoints in a cycle is a
parameter: the two scans (`Scan`) and the endpoints' answers to `Stage`,
`Supply` and `Transition` (`Endpoints`).  What the controller *does* to the
endpoints is the list of `Event`s the cycle emits, in program order (the two
`Transition` calls run concurrently in Go; the model lists alpha first).
Phantom-directory reification (Docker-style ignores only, controller.go:
1120-1126) happens before this part: `cycleFromScans` = `reifyStep` (model of
phantom.go in `Model/Phantom`) followed by `cycle` on the reified contents.
-/
namespace Mutagen.Model

/-! ## safety.go -/

/-- safety.go:10-39 `oneEndpointEmptiedRoot`. -/
def oneEndpointEmptiedRoot (ancestor alpha beta : Option Entry) : Bool :=
  -- 13-19
  if !isKind ancestor .directory then false
  else if !isKind alpha .directory then false
  else if !isKind beta .directory then false
  -- 25-27
  else if (contents ancestor).length < 2 then false
  else
    -- 30, 33
    let alphaEmptied := (contents alpha).length == 0
    let betaEmptied := (contents beta).length == 0
    -- 36
    (alphaEmptied || betaEmptied) && !(alphaEmptied && betaEmptied)

/-- safety.go:43-54 `containsRootDeletion`. -/
def containsRootDeletion : List Change → Bool
  | [] => false
  | c :: cs => if c.isRootDeletion then true else containsRootDeletion cs

/-- safety.go:58-69 `containsRootTypeChange`. -/
def containsRootTypeChange : List Change → Bool
  | [] => false
  | c :: cs => if c.isRootTypeChange then true else containsRootTypeChange cs

/-- safety.go:85-91: the inner loop: the rest of `original` after the first
occurrence of `f` (`none` when there is no match). -/
def dropThrough (f : String) : List String → Option (List String)
  | [] => none
  | o :: os => if o == f then some os else dropThrough f os

/-- safety.go:74-100 `filteredPathsAreSubset`. -/
def filteredPathsAreSubset : List String → List String → Bool
  | [], _ => true
  | f :: fs, original =>
    match dropThrough f original with
    | none => false
    | some rest => filteredPathsAreSubset fs rest

/-! ## stage.go -/

mutual
/-- stage.go:20-41 `stagingPathFinder.find` on a non-nil entry. -/
def Entry.stagingPaths (path : Path) : Entry → List (Path × List UInt8)
  | .mk p cs =>
    if p.kind == .directory then Entry.stagingPathsL path cs
    else if p.kind == .file then [(path, p.digest)]
    else []
def Entry.stagingPathsL (path : Path) : Contents → List (Path × List UInt8)
  | [] => []
  | (n, c) :: r => c.stagingPaths (path ++ [n]) ++ Entry.stagingPathsL path r
end

/-- stage.go:53-58: a file replaced by a file with the same digest (an
executability-only change) needs no staging. -/
def fileToFileSameContents (t : Change) : Bool :=
  match t.old, t.new with
  | some o, some n => o.kind == .file && n.kind == .file && o.props.digest == n.props.digest
  | _, _ => false

/-- stage.go:47-68 `TransitionDependencies` (paths with their digests). -/
def transitionDependencies : List Change → List (Path × List UInt8)
  | [] => []
  | t :: ts =>
    (if fileToFileSameContents t then []
     else match t.new with
       | none => []
       | some n => n.stagingPaths t.path) ++ transitionDependencies ts

/-! ## controller.go `synchronize`: one cycle after the scans -/

/-- The three safety halts (state.proto `Status_HaltedOn…`). -/
inductive Halt | rootEmptied | rootDeletion | rootTypeChange
  deriving DecidableEq, Repr, Inhabited

/-- Terminal (non-halting) errors of a cycle; each makes `synchronize` return
an ordinary error, after which the run loop reconnects. -/
inductive CycleError
  | stageAlpha | subsetAlpha | supplyBeta
  | stageBeta | subsetBeta | supplyAlpha
  | applyAncestor | invalidAncestor
  | transitionAlpha | transitionBeta
  deriving DecidableEq, Repr, Inhabited

inductive Outcome
  | halted (h : Halt)
  | failed (e : CycleError)
  | completed
  deriving DecidableEq, Repr, Inhabited

/-- A call the controller makes on an endpoint (`alpha = true`: on alpha). -/
inductive Event
  | stage (alpha : Bool) (deps : List (Path × List UInt8))
  | supply (alpha : Bool) (paths : List String)
  | transition (alpha : Bool) (ts : List Change)
  | save (ancestor : Option Entry)
  deriving Repr, Inhabited

/-- An endpoint's answer to `Stage`: an error, or the paths it still needs. -/
inductive StageAnswer
  | error
  | need (filtered : List String)
  deriving Repr, Inhabited

/-- An endpoint's answer to `Transition`: an error, or one result per
transition and the missing-files flag. -/
inductive TransitionAnswer
  | error
  | done (results : List (Option Entry)) (missingFiles : Bool)
  deriving Repr, Inhabited

/-- The endpoints' behaviour during one cycle, as functions of the request
(`Bool` = the endpoint is alpha). -/
structure Endpoints where
  stage : Bool → List (Path × List UInt8) → StageAnswer
  supply : Bool → List String → Bool            -- `true` = success
  transition : Bool → List Change → TransitionAnswer

/-- Endpoints that have everything staged already and apply every transition
exactly (the result of a transition is its `New`). -/
def Endpoints.ideal : Endpoints where
  stage := fun _ _ => .need []
  supply := fun _ _ => true
  transition := fun _ ts => .done (ts.map (·.new)) false

structure CycleResult where
  outcome : Outcome
  events : List Event := []
  /-- the in-memory ancestor after the cycle -/
  ancestor : Option Entry
  conflicts : List Conflict := []
  /-- the contents after executability propagation (what was reconciled) -/
  alphaContent : Option Entry := none
  betaContent : Option Entry := none
  plan : Plan := {}
  /-- controller.go:1423-1429: another cycle is forced without polling -/
  missingFiles : Bool := false
  deriving Repr, Inhabited

/-- The path strings handed to `Stage` (`""` = root, components joined with
`/`), as the model only needs them for `filteredPathsAreSubset`. -/
def pathString (p : Path) : String := "/".intercalate p

/-- controller.go:1251-1289 / 1291-1329: staging on one side (`onAlpha`),
supplied by the other. Returns the events and an error, if any. -/
def stageSide (eps : Endpoints) (onAlpha : Bool) (transitions : List Change) :
    List Event × Option CycleError :=
  let deps := transitionDependencies transitions
  if deps.isEmpty then ([], none)
  else
    let paths := deps.map fun d => pathString d.1
    match eps.stage onAlpha deps with
    | .error => ([.stage onAlpha deps], some (if onAlpha then .stageAlpha else .stageBeta))
    | .need filtered =>
      if !filteredPathsAreSubset filtered paths then
        ([.stage onAlpha deps], some (if onAlpha then .subsetAlpha else .subsetBeta))
      else if filtered.isEmpty then ([.stage onAlpha deps], none)
      else if eps.supply (!onAlpha) filtered then
        ([.stage onAlpha deps, .supply (!onAlpha) filtered], none)
      else
        ([.stage onAlpha deps, .supply (!onAlpha) filtered],
          some (if onAlpha then .supplyBeta else .supplyAlpha))

/-- controller.go:1344-1364: one side's transition call. Returns the events,
the ancestor changes derived from the results, the missing-files flag and
whether the call failed. -/
def transitionSide (eps : Endpoints) (onAlpha : Bool) (transitions : List Change) :
    List Event × List Change × Bool × Bool :=
  if transitions.isEmpty then ([], [], false, false)
  else
    match eps.transition onAlpha transitions with
    | .error => ([.transition onAlpha transitions], [], false, true)
    | .done results missing =>
      ([.transition onAlpha transitions],
        (transitions.zip results).map (fun tr => { path := tr.1.path, old := none, new := tr.2 }),
        missing, false)

/-- controller.go:1108-1441: the part of one iteration of the loop in
`synchronize` that follows the scans. `portable`: the effective permissions
mode is `PermissionsModePortable`. -/
def cycle (mode : Mode) (portable : Bool) (eps : Endpoints) (ancestor : Option Entry) (α β : Scan) :
    CycleResult :=
  -- 1150-1166
  let (αContent, βContent) := propagateStep portable ancestor α β
  -- 1175-1182
  if oneEndpointEmptiedRoot ancestor αContent βContent then
    { outcome := .halted .rootEmptied, ancestor := ancestor, alphaContent := αContent, betaContent := βContent }
  else
    -- 1186-1191
    let plan := Reconcile ancestor αContent βContent mode
    let base : CycleResult :=
      { outcome := .completed, ancestor := ancestor, conflicts := plan.conflicts,
        alphaContent := αContent, betaContent := βContent, plan := plan }
    -- 1231-1236
    if containsRootDeletion plan.alpha || containsRootDeletion plan.beta then
      { base with outcome := .halted .rootDeletion }
    -- 1242-1247
    else if containsRootTypeChange plan.alpha || containsRootTypeChange plan.beta then
      { base with outcome := .halted .rootTypeChange }
    else
      -- 1250-1289
      match stageSide eps true plan.alpha with
      | (ev1, some e) => { base with outcome := .failed e, events := ev1 }
      | (ev1, none) =>
      -- 1291-1329
      match stageSide eps false plan.beta with
      | (ev2, some e) => { base with outcome := .failed e, events := ev1 ++ ev2 }
      | (ev2, none) =>
      -- 1335-1374
      let (ev3, αChanges, αMissing, αErr) := transitionSide eps true plan.alpha
      let (ev4, βChanges, βMissing, βErr) := transitionSide eps false plan.beta
      let events := ev1 ++ ev2 ++ ev3 ++ ev4
      -- 1385-1386
      let ancestorChanges := plan.anc ++ αChanges ++ βChanges
      -- 1387-1414
      let saved : Except CycleError (Option Entry × List Event) :=
        if ancestorChanges.isEmpty then .ok (ancestor, [])
        else match apply ancestor ancestorChanges with
          | .error _ => .error .applyAncestor
          | .ok newAncestor =>
            if !oensureValid true newAncestor then .error .invalidAncestor
            else .ok (newAncestor, [.save newAncestor])
      match saved with
      | .error e => { base with outcome := .failed e, events := events }
      | .ok (newAncestor, ev5) =>
        -- 1417-1421
        if αErr then { base with outcome := .failed .transitionAlpha, events := events ++ ev5, ancestor := newAncestor }
        else if βErr then { base with outcome := .failed .transitionBeta, events := events ++ ev5, ancestor := newAncestor }
        else
          { base with events := events ++ ev5, ancestor := newAncestor, missingFiles := αMissing || βMissing }

/-- controller.go:1120-1126: with Docker-style ignore syntax the scanned
contents are reified (phantom directories become tracked or untracked) before
anything else looks at them. -/
def reifyStep (docker : Bool) (ancestor : Option Entry) (α β : Scan) : Scan × Scan :=
  if docker then
    let r := reifyPhantomDirectories ancestor α.content β.content
    ({ α with content := r.1 }, { β with content := r.2.1 })
  else (α, β)

/-- controller.go:1108-1441 including the reification step, in the order of the
code: reify, then propagate executability, then the safety checks,
reconciliation, staging and transitions (`cycle`). -/
def cycleFromScans (mode : Mode) (portable docker : Bool) (eps : Endpoints) (ancestor : Option Entry)
    (α β : Scan) : CycleResult :=
  let s := reifyStep docker ancestor α β
  cycle mode portable eps ancestor s.1 s.2

/-- The events that touch an endpoint (everything but saving the archive). -/
def Event.touchesEndpoint : Event → Bool
  | .save _ => false
  | _ => true

/-! ## controller.go `run` -/

/-- Where the run loop (controller.go:677-846) is. -/
inductive RunState
  /-- inside `synchronize`, between cycles, with the in-memory ancestor -/
  | synchronizing (ancestor : Option Entry)
  /-- 811-814: `<-ctx.Done()` after `errHaltedForSafety`; the status stays `Halted…` -/
  | halted (h : Halt) (ancestor : Option Entry)
  /-- 816-845: an ordinary error: state reset, waiting to reconnect -/
  | reconnecting (ancestor : Option Entry)
  /-- the loop returned (cancelled) -/
  | terminated
  deriving Repr, Inhabited

inductive RunInput
  /-- a cycle is triggered (poll event or flush) and the scans return -/
  | trigger (α β : Scan)
  /-- the reconnect timer fires and both endpoints connect -/
  | reconnect
  /-- the context is cancelled (pause, terminate, reset, shutdown) -/
  | cancel

/-- One step of the run loop. The ancestor carried by `reconnecting` /
`synchronizing` is the archive on disk, which `synchronize` reloads on entry
(865-872); it equals the in-memory ancestor because every update is saved
before the cycle continues (1409-1413). -/
def runStep (mode : Mode) (portable : Bool) (eps : Endpoints) : RunState → RunInput → RunState × List Event
  | .terminated, _ => (.terminated, [])
  | _, .cancel => (.terminated, [])
  | .halted h a, _ => (.halted h a, [])
  | .reconnecting a, .reconnect => (.synchronizing a, [])
  | .reconnecting a, .trigger _ _ => (.reconnecting a, [])
  | .synchronizing a, .reconnect => (.synchronizing a, [])
  | .synchronizing a, .trigger α β =>
    let r := cycle mode portable eps a α β
    match r.outcome with
    | .halted h => (.halted h r.ancestor, r.events)
    | .failed _ => (.reconnecting r.ancestor, r.events)
    | .completed => (.synchronizing r.ancestor, r.events)

/-- Run the loop over a list of inputs, collecting the events. -/
def runLoop (mode : Mode) (portable : Bool) (eps : Endpoints) : RunState → List RunInput → RunState × List Event
  | s, [] => (s, [])
  | s, i :: is =>
    let (s', ev) := runStep mode portable eps s i
    let (s'', ev') := runLoop mode portable eps s' is
    (s'', ev ++ ev')

end Mutagen.Model
