import Mutagen.Generated.Facts
/-
Model of pkg/agent/handshake.go (3-byte magic numbers) and
pkg/mutagen/version.go (12-byte big-endian version exchange). Core Lean only.

A side's view of its `io.ReadWriter` is a `Stream`: the bytes that will still
arrive (then EOF — the peer closed), an optional budget of bytes the transport
still accepts (a `Write` that exceeds it writes the prefix that fits and
fails), and the bytes written so far. `io.ReadFull` and a single `Write` are
modelled exactly on that view; how the transport fragments reads is invisible
to `io.ReadFull` and therefore absent from the model.

The Go functions read package-level constants; here they are fields of
`Params`, so that the two-party theorems can talk about peers built with
different magic numbers or versions. `clientParams`/`serverParams` are the
values of the code under test (from the regenerated facts file).
-/
namespace Mutagen.Model.Handshake

abbrev Bytes := List UInt8

/-- Canonical error classes (never error text): `eof`/`ueof` are what
`io.ReadFull` returns, `werr` is the transport's write error, `reject` is a
comparison failure (`errors.New`). -/
inductive Err | ok | eof | ueof | werr | reject
  deriving DecidableEq, Repr

structure Stream where
  inp : Bytes
  wcap : Option Nat
  sent : Bytes
  deriving Repr

/-- `io.ReadFull(reader, buf[:n])`: all `n` bytes, or `io.EOF` when nothing
arrived, or `io.ErrUnexpectedEOF` (everything that did arrive is consumed). -/
def readFull (s : Stream) (n : Nat) : Stream × Option Bytes × Err :=
  if n ≤ s.inp.length then ({ s with inp := s.inp.drop n }, some (s.inp.take n), .ok)
  else if s.inp.length = 0 then (s, none, .eof)
  else ({ s with inp := [] }, none, .ueof)

/-- One `writer.Write(data)`. -/
def write (s : Stream) (data : Bytes) : Stream × Err :=
  match s.wcap with
  | none => ({ s with sent := s.sent ++ data }, .ok)
  | some c =>
    if data.length ≤ c then ({ s with sent := s.sent ++ data, wcap := some (c - data.length) }, .ok)
    else ({ s with sent := s.sent ++ data.take c, wcap := some 0 }, .werr)

structure Params where
  sendMagic : Bytes
  expectMagic : Bytes
  major : UInt32
  minor : UInt32
  patch : UInt32
  deriving Repr

/-- Length of `magicNumberBytes` / `versionBytes`. -/
def magicLen : Nat := 3
def versionLen : Nat := 12

/-- `binary.BigEndian.PutUint32`: `b[0] = byte(v >> 24)`, … (`v >> n` is
`v / 2^n`; the conversion to `byte` is the truncation built into `UInt8.ofNat`). -/
def be32 (v : UInt32) : Bytes :=
  [UInt8.ofNat (v.toNat / 2 ^ 24), UInt8.ofNat (v.toNat / 2 ^ 16), UInt8.ofNat (v.toNat / 2 ^ 8), UInt8.ofNat v.toNat]

/-- `binary.BigEndian.Uint32` on a 4-byte slice: `uint32(b[3]) | uint32(b[2])<<8 | …`
(the or-ed bit ranges are disjoint, so `|`/`<<` are `+`/`* 2^n`); `0` on any
other length (it is only called on 4-byte slices). -/
def be32dec : Bytes → UInt32
  | [a, b, c, d] => UInt32.ofNat (a.toNat * 2 ^ 24 + b.toNat * 2 ^ 16 + c.toNat * 2 ^ 8 + d.toNat)
  | _ => 0

-- pkg/agent/handshake.go ------------------------------------------------------

def sendMagicNumber (s : Stream) (magic : Bytes) : Stream × Err := write s magic

def receiveAndCompareMagicNumber (s : Stream) (expected : Bytes) : Stream × Bool × Err :=
  match readFull s magicLen with
  | (s', some received, _) => (s', received == expected, .ok)
  | (s', none, e) => (s', false, e)

def clientHandshake (p : Params) (s : Stream) : Stream × Err :=
  let (s, magicOk, e) := receiveAndCompareMagicNumber s p.expectMagic
  if e ≠ .ok then (s, e)
  else if !magicOk then (s, .reject)
  else sendMagicNumber s p.sendMagic

def serverHandshake (p : Params) (s : Stream) : Stream × Err :=
  let (s, e) := sendMagicNumber s p.sendMagic
  if e ≠ .ok then (s, e) else
  let (s, magicOk, e) := receiveAndCompareMagicNumber s p.expectMagic
  if e ≠ .ok then (s, e)
  else if !magicOk then (s, .reject)
  else (s, .ok)

-- pkg/mutagen/version.go ------------------------------------------------------

def versionBytes (p : Params) : Bytes := be32 p.major ++ be32 p.minor ++ be32 p.patch

def sendVersion (p : Params) (s : Stream) : Stream × Err := write s (versionBytes p)

def receiveVersion (s : Stream) : Stream × UInt32 × UInt32 × UInt32 × Err :=
  match readFull s versionLen with
  | (s', some data, _) =>
    (s', be32dec (data.take 4), be32dec ((data.drop 4).take 4), be32dec (data.drop 8), .ok)
  | (s', none, e) => (s', 0, 0, 0, e)

def clientVersionHandshake (p : Params) (s : Stream) : Stream × Err :=
  let (s, major, minor, patch, e) := receiveVersion s
  if e ≠ .ok then (s, e) else
  let (s, e) := sendVersion p s
  if e ≠ .ok then (s, e) else
  let versionMatch := major == p.major && minor == p.minor && patch == p.patch
  if !versionMatch then (s, .reject) else (s, .ok)

def serverVersionHandshake (p : Params) (s : Stream) : Stream × Err :=
  let (s, e) := sendVersion p s
  if e ≠ .ok then (s, e) else
  let (s, major, minor, patch, e) := receiveVersion s
  if e ≠ .ok then (s, e) else
  let versionMatch := major == p.major && minor == p.minor && patch == p.patch
  if !versionMatch then (s, .reject) else (s, .ok)

-- The call sites: pkg/agent/dial.go (client), cmd/mutagen-agent (server) ------

def clientConnect (p : Params) (s : Stream) : Stream × Err :=
  let (s, e) := clientHandshake p s
  if e ≠ .ok then (s, e) else clientVersionHandshake p s

def serverConnect (p : Params) (s : Stream) : Stream × Err :=
  let (s, e) := serverHandshake p s
  if e ≠ .ok then (s, e) else serverVersionHandshake p s

-- Constants of the code under test --------------------------------------------

def toBytes (l : List Nat) : Bytes := l.map UInt8.ofNat

def serverMagic : Bytes := toBytes Mutagen.Facts.agentServerMagicNumber
def clientMagic : Bytes := toBytes Mutagen.Facts.agentClientMagicNumber

def clientParams : Params :=
  { sendMagic := clientMagic, expectMagic := serverMagic,
    major := UInt32.ofNat Mutagen.Facts.mutagenVersionMajor,
    minor := UInt32.ofNat Mutagen.Facts.mutagenVersionMinor,
    patch := UInt32.ofNat Mutagen.Facts.mutagenVersionPatch }

def serverParams : Params :=
  { clientParams with sendMagic := serverMagic, expectMagic := clientMagic }

-- Two parties over a channel --------------------------------------------------

/-- A single in-transit fault on one direction of the channel: cut the
direction after `k` bytes (the receiver then sees EOF), or xor byte `k` with `x`. -/
inductive Fault | none | trunc (k : Nat) | flip (k : Nat) (x : UInt8)
  deriving DecidableEq, Repr

def Fault.apply : Fault → Bytes → Bytes
  | .none, b => b
  | .trunc k, b => b.take k
  | .flip k x, b => match b[k]? with
    | Option.some v => b.set k (v ^^^ x)
    | Option.none => b

/-- What a side has written when it is run on `inp` (a failed side closes the
stream, so its peer sees exactly these bytes followed by EOF). -/
def sentOn (f : Params → Stream → Stream × Err) (p : Params) (inp : Bytes) : Bytes :=
  (f p { inp := inp, wcap := none, sent := [] }).1.sent

def errOn (f : Params → Stream → Stream × Err) (p : Params) (inp : Bytes) : Err :=
  (f p { inp := inp, wcap := none, sent := [] }).2

/-- One round of the exchange: given what the server has sent so far, what the
client sends, and from that what the server sends. Every side's output is
monotone in (a prefix-closed function of) its input, so iterating from the
empty exchange reaches the actual exchange; three flights exist (server magic;
client magic; server version; client version), four rounds are taken. -/
def round (pc ps : Params) (fsc fcs : Fault) (sOut : Bytes) : Bytes :=
  let cOut := sentOn clientConnect pc (fsc.apply sOut)
  sentOn serverConnect ps (fcs.apply cOut)

structure Outcome where
  client : Err
  server : Err
  clientSent : Bytes
  serverSent : Bytes
  deriving Repr

/-- The complete two-party exchange: client `pc`, server `ps`, fault `fsc` on
the server→client direction and `fcs` on the client→server direction. -/
def session (pc ps : Params) (fsc fcs : Fault) : Outcome :=
  let sOut := round pc ps fsc fcs (round pc ps fsc fcs (round pc ps fsc fcs (round pc ps fsc fcs [])))
  let cOut := sentOn clientConnect pc (fsc.apply sOut)
  { client := errOn clientConnect pc (fsc.apply sOut),
    server := errOn serverConnect ps (fcs.apply cOut),
    clientSent := cOut, serverSent := sOut }

end Mutagen.Model.Handshake
