/-
Model of pkg/daemon/lock.go and pkg/filesystem/locking/locker{,_posix}.go
(core Lean only): N processes competing for the daemon lock file.

The kernel is a parameter of the property; its rule for POSIX record locks
(`fcntl` `F_SETLK`, whole-file `F_WRLCK`) is *assumed* and modelled by the
single field `owner`:

* `F_SETLK`/`F_WRLCK` by process `p` succeeds iff no other process holds the
  lock (a process may re-lock what it already holds), otherwise `EAGAIN`;
* `F_SETLK`/`F_UNLCK` by `p` releases `p`'s lock;
* `close` of *any* descriptor of the file by `p` releases `p`'s lock;
* the death of `p` (exit or SIGKILL) releases `p`'s lock;
* a system call on a closed descriptor fails with `EBADF` and changes nothing.

On top of that the model mirrors the code's bookkeeping: the `Locker` object
(`file`, `held`), `Locker.Lock(false)`, `Unlock`, `Close`, `Held`, and the two
composite operations `daemon.AcquireLock` (NewLocker; Lock(false); on error
Close) and `(*daemon.Lock).Release` (Unlock; on error Close and return; Close).
One model step is one system call together with the process-local flag
updates that follow it (each process runs one operation at a time). Processes
interleave at system-call granularity; a signalled process may die between
any two steps.

Assumption (the code's own caveat, locker_posix.go): a process uses at most
one Locker for the lock file at a time.
-/
namespace Mutagen.Model.DaemonLock

/-- Operations a process can be asked to perform. -/
inductive Cmd
  | acquire   -- daemon.AcquireLock()
  | release   -- (*daemon.Lock).Release()
  | new       -- locking.NewLocker(path, 0600)
  | lock      -- (*Locker).Lock(false)
  | unlock    -- (*Locker).Unlock()
  | close     -- (*Locker).Close()
  | held      -- (*Locker).Held()
  deriving DecidableEq, Repr

/-- Results. `busy`: the kernel refused the lock (EAGAIN/EACCES); `err`: any
other error; `refused`: the operation does not apply (no such object). -/
inductive Res | ok | busy | err | refused | yes | no
  deriving DecidableEq, Repr

/-- Program counter of a process. -/
inductive Pc
  | idle
  | acq1                      -- AcquireLock: before NewLocker
  | acq2                      -- AcquireLock: before locker.Lock(false)
  | acq3 (r : Res)            -- AcquireLock: Lock failed with r, before locker.Close()
  | rel1                      -- Release: before locker.Unlock()
  | rel2 (r : Res)            -- Release: before locker.Close(); r: result so far
  | one (c : Cmd)             -- a single Locker operation, before its step
  | done (r : Res)            -- finished, result to return
  deriving DecidableEq, Repr

structure Proc where
  alive : Bool := true
  /-- SIGKILL has been sent or the process has been told to exit. -/
  signalled : Bool := false
  pc : Pc := .idle
  /-- the process has a Locker object. -/
  locker : Bool := false
  /-- the Locker's file descriptor is open. -/
  fd : Bool := false
  /-- `Locker.held`. -/
  held : Bool := false
  /-- the Locker is owned by a `daemon.Lock`. -/
  daemon : Bool := false
  deriving DecidableEq, Repr

structure State where
  /-- kernel lock table entry of the lock file: the process holding the write lock. -/
  owner : Option Nat
  procs : Nat → Proc

def init : State := { owner := none, procs := fun _ => {} }

def State.set (s : State) (p : Nat) (x : Proc) : State :=
  { s with procs := fun i => if i = p then x else s.procs i }

/-- Kernel: the lock `p` may have on the file is dropped. -/
def drop (owner : Option Nat) (p : Nat) : Option Nat :=
  if owner = some p then none else owner

/-- `(*Locker).Lock(false)`: new process state, new owner, result. -/
def lockerLock (owner : Option Nat) (p : Nat) (x : Proc) : Proc × Option Nat × Res :=
  if x.held then (x, owner, .err)                      -- "lock already held"
  else if ¬ x.fd then (x, owner, .err)                 -- EBADF
  else if owner = none ∨ owner = some p then ({ x with held := true }, some p, .ok)
  else (x, owner, .busy)                               -- EAGAIN

/-- `(*Locker).Unlock()`. -/
def lockerUnlock (owner : Option Nat) (p : Nat) (x : Proc) : Proc × Option Nat × Res :=
  if ¬ x.held then (x, owner, .err)                    -- "lock not held"
  else if ¬ x.fd then (x, owner, .err)                 -- EBADF
  else ({ x with held := false }, drop owner p, .ok)

/-- `(*Locker).Close()`. -/
def lockerClose (owner : Option Nat) (p : Nat) (x : Proc) : Proc × Option Nat × Res :=
  if x.fd then ({ x with fd := false }, drop owner p, .ok)
  else (x, owner, .err)                                -- already closed

inductive Action
  | call (p : Nat) (c : Cmd)
  | sys (p : Nat)       -- the next system-call step of p's current operation
  | ret (p : Nat)
  | signal (p : Nat)    -- SIGKILL sent / exit requested
  | die (p : Nat)
  deriving DecidableEq, Repr

/-- Entry point of an operation; operations that do not apply are refused by
the caller without touching the Locker. -/
def entry (x : Proc) : Cmd → Pc
  | .acquire => if x.locker ∧ x.fd then .done .refused else .acq1
  | .release => if x.locker ∧ x.daemon then .rel1 else .done .refused
  | .new => if x.locker ∧ x.fd then .done .refused else .one .new
  | c => if x.locker ∧ ¬ x.daemon then .one c else .done .refused

def sysStep (s : State) (p : Nat) : Option State :=
  let x := s.procs p
  if ¬ x.alive then none else
  match x.pc with
  | .acq1 =>
    -- NewLocker: open(O_RDWR|O_CREATE|O_APPEND)
    some (s.set p { x with locker := true, fd := true, held := false, daemon := true, pc := .acq2 })
  | .acq2 =>
    let (x', o, r) := lockerLock s.owner p x
    match r with
    | .ok => some ({ s with owner := o }.set p { x' with pc := .done .ok })
    | r => some ({ s with owner := o }.set p { x' with pc := .acq3 r })
  | .acq3 r =>
    -- locker.Close(); return nil, err
    let (x', o, _) := lockerClose s.owner p x
    some ({ s with owner := o }.set p { x' with locker := false, daemon := false, held := false, pc := .done r })
  | .rel1 =>
    let (x', o, r) := lockerUnlock s.owner p x
    some ({ s with owner := o }.set p { x' with pc := .rel2 r })
  | .rel2 r =>
    -- l.locker.Close(); the Lock object is finished either way
    let (x', o, r') := lockerClose s.owner p x
    let res := match r with | .ok => (match r' with | .ok => Res.ok | _ => Res.err) | r => r
    some ({ s with owner := o }.set p { x' with locker := false, daemon := false, held := false, pc := .done res })
  | .one .new =>
    some (s.set p { x with locker := true, fd := true, held := false, daemon := false, pc := .done .ok })
  | .one .lock =>
    let (x', o, r) := lockerLock s.owner p x
    some ({ s with owner := o }.set p { x' with pc := .done r })
  | .one .unlock =>
    let (x', o, r) := lockerUnlock s.owner p x
    some ({ s with owner := o }.set p { x' with pc := .done r })
  | .one .close =>
    let (x', o, r) := lockerClose s.owner p x
    some ({ s with owner := o }.set p { x' with pc := .done r })
  | .one .held =>
    some (s.set p { x with pc := .done (if x.held then .yes else .no) })
  | _ => none

def step (s : State) : Action → Option State
  | .call p c =>
    let x := s.procs p
    if x.alive ∧ x.pc = .idle then some (s.set p { x with pc := entry x c }) else none
  | .sys p => sysStep s p
  | .ret p =>
    let x := s.procs p
    match x.alive, x.pc with
    | true, .done _ => some (s.set p { x with pc := .idle })
    | _, _ => none
  | .signal p => some (s.set p { s.procs p with signalled := true })
  | .die p =>
    let x := s.procs p
    if x.alive ∧ x.signalled then
      some ({ s with owner := drop s.owner p }.set p { x with alive := false, fd := false })
    else none

def run (s : State) : List Action → Option State
  | [] => some s
  | a :: as => (step s a).bind fun s' => run s' as

def Reachable (s : State) : Prop := ∃ as, run init as = some s

end Mutagen.Model.DaemonLock
