import Mutagen.Generated.Facts
/-!
Model of `pkg/prompting/response_mode.go` and `pkg/prompting/registry.go`
(core Lean only).

## Response mode
`determineResponseMode` over byte strings, with the suffix table regenerated
from the Go source (`Mutagen.Facts.echoedPromptSuffixes`).

## Registry: interleaving model
The registry is a map from identifiers to *holders*; a holder is a one-slot
buffered channel carrying the prompter (a token). Every call of
`RegisterPrompterWithIdentifier`, `UnregisterPrompter`, `Message`, `Prompt` is a
thread that performs the atomic steps of the Go function in program order:

* registry lookups / insertions / deletions happen under `registryLock`, each
  critical section is one atomic step;
* a channel receive, send and close is one atomic step each (a receive on an
  empty open channel blocks: the step is not enabled);
* the prompter's own method runs between the observable events `callStart` and
  `callEnd`.

`tau` is the internal step function (deterministic per thread), `obs` the
effect of an observable event (invocation of the registry function, start / end
of the prompter's method, return of the registry function with its result).
`Step` is their union: any enabled step of any thread — every interleaving.
`accepts` decides whether an observed event trace can be produced by the model
(subset construction with τ-closure); the harness feeds it traces recorded on
the real registry.
-/
namespace Mutagen.Model.Prompting

/-! ## determineResponseMode -/

abbrev Bytes := List UInt8

inductive ResponseMode | secret | masked | echo
  deriving Repr, DecidableEq

def echoedPromptSuffixes : List Bytes := Mutagen.Facts.echoedPromptSuffixes.map fun s => s.toUTF8.toList

/-- `strings.HasSuffix`. -/
def hasSuffix (s suffix : Bytes) : Bool :=
  s.length ≥ suffix.length ∧ s.drop (s.length - suffix.length) = suffix

/-- The `for _, suffix := range echoedPromptSuffixes` loop. -/
def responseLoop (prompt : Bytes) : List Bytes → ResponseMode
  | [] => .secret
  | suffix :: rest => if hasSuffix prompt suffix then .echo else responseLoop prompt rest

def determineResponseMode (prompt : Bytes) : ResponseMode := responseLoop prompt echoedPromptSuffixes

/-! ## Registry -/

abbrev Id := String

inductive Op
  | reg (id : Id)
  | unreg (id : Id)
  /-- `Message` (`prompt = false`) or `Prompt`; `fail`: the prompter's method returns an error. -/
  | call (id : Id) (prompt : Bool) (fail : Bool)
  deriving Repr, DecidableEq

inductive Res
  | ok | notFound | acquireFailed | callError | panic | collision | emptyId
  deriving Repr, DecidableEq

inductive Pc
  | idle        -- not yet invoked
  | start       -- invoked; about to enter its (first) critical section
  | recv        -- call: holds `holder`, about to `<-holder`
  | holding     -- call: got the prompter; the method has not started
  | calling     -- call: inside the prompter's method
  | returning   -- call: method returned; about to `holder <- prompter`
  | urecv       -- unregister: removed from the registry; about to `<-holder`
  | uclose      -- unregister: got the prompter; about to `close(holder)`
  | finished    -- internal work complete, result in `res`; not yet returned
  | done
  deriving Repr, DecidableEq

structure Thread where
  op : Op
  pc : Pc
  /-- the local variable `holder` (index into `State.holders`). -/
  holder : Option Nat
  res : Option Res
  deriving Repr, DecidableEq

structure Holder where
  /-- the prompter is in the channel's buffer. -/
  token : Bool
  closed : Bool
  deriving Repr, DecidableEq

structure State where
  registry : List (Id × Nat)
  holders : List Holder
  threads : List Thread
  /-- a run-time panic of the channel operations (send on / close of a closed channel). -/
  crashed : Bool
  /-- `UnregisterPrompter` panicked on an unknown identifier: it does so with
  `registryLock` write-locked and never unlocks it, so no critical section can
  be entered any more. -/
  locked : Bool
  deriving Repr, DecidableEq

def init (ops : List Op) : State :=
  { registry := [], holders := [],
    threads := ops.map fun op => { op := op, pc := .idle, holder := none, res := none },
    crashed := false, locked := false }

def State.setThread (s : State) (t : Nat) (th : Thread) : State :=
  { s with threads := s.threads.set t th }

def State.setHolder (s : State) (h : Nat) (x : Holder) : State :=
  { s with holders := s.holders.set h x }

def finish (th : Thread) (r : Res) : Thread := { th with pc := .finished, res := some r }

/-- One internal step of thread `t`, `none` when the thread has no enabled
internal step (blocked, waiting for an observable event, or finished). -/
def tau (s : State) (t : Nat) : Option State :=
  match s.threads[t]? with
  | none => none
  | some th =>
    match th.pc with
    | .start =>
      match th.op with
      | .reg id =>
        if id = "" then some (s.setThread t (finish th .emptyId))
        else if s.locked then none
        else if (s.registry.lookup id).isSome then some (s.setThread t (finish th .collision))
        else
          some { s with
            registry := (id, s.holders.length) :: s.registry
            holders := s.holders ++ [{ token := true, closed := false }]
            threads := s.threads.set t (finish th .ok) }
      | .unreg id =>
        if s.locked then none else
        match s.registry.lookup id with
        | none => some { s with locked := true, threads := s.threads.set t (finish th .panic) }
        | some h =>
          some { s with
            registry := s.registry.filter (fun e => e.1 ≠ id)
            threads := s.threads.set t { th with pc := .urecv, holder := some h } }
      | .call id prompt _ =>
        if !prompt ∧ id = "" then some (s.setThread t (finish th .ok))
        else if s.locked then none
        else
          match s.registry.lookup id with
          | none => some (s.setThread t (finish th .notFound))
          | some h => some (s.setThread t { th with pc := .recv, holder := some h })
    | .recv =>
      match th.holder.bind (s.holders[·]?) with
      | none => none
      | some hd =>
        if hd.token then
          some ((s.setHolder th.holder.get! { hd with token := false }).setThread t { th with pc := .holding })
        else if hd.closed then some (s.setThread t (finish th .acquireFailed))
        else none
    | .returning =>
      match th.holder.bind (s.holders[·]?) with
      | none => none
      | some hd =>
        if hd.closed then some { s with crashed := true }
        else if hd.token then none
        else
          let r := match th.op with
            | .call _ _ true => Res.callError
            | _ => Res.ok
          some ((s.setHolder th.holder.get! { hd with token := true }).setThread t (finish th r))
    | .urecv =>
      match th.holder.bind (s.holders[·]?) with
      | none => none
      | some hd =>
        if hd.token then
          some ((s.setHolder th.holder.get! { hd with token := false }).setThread t { th with pc := .uclose })
        else if hd.closed then some (s.setThread t { th with pc := .uclose })
        else none
    | .uclose =>
      match th.holder.bind (s.holders[·]?) with
      | none => none
      | some hd =>
        if hd.closed then some { s with crashed := true }
        else some ((s.setHolder th.holder.get! { hd with closed := true }).setThread t (finish th .ok))
    | _ => none

inductive Event
  | invoke (t : Nat)
  | callStart (t : Nat)
  | callEnd (t : Nat)
  | ret (t : Nat) (r : Res)
  deriving Repr, DecidableEq

/-- Effect of an observable event, `none` when it cannot happen in `s`. -/
def obs (s : State) : Event → Option State
  | .invoke t =>
    match s.threads[t]? with
    | some th => if th.pc = .idle then some (s.setThread t { th with pc := .start }) else none
    | none => none
  | .callStart t =>
    match s.threads[t]? with
    | some th => if th.pc = .holding then some (s.setThread t { th with pc := .calling }) else none
    | none => none
  | .callEnd t =>
    match s.threads[t]? with
    | some th => if th.pc = .calling then some (s.setThread t { th with pc := .returning }) else none
    | none => none
  | .ret t r =>
    match s.threads[t]? with
    | some th => if th.pc = .finished ∧ th.res = some r then some (s.setThread t { th with pc := .done }) else none
    | none => none

/-- Any enabled atomic step of any thread. -/
inductive Step : State → State → Prop
  | tau {s s'} (t : Nat) : tau s t = some s' → Step s s'
  | obs {s s'} (e : Event) : obs s e = some s' → Step s s'

/-- States reachable from the initial state of a set of threads under every interleaving. -/
inductive Reachable (ops : List Op) : State → Prop
  | init : Reachable ops (init ops)
  | step {s s'} : Reachable ops s → Step s s' → Reachable ops s'

/-! ## Trace acceptance (executable) -/

/-- All internal successors of a state. -/
def tauSuccessors (s : State) : List State :=
  (List.range s.threads.length).filterMap (tau s)

def insertNew (seen : List State) (s : State) : List State × Bool :=
  if seen.contains s then (seen, false) else (s :: seen, true)

/-- τ-closure of a set of states (`fuel` bounds the number of rounds; each thread
has at most three consecutive internal steps, so `3 * threads + 1` rounds suffice). -/
def tauClosure : Nat → List State → List State → List State
  | 0, seen, _ => seen
  | _, seen, [] => seen
  | fuel + 1, seen, frontier =>
    let (seen', fresh) := frontier.foldl (fun (acc : List State × List State) s =>
      (tauSuccessors s).foldl (fun (acc : List State × List State) s' =>
        if s'.crashed then acc
        else match insertNew acc.1 s' with
          | (seen, true) => (seen, s' :: acc.2)
          | (seen, false) => (seen, acc.2)) acc) (seen, [])
    tauClosure fuel seen' fresh

def closure (states : List State) : List State :=
  match states with
  | [] => []
  | s :: _ => tauClosure (3 * s.threads.length + 1) states states

/-- Run an observed trace; `.error k` = the `k`-th event (0-based) cannot be produced. -/
def runTrace : List State → List Event → Nat → Except Nat (List State)
  | states, [], _ => .ok states
  | states, e :: rest, k =>
    let next := ((closure states).filterMap (obs · e)).eraseDups
    if next.isEmpty then .error k else runTrace next rest (k + 1)

/-- Accepting = the whole trace can be produced and every thread has returned. -/
def accepts (ops : List Op) (trace : List Event) : Except Nat (List State) :=
  match runTrace [init ops] trace 0 with
  | .error k => .error k
  | .ok states =>
    let finals := states.filter fun s => s.threads.all (·.pc = .done)
    if finals.isEmpty then .error trace.length else .ok finals

end Mutagen.Model.Prompting
