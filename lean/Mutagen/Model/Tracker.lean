/-
Model of pkg/state/tracker.go and pkg/state/lock.go (core Lean only).

Granularity: one model step is one critical section under the tracker's
mutex (`t.change.L`), one channel operation, or one operation on the
TrackingLock's own mutex.  Everything the Go code does between `Lock()` and
the matching `Unlock()` (or `Cond.Wait()`, which releases the mutex
atomically with parking) is a single step:

* `cs w`     – caller `w` runs the critical section its program counter is at
               (NotifyOfChange; the immediate read of WaitForChange(0); the
               registration of WaitForChange(prev); the deregistration after
               cancellation; Terminate's flag write);
* `track`    – the tracking goroutine takes the mutex (initially, or after
               being signalled), runs one iteration of the loop body of
               `track()` and parks in `Cond.Wait` again, or exits;
* `recv w`   – the `select` in WaitForChange takes the response branch;
* `termDone w` – `<-t.trackDone` in Terminate;
* `tlAcq/tlRel w` – TrackingLock's mutex;
* `call/cancel/ret` – API boundary: call, context cancellation, return.

`sync.Cond` semantics (assumed, not modelled further): `Signal` wakes the
tracking goroutine iff it is parked in `Wait`; a signal sent while it is not
parked is lost; `Wait` never returns spuriously.  The tracking goroutine is
the only waiter on the condition variable.

Callers are identified by natural numbers; a caller executes one API call at
a time (so it owns at most one poll request and one response channel).
-/
namespace Mutagen.Model.Tracker

/-- Modulus of Go's `uint64`. -/
def wrap : Nat := 2 ^ 64

/-- `t.index++; if t.index == 0 { t.index = 1 }` on a `uint64`. -/
def nextIndex (i : Nat) : Nat :=
  if (i + 1) % wrap = 0 then 1 else (i + 1) % wrap

inductive Err | ok | terminated | canceled
  deriving DecidableEq, Repr

/-- What WaitForChange returns. -/
structure Result where
  index : Nat
  err : Err
  deriving DecidableEq, Repr

/-- `pollResponse`. -/
structure Resp where
  index : Nat
  terminated : Bool
  deriving DecidableEq, Repr

/-- API operations. -/
inductive Op
  | notify                -- Tracker.NotifyOfChange
  | poll (prev : Nat)     -- Tracker.WaitForChange(ctx, prev)
  | terminate             -- Tracker.Terminate
  | tlLock                -- TrackingLock.Lock
  | tlUnlock              -- TrackingLock.Unlock
  | tlUnlockQuiet         -- TrackingLock.UnlockWithoutNotify
  deriving DecidableEq, Repr

/-- Program counter of a caller. -/
inductive Pc
  | idle
  | notify                    -- in NotifyOfChange, before its critical section
  | poll0                     -- in WaitForChange(0), before its critical section
  | pollPre (prev : Nat)      -- in WaitForChange(prev), before the registration critical section
  | pollWait (prev : Nat)     -- registered; blocked in the select
  | term                      -- in Terminate, before its critical section
  | termWait                  -- in Terminate, blocked on trackDone
  | tlLock                    -- in TrackingLock.Lock, blocked on the mutex
  | tlUnlock (notify : Bool)  -- in TrackingLock.Unlock*, before releasing the mutex
  | done (r : Option Result)  -- finished; value to return
  deriving DecidableEq, Repr

/-- State of the tracking goroutine. `runnable`: has to take the mutex and run
the loop body (initially, or after a signal); `waiting`: parked in
`Cond.Wait` with no signal pending; `exited`: returned, `trackDone` closed. -/
inductive TrackPc | runnable | waiting | exited
  deriving DecidableEq, Repr

structure State where
  index : Nat
  terminated : Bool
  track : TrackPc
  /-- `pollRequests`: caller ↦ `previousIndex` of its registered request. -/
  reqs : Nat → Option Nat
  /-- the caller's buffered response channel (capacity 1). -/
  chan : Nat → Option Resp
  pc : Nat → Pc
  /-- whether the context of the caller's current call has been cancelled. -/
  cancelled : Nat → Bool
  /-- holder of the TrackingLock's mutex. -/
  tlHolder : Option Nat

/-- `NewTracker()` (index 1, tracking goroutine started) + `NewTrackingLock`. -/
def init : State :=
  { index := 1, terminated := false, track := .runnable, reqs := fun _ => none,
    chan := fun _ => none, pc := fun _ => .idle, cancelled := fun _ => false, tlHolder := none }

def upd {α : Type} (f : Nat → α) (k : Nat) (v : α) : Nat → α :=
  fun i => if i = k then v else f i

/-- `t.change.Signal()`: wakes the tracking goroutine iff it is parked. -/
def signal (s : State) : State :=
  match s.track with
  | .waiting => { s with track := .runnable }
  | _ => s

def State.setPc (s : State) (w : Nat) (p : Pc) : State := { s with pc := upd s.pc w p }

inductive Action
  | call (w : Nat) (op : Op)
  | cancel (w : Nat)
  | cs (w : Nat)
  | track
  | recv (w : Nat)
  | termDone (w : Nat)
  | tlAcq (w : Nat)
  | tlRel (w : Nat)
  | ret (w : Nat)
  deriving DecidableEq, Repr

/-- First program counter of an API call. -/
def entry : Op → Pc
  | .notify => .notify
  | .poll prev => if prev = 0 then .poll0 else .pollPre prev
  | .terminate => .term
  | .tlLock => .tlLock
  | .tlUnlock => .tlUnlock true
  | .tlUnlockQuiet => .tlUnlock false

/-- A registered request is answered by the loop body iff tracking has been
terminated or its previous index differs from the current one. -/
def hit (s : State) (w : Nat) : Bool :=
  match s.reqs w with
  | some p => s.terminated || p != s.index
  | none => false

/-- One pass of the loop body of `track()` (both `for r := range pollRequests`
loops; the iteration order of the Go map does not matter because the
responses are independent), followed by `Wait` or `return`. -/
def trackBody (s : State) : State :=
  { s with
    chan := fun w => if hit s w then some ⟨s.index, s.terminated⟩ else s.chan w,
    reqs := fun w => if hit s w then none else s.reqs w,
    track := if s.terminated then .exited else .waiting }

/-- The critical section caller `w` is about to run. -/
def csStep (s : State) (w : Nat) : Option State :=
  match s.pc w with
  | .notify =>
    -- NotifyOfChange
    if s.terminated then some (s.setPc w (.done none))
    else some ((signal { s with index := nextIndex s.index }).setPc w (.done none))
  | .poll0 =>
    -- WaitForChange, previousIndex == 0
    some (s.setPc w (.done (some ⟨s.index, if s.terminated then .terminated else .ok⟩)))
  | .pollPre prev =>
    -- WaitForChange, registration
    if s.terminated then some (s.setPc w (.done (some ⟨s.index, .terminated⟩)))
    else some ((signal { s with reqs := upd s.reqs w (some prev), chan := upd s.chan w none }).setPc w (.pollWait prev))
  | .pollWait _ =>
    -- WaitForChange, `case <-ctx.Done()`
    if s.cancelled w then
      some ({ s with reqs := upd s.reqs w none, chan := upd s.chan w none }.setPc w (.done (some ⟨s.index, .canceled⟩)))
    else none
  | .term =>
    -- Terminate
    some ((signal { s with terminated := true }).setPc w .termWait)
  | _ => none

def step (s : State) : Action → Option State
  | .call w op =>
    match s.pc w with
    | .idle => some { s with pc := upd s.pc w (entry op), cancelled := upd s.cancelled w false }
    | _ => none
  | .cancel w => some { s with cancelled := upd s.cancelled w true }
  | .cs w => csStep s w
  | .track =>
    match s.track with
    | .runnable => some (trackBody s)
    | _ => none
  | .recv w =>
    match s.pc w, s.chan w with
    | .pollWait _, some r =>
      some ({ s with chan := upd s.chan w none }.setPc w
        (.done (some ⟨r.index, if r.terminated then .terminated else .ok⟩)))
    | _, _ => none
  | .termDone w =>
    match s.pc w, s.track with
    | .termWait, .exited => some (s.setPc w (.done none))
    | _, _ => none
  | .tlAcq w =>
    match s.pc w, s.tlHolder with
    | .tlLock, none => some ({ s with tlHolder := some w }.setPc w (.done none))
    | _, _ => none
  | .tlRel w =>
    match s.pc w with
    | .tlUnlock n =>
      if s.tlHolder = some w then
        some ({ s with tlHolder := none }.setPc w (if n then .notify else .done none))
      else none
    | _ => none
  | .ret w =>
    match s.pc w with
    | .done _ => some (s.setPc w .idle)
    | _ => none

/-- Run a sequence of actions; `none` if one of them is not enabled. -/
def run (s : State) : List Action → Option State
  | [] => some s
  | a :: as => (step s a).bind fun s' => run s' as

/-- States reachable from `init`. -/
def Reachable (s : State) : Prop := ∃ as, run init as = some s

end Mutagen.Model.Tracker
