import Mutagen.Generated.Facts
/-
Model of pkg/synchronization/core/symbolic_link.go
(`normalizeSymbolicLinkAndEnsurePortable`, POSIX branch of the
`runtime.GOOS` test) and of its call sites in scan.go (`symbolicLink`) and
transition.go (`createSymbolicLink` guard). Core Lean only.

Go strings are byte strings: paths and targets are `List UInt8`, `len` is the
byte length.

The depth walk is modelled twice:
* `stepOrig` — the walk as it stands in the unrepaired source (every component
  other than "." and ".." is a descent, *including the empty component*);
* `step` — the walk after `fixes/C16.patch` (the empty component, like ".",
  leaves the depth unchanged).
`normalize` uses `step`: the model describes the repaired function. The
original walk is kept so that `Properties/C16` can state, and prove by
evaluation, that the unrepaired walk accepts an escaping target.
-/
namespace Mutagen.Model.Symlink

abbrev Bytes := List UInt8

def slash : UInt8 := 47      -- '/'
def dotB : UInt8 := 46       -- '.'
def colon : UInt8 := 58      -- ':'
def backslash : UInt8 := 92  -- '\\'

def dot : Bytes := [dotB]
def dotdot : Bytes := [dotB, dotB]

inductive Err | empty | tooLong | colon | backslash | absolute | outside
  deriving DecidableEq, Repr

/-- `strings.Split(s, "/")`: never returns the empty list; `Split("", "/") = [""]`. -/
def splitSlash : Bytes → List Bytes
  | [] => [[]]
  | c :: cs =>
    if c = slash then [] :: splitSlash cs
    else match splitSlash cs with
      | h :: t => (c :: h) :: t
      | [] => [[c]]

/-- `strings.Count(path, "/")`. -/
def countSlash (p : Bytes) : Nat := p.count slash

/-- Depth update of one component, unrepaired source. -/
def stepOrig (d : Int) (c : Bytes) : Int :=
  if c = dot then d else if c = dotdot then d - 1 else d + 1

/-- Depth update of one component, after fixes/C16.patch. -/
def step (d : Int) (c : Bytes) : Int :=
  if c = dot ∨ c = [] then d else if c = dotdot then d - 1 else d + 1

/-- The `for _, component := range strings.Split(target, "/")` loop: `true` iff
the loop completes without `pathDepth < 0`. -/
def walkWith (st : Int → Bytes → Int) : Int → List Bytes → Bool
  | _, [] => true
  | d, c :: cs =>
    let d' := st d c
    if d' < 0 then false else walkWith st d' cs

def walk := walkWith step
def walkOrig := walkWith stepOrig

def normalizeWith (st : Int → Bytes → Int) (path target : Bytes) : Except Err Bytes :=
  if target = [] then .error .empty
  else if target.length > Mutagen.Facts.symlinkMaxTargetLength then .error .tooLong
  else if target.contains colon then .error .colon
  else if target.contains backslash then .error .backslash
  else if target.head? = some slash then .error .absolute
  else if walkWith st (Int.ofNat (countSlash path)) (splitSlash target) then .ok target
  else .error .outside

/-- `normalizeSymbolicLinkAndEnsurePortable` (POSIX), repaired. -/
def normalize := normalizeWith step

/-- The same function with the walk of the unrepaired source. -/
def normalizeOrig := normalizeWith stepOrig

/-! ### Specification side: lexical POSIX resolution -/

/-- Lexical resolution of a component list against a directory stack (innermost
name first). `""` and `"."` are no-ops, `".."` pops — popping the empty stack
leaves the root: `none`. -/
def resolve : List Bytes → List Bytes → Option (List Bytes)
  | stack, [] => some stack
  | stack, c :: cs =>
    if c = [] ∨ c = dot then resolve stack cs
    else if c = dotdot then
      match stack with
      | [] => none
      | _ :: rest => resolve rest cs
    else resolve (c :: stack) cs

/-- The directory containing the entry at `path` (root-relative, '/'-separated),
as a stack, innermost first. -/
def linkDir (path : Bytes) : List Bytes := (splitSlash path).dropLast.reverse

/-! ### Call sites -/

inductive Mode | ignore | portable | posixRaw
  deriving DecidableEq, Repr

inductive ScanEntry
  | problematic
  | symlink (target : Bytes)
  deriving DecidableEq, Repr

/-- scan.go `symbolicLink` after a successful `ReadSymbolicLink`. -/
def scanSymbolicLink (path target : Bytes) (enforcePortable : Bool) : ScanEntry :=
  if enforcePortable then
    match normalize path target with
    | .ok t => .symlink t
    | .error _ => .problematic
  else if target = [] then .problematic
  else .symlink target

/-- transition.go `createSymbolicLink`: `true` iff control reaches
`parent.CreateSymbolicLink(name, target.Target)`. -/
def createGuard (mode : Mode) (path target : Bytes) : Bool :=
  match mode with
  | .ignore => false
  | .portable =>
    match normalize path target with
    | .ok t => t == target
    | .error _ => false
  | .posixRaw => true

/-! ### Several link creations in one `Transition` call

The transitioner keeps state across the creations of one call (its problem
list). The link creations of a call, in the order they happen (transitions in
list order, directory contents in map order), are a fold over that state. The
guard of `createSymbolicLink` consults nothing but the mode, the link's own path
and its target. -/

structure TState where
  created : List (Bytes × Bytes)   -- (path, target) of the links created so far
  problems : List Bytes            -- paths for which a problem was recorded
  deriving Repr

/-- One link creation request `(path, target)`. -/
def createStep (mode : Mode) (s : TState) (l : Bytes × Bytes) : TState :=
  if createGuard mode l.1 l.2 then { s with created := s.created ++ [l] }
  else { s with problems := s.problems ++ [l.1] }

def createSeq (mode : Mode) (links : List (Bytes × Bytes)) : TState :=
  links.foldl (createStep mode) { created := [], problems := [] }

end Mutagen.Model.Symlink
