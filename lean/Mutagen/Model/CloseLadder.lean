/-
Model of `(*Stream).Close` in pkg/agent/transport/stream.go (core Lean only):
the escalation ladder against an agent process, as a timed transition system.

Close starts a goroutine that waits for the process (`waitResults`), then
goes through up to four `select`s:

  stage `wait`  – wait up to `delay` (the termination delay);
  stage `stdin` – standard input closed, wait up to `g1`;
  stage `term`  – SIGTERM sent, wait up to `g2`;
  stage `kill`  – SIGKILL sent, wait (no timer).

The agent process is a parameter (`Behaviour`): it may exit on its own at some
time, exit some time after its standard input is closed, exit some time after
SIGTERM, or ignore all of these; after SIGKILL it exits within `killLatency`
(the OS assumption: SIGKILL cannot be ignored). Any combination, any delays.

Steps: `tick d` (time passes), `procExit` (the process exits and the waiting
goroutine puts the result into `waitResults`), `recv` (a select takes the
`waitResults` branch: Close returns), `fire` (a select takes the timer branch:
escalate). When both branches of a select are ready either may be taken.

Standard error forwarding (`NewStream` with a receiver): a goroutine copies
from the process' standard-error pipe until end-of-file — which needs *every*
holder of the pipe's write end to be gone, the agent and any descendant that
inherited it — or until the parent's read end is closed. It is **not** part of
what Close waits for: Close's goroutine calls `process.Wait()` directly, and
`Wait` closes the parent's ends of the pipes once the process has exited.
The model carries the holder set (`alive` for the agent, `helper` for a
descendant that outlives it arbitrarily), the parent's read end (`stderrOpen`)
and the copier (`copyDone`) with steps `helperExit` and `copyEnd`, so that
"Close's return does not depend on holders other than the agent" is a theorem
about the model rather than an omission. Descendants holding standard output
or input have no counterpart in Close at all (nothing there reads or waits on
them); they are exercised by the correspondence check only.

A pending `Stream.Write` (`writerBlocked`): a goroutine of the caller may be
blocked in `Write` on a full input pipe because the agent is not reading.
`Write` holds no lock that Close needs; closing standard input (the first
escalation) unblocks it with an error, and so does the agent's exit (broken
pipe, and `Wait` closes the parent's end). Nothing in the ladder reads the
flag: that Close never waits for the writer is a theorem, as for the holders.

Assumed and therefore not exhibited by the model: timers expire exactly at
their deadline and the goroutines react before time passes (guards of
`tick`), i.e. timer accuracy and scheduler promptness; that the process exits
exactly at the scheduled time.
-/
namespace Mutagen.Model.CloseLadder

structure Behaviour where
  /-- exits on its own at this time after Close started. -/
  self : Option Nat
  /-- exits this long after its standard input was closed. -/
  onStdin : Option Nat
  /-- exits this long after SIGTERM. -/
  onTerm : Option Nat
  /-- time from SIGKILL to exit. -/
  killLatency : Nat
  /-- the agent has a descendant that inherited its standard error and outlives it. -/
  holder : Bool := false
  deriving DecidableEq, Repr

structure Params where
  delay : Nat   -- terminationDelay
  g1 : Nat      -- grace after closing standard input
  g2 : Nat      -- grace after SIGTERM
  recv : Bool := false  -- NewStream was given a standard error receiver
  writer : Bool := false  -- a Write is blocked on the full input pipe when Close is called
  deriving DecidableEq, Repr

inductive Stage | wait | stdin | term | kill
  deriving DecidableEq, Repr

structure State where
  now : Nat
  stage : Stage
  /-- expiry of `waitTimer` in the current select (none in stage `kill`). -/
  deadline : Option Nat
  /-- earliest time at which the process will exit, given what has been done to it so far. -/
  exitAt : Option Nat
  alive : Bool
  /-- `waitResults` holds the result of `process.Wait()`. -/
  waited : Bool
  /-- Close has returned (in this stage, at this time). -/
  returned : Option (Stage × Nat)
  /-- a descendant of the agent still holds the write end of the standard-error pipe. -/
  helper : Bool := false
  /-- the parent's read end of the standard-error pipe is open. -/
  stderrOpen : Bool := false
  /-- the forwarding goroutine has finished (vacuously so without a receiver). -/
  copyDone : Bool := true
  /-- a caller's goroutine is blocked in `Stream.Write`. -/
  writerBlocked : Bool := false
  deriving DecidableEq, Repr

def omin (a : Option Nat) (b : Option Nat) : Option Nat :=
  match a, b with
  | some x, some y => some (min x y)
  | some x, none => some x
  | none, y => y

def init (p : Params) (b : Behaviour) : State :=
  { now := 0, stage := .wait, deadline := some p.delay, exitAt := b.self,
    alive := true, waited := false, returned := none,
    helper := b.holder, stderrOpen := p.recv, copyDone := !p.recv, writerBlocked := p.writer }

inductive Action | tick (d : Nat) | procExit | recv | fire | helperExit | copyEnd
  deriving DecidableEq, Repr

/-- Time may advance by `d` without passing the timer's deadline. -/
def timerOk (s : State) (d : Nat) : Bool :=
  match s.deadline with
  | some t => decide (s.now + d ≤ t)
  | none => true

/-- Time may advance by `d` without passing the scheduled exit of a live process. -/
def exitOk (s : State) (d : Nat) : Bool :=
  match s.alive, s.exitAt with
  | true, some e => decide (s.now + d ≤ e)
  | _, _ => true

def step (p : Params) (b : Behaviour) (s : State) : Action → Option State
  | .tick d =>
    if s.returned.isSome ∨ d = 0 ∨ s.waited then none else
    if timerOk s d && exitOk s d then some { s with now := s.now + d } else none
  | .procExit =>
    match s.alive, s.exitAt with
    | true, some e =>
      -- `process.Wait()` returns: it also closes the parent's ends of the pipes
      if e ≤ s.now then some { s with alive := false, waited := true, stderrOpen := false, writerBlocked := false } else none
    | _, _ => none
  | .recv =>
    if s.waited ∧ s.returned.isNone then some { s with returned := some (s.stage, s.now) } else none
  | .fire =>
    if s.returned.isSome then none else
    match s.deadline with
    | some t =>
      if t ≤ s.now then
        match s.stage with
        | .wait =>
          -- s.standardInput.Close(); waitTimer.Reset(time.Second)
          some { s with stage := .stdin, deadline := some (s.now + p.g1),
                        exitAt := omin s.exitAt (b.onStdin.map (s.now + ·)), writerBlocked := false }
        | .stdin =>
          -- s.process.Process.Signal(syscall.SIGTERM); waitTimer.Reset(time.Second)
          some { s with stage := .term, deadline := some (s.now + p.g2),
                        exitAt := omin s.exitAt (b.onTerm.map (s.now + ·)) }
        | .term =>
          -- s.process.Process.Kill(); return <-waitResults
          some { s with stage := .kill, deadline := none,
                        exitAt := omin s.exitAt (some (s.now + b.killLatency)) }
        | .kill => none
      else none
    | none => none

  | .helperExit =>
    -- the descendant goes away, at any time whatsoever
    if s.helper then some { s with helper := false } else none
  | .copyEnd =>
    -- io.Copy returns: end-of-file (no holder left) or read end closed
    if ¬ s.copyDone ∧ ((s.alive = false ∧ s.helper = false) ∨ s.stderrOpen = false) then
      some { s with copyDone := true }
    else none

def run (p : Params) (b : Behaviour) (s : State) : List Action → Option State
  | [] => some s
  | a :: as => (step p b s a).bind fun s' => run p b s' as

def Reachable (p : Params) (b : Behaviour) (s : State) : Prop :=
  ∃ as, run p b (init p b) as = some s

/-- Time of the next timer expiry or process exit, if any. -/
def nextEvent (s : State) : Option Nat :=
  omin s.deadline (if s.alive then s.exitAt else none)

/-- All stages in which Close can return from `s` (exploring both orders when
the timer and the exit coincide). `fuel` bounds the number of discrete steps. -/
def outcomes (p : Params) (b : Behaviour) : Nat → State → List (Stage × Nat)
  | 0, _ => []
  | fuel + 1, s =>
    match s.returned with
    | some r => [r]
    | none =>
      let discrete := [Action.procExit, .recv, .fire].filterMap (step p b s)
      if discrete.isEmpty then
        match nextEvent s with
        | some t =>
          match step p b s (.tick (t - s.now)) with
          | some s' => outcomes p b fuel s'
          | none => []
        | none => []
      else (discrete.flatMap (outcomes p b fuel)).eraseDups

end Mutagen.Model.CloseLadder
