/-
Step model of one synchronization session's lifecycle
(pkg/synchronization/controller.go: newSession, loadSession, flush, resume,
halt, reset, run, synchronize; manager.go: Create, Pause, Resume, Flush, Reset,
Terminate, Shutdown + NewManager). Core Lean only.

Atomic steps are the critical sections under the lifecycle lock, the channel
operations (flush request channel of capacity 1, `done`, `synchronizing`,
context cancellation), and the endpoint calls, which are *events* (`Ev`). What
is modelled as data:

* disk: the session file (absent / present with the persisted `Paused` flag)
  and the archive file (absent / empty ancestor / non-empty ancestor);
* the controller: lifecycle lock holder and its phase (`crit`), `disabled`,
  `running` (`cancel != nil`), the run loop goroutine (`loop`) with its
  context's cancellation flag, the endpoints it owns, the flush request it is
  serving, its in-memory ancestor, `synchronizing`, the flush request channel;
* the manager: whether the session is registered;
* the client calls in flight (`threads`).

Over-approximations (all widen the set of runs; none removes a run of the
code): a cancelled loop *may* leave at each of the code's cancellation check
points instead of *must*; polls may return at any time; staging events are
optional; the 15 s reconnect timer may fire at any time; a completed cycle may
be followed directly by another scan (the "missing files" retry).

The repaired `reset` (fixes/C29.patch) refuses to run on a disabled controller.
-/
namespace Mutagen.Model.Lifecycle

inductive Side | alpha | beta
  deriving DecidableEq, Repr

inductive Op
  | create (paused : Bool)
  | pause | resume
  | flush (wait : Bool)
  | reset | terminate
  | restart
  deriving DecidableEq, Repr

/-- Result classes of a client call. -/
inductive Res | ok | disabled | paused | notSync | lost | noMatch
  deriving DecidableEq, Repr

/-- Endpoint events (what the instrumented endpoints journal). -/
inductive Ev
  | conn (s : Side) | shut (s : Side)
  | pollS (s : Side) | pollE (s : Side)
  | scanS (s : Side) (full anc : Bool) | scanE (s : Side) (ok : Bool)
  | stage (s : Side) | supply (s : Side)
  | transS (s : Side) | transE (s : Side)
  deriving DecidableEq, Repr

inductive Label
  | call (t : Nat) (op : Op)
  | ret (t : Nat) (op : Op) (r : Res)
  | ep (e : Ev)
  | tau
  deriving DecidableEq, Repr

/-- Program counter of the run loop. -/
inductive LPC
  | connA | connB          -- reconnect loop of `run`
  | start                  -- about to enter `synchronize`
  | started                -- in `synchronize`, status not yet updated
  | poll | scan
  | stageA | supB | stageB | supA
  | trans
  | exitA | exitB          -- endpoint shutdown after `synchronize` returned
  | backoff                -- waiting for the reconnect timer or cancellation
  | retA | retB            -- deferred shutdown of endpoints still held
  deriving DecidableEq, Repr

structure Loop where
  pc : LPC
  /-- progress of the alpha / beta half of a parallel phase: 0 not started,
  1 started, 2 ended. -/
  a : Nat
  b : Nat
  ha : Bool
  hb : Bool
  cancelled : Bool
  /-- flush request being served (its caller). -/
  req : Option Nat
  forced : Bool
  /-- in-memory ancestor is non-empty. -/
  anc : Bool
  /-- polling has been triggered (`pollCancel` called) -/
  trig : Bool
  /-- leave `synchronize` after the current phase. -/
  leaving : Bool
  scanOk : Bool
  deriving DecidableEq, Repr

/-- Phase of the holder of the lifecycle lock. -/
inductive CPhase
  | stopping   -- cancelled the loop, waiting for `done`
  /-- connecting the endpoints (`creating`: on behalf of `newSession`, which
  writes the files and registers the session afterwards). -/
  | connA (creating : Bool) | connB (creating : Bool)
  deriving DecidableEq, Repr

inductive TPhase
  | pending
  | waitLock
  | inside
  | termDel
  | fsend (gen : Nat) | fwait (gen : Nat)
  | reload
  | finished (r : Res)
  deriving DecidableEq, Repr

structure Thread where
  id : Nat
  op : Op
  ph : TPhase
  /-- the loop answered this flush request. -/
  answered : Bool
  /-- ghost: the request was received by the loop / full scans seen since. -/
  accepted : Bool
  fullA : Bool
  fullB : Bool
  okA : Bool
  okB : Bool
  deriving DecidableEq, Repr

structure State where
  /-- watching enabled on some endpoint (else the session is fully manual). -/
  watch : Bool
  sess : Option Bool
  arch : Option Bool
  entry : Bool
  disabled : Bool
  running : Bool
  crit : Option (Nat × CPhase)
  /-- the lock holder connecting the endpoints is a `reset` (it has written the
  empty archive). -/
  resetting : Bool
  loop : Option Loop
  gen : Nat
  sync : Bool
  flushQ : Option Nat
  threads : List Thread
  /-- identifiers of all calls issued so far (a call is never re-issued). -/
  used : List Nat
  deriving DecidableEq, Repr

def init (watch : Bool) : State :=
  { watch := watch, sess := none, arch := none, entry := false, disabled := false, running := false,
    crit := none, resetting := false, loop := none, gen := 0, sync := false, flushQ := none, threads := [], used := [] }

def newLoop (pc : LPC) (held : Bool) : Loop :=
  { pc := pc, a := 0, b := 0, ha := held, hb := held, cancelled := false, req := none, forced := false,
    anc := false, trig := false, leaving := false, scanOk := true }

def mkThread (t : Nat) (op : Op) : Thread :=
  { id := t, op := op, ph := .pending, answered := false, accepted := false,
    fullA := false, fullB := false, okA := false, okB := false }

def State.thread? (s : State) (t : Nat) : Option Thread := s.threads.find? (·.id == t)

def State.setThread (s : State) (th : Thread) : State :=
  { s with threads := s.threads.map fun x => if x.id == th.id then th else x }

def State.updThread (s : State) (t : Nat) (f : Thread → Thread) : State :=
  { s with threads := s.threads.map fun x => if x.id == t then f x else x }

def State.dropThread (s : State) (t : Nat) : State :=
  { s with threads := s.threads.filter (·.id != t) }

/-- Start a run loop goroutine (`go c.run(...)`) with fresh channels. -/
def State.startLoop (s : State) (pc : LPC) (held : Bool) : State :=
  { s with loop := some (newLoop pc held), gen := s.gen + 1, flushQ := none, running := true, sync := false }

def State.cancelLoop (s : State) : State :=
  { s with loop := s.loop.map fun l => { l with cancelled := true } }

/-- `c.state.Status >= Status_Watching`. -/
def Loop.connected (l : Loop) : Bool :=
  match l.pc with
  | .poll | .scan | .stageA | .supB | .stageB | .supA | .trans | .exitA | .exitB => true
  | _ => false

/-! ## Steps of the run loop -/

def sideProg (l : Loop) : Side → Nat
  | .alpha => l.a | .beta => l.b

def setProg (l : Loop) (sd : Side) (n : Nat) : Loop :=
  match sd with
  | .alpha => { l with a := n } | .beta => { l with b := n }

def bothSides : List Side := [.alpha, .beta]

/-- Update the ghost bookkeeping of the flush caller being served. -/
def State.noteScan (s : State) (l : Loop) (f : Thread → Thread) : State :=
  match l.req with
  | some t => s.updThread t f
  | none => s

def enterPoll (l : Loop) : Loop := { l with pc := .poll, a := 0, b := 0, trig := false, leaving := false }
def enterScan (l : Loop) : Loop :=
  { l with pc := .scan, a := 0, b := 0, forced := l.req.isSome, scanOk := true }
def enterExit (l : Loop) : Loop := { l with pc := .exitA, req := none }

def loopSteps (s : State) (l : Loop) : List (Label × State) :=
  let put (l' : Loop) : State := { s with loop := some l' }
  match l.pc with
  | .connA =>
    (if !l.ha then [(.ep (.conn .alpha), put { l with ha := true })]
     else [(.tau, put { l with pc := .connB })]) ++
    -- "check for cancellation to avoid a spurious connection to beta"
    (if l.ha && l.cancelled then [(.tau, put { l with pc := .retA })] else [])
  | .connB =>
    (if !l.hb then [(.ep (.conn .beta), put { l with hb := true })]
     else [(.tau, put { l with pc := .start })])
  | .start =>
    -- c.synchronizing = make(chan); load the archive
    [(.tau, { s with sync := true, loop := some { l with pc := .started, anc := s.arch == some true, req := none } })]
  | .started =>
    -- first status update; polling is skipped iff watching
    [(.tau, put (if s.watch then enterScan l else enterPoll l))]
  | .poll =>
    (bothSides.flatMap fun sd =>
      (if sideProg l sd == 0 then [(.ep (.pollS sd), put (setProg l sd 1))] else []) ++
      (if sideProg l sd == 1 then [(.ep (.pollE sd), put (setProg l sd 2))] else [])) ++
    -- the select: flush request, cancellation, or (when watching) a poll result
    (if !l.trig then
      (match s.flushQ with
       | some t =>
         [(.tau, ({ s with flushQ := none, loop := some { l with req := some t, trig := true } }).updThread t
            fun th => { th with accepted := true })]
       | none => []) ++
      (if l.cancelled then [(.tau, put { l with trig := true, leaving := true })] else []) ++
      (if s.watch && (l.a == 2 || l.b == 2) then [(.tau, put { l with trig := true })] else [])
     else []) ++
    (if l.trig && l.a == 2 && l.b == 2 then
      [(.tau, if l.leaving then { s with sync := false, loop := some (enterExit l) } else put (enterScan l))]
     else [])
  | .scan =>
    (bothSides.flatMap fun sd =>
      (if sideProg l sd == 0 then
        [(.ep (.scanS sd l.forced l.anc),
          (put (setProg l sd 1)).noteScan l fun th =>
            if l.forced then (match sd with | .alpha => { th with fullA := true } | .beta => { th with fullB := true }) else th)]
       else []) ++
      (if sideProg l sd == 1 then
        [(.ep (.scanE sd true),
          (put (setProg l sd 2)).noteScan l fun th =>
            match sd with | .alpha => { th with okA := th.fullA } | .beta => { th with okB := th.fullB }),
         (.ep (.scanE sd false), put { setProg l sd 2 with scanOk := false })]
       else [])) ++
    (if l.a == 2 && l.b == 2 then
      (if l.scanOk then [(.tau, put { l with pc := .stageA, a := 0, b := 0 })] else []) ++
      (if l.cancelled || !l.scanOk then [(.tau, { s with sync := false, loop := some (enterExit l) })] else [])
     else [])
  | .stageA | .supB | .stageB | .supA =>
    (if l.pc == .stageA then [(.ep (.stage .alpha), put { l with pc := .supB })] else []) ++
    (if l.pc == .supB then [(.ep (.supply .beta), put { l with pc := .stageB })] else []) ++
    (if l.pc != .supA then [(.ep (.stage .beta), put { l with pc := .supA })] else []) ++
    (if l.pc == .supA then [(.ep (.supply .alpha), put { l with pc := .trans })] else []) ++
    [(.tau, put { l with pc := .trans })] ++
    (if l.cancelled then [(.tau, { s with sync := false, loop := some (enterExit l) })] else [])
  | .trans =>
    (bothSides.flatMap fun sd =>
      (if sideProg l sd == 0 then [(.ep (.transS sd), put (setProg l sd 1))] else []) ++
      (if sideProg l sd == 1 then [(.ep (.transE sd), put (setProg l sd 2))] else [])) ++
    -- end of the cycle: ancestor saved, flush request answered
    (if l.a != 1 && l.b != 1 then
      let s' : State := { s with arch := some true }
      let s' := match l.req with
        | some t => s'.updThread t fun x => { x with answered := true }
        | none => s'
      let l' := { l with anc := true, req := none }
      [(.tau, { s' with loop := some (enterPoll l') }), (.tau, { s' with loop := some (enterScan l') })]
     else []) ++
    -- a cancelled supply fails before any transition starts
    (if l.cancelled && l.a == 0 && l.b == 0 then [(.tau, { s with sync := false, loop := some (enterExit l) })] else [])
  | .exitA => [(.ep (.shut .alpha), put { l with pc := .exitB, ha := false })]
  | .exitB => [(.ep (.shut .beta), put { l with pc := .backoff, hb := false })]
  | .backoff =>
    (if l.cancelled then [(.tau, put { l with pc := .retA })] else []) ++
    [(.tau, put { l with pc := .connA })]
  | .retA =>
    if l.ha then [(.ep (.shut .alpha), put { l with ha := false })]
    else [(.tau, put { l with pc := .retB })]
  | .retB =>
    if l.hb then [(.ep (.shut .beta), put { l with hb := false })]
    else [(.tau, { s with loop := none, sync := false })]   -- close(c.done)

/-! ## Steps of the client calls -/

def finish (s : State) (th : Thread) (r : Res) : State := s.setThread { th with ph := .finished r }

/-- Entering the critical section: everything up to the first blocking point. -/
def acquire (s : State) (th : Thread) : List State :=
  let stop : State := ({ s with crit := some (th.id, .stopping) }.cancelLoop).setThread { th with ph := .inside }
  match th.op with
  | .pause =>
    if s.disabled then [finish s th .disabled]
    else if s.running then [stop]
    else [finish { s with sess := some true } th .ok]
  | .terminate =>
    if s.disabled then [finish s th .disabled]
    else if s.running then [stop]
    else [({ s with disabled := true, sess := none, arch := none }).setThread { th with ph := .termDel }]
  | .resume =>
    if s.disabled then [finish s th .disabled]
    else if s.running then
      -- already connected: nothing to do; otherwise restart the loop
      (match s.loop with
       | some l => if l.connected then [finish s th .ok] else []
       | none => []) ++
      (match s.loop with
       | some l => if l.connected then [] else [stop]
       | none => [stop])
    else [({ s with sess := some false, crit := some (th.id, .connA false), resetting := false }).setThread { th with ph := .inside }]
  | .reset =>
    if s.disabled then [finish s th .disabled]
    else if s.running then [stop]
    else [finish { s with arch := some false } th .ok]
  | .flush _ =>
    if s.disabled then [finish s th .disabled]
    else if !s.running then [finish s th .paused]
    else if !s.sync then [finish s th .notSync]
    else [s.setThread { th with ph := .fsend s.gen }]
  | _ => []

/-- Continuation of the lock holder once the loop has signalled `done`. -/
def afterStop (s : State) (th : Thread) : List State :=
  let s := { s with running := false }
  match th.op with
  | .pause => [finish { s with sess := some true, crit := none } th .ok]
  | .terminate =>
    [({ s with disabled := true, sess := none, arch := none, crit := none }).setThread { th with ph := .termDel }]
  | .resume => [{ s with sess := some false, crit := some (th.id, .connA false), resetting := false }]
  | .reset => [{ s with sess := some false, arch := some false, crit := some (th.id, .connA false), resetting := true }]
  | .restart => [({ s with disabled := true, crit := none }).setThread { th with ph := .reload }]
  | _ => []

def othersIdle (s : State) (_t : Nat) : Bool := s.threads.length == 1

def Op.isFlush : Op → Bool
  | .flush _ => true
  | _ => false

def Op.isWaitingFlush : Op → Bool
  | .flush true => true
  | _ => false

def Op.isTerminate : Op → Bool
  | .terminate => true
  | _ => false

def Op.isReset : Op → Bool
  | .reset => true
  | _ => false

def Op.isRestart : Op → Bool
  | .restart => true
  | _ => false

/-- The calls that connect endpoints while holding the lifecycle lock. -/
def Op.connects : Op → Bool
  | .resume | .reset | .create _ => true
  | _ => false

def threadSteps (s : State) (th : Thread) : List (Label × State) :=
  match th.ph with
  | .pending =>
    match th.op with
    | .create paused =>
      -- (a session is created once, before any other call on it is issued)
      if !othersIdle s th.id || s.crit.isSome || s.loop.isSome then []
      else if s.entry || s.sess.isSome then [(.tau, finish s th .noMatch)]
      else if paused then
        [(.tau, finish { s with sess := some true, arch := some false, entry := true, disabled := false, running := false } th .ok)]
      else
        [(.tau, ({ s with crit := some (th.id, .connA true), resetting := false, disabled := false, running := false }).setThread { th with ph := .inside })]
    | .restart =>
      -- (Manager.Shutdown takes each controller's lifecycle lock)
      if !othersIdle s th.id || s.crit.isSome then []
      else if !s.entry || s.disabled then [(.tau, s.setThread { th with ph := .reload })]
      else if s.running then
        [(.tau, ({ s with crit := some (th.id, .stopping) }.cancelLoop).setThread { th with ph := .inside })]
      else [(.tau, ({ s with disabled := true }).setThread { th with ph := .reload })]
    | _ =>
      -- the manager looks the session up
      if s.entry then [(.tau, s.setThread { th with ph := .waitLock })] else [(.tau, finish s th .noMatch)]
  | .waitLock =>
    if s.crit.isNone then (acquire s th).map fun s' => (.tau, s') else []
  | .inside =>
    match s.crit with
    | some (t, ph) =>
      if t != th.id then [] else
      match ph with
      | .stopping => if s.loop.isNone then (afterStop s th).map fun s' => (.tau, s') else []
      | .connA c =>
        if !th.op.connects || th.op.isReset != s.resetting then []
        else [(.ep (.conn .alpha), { s with crit := some (t, .connB c) })]
      | .connB c =>
        if !th.op.connects || th.op.isReset != s.resetting then [] else
        -- both endpoints connected: (create: save the files, register), start the loop
        let s1 : State := if c then { s with sess := some false, arch := some false, entry := true } else s
        [(.ep (.conn .beta), finish ({ s1 with crit := none, resetting := false }.startLoop .connA true) th .ok)]
    | none => []
  | .termDel => if !th.op.isTerminate then [] else [(.tau, finish { s with entry := false } th .ok)]
  | .reload =>
    -- NewManager: load what is on disk into a fresh controller (the old one was
    -- shut down: no loop, lock free)
    if s.loop.isSome || s.crit.isSome || !othersIdle s th.id || !th.op.isRestart then [] else
    match s.sess with
    | some p =>
      let s1 : State := { s with entry := true, disabled := false, running := false, crit := none }
      [(.tau, finish (if p then s1 else s1.startLoop .connA false) th .ok)]
    | none => [(.tau, finish { s with entry := false } th .ok)]
  | .fsend g =>
    if !th.op.isFlush then [] else
    let live := s.loop.isSome && s.gen == g
    let wait := th.op.isWaitingFlush
    (if live && s.flushQ.isNone then
      [(.tau, if wait then { s with flushQ := some th.id }.setThread { th with ph := .fwait g }
              else finish { s with flushQ := some th.id } th .ok)]
     else []) ++
    (if !live || !s.sync then [(.tau, finish s th .lost)] else []) ++
    (if !wait && !(live && s.flushQ.isNone) then [(.tau, finish s th .ok)] else [])
  | .fwait g =>
    if !th.op.isWaitingFlush then [] else
    let live := s.loop.isSome && s.gen == g
    (if th.answered then [(.tau, finish s th .ok)] else []) ++
    (if !live || !s.sync then [(.tau, finish s th .lost)] else [])
  | .finished r => [(.ret th.id th.op r, s.dropThread th.id)]

/-- All steps enabled in a state, except the arrival of new calls. -/
def succ (s : State) : List (Label × State) :=
  (match s.loop with | some l => loopSteps s l | none => []) ++
  s.threads.flatMap (threadSteps s)

/-- A client issues a call. -/
def doCall (s : State) (t : Nat) (op : Op) : Option State :=
  if s.used.contains t || s.threads.any (fun x => x.op == .restart) then none
  else some { s with threads := s.threads ++ [mkThread t op], used := t :: s.used }

/-- The step relation. -/
inductive Step : State → Label → State → Prop
  | call {s t op s'} : doCall s t op = some s' → Step s (.call t op) s'
  | internal {s l s'} : (l, s') ∈ succ s → Step s l s'

/-- Runs: sequences of steps with their labels (invisible steps included). -/
inductive Run (s0 : State) : List Label → State → Prop
  | nil : Run s0 [] s0
  | snoc {tr s' l s''} : Run s0 tr s' → Step s' l s'' → Run s0 (tr ++ [l]) s''

def Label.isEndpoint : Label → Bool
  | .ep _ => true
  | _ => false

end Mutagen.Model.Lifecycle
