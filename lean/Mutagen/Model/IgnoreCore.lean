/-
Shared by the ignore models (C14 Mutagen-style, C15 Docker-style):
`ignore.IgnoreStatus`, an abstract directory tree, and the part of
scan.go `scanner.directory` that decides, per child, between an untracked
entry, a tracked entry and a (phantom) directory from the ignorer's answer
`(status, continueTraversal)` and the inherited ignore mask.
Everything else `directory` does (baselines, caches, digests, Unicode, device
boundaries, non-UTF-8 names) is outside these properties. Core Lean only.
-/
namespace Mutagen.Model.IgnoreCore

abbrev Str := List Char

/-- `ignore.IgnoreStatus`. -/
inductive Status | nominal | ignored | unignored
  deriving DecidableEq, Repr

/-- An ignorer: `Ignore(path, directory)`. -/
abbrev IgnoreFn := Str → Bool → Status × Bool

/-- Filesystem content below the root. `other` = a type the scan does not
support (device, socket, …). -/
inductive Node where
  | file | link | other
  | dir (children : List (Str × Node))
  deriving Repr

def Node.isDir : Node → Bool
  | .dir _ => true
  | _ => false

/-- Snapshot entries as far as these properties care. -/
inductive SEntry where
  | file | link | untracked
  | dir (phantom : Bool) (children : List (Str × SEntry))
  deriving Repr

mutual
/-- Specification predicate: no phantom directory anywhere in a snapshot. -/
def noPhantom : SEntry → Bool
  | .dir ph cs => !ph && noPhantomChildren cs
  | _ => true
def noPhantomChildren : List (Str × SEntry) → Bool
  | [] => true
  | (_, e) :: rest => noPhantom e && noPhantomChildren rest
end

/-- `fastpath.Joinable`. -/
def joinable (base : Str) : Str := if base = [] then [] else base ++ ['/']

/-- What `directory` decides for one child before descending:
`none` = record an untracked entry, `some mask` = process the child with this
content ignore mask. -/
def childDecision (st : Status) (cont : Bool) (ignoreMask : Bool) : Option Bool :=
  match st with
  | .nominal => if ignoreMask ∧ !cont then none else some ignoreMask
  | .ignored => if !cont then none else some true
  | .unignored => some false

mutual
/-- `scanner.directory(path, …, ignoreMask)` on the children of a directory. -/
def scanChildren (ign : IgnoreFn) (path : Str) (ignoreMask : Bool) : List (Str × Node) → List (Str × SEntry)
  | [] => []
  | (name, node) :: rest =>
    (name, scanChild ign (joinable path ++ name) ignoreMask node) :: scanChildren ign path ignoreMask rest
/-- One child at `contentPath`, with the mask of the directory that holds it. -/
def scanChild (ign : IgnoreFn) (contentPath : Str) (ignoreMask : Bool) : Node → SEntry
  | .other => .untracked
  | .file =>
    let (st, cont) := ign contentPath false
    match childDecision st cont ignoreMask with
    | none => .untracked
    | some _ => .file
  | .link =>
    let (st, cont) := ign contentPath false
    match childDecision st cont ignoreMask with
    | none => .untracked
    | some _ => .link
  | .dir cs =>
    let (st, cont) := ign contentPath true
    match childDecision st cont ignoreMask with
    | none => .untracked
    | some mask => .dir mask (scanChildren ign contentPath mask cs)
end

/-- `Scan` of a root directory with the given children (the root is never
evaluated for ignoring and starts with no ignore mask). -/
def scanRoot (ign : IgnoreFn) (children : List (Str × Node)) : SEntry :=
  .dir false (scanChildren ign [] false children)

end Mutagen.Model.IgnoreCore
