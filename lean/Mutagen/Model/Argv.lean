import Mutagen.Model.URL
/-
Model of the argument vectors that the agent transports build for the
external `ssh`, `scp` and `docker` executables
(pkg/agent/transport/ssh/transport.go `Command`/`Copy`,
pkg/agent/transport/docker/transport.go `command`/`Copy`/
`changeContainerStatus`, pkg/ssh flag helpers, pkg/docker/flags.go).
Core Lean only. Used by C36.

Every element carries the *role* it is meant to play on the command line and
whether its text is derived from a URL component (user, host, container).
`interpret` is a model of how a getopt/pflag style parser reads a vector: it
looks at the texts only. C36 proves that for valid URLs the two agree.
-/
namespace Mutagen.Model.Argv
open Mutagen.Model.URL

inductive Role
  /-- an option (`-x`, `-xVALUE`, `--long`) -/
  | option
  /-- the separate value of the preceding option -/
  | value
  /-- an operand (host, file, container, command, sub-command name) -/
  | operand
  deriving DecidableEq, Repr

structure Arg where
  text : Str
  role : Role
  /-- derived from the URL's user, host or container component -/
  url : Bool
  deriving DecidableEq, Repr

def opt (s : String) : Arg := { text := s.toList, role := .option, url := false }
def optS (s : Str) : Arg := { text := s, role := .option, url := false }
def val (s : Str) : Arg := { text := s, role := .value, url := false }
def operand (s : Str) : Arg := { text := s, role := .operand, url := false }
def urlOperand (s : Str) : Arg := { text := s, role := .operand, url := true }
def urlValue (s : Str) : Arg := { text := s, role := .value, url := true }

/-- The elements of a vector that come from the URL and are meant to be operands. -/
def urlOperands (argv : List Arg) : List Arg := argv.filter fun a => a.url && a.role == .operand

/-! ## pkg/ssh flag helpers -/

def compressionFlag : Arg := opt "-C"

def connectTimeoutFlag (timeout : Nat) : Arg := optS ("-oConnectTimeout=".toList ++ natToDec timeout)

def serverAliveFlags (interval countMax : Nat) : List Arg :=
  [optS ("-oServerAliveInterval=".toList ++ natToDec interval),
   optS ("-oServerAliveCountMax=".toList ++ natToDec countMax)]

def serverAliveIntervalSeconds : Nat := Mutagen.Facts.sshServerAliveIntervalSeconds
def serverAliveCountMax : Nat := Mutagen.Facts.sshServerAliveCountMax

/-! ## sshTransport -/

/-- `[user@]host`, as computed by `Command`. -/
def sshTarget (user host : Str) : Str := if user ≠ [] then user ++ '@' :: host else host

/-- Arguments of the `ssh` process started by `sshTransport.Command`. -/
def sshCommandArgs (timeout : Nat) (user host : Str) (port : Nat) (command : Str) : List Arg :=
  [connectTimeoutFlag timeout] ++ serverAliveFlags serverAliveIntervalSeconds serverAliveCountMax ++
  (if port ≠ 0 then [opt "-p", val (natToDec port)] else []) ++
  [urlOperand (sshTarget user host), operand command]

/-- `[user@]host:remoteName`, as computed by `Copy`. -/
def scpDestination (user host remoteName : Str) : Str :=
  if user ≠ [] then user ++ '@' :: (host ++ ':' :: remoteName) else host ++ ':' :: remoteName

/-- Arguments of the `scp` process started by `sshTransport.Copy`. -/
def scpArgs (timeout : Nat) (user host : Str) (port : Nat) (sourceBase remoteName : Str) : List Arg :=
  [compressionFlag, connectTimeoutFlag timeout] ++ serverAliveFlags serverAliveIntervalSeconds serverAliveCountMax ++
  (if port ≠ 0 then [opt "-P", val (natToDec port)] else []) ++
  [operand sourceBase, urlOperand (scpDestination user host remoteName)]

/-! ## pkg/docker/flags.go -/

inductive FlagErr | emptyValue | nonEmptyValue | unknownParameter
  deriving DecidableEq, Repr

/-- Parameters that need a value / must not have one. -/
def valueParameters : List Str := ["config", "context", "host", "tlscacert", "tlscert", "tlskey"].map String.toList
def switchParameters : List Str := ["tls", "tlsverify"].map String.toList

/-- `LoadDaemonConnectionFlagsFromURLParameters`: validation of one entry. -/
def checkParameter (kv : Str × Str) : Option FlagErr :=
  if valueParameters.contains kv.1 then (if kv.2 = [] then some .emptyValue else none)
  else if switchParameters.contains kv.1 then (if kv.2 ≠ [] then some .nonEmptyValue else none)
  else some .unknownParameter

/-- `ToFlags`: fixed order config, host, context, tls, tlscacert, tlscert, tlskey, tlsverify. -/
def flagOrder : List Str :=
  ["config", "host", "context", "tls", "tlscacert", "tlscert", "tlskey", "tlsverify"].map String.toList

def daemonConnectionFlags (parameters : List (Str × Str)) : Except FlagErr (List Arg) :=
  match parameters.findSome? checkParameter with
  | some e => .error e
  | none => .ok (flagOrder.flatMap fun name =>
      match lookup name parameters with
      | none => []
      | some v =>
        if switchParameters.contains name then [optS ('-' :: '-' :: name)]
        else [optS ('-' :: '-' :: name), val v])

/-! ## dockerTransport -/

/-- `strings.Split(command, " ")`. -/
def splitSpaces : Str → List Str
  | [] => [[]]
  | c :: cs =>
    if c = ' ' then [] :: splitSpaces cs
    else match splitSpaces cs with
      | w :: ws => (c :: w) :: ws
      | [] => [[c]]

/-- `dockerTransport.command(command, workingDirectory, user)`. -/
def dockerExecArgs (flags : List Arg) (container transportUser : Str) (command workingDirectory user : Str) : List Arg :=
  flags ++ [operand "exec".toList, opt "--interactive"] ++
  (if user ≠ [] then [opt "--user", val user]
   else if transportUser ≠ [] then [opt "--user", urlValue transportUser]
   else []) ++
  (if workingDirectory ≠ [] then [opt "--workdir", val workingDirectory] else []) ++
  [urlOperand container] ++ (splitSpaces command).map operand

/-- `dockerTransport.changeContainerStatus(stop)`. -/
def dockerStatusArgs (flags : List Arg) (container : Str) (stop : Bool) : List Arg :=
  flags ++ [operand (if stop then "stop".toList else "start".toList), urlOperand container]

/-- The `docker cp` invocation of `dockerTransport.Copy`. -/
def dockerCopyArgs (flags : List Arg) (container : Str) (windows : Bool) (home localPath remoteName : Str) : List Arg :=
  flags ++ [operand "cp".toList, operand localPath,
    urlOperand (container ++ ':' :: (home ++ (if windows then '\\' else '/') :: remoteName))]

/-- The `chown` invocation that follows the copy into a POSIX container. -/
def dockerChownArgs (flags : List Arg) (container transportUser : Str) (home probedUser probedGroup remoteName : Str) : List Arg :=
  dockerExecArgs flags container transportUser
    ("chown ".toList ++ probedUser ++ ':' :: (probedGroup ++ ' ' :: remoteName)) home "root".toList

/-! ## How a command-line parser reads a vector

A conservative model of getopt / pflag: before a `--`, every element that
starts with '-' is an option unless it is consumed as the value of the
preceding option; `takesValue` says which option texts consume the next
element (`-p`, `--user`, … but not `-oX=Y`, `-C`, `--interactive`).
Parsers that stop at the first operand (OpenSSH, `docker exec`) treat fewer
elements as options than this. -/

def interpretAux (takesValue : Str → Bool) : Bool → List Str → List Role
  | _, [] => []
  | true, _ :: rest => .value :: interpretAux takesValue false rest
  | false, a :: rest =>
    if startsWithDash a then .option :: interpretAux takesValue (takesValue a) rest
    else .operand :: interpretAux takesValue false rest

def interpret (takesValue : Str → Bool) (argv : List Str) : List Role := interpretAux takesValue false argv

/-- A parser that stops reading options after its `n`-th operand (OpenSSH's getopt; `docker`
followed by `docker exec`, whose flag sets are not interspersed: `exec` and the container are
the two operands, everything after the container belongs to the command): like `interpretAux`
until `n` operands have been seen, then everything is an operand. -/
def interpretUntil (takesValue : Str → Bool) : Nat → Bool → List Str → List Role
  | _, _, [] => []
  | 0, _, _ :: rest => .operand :: interpretUntil takesValue 0 false rest
  | n + 1, true, _ :: rest => .value :: interpretUntil takesValue (n + 1) false rest
  | n + 1, false, a :: rest =>
    if startsWithDash a then .option :: interpretUntil takesValue (n + 1) (takesValue a) rest
    else .operand :: interpretUntil takesValue n false rest

/-- The value-taking options among those Mutagen passes. -/
def takesValue (a : Str) : Bool :=
  ["-p", "-P", "--user", "--workdir", "--config", "--host", "--context", "--tlscacert", "--tlscert", "--tlskey"].any
    fun s => s.toList == a

end Mutagen.Model.Argv
