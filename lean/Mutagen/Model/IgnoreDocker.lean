import Mutagen.Model.IgnoreCore
import Mutagen.Model.IgnoreMutagen
/-
Model of the Docker-style ignorer and of Docker's own build-context walk, over
an **abstract per-pattern match** `m : α → Str → Bool` (the regexp compiled from
a pattern is a parameter; the harness supplies it as a table computed by the
real `Pattern.match`):

* `matchesForMutagen` — patternmatcher.go `MatchesForMutagen` (per-path trinary
  status with the same short-circuit loop as the Mutagen-style ignorer —
  `IgnoreMutagen.loop` is reused, the two Go loops are the same text modulo
  names — and the traversal-continuation directive computed from literal
  exclusion-pattern prefixes) followed by docker/ignore.go `Ignore`;
* `matchesOrParentMatches` — upstream moby `MatchesOrParentMatches`;
* `dockerWalk` — Docker's directory walk (moby archive.go `TarWithOptions`):
  skip what `MatchesOrParentMatches` matches, but do not prune a skipped
  directory that is a literal prefix of some exclusion pattern;
* `reify` — core/phantom.go `reifyPhantomDirectories` specialised to one
  endpoint (`beta = nil`) with an optional ancestor.
Core Lean only.
-/
namespace Mutagen.Model.IgnoreDocker
open Mutagen.Model.IgnoreCore

/-- `strings.HasPrefix(s, pre)`. -/
def hasPrefix : Str → Str → Bool
  | _, [] => true
  | [], _ :: _ => false
  | c :: cs, d :: ds => c == d && hasPrefix cs ds

/-- "some exclusion pattern has `path` as a literal directory prefix". -/
def exclusionPrefix {α : Type} (excl : α → Bool) (text : α → Str) (ps : List α) (path : Str) : Bool :=
  ps.any fun p => excl p && hasPrefix (text p ++ ['/']) (path ++ ['/'])

/-- `MatchesForMutagen` + the status mapping of docker/ignore.go `Ignore`. -/
def matchesForMutagen {α : Type} (excl : α → Bool) (text : α → Str) (m : α → Str → Bool) (ps : List α)
    (path : Str) (directory : Bool) : Status × Bool :=
  let exclusionCount := (ps.filter excl).length
  let exclusions := ps.any excl
  let status := Mutagen.Model.IgnoreMutagen.loop excl (fun p => m p path) ps .nominal exclusionCount
  if directory ∧ status = .unignored then (status, false)
  else if !directory ∨ !exclusions then (status, false)
  else if exclusionPrefix excl text ps path then (status, true)
  else (status, false)

/-- Upstream `MatchesOrParentMatches(file)`; `parents` are the paths of the
strict ancestors of `file`, outermost first (`parentPathDirs[:i+1]` joined). -/
def mopmLoop {α : Type} (excl : α → Bool) (m : α → Str → Bool) (path : Str) (parents : List Str) : List α → Bool → Bool
  | [], matched => matched
  | p :: ps, matched =>
    if excl p != matched then mopmLoop excl m path parents ps matched   -- continue
    else
      let mt := m p path || parents.any (fun a => m p a)
      if mt then mopmLoop excl m path parents ps (!excl p)
      else mopmLoop excl m path parents ps matched

def matchesOrParentMatches {α : Type} (excl : α → Bool) (m : α → Str → Bool) (ps : List α) (path : Str) (parents : List Str) : Bool :=
  mopmLoop excl m path parents ps false

/-- What Docker's walk puts into the build context (files, links and the
directories it does not skip), in walk order. -/
inductive Included | file (path : Str) | link (path : Str) | dir (path : Str)
  deriving Repr, DecidableEq

mutual
def dockerChildren {α : Type} (excl : α → Bool) (text : α → Str) (m : α → Str → Bool) (ps : List α)
    (path : Str) (parents : List Str) : List (Str × Node) → List Included
  | [] => []
  | (name, node) :: rest =>
    dockerChild excl text m ps (joinable path ++ name) parents node ++ dockerChildren excl text m ps path parents rest
def dockerChild {α : Type} (excl : α → Bool) (text : α → Str) (m : α → Str → Bool) (ps : List α)
    (p : Str) (parents : List Str) : Node → List Included
  | .other => []
  | .file => if matchesOrParentMatches excl m ps p parents then [] else [.file p]
  | .link => if matchesOrParentMatches excl m ps p parents then [] else [.link p]
  | .dir cs =>
    if matchesOrParentMatches excl m ps p parents then
      -- skipped: prune unless an exclusion pattern starts with this directory
      if ps.any excl ∧ exclusionPrefix excl text ps p then dockerChildren excl text m ps p (parents ++ [p]) cs
      else []
    else .dir p :: dockerChildren excl text m ps p (parents ++ [p]) cs
end

def dockerWalk {α : Type} (excl : α → Bool) (text : α → Str) (m : α → Str → Bool) (ps : List α) (children : List (Str × Node)) : List Included :=
  dockerChildren excl text m ps [] [] children

/-- An ancestor (last synchronized) entry, as far as reification looks at it. -/
inductive Anc where
  | mk (isDirectory : Bool) (children : List (Str × Anc))
  deriving Repr

def Anc.isDir : Anc → Bool | .mk d _ => d
def Anc.children : Anc → List (Str × Anc) | .mk _ cs => cs

def ancLookup (a : Option Anc) (name : Str) : Option Anc :=
  match a with
  | none => none
  | some a => (a.children.find? (fun e => e.1 = name)).map (·.2)

mutual
/-- `reifyPhantomDirectories(ancestor, alpha, nil)`: the reified entry, "tracked
content exists at or below", and alpha's directory count. -/
def reify (anc : Option Anc) : SEntry → SEntry × Bool × Nat
  | .file => (.file, true, 0)
  | .link => (.link, true, 0)
  | .untracked => (.untracked, false, 0)
  | .dir phantom cs =>
    let (cs', trackedLower, count) := reifyChildren anc cs
    let ancestorIsDirectory : Bool := match anc with | some a => a.isDir | none => false
    if trackedLower || ancestorIsDirectory then (.dir false cs', true, count + 1)
    else if phantom then (.untracked, count ≥ 1, count)
    else (.dir false cs', true, count + 1)
def reifyChildren (anc : Option Anc) : List (Str × SEntry) → List (Str × SEntry) × Bool × Nat
  | [] => ([], false, 0)
  | (name, e) :: rest =>
    let (e', t, c) := reify (ancLookup anc name) e
    let (rest', t', c') := reifyChildren anc rest
    ((name, e') :: rest', t || t', c + c')
end

/-- `ReifyPhantomDirectories(ancestor, snapshot, nil)` on a scanned root. -/
def reifyRoot (anc : Option Anc) (root : SEntry) : SEntry × Nat :=
  let (e, _, c) := reify anc root
  (e, c)

mutual
/-- File and link leaves of a snapshot, in order. -/
def leavesOf (path : Str) : SEntry → List Included
  | .file => [.file path]
  | .link => [.link path]
  | .untracked => []
  | .dir _ cs => leavesOfChildren path cs
def leavesOfChildren (path : Str) : List (Str × SEntry) → List Included
  | [] => []
  | (name, e) :: rest => leavesOf (joinable path ++ name) e ++ leavesOfChildren path rest
end

def isLeaf : Included → Bool
  | .dir _ => false
  | _ => true

/-! ### Pattern cleaning: docker/ignore.go `newValidatedPatternMatcher` followed
by patternmatcher.go `New` (for patterns without `[`, `]`: the syntax check and
the regexp compilation cannot fail on them) -/

inductive CleanErr | backslash | empty | negatedEmpty | root | illegalExclusion | dropped
  deriving DecidableEq, Repr

/-- `unicode.IsSpace` on the Latin-1 range (what `strings.TrimSpace` trims). -/
def isSpace (c : Char) : Bool :=
  c = ' ' ∨ c = '\t' ∨ c = '\n' ∨ c.toNat = 11 ∨ c.toNat = 12 ∨ c = '\r' ∨ c.toNat = 0x85 ∨ c.toNat = 0xA0

def trimSpace (s : Str) : Str := ((s.dropWhile isSpace).reverse.dropWhile isSpace).reverse

/-- One pattern through both cleaning stages: `(exclusion, cleanedPattern)`. -/
def cleanPattern (p0 : Str) : Except CleanErr (Bool × Str) :=
  open Mutagen.Model.IgnoreMutagen in
  if p0.contains '\\' then .error .backslash else
  let p := trimSpace p0
  if p = [] then .error .empty else
  let negated := p.head? = some '!'
  let q := if negated then trimSpace p.tail else p
  if q = [] then .error .negatedEmpty else
  let q := pathClean q
  if q = ['/'] then .error .root else
  let q := if q.length > 1 ∧ q.head? = some '/' then q.tail else q
  let r := if negated then '!' :: q else q
  -- patternmatcher.New
  let r := trimSpace r
  if r = [] then .error .dropped else
  let r := pathClean r
  match r with
  | '!' :: rest => if rest = [] then .error .illegalExclusion else .ok (true, rest)
  | _ => .ok (false, r)

end Mutagen.Model.IgnoreDocker
