/-
Model of the staging / transition bookkeeping of the local endpoint
(pkg/synchronization/endpoint/local/endpoint.go: Scan, Stage, stageFromRoot,
Transition), of the staging store's addressing (staging/store/store.go:
Contains / Commit / Finalize — content is addressed by *(path, digest)*), and
of `filteredPathsAreSubset` (pkg/synchronization/safety.go). Core Lean only.

Abstractions (see checks/C41.json):
* the synchronization root is a directory tree of regular files and
  directories; a file's content is identified with its digest (a `Nat`);
* the digest cache produced by a scan is the list of (path, digest) of the
  files present at scan time; `GenerateReverseLookupMap` keeps, for every
  digest, *one* of the cached paths (Go map iteration order decides which):
  the choice is the parameter `pick`;
* the part of `core.Transition` that matters here is modelled for trees of
  files and directories on an unmodified root: removal of exactly the expected
  subtree, creation of as much of the new subtree as the store can provide;
* watching is disabled (no background scans), so `accelerate` stays false.
-/
namespace Mutagen.Model.Staging

/-- Directory tree; a file carries the digest of its content. -/
inductive Tree where
  | file (k : Nat)
  | dir (cs : List (String × Tree))
  deriving Repr, Inhabited

abbrev Children := List (String × Tree)

mutual
/-- `Entry.Count` for synchronizable content. -/
def Tree.count : Tree → Nat
  | .file _ => 1
  | .dir cs => 1 + countL cs
def countL : Children → Nat
  | [] => 0
  | (_, t) :: r => t.count + countL r
end

mutual
def Tree.beq : Tree → Tree → Bool
  | .file a, .file b => a == b
  | .dir a, .dir b => beqL a b
  | _, _ => false
def beqL : Children → Children → Bool
  | [], [] => true
  | (n, t) :: r, (m, u) :: q => n == m && t.beq u && beqL r q
  | _, _ => false
end

instance : BEq Tree := ⟨Tree.beq⟩

/-- Entry equality on optional entries (`nil` is the absent entry). -/
def oeq : Option Tree → Option Tree → Bool
  | none, none => true
  | some a, some b => a.beq b
  | _, _ => false

def ocount : Option Tree → Nat
  | none => 0
  | some t => t.count

def lookupC (n : String) : Children → Option Tree
  | [] => none
  | (m, t) :: r => if m = n then some t else lookupC n r

/-- Content below the root at a path given by its components (`[]` is the root
directory itself, which is never addressed by the operations modelled here). -/
def subtree : Children → List String → Option Tree
  | _, [] => none
  | cs, [n] => lookupC n cs
  | cs, n :: rest =>
    match lookupC n cs with
    | some (.dir cs') => subtree cs' rest
    | _ => none

def eraseC (n : String) : Children → Children
  | [] => []
  | (m, t) :: r => if m = n then r else (m, t) :: eraseC n r

/-- Sorted insertion (replacing an existing binding). -/
def insertC (n : String) (t : Tree) : Children → Children
  | [] => [(n, t)]
  | (m, u) :: r =>
    if m = n then (n, t) :: r
    else if n < m then (n, t) :: (m, u) :: r
    else (m, u) :: insertC n t r

def updateC (n : String) (f : Tree → Tree) : Children → Children
  | [] => []
  | (m, t) :: r => if m = n then (m, f t) :: r else (m, t) :: updateC n f r

def removeAt : Children → List String → Children
  | cs, [] => cs
  | cs, [n] => eraseC n cs
  | cs, n :: rest =>
    match lookupC n cs with
    | some (.dir cs') => updateC n (fun _ => .dir (removeAt cs' rest)) cs
    | _ => cs

/-- Put `t` at the path (replacing what is there); the parent must exist as a
directory (else no-op). -/
def insertAt (t : Tree) : Children → List String → Children
  | cs, [] => cs
  | cs, [n] =>
    match lookupC n cs with
    | some _ => updateC n (fun _ => t) cs
    | none => insertC n t cs
  | cs, n :: rest =>
    match lookupC n cs with
    | some (.dir cs') => updateC n (fun _ => .dir (insertAt t cs' rest)) cs
    | _ => cs

def joinPath (pre n : String) : String := if pre = "" then n else pre ++ "/" ++ n

mutual
/-- (path, digest) of every file, paths relative to `pre`. -/
def Tree.files (pre : String) : Tree → List (String × Nat)
  | .file k => [(pre, k)]
  | .dir cs => filesL pre cs
def filesL (pre : String) : Children → List (String × Nat)
  | [] => []
  | (n, t) :: r => t.files (joinPath pre n) ++ filesL pre r
end

def splitPath (p : String) : List String := (p.splitOn "/").filter (· ≠ "")

/-- What a path currently holds, by string path. -/
def nodeAt (root : Children) (p : String) : Option Tree := subtree root (splitPath p)

/-! ## Endpoint state -/

def two64 : Nat := 18446744073709551616

/-- uint64 subtraction. -/
def u64sub (a b : Nat) : Nat := (a + two64 - b % two64) % two64
def u64add (a b : Nat) : Nat := (a + b) % two64

structure St where
  /-- `maximumEntryCount` after defaulting (`0` → `math.MaxUint64`). -/
  max : Nat
  readOnly : Bool
  /-- children of the synchronization root directory (the disk). -/
  root : Children
  /-- `e.cache`: digests of the files seen by the last scan. -/
  cache : List (String × Nat)
  /-- `lastScanEntryCount`. -/
  last : Nat
  sinceStage : Bool
  sinceTrans : Bool
  /-- content of the staging store, addressed by (path, digest). -/
  store : List (String × Nat)
  /-- `Store.initialized` (set by `Stage`, cleared by `Transition`'s `Finalize`). -/
  storeInit : Bool
  deriving Repr, Inhabited

/-- `NewEndpoint`: maximum entry count defaulting (Version1: `math.MaxUint64`). -/
def effMax (cfg : Nat) : Nat := if cfg = 0 then two64 - 1 else cfg

def init (cfgMax : Nat) (readOnly : Bool) (root : Children) : St :=
  { max := effMax cfgMax, readOnly := readOnly, root := root, cache := [], last := 0,
    sinceStage := false, sinceTrans := false, store := [], storeInit := false }

def rootCount (root : Children) : Nat := 1 + countL root

inductive ScanOut | ok (count : Nat) | exceeded
  deriving Repr, DecidableEq

/-- `Scan` with watching disabled: always a full scan (`e.scan`), then the
entry-count check, then the call-state flags. -/
def scan (s : St) : St × ScanOut :=
  -- e.scan: snapshot, cache and lastScanEntryCount are updated first
  let s1 := { s with cache := filesL "" s.root, last := rootCount s.root }
  if s1.last > s1.max then (s1, .exceeded)
  else ({ s1 with sinceStage := true, sinceTrans := true }, .ok s1.last)

inductive StageErr | readOnly | lengths | noScan | exceed
  deriving Repr, DecidableEq

inductive StageOut | err (e : StageErr) | ok (filtered : List String)
  deriving Repr, DecidableEq

def staged (store : List (String × Nat)) (p : String) (k : Nat) : Bool :=
  store.any fun e => e.1 == p && e.2 == k

/-- First cached path with the digest. -/
def firstWith (cache : List (String × Nat)) (k : Nat) : Option String :=
  (cache.find? fun e => e.2 == k).map (·.1)

/-- The reverse lookup map: some cached path with that digest; `hint` resolves
the choice among several (it is honoured only if it is such a path). -/
def lookupDigest (cache : List (String × Nat)) (hint : Nat → Option String) (k : Nat) : Option String :=
  match hint k with
  | some q => if cache.any (fun e => e.1 == q && e.2 == k) then some q else firstWith cache k
  | none => firstWith cache k

/-- `stageFromRoot`: returns the new store and whether the content is now
staged under the requested digest. The copy is committed under the digest of
what was actually read. -/
def stageFromRoot (root : Children) (cache : List (String × Nat)) (hint : Nat → Option String)
    (store : List (String × Nat)) (p : String) (k : Nat) : List (String × Nat) × Bool :=
  match lookupDigest cache hint k with
  | none => (store, false)
  | some src =>
    match nodeAt root src with
    | some (.file k') =>
      let store' := (p, k') :: store
      (store', staged store' p k)
    | _ => (store, false)

/-- The filtering loop of `Stage`. -/
def stageLoop (root : Children) (cache : List (String × Nat)) (hint : Nat → Option String) :
    List (String × Nat) → List (String × Nat) → List (String × Nat) × List String
  | store, [] => (store, [])
  | store, (p, k) :: rest =>
    if staged store p k then stageLoop root cache hint store rest
    else
      let (store', ok) := stageFromRoot root cache hint store p k
      if ok then stageLoop root cache hint store' rest
      else
        let (store'', out) := stageLoop root cache hint store' rest
        (store'', p :: out)

/-- `Stage(paths, digests)`. -/
def stage (s : St) (paths : List String) (digests : List Nat) (hint : Nat → Option String) : St × StageOut :=
  if s.readOnly then (s, .err .readOnly)
  else if paths.length ≠ digests.length then (s, .err .lengths)
  else if paths.length = 0 then (s, .ok [])
  else if !s.sinceStage then (s, .err .noScan)
  else
    let s := { s with sinceStage := false }
    -- (repaired, fixes/C41.patch: the unsigned difference must not wrap when a
    -- later scan found more entries than the maximum)
    if s.max ≠ 0 ∧ (s.last > s.max ∨ u64sub s.max s.last < paths.length) then (s, .err .exceed)
    else
      let (store', out) := stageLoop s.root s.cache hint s.store (paths.zip digests)
      -- stager.Initialize precedes the loop
      ({ s with store := store', storeInit := true }, .ok out)

/-- The receiver fed by the other endpoint: content `k` arrives for path `p`
and is committed under its own digest. -/
def supply (s : St) (items : List (String × Nat)) : St :=
  { s with store := items ++ s.store }

structure Change where
  path : String
  old : Option Tree
  new : Option Tree
  deriving Repr

inductive TransErr | readOnly | noScan | underflow
  deriving Repr, DecidableEq

/-- The entry-count bookkeeping loop of `Transition`. -/
def planCount : Nat → List Change → Option Nat
  | r, [] => some r
  | r, t :: rest =>
    let removed := ocount t.old
    if removed > r then none
    else planCount (u64add (r - removed) (ocount t.new)) rest

mutual
/-- `create`/`createDirectory`/`createFile`: as much of the target as the store
provides; returns what was created and whether a staged file was missing (an
uninitialized store refuses `Provide`, which is not reported as missing: the
caller passes `none`). -/
def createTree (store : Option (List (String × Nat))) (p : String) : Tree → Option Tree × Bool
  | .file k =>
    match store with
    | none => (none, false)
    | some st => if staged st p k then (some (.file k), false) else (none, true)
  | .dir cs => let (cs', m) := createL store p cs; (some (.dir cs'), m)
def createL (store : Option (List (String × Nat))) (p : String) : Children → Children × Bool
  | [] => ([], false)
  | (n, t) :: r =>
    let (c, m1) := createTree store (joinPath p n) t
    let (cs, m2) := createL store p r
    (match c with | some c => (n, c) :: cs | none => cs, m1 || m2)
end

/-- `walkToParentAndComputeLeafName`: the parent of the path is a directory. -/
def parentIsDir (root : Children) (comps : List String) : Bool :=
  match comps with
  | [] => false
  | [_] => true
  | _ => match subtree root comps.dropLast with
    | some (.dir _) => true
    | _ => false

/-- One transition on an unmodified root. Returns the new root, the result
entry and the missing-files flag. -/
def applyChange (store : Option (List (String × Nat))) (root : Children) (t : Change) : Children × Option Tree × Bool :=
  let comps := splitPath t.path
  match t.old, t.new with
  | some (.file ko), some (.file kn) =>
    -- swapFile: the existing file must be the expected one
    if oeq (subtree root comps) t.old then
      if ko = kn then (root, t.new, false)
      else match store with
        | none => (root, t.old, false)
        | some st =>
          if staged st t.path kn then (insertAt (.file kn) root comps, t.new, false)
          else (root, t.old, true)
    else (root, t.old, false)
  | _, _ =>
    -- remove what is expected (no-op for nil) …
    if oeq (subtree root comps) t.old then
      let root1 := match t.old with | some _ => removeAt root comps | none => root
      -- … then create as much of the new entry as possible
      match t.new with
      | none => (root1, none, false)
      | some n =>
        if !parentIsDir root1 comps then (root1, none, false)
        else
        let (c, m) := createTree store t.path n
        match c with
        | some c => (insertAt c root1 comps, some c, m)
        | none => (root1, none, m)
    else (root, t.old, false)

def applyAll (store : Option (List (String × Nat))) : Children → List Change → Children × List (Option Tree) × Bool
  | root, [] => (root, [], false)
  | root, t :: rest =>
    let (root1, r, m1) := applyChange store root t
    let (root2, rs, m2) := applyAll store root1 rest
    (root2, r :: rs, m1 || m2)

inductive TransOut
  | err (e : TransErr)
  | refused (results : List (Option Tree))
  | ok (results : List (Option Tree)) (missing : Bool)
  deriving Repr

/-- `Transition(transitions)`. -/
def transition (s : St) (ts : List Change) : St × TransOut :=
  if s.readOnly then (s, .err .readOnly)
  else if !s.sinceTrans then (s, .err .noScan)
  else
    let s := { s with sinceTrans := false }
    let proceed : St × TransOut :=
      let (root', results, missing) := applyAll (if s.storeInit then some s.store else none) s.root ts
      -- stager.Finalize wipes the store
      ({ s with root := root', store := [], storeInit := false }, .ok results missing)
    if s.max ≠ 0 then
      match planCount s.last ts with
      | none => (s, .err .underflow)
      | some resulting =>
        if s.max < resulting then (s, .refused (ts.map (·.old)))
        else proceed
    else proceed

/-- `filteredPathsAreSubset` (safety.go). -/
def filteredPathsAreSubset : List String → List String → Bool
  | [], _ => true
  | _ :: _, [] => false
  | f :: fs, o :: os =>
    if o = f then filteredPathsAreSubset fs os
    else filteredPathsAreSubset (f :: fs) os

/-- External modifications of the root (not part of the endpoint). -/
inductive Edit
  | write (p : String) (k : Nat)
  | mkdir (p : String)
  | remove (p : String)
  deriving Repr

def applyEdit (root : Children) : Edit → Children
  | .write p k => insertAt (.file k) root (splitPath p)
  | .mkdir p => insertAt (.dir []) root (splitPath p)
  | .remove p => removeAt root (splitPath p)

/-! ## Call sequences -/

/-- One call on the endpoint (or an edit of the root by another program). -/
inductive Op
  | scan
  | stage (paths : List String) (digests : List Nat) (hint : Nat → Option String)
  | supply (items : List (String × Nat))
  | transition (ts : List Change)
  | edit (e : Edit)

def stepOp (s : St) : Op → St
  | .scan => (scan s).1
  | .stage ps ds h => (stage s ps ds h).1
  | .supply items => supply s items
  | .transition ts => (transition s ts).1
  | .edit e => { s with root := applyEdit s.root e }

def runOps (s : St) (ops : List Op) : St := ops.foldl stepOp s

/-- A staging request that gets as far as the scanned-since-last-stage guard. -/
def Op.reachesStageGuard : Op → Bool
  | .stage ps ds _ => ps.length == ds.length && ps.length != 0
  | _ => false

def Op.isTransition : Op → Bool
  | .transition _ => true
  | _ => false

end Mutagen.Model.Staging
