import Mutagen.Model.TransitionFS
/-!
Model of the content-addressed staging store
(`/repo/pkg/synchronization/endpoint/local/staging/store/store.go`) and of the
commit path of the rsync receiver (`/repo/pkg/synchronization/rsync/receive.go`,
`receiver.Receive` / `finalize`), core Lean only, executable.

Mirrors: `Store.Initialize`, `Allocate`, `target`, `Contains`, `Path`,
`Finalize`, `Storage.Write`, `Commit`, `Discard`; `receiver.Receive`,
`receiver.finalize`, and `Engine.Patch` as far as the receiver's sink sees it.

Representation.
* The content hash `H` and the 128-bit path hash `ph` (xxh3) are parameters.
  A storage location is determined by (digest, path hash): the file name is
  `hex(digest) ++ hex(ph path)` (the path hash has a fixed width, so the name
  determines the digest), inside the prefix directory `hex(digest)[:2]`.
* The storage root is absent, a non-directory, or a directory holding prefix
  entries (a directory, or a foreign non-directory with a prefix name),
  committed files by location, and temporary files by storage id.
* The only fault that can be injected from outside is the failure of the
  final rename (`filesystem.Rename` passes the verif fault hook); every other
  failure follows from the state (root not a directory, prefix name taken,
  size limit, empty digest).
-/
namespace Mutagen.Model.Store

abbrev Bytes := List UInt8
open Mutagen.Model.TFS (aget aset adel akeys)

/-- A storage location: content digest and path hash. -/
abbrev Loc := Bytes × Bytes

structure Disk where
  /-- prefix byte ↦ is it a directory (`false`: a foreign non-directory). -/
  prefixes : List (UInt8 × Bool) := []
  files : List (Loc × Bytes) := []
  temps : List Nat := []
  deriving Repr

inductive Root
  | absent
  | nondir
  | dir (d : Disk)
  deriving Repr

structure State where
  maxSize : Nat
  initialized : Bool := false
  /-- `prefixExists`. -/
  tracker : List UInt8 := []
  root : Root := .absent
  /-- open `Storage` objects: id ↦ bytes accepted so far. -/
  storages : List (Nat × Bytes) := []
  nextId : Nat := 0
  deriving Repr

inductive Err | ok | uninitialized | digestEmpty | root | alloc | size | prefixDir | rename | unknownStorage | tempGone
  deriving DecidableEq, Repr

structure Params where
  H : Bytes → Bytes
  ph : String → Bytes

def insertSorted (b : UInt8) : List UInt8 → List UInt8
  | [] => [b]
  | a :: r => if b < a then b :: a :: r else if b = a then a :: r else a :: insertSorted b r

/-- The scan of an existing root in `Initialize` (store.go:161-175), in
`os.ReadDir` order: `none` when a non-directory with a prefix name is met. -/
def scanPrefixes : List (UInt8 × Bool) → List UInt8 → Option (List UInt8)
  | [], acc => some acc
  | (b, isDir) :: r, acc => if isDir then scanPrefixes r (acc ++ [b]) else none

def sortPrefixes (l : List (UInt8 × Bool)) : List (UInt8 × Bool) :=
  l.mergeSort fun a b => a.1 ≤ b.1

/-- store.go:127-182 `Initialize`. -/
def storeInitialize (s : State) : Err × State :=
  if s.initialized then (.ok, s) else
  match s.root with
  | .absent => (.ok, { s with root := .dir {}, tracker := [], initialized := true })
  | .nondir => (.root, s)
  | .dir d =>
    match scanPrefixes (sortPrefixes d.prefixes) [] with
    | none => (.root, { s with tracker := [] })
    | some t => (.ok, { s with tracker := t, initialized := true })

/-- store.go:185-216 `Allocate`. -/
def allocate (s : State) : Err × Option Nat × State :=
  if !s.initialized then (.uninitialized, none, s) else
  match s.root with
  | .dir d =>
    let id := s.nextId
    (.ok, some id, { s with root := .dir { d with temps := d.temps ++ [id] }, storages := s.storages ++ [(id, [])],
                             nextId := id + 1 })
  | _ => (.alloc, none, s)

/-- store.go:346-362 `Storage.Write`. -/
def write (s : State) (id : Nat) (data : Bytes) : Err × State :=
  match aget id s.storages with
  | none => (.unknownStorage, s)
  | some cur =>
    if s.maxSize - cur.length < data.length then (.size, s)
    else (.ok, { s with storages := aset id (cur ++ data) s.storages })

def removeTemp (r : Root) (id : Nat) : Root :=
  match r with
  | .dir d => .dir { d with temps := d.temps.filter (· != id) }
  | r => r

/-- store.go:366-414 `Storage.Commit`. -/
def commit (P : Params) (s : State) (id : Nat) (path : String) (renameFails : Bool) : Err × State :=
  match aget id s.storages with
  | none => (.unknownStorage, s)
  | some data =>
    let s := { s with storages := adel id s.storages }
    let digest := P.H data
    match digest with
    | [] => (.digestEmpty, { s with root := removeTemp s.root id })
    | b :: _ =>
      -- ensure that the prefix directory exists
      let made : Option State :=
        if s.tracker.contains b then some s else
        match s.root with
        | .dir d =>
          if (aget b d.prefixes).isSome then none
          else some { s with root := .dir { d with prefixes := d.prefixes ++ [(b, true)] }, tracker := s.tracker ++ [b] }
        | _ => none
      match made with
      | none => (.prefixDir, { s with root := removeTemp s.root id })
      | some s =>
        match s.root with
        | .dir d =>
          if renameFails || !d.temps.contains id || aget b d.prefixes != some true then
            (.rename, { s with root := removeTemp s.root id })
          else
            let d' : Disk :=
              { prefixes := d.prefixes, files := aset (digest, P.ph path) data d.files,
                temps := d.temps.filter (· != id) }
            (.ok, { s with root := .dir d' })
        | _ => (.rename, s)

def hasTemp (r : Root) (id : Nat) : Bool :=
  match r with
  | .dir d => d.temps.contains id
  | _ => false

/-- store.go:417-432 `Storage.Discard` (`os.Remove` of the temporary file
fails when a `Finalize` has already swept it away). -/
def discard (s : State) (id : Nat) : Err × State :=
  match aget id s.storages with
  | none => (.unknownStorage, s)
  | some _ =>
    (if hasTemp s.root id then .ok else .tempGone,
     { s with storages := adel id s.storages, root := removeTemp s.root id })

/-- store.go:251-288 `Contains`. -/
def contains (P : Params) (s : State) (path : String) (digest : Bytes) : Err × Bool :=
  if !s.initialized then (.uninitialized, false) else
  match digest with
  | [] => (.digestEmpty, false)
  | b :: _ =>
    if !s.tracker.contains b then (.ok, false) else
    match s.root with
    | .dir d => (.ok, (aget (digest, P.ph path) d.files).isSome && aget b d.prefixes == some true)
    | _ => (.ok, false)

/-- store.go:293-309 `Path`: the location, when the call succeeds. -/
def path (P : Params) (s : State) (p : String) (digest : Bytes) : Err × Option Loc :=
  if !s.initialized then (.uninitialized, none) else
  if digest.isEmpty then (.digestEmpty, none) else (.ok, some (digest, P.ph p))

/-- store.go:314-326 `Finalize`. -/
def storeFinalize (s : State) : Err × State :=
  (.ok, { s with initialized := false, root := .absent })

/-- What is stored at a location (`none`: nothing). -/
def fileAt (s : State) (loc : Loc) : Option Bytes :=
  match s.root with
  | .dir d => aget loc d.files
  | _ => none

/-! ## Operation sequences -/

inductive Cmd
  | init
  | allocate
  | write (id : Nat) (data : Bytes)
  | commit (id : Nat) (path : String) (renameFails : Bool)
  | discard (id : Nat)
  | contains (path : String) (digest : Bytes)
  | path (path : String) (digest : Bytes)
  | fin
  /-- something else creates a non-directory with a prefix name in the root -/
  | block (b : UInt8)
  /-- something else puts a non-directory where the root should be -/
  | rootFile
  deriving Repr

def exec (P : Params) (s : State) : Cmd → State
  | .init => (storeInitialize s).2
  | .allocate => (allocate s).2.2
  | .write id d => (write s id d).2
  | .commit id p f => (commit P s id p f).2
  | .discard id => (discard s id).2
  | .contains _ _ => s
  | .path _ _ => s
  | .fin => (storeFinalize s).2
  | .block b =>
    match s.root with
    | .dir d => if (aget b d.prefixes).isSome then s else { s with root := .dir { d with prefixes := d.prefixes ++ [(b, false)] } }
    | _ => s
  | .rootFile =>
    match s.root with
    | .absent => { s with root := .nondir }
    | _ => s

def run (P : Params) (s : State) (cmds : List Cmd) : State := cmds.foldl (exec P) s

/-! ## The receiver's commit path (receive.go:128-243) -/

/-- The block loop of `Engine.Patch` (engine.go:765-783) writing into the
storage `id`: `pos` is the read position in the base, `idx` the block index,
the last argument the number of blocks still to copy. `false` = patch error
(short base read or failed write); blocks written before the error stay. -/
def patchBlocks (base : Bytes) (blockSize lastBlockSize blocks : Nat) (id : Nat) :
    State → Nat → Nat → Nat → Bool × State
  | s, _, _, 0 => (true, s)
  | s, pos, idx, n + 1 =>
    let len := if idx + 1 == blocks then lastBlockSize else blockSize
    let chunk := (base.drop pos).take len
    if chunk.length < len then (false, s) else
    match write s id chunk with
    | (.ok, s) => patchBlocks base blockSize lastBlockSize blocks id s (pos + len) (idx + 1) n
    | (_, s) => (false, s)

/-- engine.go:751-789 `Engine.Patch` with the storage `id` as destination. -/
def patch (base : Bytes) (blockSize lastBlockSize blocks : Nat) (id : Nat) (s : State)
    (data : Bytes) (start count : Nat) : Bool × State :=
  if !data.isEmpty then
    match write s id data with
    | (.ok, s) => (true, s)
    | (_, s) => (false, s)
  else patchBlocks base blockSize lastBlockSize blocks id s (start * blockSize) start count

/-- One transmission. -/
inductive Msg
  | done
  /-- an operation: literal data, or `count` base blocks from `start` -/
  | op (data : Bytes) (start count : Nat)
  deriving Repr

/-- One file of the reception: its path, its base (`none`: the base cannot be
opened) and the base signature (`blockSize = 0`: empty signature, the base is
not opened at all). -/
structure RFile where
  path : String
  base : Option Bytes
  blockSize : Nat
  lastBlockSize : Nat
  blocks : Nat
  deriving Repr

structure Recv where
  files : List RFile
  received : Nat := 0
  burning : Bool := false
  /-- the open sink (`r.target`), as a storage id -/
  target : Option Nat := none
  finalized : Bool := false
  deriving Repr

/-- `Sink.Close` = `Storage.Commit` (stager.go:64-66). -/
def sinkClose (P : Params) (s : State) (id : Nat) (path : String) (renameFails : Bool) : State :=
  (commit P s id path renameFails).2

/-- receive.go:128-243 `receiver.Receive`; `false` = terminal error. The
rename-fault flag applies to the commit this call performs, if any. -/
def receive (P : Params) (r : Recv) (s : State) (m : Msg) (renameFails : Bool) : Bool × Recv × State :=
  if r.received == r.files.length then (false, r, s) else
  match r.files[r.received]? with
  | none => (false, r, s)
  | some f =>
    match m with
    | .done =>
      let (r, s) :=
        match r.target with
        | some id => ({ r with target := none }, sinkClose P s id f.path renameFails)
        | none =>
          if !r.burning then
            match allocate s with
            | (_, some id, s) => (r, sinkClose P s id f.path renameFails)
            | (_, none, s) => (r, s)
          else (r, s)
      (true, { r with received := r.received + 1, burning := false }, s)
    | .op data start count =>
      if r.burning then (true, r, s) else
      -- open base and sink at the start of a file stream
      let opened : Option (Nat × State) :=
        match r.target with
        | some id => some (id, s)
        | none =>
          if f.blockSize != 0 && f.base.isNone then none else
          match allocate s with
          | (_, some id, s) => some (id, s)
          | (_, none, _) => none
      match opened with
      | none => (true, { r with burning := true, target := none }, s)
      | some (id, s) =>
        let r := { r with target := some id }
        match patch (f.base.getD []) f.blockSize f.lastBlockSize f.blocks id s data start count with
        | (true, s) => (true, r, s)
        | (false, s) => (true, { r with target := none, burning := true }, sinkClose P s id f.path renameFails)

/-- receive.go:247-269 `receiver.finalize`. -/
def recvFinalize (P : Params) (r : Recv) (s : State) (renameFails : Bool) : Recv × State :=
  match r.target, r.files[r.received]? with
  | some id, some f => ({ r with target := none, finalized := true }, sinkClose P s id f.path renameFails)
  | _, _ => ({ r with finalized := true }, s)

/-- `DecodeToReceiver` over a scripted stream: messages are forwarded until
all files are done, the stream ends (decode error) or the receiver fails; the
receiver is finalized in every case. -/
def receiveAll (P : Params) : Recv → State → List (Msg × Bool) → Recv × State
  | r, s, [] => recvFinalize P r s false
  | r, s, (m, f) :: rest =>
    if r.received == r.files.length then recvFinalize P r s false else
    match receive P r s m f with
    | (false, r, s) => recvFinalize P r s false
    | (true, r, s) => receiveAll P r s rest

end Mutagen.Model.Store
