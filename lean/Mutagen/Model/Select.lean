import Mutagen.Generated.Facts
/-
Model of session selection and listing (core Lean only):

* `pkg/synchronization/core/fastpath/fastpath.go` `Less` — the comparison loop
  is mirrored one iteration at a time (`lessLoop`, explicit fuel; the fuel
  chosen by `less` is never the reason the loop stops, `Proofs/Select`).
  Go strings are byte strings: paths are `List UInt8`, `'/'` is `47`, and Go's
  `<` on strings is `bytesLt`.
* `pkg/synchronization/core/{conflict,problem}.go` `SortConflicts` /
  `SortProblems` — `sort.Sort` with `fastpath.Less` on the root / path. The
  standard library's sorting algorithm is external: it is modelled by
  insertion sort with the same comparison (`sortBy`).
* `pkg/synchronization/manager.go` `findControllersBySpecification`,
  `findControllersByLabelSelector`, `selectControllers`, `List`.
  The session registry is a Go map; the model iterates a list (map iteration
  order is unobservable because `List` sorts by creation time and the
  selection result is a set). The label selector parser (vendored
  apimachinery) is external: a selector is either a parse failure or a list of
  requirements whose matching semantics (`Req.matches`) mirror
  `labels.Requirement.Matches`.
-/
namespace Mutagen.Model.Select

/-! ## fastpath.Less -/

abbrev Path := List UInt8

/-- Go's `<` on strings (byte-wise lexicographic). -/
def bytesLt : List UInt8 → List UInt8 → Bool
  | [], [] => false
  | [], _ :: _ => true
  | _ :: _, [] => false
  | a :: as, b :: bs => if a < b then true else if b < a then false else bytesLt as bs

/-- `strings.IndexByte(p, '/')` together with the two slices the loop takes:
the front component `p[:i]` (all of `p` when there is no slash) and, when
there is a slash, the remainder `p[i+1:]`. -/
def front : Path → Path × Option Path
  | [] => ([], none)
  | c :: cs =>
    if c = 47 then ([], some cs)
    else let r := front cs; (c :: r.1, r.2)

/-- The `for` loop of `Less`, one iteration per unit of fuel. -/
def lessLoop : Nat → Path → Path → Bool
  | 0, _, _ => false
  | fuel + 1, first, second =>
    let f := front first
    let s := front second
    if bytesLt f.1 s.1 then true
    else if bytesLt s.1 f.1 then false
    else match f.2, s.2 with
      | none, _ => true
      | some _, none => false
      | some first', some second' => lessLoop fuel first' second'

/-- `fastpath.Less`. -/
def less (first second : Path) : Bool :=
  if first = second then false
  else if first = [] then true
  else if second = [] then false
  else lessLoop (first.length + 1) first second

/-! ## Sorting and truncation -/

/-- Insert `x` into a list sorted by `lt`, before the first element that is
not smaller than `x` (so that `sortBy` is stable). -/
def insertBy {α} (lt : α → α → Bool) (x : α) : List α → List α
  | [] => [x]
  | y :: ys => if lt y x then y :: insertBy lt x ys else x :: y :: ys

/-- Model of `sort.Sort` / `sort.Slice` with the strict comparison `lt`. -/
def sortBy {α} (lt : α → α → Bool) : List α → List α
  | [] => []
  | x :: xs => insertBy lt x (sortBy lt xs)

/-- `SortConflicts` / `SortProblems` on the paths. -/
def sortPaths (ps : List Path) : List Path := sortBy less ps

/-- The truncation step of `Manager.List`: `if len(l) > limit { excluded =
len(l) - limit; l = l[:limit] }` (excluded stays 0 otherwise). -/
def truncate {α} (limit : Nat) (l : List α) : List α × Nat :=
  if l.length > limit then (l.take limit, l.length - limit) else (l, 0)

/-- Sort-then-truncate as performed for each of the five lists of a state. -/
def sortTruncate (limit : Nat) (ps : List Path) : List Path × Nat :=
  truncate limit (sortPaths ps)

/-! ## Sessions, selections -/

abbrev Labels := List (String × String)

structure Session where
  id : String
  name : String
  labels : Labels
  sec : Int
  nanos : Int
  conflicts : List Path := []
  alphaScan : List Path := []
  alphaTransition : List Path := []
  betaScan : List Path := []
  betaTransition : List Path := []
  deriving Repr

/-- Operators of `apimachinery/selection.Operator`. -/
inductive Op | in_ | notIn | exists_ | doesNotExist | gt | lt
  deriving DecidableEq, Repr

structure Req where
  key : String
  op : Op
  values : List String
  deriving Repr

def labelGet (ls : Labels) (k : String) : Option String :=
  match ls.find? (fun kv => kv.1 == k) with
  | some kv => some kv.2
  | none => none

/-- `strconv.ParseInt(s, 10, 64)` restricted to what matters here: optional
sign, decimal digits, range of int64; anything else is an error. -/
def parseInt64 (s : String) : Option Int :=
  let cs := s.toList
  let (neg, ds) := match cs with
    | '-' :: r => (true, r)
    | '+' :: r => (false, r)
    | r => (false, r)
  if ds.isEmpty ∨ ¬ ds.all Char.isDigit then none else
  let n : Nat := ds.foldl (fun acc c => acc * 10 + (c.toNat - 48)) 0
  let v : Int := if neg then - (n : Int) else n
  if v < -9223372036854775808 ∨ v > 9223372036854775807 then none else some v

/-- `labels.Requirement.Matches`. -/
def Req.matches (r : Req) (ls : Labels) : Bool :=
  match r.op with
  | .in_ =>
    match labelGet ls r.key with
    | none => false
    | some v => r.values.contains v
  | .notIn =>
    match labelGet ls r.key with
    | none => true
    | some v => !r.values.contains v
  | .exists_ => (labelGet ls r.key).isSome
  | .doesNotExist => (labelGet ls r.key).isNone
  | .gt | .lt =>
    match labelGet ls r.key with
    | none => false
    | some v =>
      match parseInt64 v with
      | none => false
      | some lv =>
        match r.values with
        | [rv] =>
          match parseInt64 rv with
          | none => false
          | some rvv => (r.op = .gt ∧ lv > rvv) ∨ (r.op = .lt ∧ lv < rvv)
        | _ => false

/-- A parsed selector: all requirements must match (`internalSelector.Matches`). -/
def reqsMatch (rs : List Req) (ls : Labels) : Bool := rs.all (·.matches ls)

/-- The label selector string as the manager sees it: empty string (mechanism
absent), unparsable, or parsed into requirements. -/
inductive Selector | absent | bad | reqs (rs : List Req)
  deriving Repr

structure Selection where
  all : Bool
  specs : List String
  selector : Selector
  deriving Repr

inductive Err | noMatch | badSelector | invalid
  deriving DecidableEq, Repr

def specMatches (spec : String) (s : Session) : Bool :=
  s.id == spec || s.name == spec

/-- The loop of `findControllersBySpecification`: `marks` is the controller set
(one flag per session, in registry order). For each specification the inner
loop over the registry marks every match; a specification without match aborts. -/
def findBySpecLoop (sessions : List Session) : List String → List Bool → Except Err (List Bool)
  | [], marks => .ok marks
  | spec :: rest, marks =>
    let hits := sessions.map (specMatches spec)
    if hits.any id then
      findBySpecLoop sessions rest (List.zipWith (· || ·) marks hits)
    else .error .noMatch

/-- Convert the set to a list. -/
def marked (sessions : List Session) (marks : List Bool) : List Session :=
  ((sessions.zip marks).filter (·.2)).map (·.1)

def findBySpec (sessions : List Session) (specs : List String) : Except Err (List Session) :=
  match findBySpecLoop sessions specs (sessions.map fun _ => false) with
  | .ok marks => .ok (marked sessions marks)
  | .error e => .error e

/-- `findControllersByLabelSelector` after parsing, for an arbitrary matching predicate. -/
def findByPred (p : Labels → Bool) (sessions : List Session) : List Session :=
  sessions.filter fun s => p s.labels

def findByLabel (sessions : List Session) : Selector → Except Err (List Session)
  | .bad => .error .badSelector
  | .absent => .ok (findByPred (reqsMatch []) sessions)
  | .reqs rs => .ok (findByPred (reqsMatch rs) sessions)

/-- `selectControllers`. -/
def select (sessions : List Session) (sel : Selection) : Except Err (List Session) :=
  if sel.all then .ok sessions
  else if sel.specs.length > 0 then findBySpec sessions sel.specs
  else match sel.selector with
    | .absent => .error .invalid
    | s => findByLabel sessions s

/-- One listed state: identifier and the five sorted, truncated lists with their excluded counts. -/
structure Listed where
  id : String
  sec : Int
  nanos : Int
  conflicts : List Path × Nat
  alphaScan : List Path × Nat
  alphaTransition : List Path × Nat
  betaScan : List Path × Nat
  betaTransition : List Path × Nat
  deriving Repr

def snapshot (s : Session) : Listed :=
  { id := s.id, sec := s.sec, nanos := s.nanos
    conflicts := sortTruncate Mutagen.Facts.selectMaxListConflicts s.conflicts
    alphaScan := sortTruncate Mutagen.Facts.selectMaxListScanProblems s.alphaScan
    alphaTransition := sortTruncate Mutagen.Facts.selectMaxListTransitionProblems s.alphaTransition
    betaScan := sortTruncate Mutagen.Facts.selectMaxListScanProblems s.betaScan
    betaTransition := sortTruncate Mutagen.Facts.selectMaxListTransitionProblems s.betaTransition }

/-- Comparison used by `sort.Slice` in `List`. -/
def createdBefore (a b : Listed) : Bool :=
  a.sec < b.sec || (a.sec == b.sec && a.nanos < b.nanos)

/-- `Manager.List` (without the state-index wait): snapshot every selected
controller, then sort the states by creation time. -/
def list (sessions : List Session) (sel : Selection) : Except Err (List Listed) :=
  match select sessions sel with
  | .error e => .error e
  | .ok cs => .ok (sortBy createdBefore (cs.map snapshot))

end Mutagen.Model.Select
