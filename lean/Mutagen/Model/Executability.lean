import Mutagen.Model.Entry
/-
Model of /repo/pkg/synchronization/core/executability.go (core Lean only,
executable), statement by statement.

  propagateExecutabilityRecursive    executability.go:8-124
  PropagateExecutability             executability.go:130-139

and of the call site in /repo/pkg/synchronization/controller.go (synchronize,
"If we're propagating executability bits and one endpoint preserves
executability information while the other does not …", 1150-1166).

The Go function mutates a deep copy of the target in place; the model returns
the new tree.  Recursion is over the *target* (the Go loop ranges over
`targetContents` and looks the name up in the two other maps), so the model is
a structural `mutual` pair over `Entry` / `Contents`.
-/
namespace Mutagen.Model

/-- `e != nil && e.Kind == EntryKind_File && bytes.Equal(e.Digest, d)`
(executability.go:62-63, 79-80). -/
def fileWithDigest (e : Option Entry) (d : List UInt8) : Bool :=
  match e with
  | none => false
  | some e => e.kind == .file && e.props.digest == d

/-- `e.Executable` of a non-nil entry (false for nil; only used under a
`fileWithDigest` guard, which implies non-nil). -/
def oexec : Option Entry → Bool
  | none => false
  | some e => e.props.executable

/-- executability.go:104-106: source and ancestor are both files with equal
digests (the source is unmodified from the ancestor). -/
def sourceUnmodified (a s : Option Entry) : Bool :=
  match s, a with
  | some s, some a => s.kind == .file && a.kind == .file && s.props.digest == a.props.digest
  | _, _ => false

/-- executability.go:37-123, the file branch: the executable bit the target
file ends up with. -/
def execRule (a s : Option Entry) (t : Props) : Bool :=
  -- 62-67
  if fileWithDigest s t.digest then oexec s
  -- 79-84
  else if fileWithDigest a t.digest then oexec a
  -- 104-110
  else if sourceUnmodified a s then oexec s
  -- 112-115: both sides modified the contents: nothing is propagated
  else t.executable

mutual
/-- executability.go:8-124 `propagateExecutabilityRecursive` on a non-nil
target, as a function returning the mutated target. -/
def Entry.propagate (a s : Option Entry) : Entry → Entry
  | .mk p cs =>
    -- 12-14
    if a.isNone && s.isNone then .mk p cs
    -- 17-36
    else if p.kind == .directory then
      if (contents s).isEmpty && (contents a).isEmpty then .mk p cs
      else .mk p (Entry.propagateL (contents a) (contents s) cs)
    -- 37-123
    else if p.kind == .file then
      .mk { p with executable := execRule a s p } cs
    else .mk p cs
/-- executability.go:33-35: the loop over the target contents. -/
def Entry.propagateL (ac sc : Contents) : Contents → Contents
  | [] => []
  | (n, c) :: r => (n, c.propagate (lookup n ac) (lookup n sc)) :: Entry.propagateL ac sc r
end

/-- executability.go:130-139 `PropagateExecutability` (nil target: `Copy`
returns nil and the recursion returns immediately). -/
def propagateExecutability (ancestor source target : Option Entry) : Option Entry :=
  match target with
  | none => none
  | some t => some (t.propagate ancestor source)

/-- What the controller knows about one endpoint after scanning:
`Snapshot.Content` and `Snapshot.PreservesExecutability`. -/
structure Scan where
  content : Option Entry
  preserves : Bool
  deriving Repr, Inhabited

/-- controller.go:1150-1166: executability is propagated only in portable
permissions mode, only when exactly the *other* side preserves it and this
side's content is non-nil; alpha as source is tried first. Returns the
contents (alpha, beta) used from here on. -/
def propagateStep (portable : Bool) (ancestor : Option Entry) (α β : Scan) : Option Entry × Option Entry :=
  if portable then
    if α.preserves && β.content.isSome && !β.preserves then
      (α.content, propagateExecutability ancestor α.content β.content)
    else if β.preserves && α.content.isSome && !α.preserves then
      (propagateExecutability ancestor β.content α.content, β.content)
    else (α.content, β.content)
  else (α.content, β.content)

end Mutagen.Model
