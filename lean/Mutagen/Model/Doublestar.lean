import Mutagen.Model.Glob
/-
Transcription of `github.com/bmatcuk/doublestar/v4` `doMatchWithSeparator`
(match.go, separator '/', validate = true, case sensitive) restricted to the
grammar without `{`, `}` and `\`: the index/backtrack loop exactly as written —
one pending `*` backtrack point, one pending `**/` backtrack point, the
`startOfSegment` flag, `isZeroLengthPattern` on the raw remainder when the
name is exhausted, and the *lazy* pattern validation (`ErrBadPattern` is only
reported for the part of the pattern the search reaches or that remains when
the search fails).

This is the matcher the ignore models *run* (it has to agree with the library
byte for byte, including its corner cases: a class may match '/', a `*`
backtrack never crosses '/', `x*/**` does not match `x`, `a***` does not match
`a`, `Match("[!a", "a")` reports no error). `Glob.gmatch` is the clean
specification it is compared with on regular patterns. Core Lean only.
-/
namespace Mutagen.Model.Doublestar
open Mutagen.Model.Glob

/-- `(matched, err)` of `doublestar.Match`: `bad` = `ErrBadPattern`. -/
inductive Res | yes | no | bad
  deriving DecidableEq, Repr

structure St where
  pi : Nat            -- patIdx
  ni : Nat            -- nameIdx
  dsP : Option Nat    -- doublestarPatternBacktrack (none = -1)
  dsN : Nat           -- doublestarNameBacktrack
  stP : Option Nat    -- starPatternBacktrack (none = -1)
  stN : Nat           -- starNameBacktrack
  sos : Bool          -- startOfSegment
  deriving Repr

/-- Index of the first '/' at or after `i`, as the position *after* it. -/
def nextAfterSlash (name : Array Char) : Nat → Nat → Option Nat
  | 0, _ => none
  | fuel + 1, i =>
    if h : i < name.size then
      if name[i] = '/' then some (i + 1) else nextAfterSlash name fuel (i + 1)
    else none

/-- Outcome of one iteration of the `MATCH:` loop. -/
inductive Step
  | continue (s : St)
  | done (r : Res)

/-- `if validate && patIdx < patLen && !doValidatePattern(pattern[patIdx:])`. -/
def failWith (pat : Array Char) (pi : Nat) : Res :=
  if pi < pat.size ∧ !valid (pat.toList.drop pi) then .bad else .no

/-- The backtracking tail of the loop body (reached by `break` out of the
switch or when the pattern is exhausted while the name is not). `s.pi` is the
pattern index at the time of the `break`. -/
def backtrack (pat name : Array Char) (s : St) : Step :=
  let tryDoublestar : Step :=
    match s.dsP with
    | some dp =>
      match nextAfterSlash name (name.size + 1) s.dsN with
      | some k => .continue { s with ni := k, dsN := k, pi := dp, sos := true }
      | none => .done (failWith pat s.pi)
    | none => .done (failWith pat s.pi)
  match s.stP with
  | some sp =>
    -- `*` backtrack, but only if the name rune at starNameBacktrack is not the separator
    if name.getD s.stN 'x' ≠ '/' then
      let stN' := if s.stN < name.size then s.stN + 1 else s.stN
      .continue { s with stN := stN', pi := sp, ni := stN', sos := false }
    else tryDoublestar
  | none => tryDoublestar

/-- The `case '['` arm. -/
def classStep (pat name : Array Char) (s : St) (n : Char) : Step :=
  let after := pat.toList.drop (s.pi + 1)
  -- `if patIdx++; patIdx >= patLen`: class didn't end
  if after = [] then .done .bad else
  let (neg, body) := classHead after
  match body with
  | [] => .done .bad
  | d :: _ =>
    if d = ']' then .done .bad else
    let idx (rest : Str) : Nat := pat.size - rest.length
    match classScan n body none none with
    | .ranOff => .done .bad
    | .closed rest =>
      -- no item matched; patIdx stands on the closing bracket
      if neg then .continue { s with pi := idx rest, ni := s.ni + 1, sos := false }
      else backtrack pat name { s with pi := idx rest - 1, sos := false }
    | .matchedAt r =>
      if neg then
        -- matched == negate: failed to match; bad only if the pattern ended here
        if r = [] then .done .bad
        else backtrack pat name { s with pi := idx r, sos := false }
      else
        match skipClass r with
        | none => .done .bad
        | some rest => .continue { s with pi := idx rest, ni := s.ni + 1, sos := false }

/-- One iteration with `nameIdx < nameLen`. -/
def step (pat name : Array Char) (s : St) : Step :=
  if s.pi < pat.size then
    let c := pat.getD s.pi ' '
    let n := name.getD s.ni ' '
    if c = '*' then
      let pi1 := s.pi + 1
      if pi1 < pat.size ∧ pat.getD pi1 ' ' = '*' then
        let pi2 := pi1 + 1
        if s.sos ∧ pi2 ≥ pat.size then .done .yes
        else if s.sos ∧ pat.getD pi2 ' ' = '/' then
          .continue { s with pi := pi2 + 1, dsP := some (pi2 + 1), dsN := s.ni, stP := none, stN := 0 }
        else .continue { s with pi := pi2, stP := some pi2, stN := s.ni, sos := false }
      else .continue { s with pi := pi1, stP := some pi1, stN := s.ni, sos := false }
    else if c = '?' then
      if n = '/' then backtrack pat name { s with sos := false }
      else .continue { s with pi := s.pi + 1, ni := s.ni + 1, sos := false }
    else if c = '[' then classStep pat name s n
    else
      if c = n then .continue { s with pi := s.pi + 1, ni := s.ni + 1, sos := c = '/' }
      else backtrack pat name s
  else backtrack pat name s

/-- `isZeroLengthPattern(pattern[patIdx:], …, validate)`. -/
def atEnd (pat : Array Char) (pi : Nat) : Res :=
  let rest := pat.toList.drop pi
  if zeroLength rest then .yes
  else if !valid rest then .bad else .no

def run (pat name : Array Char) : Nat → St → Option Res
  | 0, _ => none
  | fuel + 1, s =>
    if s.ni < name.size then
      match step pat name s with
      | .done r => some r
      | .continue s' => run pat name fuel s'
    else some (atEnd pat s.pi)

/-- `doublestar.Match(pattern, name)`; `none` = the fuel bound was too small
(never observed; the driver prints it as such). -/
def dsMatch? (pattern name : Str) : Option Res :=
  let pat := pattern.toArray
  let nm := name.toArray
  run pat nm ((pat.size + 2) * (nm.size + 2) * (nm.size + 2) + 8)
    { pi := 0, ni := 0, dsP := none, dsN := 0, stP := none, stN := 0, sos := true }

/-- `match, _ := doublestar.Match(pattern, name)`: the error is discarded. -/
def dsMatch (pattern name : Str) : Bool := dsMatch? pattern name = some .yes

/-- `_, err := doublestar.Match(pattern, name); err != nil`. -/
def dsErr (pattern name : Str) : Bool := dsMatch? pattern name = some .bad

end Mutagen.Model.Doublestar
