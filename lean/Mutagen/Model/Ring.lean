/-
Model of pkg/multiplexing/ring/buffer.go (core Lean only).

The Go loops are mirrored one iteration at a time (`writeStep`, `readStep`, …)
and iterated with explicit fuel; every iteration that continues makes
progress, so the fuel chosen by the wrappers is never the reason a loop stops
(theorems in `Mutagen.Proofs.Ring`).

External `io.Reader` / `io.Writer` peers are modelled as scripts: a list of
responses, one consumed per call, each saying how many bytes the peer moved
(clamped to what it was offered, as the io contracts require) and whether it
returned an error. An exhausted script answers `(0, EOF)` for readers and
`(0, errShort)` for writers; the harness' scripted peers do the same.
-/
namespace Mutagen.Model.Ring

inductive Err | none | full | eof | peer
  deriving DecidableEq, Repr

structure Buffer where
  storage : List UInt8
  size : Nat
  start : Nat
  used : Nat
  deriving Repr

/-- `NewBuffer(size)`; negative sizes are clamped by the caller (size is `Nat`). -/
def new (size : Nat) : Buffer :=
  { storage := List.replicate size 0, size := size, start := 0, used := 0 }

def Buffer.free (b : Buffer) : Nat := b.size - b.used

def Buffer.reset (b : Buffer) : Buffer := { b with start := 0, used := 0 }

/-- `copy(storage[at:], data)` restricted to `n` bytes. -/
def blit (storage : List UInt8) (pos : Nat) (data : List UInt8) : List UInt8 :=
  storage.take pos ++ data ++ storage.drop (pos + data.length)

/-- Length of the first contiguous free segment. -/
def Buffer.freeSeg (b : Buffer) : Nat × Nat :=
  let freeStart := (b.start + b.used) % b.size
  (freeStart, min (freeStart + (b.size - b.used)) b.size - freeStart)

/-- Length of the first contiguous data segment. -/
def Buffer.dataSeg (b : Buffer) : Nat := min (b.start + b.used) b.size - b.start

/-- `Write`: loop `for len(data) > 0 && b.used != b.size`. -/
def writeLoop : Nat → Buffer → List UInt8 → Nat → Buffer × List UInt8 × Nat
  | 0, b, data, result => (b, data, result)
  | fuel + 1, b, data, result =>
    if data.length > 0 ∧ b.used ≠ b.size then
      let (freeStart, freeLen) := b.freeSeg
      let chunk := data.take freeLen
      let b' := { b with storage := blit b.storage freeStart chunk, used := b.used + chunk.length }
      writeLoop fuel b' (data.drop chunk.length) (result + chunk.length)
    else (b, data, result)

def Buffer.write (b : Buffer) (data : List UInt8) : Buffer × Nat × Err :=
  let (b', rest, result) := writeLoop (data.length + 1) b data 0
  if rest.length > 0 ∧ b'.used = b'.size then (b', result, .full) else (b', result, .none)

def Buffer.writeByte (b : Buffer) (v : UInt8) : Buffer × Err :=
  if b.used = b.size then (b, .full) else
  let freeStart := (b.start + b.used) % b.size
  ({ b with storage := b.storage.set freeStart v, used := b.used + 1 }, .none)

/-- One scripted reader response: bytes it is willing to deliver, error flag
(`0` none, `1` EOF, `2` other). The reader delivers `min (len resp) (len free)`. -/
structure ReadResp where
  bytes : List UInt8
  err : Err
  deriving Repr

/-- `ReadNFrom` loop: `for n > 0 && b.used != b.size && err == nil`. -/
def readNLoop : List ReadResp → Buffer → Nat → Nat → Err → Buffer × Nat × Nat × Err
  | script, b, n, result, err =>
    if n > 0 ∧ b.used ≠ b.size ∧ err = .none then
      match script with
      | [] =>
        -- exhausted script: reader returns (0, EOF)
        (b, n, result, .eof)
      | r :: rest =>
        let (freeStart, freeLen) := b.freeSeg
        let offer := if freeLen > n then n else freeLen
        let chunk := r.bytes.take offer
        let b' := { b with storage := blit b.storage freeStart chunk, used := b.used + chunk.length }
        readNLoop rest b' (n - chunk.length) (result + chunk.length) r.err
    else (b, n, result, err)
termination_by script => script.length

def Buffer.readNFrom (b : Buffer) (script : List ReadResp) (n : Nat) : Buffer × Nat × Err :=
  let (b', n', result, err) := readNLoop script b n 0 .none
  let err := if n' > 0 ∧ b'.used = b'.size ∧ err = .none then Err.full else err
  let err := if err = .eof ∧ n' = 0 then Err.none else err
  (b', result, err)

/-- `Read` loop: `for len(buffer) > 0 && b.used > 0`. -/
def readLoop : Nat → Buffer → Nat → List UInt8 → Buffer × List UInt8
  | 0, b, _, acc => (b, acc)
  | fuel + 1, b, want, acc =>
    if want > 0 ∧ b.used > 0 then
      let seg := (b.storage.drop b.start).take b.dataSeg
      let chunk := seg.take want
      let b' := { b with start := (b.start + chunk.length) % b.size, used := b.used - chunk.length }
      readLoop fuel b' (want - chunk.length) (acc ++ chunk)
    else (b, acc)

def Buffer.read (b : Buffer) (len : Nat) : Buffer × List UInt8 × Err :=
  if len = 0 then (b, [], .none)
  else if b.used = 0 then (b, [], .eof)
  else
    let (b', out) := readLoop (len + 1) b len []
    let b' := if b'.used = 0 then { b' with start := 0 } else b'
    (b', out, .none)

def Buffer.readByte (b : Buffer) : Buffer × Option UInt8 × Err :=
  if b.used = 0 then (b, none, .eof) else
  let v := b.storage.getD b.start 0
  let b' := { b with start := (b.start + 1) % b.size, used := b.used - 1 }
  let b' := if b'.used = 0 then { b' with start := 0 } else b'
  (b', some v, .none)

/-- One scripted writer response: how many bytes it accepts (clamped to the
offer) and whether it fails. A conforming `io.Writer` that accepts fewer bytes
than offered must return an error; the harness' scripted writer does. -/
structure WriteResp where
  accept : Nat
  fail : Bool
  deriving Repr

/-- `WriteTo` loop: `for b.used > 0 && err == nil`. Returns the bytes handed to
the writer (accepted prefix per call). -/
def writeToLoop : List WriteResp → Buffer → List UInt8 → Err → Buffer × List UInt8 × Err
  | script, b, acc, err =>
    if b.used > 0 ∧ err = .none then
      match script with
      | [] => (b, acc, .peer)
      | r :: rest =>
        let seg := (b.storage.drop b.start).take b.dataSeg
        let n := min r.accept seg.length
        let err' := if r.fail ∨ n < seg.length then Err.peer else Err.none
        let b' := { b with start := (b.start + n) % b.size, used := b.used - n }
        writeToLoop rest b' (acc ++ seg.take n) err'
    else (b, acc, err)
termination_by script => script.length

def Buffer.writeTo (b : Buffer) (script : List WriteResp) : Buffer × List UInt8 × Err :=
  let (b', out, err) := writeToLoop script b [] .none
  let b' := if b'.used = 0 then { b' with start := 0 } else b'
  (b', out, err)

/-- Abstraction: the queue contents, oldest first. -/
def Buffer.abs (b : Buffer) : List UInt8 :=
  ((b.storage.drop b.start) ++ b.storage.take b.start).take b.used

/-- Representation invariant stated in the Go comments. -/
def Buffer.Inv (b : Buffer) : Prop :=
  b.storage.length = b.size ∧ b.used ≤ b.size ∧ (b.start < b.size ∨ (b.size = 0 ∧ b.start = 0))

/-! ### Operations as data (used by the driver and by the trace theorems) -/

inductive Op
  | write (data : List UInt8)
  | writeByte (v : UInt8)
  | read (len : Nat)
  | readByte
  | reset
  | readNFrom (script : List ReadResp) (n : Nat)
  | writeTo (script : List WriteResp)
  deriving Repr

/-- What an operation returns to its caller. -/
inductive Out
  | count (n : Nat) (e : Err)
  | err (e : Err)
  | bytes (l : List UInt8) (e : Err)
  | byte (v : Option UInt8) (e : Err)
  | unit
  deriving Repr, DecidableEq

def Buffer.step (b : Buffer) : Op → Buffer × Out
  | .write d => let (b', n, e) := b.write d; (b', .count n e)
  | .writeByte v => let (b', e) := b.writeByte v; (b', .err e)
  | .read len => let (b', out, e) := b.read len; (b', .bytes out e)
  | .readByte => let (b', v, e) := b.readByte; (b', .byte v e)
  | .reset => (b.reset, .unit)
  | .readNFrom script n => let (b', r, e) := b.readNFrom script n; (b', .count r e)
  | .writeTo script => let (b', out, e) := b.writeTo script; (b', .bytes out e)

def Buffer.run (b : Buffer) : List Op → Buffer × List Out
  | [] => (b, [])
  | op :: ops =>
    let (b', o) := b.step op
    let (b'', os) := b'.run ops
    (b'', o :: os)

/-! ### Specification: a plain bounded FIFO queue

`Write`, `WriteByte`, `Read`, `ReadByte` and `Reset` are functions of the queue
contents. `ReadNFrom` and `WriteTo` hand the peer a buffer whose *length*
depends on the ring layout (the first contiguous segment), so for them the
specification is a relation: each call offers the peer any non-empty window
that fits (at most the remaining request and the free space, resp. a
non-empty prefix of the queue); everything else — what is appended/removed,
the counts, when the loop stops, which error comes out — is fixed by the
queue alone. -/

structure Queue where
  cap : Nat
  data : List UInt8
  deriving Repr

def Queue.new (cap : Nat) : Queue := { cap := cap, data := [] }

def Queue.write (q : Queue) (d : List UInt8) : Queue × Nat × Err :=
  let n := min d.length (q.cap - q.data.length)
  ({ q with data := q.data ++ d.take n }, n, if n < d.length then .full else .none)

def Queue.writeByte (q : Queue) (v : UInt8) : Queue × Err :=
  if q.data.length = q.cap then (q, .full) else ({ q with data := q.data ++ [v] }, .none)

def Queue.read (q : Queue) (len : Nat) : Queue × List UInt8 × Err :=
  if len = 0 then (q, [], .none)
  else if q.data.length = 0 then (q, [], .eof)
  else ({ q with data := q.data.drop len }, q.data.take len, .none)

def Queue.readByte (q : Queue) : Queue × Option UInt8 × Err :=
  match q.data with
  | [] => (q, none, .eof)
  | v :: rest => ({ q with data := rest }, some v, .none)

def Queue.reset (q : Queue) : Queue := { q with data := [] }

/-- The `ReadNFrom` loop on the queue: state `(data, n, result, err)`. -/
inductive Queue.ReadNLoop (cap : Nat) :
    List UInt8 → List ReadResp → Nat → Nat → Err → List UInt8 × Nat × Nat × Err → Prop
  | done {q script n result err} :
      ¬(n > 0 ∧ q.length ≠ cap ∧ err = .none) → ReadNLoop cap q script n result err (q, n, result, err)
  | exhausted {q n result err} :
      (n > 0 ∧ q.length ≠ cap ∧ err = .none) → ReadNLoop cap q [] n result err (q, n, result, .eof)
  | call {q r rest n result err out} (offer : Nat) :
      (n > 0 ∧ q.length ≠ cap ∧ err = .none) →
      1 ≤ offer → offer ≤ n → offer ≤ cap - q.length →
      ReadNLoop cap (q ++ r.bytes.take offer) rest (n - (r.bytes.take offer).length)
        (result + (r.bytes.take offer).length) r.err out →
      ReadNLoop cap q (r :: rest) n result err out

/-- `ReadNFrom` on the queue. -/
def Queue.ReadNFrom (q : Queue) (script : List ReadResp) (n : Nat) (res : Queue × Nat × Err) : Prop :=
  ∃ d n' r e, Queue.ReadNLoop q.cap q.data script n 0 .none (d, n', r, e) ∧
    res = ({ q with data := d }, r,
      let e := if n' > 0 ∧ d.length = q.cap ∧ e = .none then Err.full else e
      if e = .eof ∧ n' = 0 then Err.none else e)

/-- The `WriteTo` loop on the queue: state `(data, handed to the writer, err)`. -/
inductive Queue.WriteToLoop :
    List UInt8 → List WriteResp → List UInt8 → Err → List UInt8 × List UInt8 × Err → Prop
  | done {q script acc err} :
      ¬(q.length > 0 ∧ err = .none) → WriteToLoop q script acc err (q, acc, err)
  | exhausted {q acc err} :
      (q.length > 0 ∧ err = .none) → WriteToLoop q [] acc err (q, acc, .peer)
  | call {q r rest acc err out} (offer : Nat) :
      (q.length > 0 ∧ err = .none) →
      1 ≤ offer → offer ≤ q.length →
      WriteToLoop (q.drop (min r.accept offer)) rest (acc ++ q.take (min r.accept offer))
        (if r.fail ∨ min r.accept offer < offer then Err.peer else Err.none) out →
      WriteToLoop q (r :: rest) acc err out

def Queue.WriteTo (q : Queue) (script : List WriteResp) (res : Queue × List UInt8 × Err) : Prop :=
  ∃ d, Queue.WriteToLoop q.data script [] .none (d, res.2.1, res.2.2) ∧ res.1 = { q with data := d }

/-- `Chunks script d`: `d` is what a scripted reader delivers when successive
calls are handed buffers of some lengths: a concatenation of prefixes of the
responses of a prefix of the script, in order. -/
inductive Chunks : List ReadResp → List UInt8 → Prop
  | nil {script} : Chunks script []
  | cons {r rest d} (k : Nat) : Chunks rest d → Chunks (r :: rest) (r.bytes.take k ++ d)

/-- The queue a buffer represents. -/
def Buffer.toQueue (b : Buffer) : Queue := { cap := b.size, data := b.abs }

/-- One specification step. -/
def Queue.Step (q : Queue) : Op → Queue × Out → Prop
  | .write d, r => r = (let (q', n, e) := q.write d; (q', Out.count n e))
  | .writeByte v, r => r = (let (q', e) := q.writeByte v; (q', Out.err e))
  | .read len, r => r = (let (q', out, e) := q.read len; (q', Out.bytes out e))
  | .readByte, r => r = (let (q', v, e) := q.readByte; (q', Out.byte v e))
  | .reset, r => r = (q.reset, Out.unit)
  | .readNFrom script n, r => ∃ q' c e, q.ReadNFrom script n (q', c, e) ∧ r = (q', Out.count c e)
  | .writeTo script, r => ∃ q' out e, q.WriteTo script (q', out, e) ∧ r = (q', Out.bytes out e)

/-- A specification run producing the given outputs and final queue. -/
inductive Queue.Run : Queue → List Op → Queue → List Out → Prop
  | nil {q} : Run q [] q []
  | cons {q op q' o ops q'' os} : q.Step op (q', o) → Run q' ops q'' os → Run q (op :: ops) q'' (o :: os)

end Mutagen.Model.Ring
