/-
Model of pkg/multiplexing/ring/buffer.go (core Lean only).

The Go loops are mirrored one iteration at a time (`writeStep`, `readStep`, …)
and iterated with explicit fuel; every iteration that continues makes
progress, so the fuel chosen by the wrappers is never the reason a loop stops
(theorems in `Mutagen.Proofs.Ring`).

External `io.Reader` / `io.Writer` peers are modelled as scripts: a list of
responses, one consumed per call, each saying how many bytes the peer moved
(clamped to what it was offered, as the io contracts require) and whether it
returned an error. An exhausted script answers `(0, EOF)` for readers and
`(0, errShort)` for writers; the harness' scripted peers do the same.
-/
namespace Mutagen.Model.Ring

inductive Err | none | full | eof | peer
  deriving DecidableEq, Repr

structure Buffer where
  storage : List UInt8
  size : Nat
  start : Nat
  used : Nat
  deriving Repr

/-- `NewBuffer(size)`; negative sizes are clamped by the caller (size is `Nat`). -/
def new (size : Nat) : Buffer :=
  { storage := List.replicate size 0, size := size, start := 0, used := 0 }

def Buffer.free (b : Buffer) : Nat := b.size - b.used

def Buffer.reset (b : Buffer) : Buffer := { b with start := 0, used := 0 }

/-- `copy(storage[at:], data)` restricted to `n` bytes. -/
def blit (storage : List UInt8) (pos : Nat) (data : List UInt8) : List UInt8 :=
  storage.take pos ++ data ++ storage.drop (pos + data.length)

/-- Length of the first contiguous free segment. -/
def Buffer.freeSeg (b : Buffer) : Nat × Nat :=
  let freeStart := (b.start + b.used) % b.size
  (freeStart, min (freeStart + (b.size - b.used)) b.size - freeStart)

/-- Length of the first contiguous data segment. -/
def Buffer.dataSeg (b : Buffer) : Nat := min (b.start + b.used) b.size - b.start

/-- `Write`: loop `for len(data) > 0 && b.used != b.size`. -/
def writeLoop : Nat → Buffer → List UInt8 → Nat → Buffer × List UInt8 × Nat
  | 0, b, data, result => (b, data, result)
  | fuel + 1, b, data, result =>
    if data.length > 0 ∧ b.used ≠ b.size then
      let (freeStart, freeLen) := b.freeSeg
      let chunk := data.take freeLen
      let b' := { b with storage := blit b.storage freeStart chunk, used := b.used + chunk.length }
      writeLoop fuel b' (data.drop chunk.length) (result + chunk.length)
    else (b, data, result)

def Buffer.write (b : Buffer) (data : List UInt8) : Buffer × Nat × Err :=
  let (b', rest, result) := writeLoop (data.length + 1) b data 0
  if rest.length > 0 ∧ b'.used = b'.size then (b', result, .full) else (b', result, .none)

def Buffer.writeByte (b : Buffer) (v : UInt8) : Buffer × Err :=
  if b.used = b.size then (b, .full) else
  let freeStart := (b.start + b.used) % b.size
  ({ b with storage := b.storage.set freeStart v, used := b.used + 1 }, .none)

/-- One scripted reader response: bytes it is willing to deliver, error flag
(`0` none, `1` EOF, `2` other). The reader delivers `min (len resp) (len free)`. -/
structure ReadResp where
  bytes : List UInt8
  err : Err
  deriving Repr

/-- `ReadNFrom` loop: `for n > 0 && b.used != b.size && err == nil`. -/
def readNLoop : List ReadResp → Buffer → Nat → Nat → Err → Buffer × Nat × Nat × Err
  | script, b, n, result, err =>
    if n > 0 ∧ b.used ≠ b.size ∧ err = .none then
      match script with
      | [] =>
        -- exhausted script: reader returns (0, EOF)
        (b, n, result, .eof)
      | r :: rest =>
        let (freeStart, freeLen) := b.freeSeg
        let offer := if freeLen > n then n else freeLen
        let chunk := r.bytes.take offer
        let b' := { b with storage := blit b.storage freeStart chunk, used := b.used + chunk.length }
        readNLoop rest b' (n - chunk.length) (result + chunk.length) r.err
    else (b, n, result, err)
termination_by script => script.length

def Buffer.readNFrom (b : Buffer) (script : List ReadResp) (n : Nat) : Buffer × Nat × Err :=
  let (b', n', result, err) := readNLoop script b n 0 .none
  let err := if n' > 0 ∧ b'.used = b'.size ∧ err = .none then Err.full else err
  let err := if err = .eof ∧ n' = 0 then Err.none else err
  (b', result, err)

/-- `Read` loop: `for len(buffer) > 0 && b.used > 0`. -/
def readLoop : Nat → Buffer → Nat → List UInt8 → Buffer × List UInt8
  | 0, b, _, acc => (b, acc)
  | fuel + 1, b, want, acc =>
    if want > 0 ∧ b.used > 0 then
      let seg := (b.storage.drop b.start).take b.dataSeg
      let chunk := seg.take want
      let b' := { b with start := (b.start + chunk.length) % b.size, used := b.used - chunk.length }
      readLoop fuel b' (want - chunk.length) (acc ++ chunk)
    else (b, acc)

def Buffer.read (b : Buffer) (len : Nat) : Buffer × List UInt8 × Err :=
  if len = 0 then (b, [], .none)
  else if b.used = 0 then (b, [], .eof)
  else
    let (b', out) := readLoop (len + 1) b len []
    let b' := if b'.used = 0 then { b' with start := 0 } else b'
    (b', out, .none)

def Buffer.readByte (b : Buffer) : Buffer × Option UInt8 × Err :=
  if b.used = 0 then (b, none, .eof) else
  let v := b.storage.getD b.start 0
  let b' := { b with start := (b.start + 1) % b.size, used := b.used - 1 }
  let b' := if b'.used = 0 then { b' with start := 0 } else b'
  (b', some v, .none)

/-- One scripted writer response: how many bytes it accepts (clamped to the
offer) and whether it fails. A conforming `io.Writer` that accepts fewer bytes
than offered must return an error; the harness' scripted writer does. -/
structure WriteResp where
  accept : Nat
  fail : Bool
  deriving Repr

/-- `WriteTo` loop: `for b.used > 0 && err == nil`. Returns the bytes handed to
the writer (accepted prefix per call). -/
def writeToLoop : List WriteResp → Buffer → List UInt8 → Err → Buffer × List UInt8 × Err
  | script, b, acc, err =>
    if b.used > 0 ∧ err = .none then
      match script with
      | [] => (b, acc, .peer)
      | r :: rest =>
        let seg := (b.storage.drop b.start).take b.dataSeg
        let n := min r.accept seg.length
        let err' := if r.fail ∨ n < seg.length then Err.peer else Err.none
        let b' := { b with start := (b.start + n) % b.size, used := b.used - n }
        writeToLoop rest b' (acc ++ seg.take n) err'
    else (b, acc, err)
termination_by script => script.length

def Buffer.writeTo (b : Buffer) (script : List WriteResp) : Buffer × List UInt8 × Err :=
  let (b', out, err) := writeToLoop script b [] .none
  let b' := if b'.used = 0 then { b' with start := 0 } else b'
  (b', out, err)

/-- Abstraction: the queue contents, oldest first. -/
def Buffer.abs (b : Buffer) : List UInt8 :=
  ((b.storage.drop b.start) ++ b.storage.take b.start).take b.used

/-- Representation invariant stated in the Go comments. -/
def Buffer.Inv (b : Buffer) : Prop :=
  b.storage.length = b.size ∧ b.used ≤ b.size ∧ (b.start < b.size ∨ (b.size = 0 ∧ b.start = 0))

end Mutagen.Model.Ring
