/-
Step model of poll-based watching with accelerated scanning in the local
endpoint (pkg/synchronization/endpoint/local/endpoint.go: watchPoll, Scan,
Transition, Poll). Core Lean only.

Atomic steps are the sections executed under the scan lock (a polling scan, a
`Scan` call, the two locked halves of `Transition`), the disk mutations (of the
transition, which runs with the lock released, and of other programs), and the
delivery of the poll signal. The disk is a content identifier (equal
identifiers = equal content, so a modification can *reverse* an earlier one);
`hist` is the ghost history of the disk (newest first), `ver = hist.length` is
the number of disk changes so far, and a snapshot remembers the `ver` at which
it was taken.

`repaired = true` is the behaviour with fixes/C42.patch: the polling scan
compares with the most recent snapshot recorded by *any* scan (and ignores
modifications on its first iteration only when there is none);
`repaired = false` is upstream (the polling goroutine's own `previous`).
-/
namespace Mutagen.Model.PollWatch

structure Snap where
  content : Nat
  ver : Nat
  deriving DecidableEq, Repr

structure St where
  repaired : Bool
  /-- `accelerationAllowed` (scan mode "accelerated"). -/
  allowed : Bool
  disk : Nat
  /-- ghost: earlier disk contents, newest first (`ver = hist.length`). -/
  hist : List Nat
  accelerate : Bool
  /-- `e.snapshot`. -/
  snapshot : Option Snap
  /-- the polling goroutine's locals. -/
  first : Bool
  previous : Nat
  /-- a transition is in progress (lock released): its target content, and
  whether its disk mutation has happened. -/
  trans : Option (Nat × Bool)
  sinceTrans : Bool
  /-- the coalescer holds an undelivered signal. -/
  pending : Bool
  /-- ghost: what the last `Scan` returned. -/
  view : Option Snap
  /-- ghost: a strobe was issued / a signal was delivered since the last `Scan`
  returned. -/
  strobed : Bool
  consumed : Bool
  /-- ghost: `ver` when the last changing transition ended. -/
  tver : Nat
  /-- the root cannot be opened at the moment (e.g. it has been replaced by a
  symbolic link): scans fail. -/
  broken : Bool
  /-- the polling goroutine has decided to strobe (its scan, done under the
  scan lock, saw a modification or failed) but the strobe has not been issued
  and delivered yet: it is issued after the lock is released, and the coalescer
  delivers the signal 20 ms later. -/
  owed : Bool
  deriving DecidableEq, Repr

def St.ver (s : St) : Nat := s.hist.length

/-- Content of the disk at version `v` (`none` for versions yet to come). -/
def St.contentAt (s : St) (v : Nat) : Option Nat := (s.disk :: s.hist).reverse[v]?

def init (repaired allowed : Bool) (disk : Nat) : St :=
  { repaired := repaired, allowed := allowed, disk := disk, hist := [], accelerate := false, snapshot := none,
    first := true, previous := 0, trans := none, sinceTrans := false, pending := false,
    view := none, strobed := false, consumed := false, tver := 0, broken := false, owed := false }

def strobe (s : St) : St := { s with pending := true, strobed := true }

/-- The polling goroutine will strobe as soon as it gets to it. -/
def owe (s : St) : St := { s with owed := true }

/-- The owed strobe is issued and its signal delivered. -/
def deliver (s : St) : St := if s.owed then strobe { s with owed := false } else s

def setDisk (s : St) (c : Nat) : St := { s with disk := c, hist := s.disk :: s.hist }

/-- The content a polling scan compares its result with. -/
def tickBaseline (s : St) : Nat :=
  if s.repaired then
    match s.snapshot with
    | some sn => sn.content
    | none => s.previous
  else s.previous

/-- Whether a polling scan ignores modifications (first iteration: the baseline
is zero-valued). -/
def tickIgnore (s : St) : Bool :=
  if s.repaired then
    match s.snapshot with
    | some _ => false
    | none => s.first
  else s.first

/-- One iteration of the polling loop (the timer fired, or the first pass). -/
def tick (s : St) : St :=
  -- e.accelerate = false; e.scan(...); e.accelerate = e.accelerationAllowed
  let s1 := { s with first := false, snapshot := some ⟨s.disk, s.ver⟩, accelerate := s.allowed, previous := s.disk }
  if s.disk ≠ tickBaseline s ∧ tickIgnore s = false then owe s1 else s1

/-- An iteration of the polling loop whose scan fails: acceleration stays off,
the poll signal is strobed ("the controller can then perform a full scan"), and
the loop goes on polling. -/
def tickFail (s : St) : St := owe { s with first := false, accelerate := false }

/-- `Scan(full)`: returns the snapshot handed to the controller. -/
def scan (s : St) (full : Bool) : St × Snap :=
  let s1 : St :=
    if s.accelerate ∧ ¬ full then s   -- poll mode: re-use the existing snapshot
    else { s with snapshot := some ⟨s.disk, s.ver⟩ }
  let sn := s1.snapshot.getD ⟨s.disk, s.ver⟩
  ({ s1 with sinceTrans := true, view := some sn, strobed := false, consumed := false }, sn)

/-- First locked half of `Transition`: the guards. -/
def transBegin (s : St) (target : Nat) : Option St :=
  if s.trans.isSome then none
  else if !s.sinceTrans then none
  else some { s with sinceTrans := false, trans := some (target, false) }

/-- The transition's disk mutation (lock released). -/
def transApply (s : St) : Option St :=
  match s.trans with
  | some (target, false) => some { setDisk s target with trans := some (target, true) }
  | _ => none

/-- An entry as `Transition` sees it: the kind of its root and everything below
it. Two entries are *shallowly* equal when their roots have the same kind. -/
structure Ent where
  kind : Nat
  below : List (String × Nat)
  deriving DecidableEq, Repr

def shallowEq (a b : Option Ent) : Bool := a.map (·.kind) == b.map (·.kind)

/-- The bookkeeping at the end of `Transition`, given whether the transition
made changes on disk. -/
def transFinish (s : St) (made : Bool) : St :=
  let s1 := { s with trans := none }
  let s2 := if s1.accelerate ∧ made then { s1 with accelerate := false } else s1
  if made then { strobe s2 with tver := s2.ver } else s2

/-- Second locked half of `Transition`. "The transition made changes" means:
some result differs from the transition's old entry **at any depth** (a
partially applied directory removal returns the reduced directory, which has
the same root kind as the old entry). `core.Transition`'s contract ties this to
the disk: if it changed the disk, the results differ from the old entries (the
converse can fail: expected content that another program already removed is
reported as removed). Acceleration is switched off and the poll signal is
strobed iff the results differ. -/
def transEnd (s : St) (olds results : List (Option Ent)) : Option (St × Bool) :=
  match s.trans with
  | some (_, applied) =>
    let made := decide (results ≠ olds)
    if applied && !made then none else some (transFinish s made, made)
  | none => none

/-- Another program modifies the root. -/
def edit (s : St) (c : Nat) : St := setDisk s c

/-- `Poll` returns: the signal is consumed. -/
def pollReturn (s : St) : Option St :=
  if s.pending then some { s with pending := false, consumed := true } else none

inductive Label
  | tick
  | scan (full : Bool) (result : Nat)
  | transBegin (target : Nat)
  | transApply
  | transEnd (made : Bool)
  | edit (c : Nat)
  | poll
  | setBroken (b : Bool)
  | deliver
  deriving DecidableEq, Repr

/-- The step relation (a `Scan` or a polling scan needs the scan lock, which a
transition holds only in its two halves, modelled as atomic). -/
inductive Step : St → Label → St → Prop
  | tick (s) : s.broken = false → Step s .tick (tick s)
  | tickFail (s) : s.broken = true → Step s .tick (tickFail s)
  | setBroken (s b) : Step s (.setBroken b) { s with broken := b }
  | deliver (s) : Step s .deliver (deliver s)
  | scan (s full) : s.trans = none → s.broken = false → Step s (.scan full (scan s full).2.content) (scan s full).1
  | transBegin (s c s') : transBegin s c = some s' → Step s (.transBegin c) s'
  | transApply (s s') : transApply s = some s' → Step s .transApply s'
  | transEnd (s s' made olds results) : transEnd s olds results = some (s', made) → Step s (.transEnd made) s'
  | edit (s c) : Step s (.edit c) (edit s c)
  | poll (s s') : pollReturn s = some s' → Step s .poll s'

/-- Runs: sequences of steps with their labels. -/
inductive Run : St → List Label → St → Prop
  | nil (s) : Run s [] s
  | snoc {s tr s' l s''} : Run s tr s' → Step s' l s'' → Run s (tr ++ [l]) s''

end Mutagen.Model.PollWatch
