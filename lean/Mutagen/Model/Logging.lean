import Mutagen.Generated.Facts
/-!
Model of the logging path (core Lean only):

* `pkg/platform/terminal/neutralization.go` — `NeutralizeControlCharacters`
  (a `strings.NewReplacer` with single-byte keys: a per-byte substitution);
* `pkg/stream/line_processor.go` — `LineProcessor.Write` (buffer limit check,
  the `for` loop over `bytes.IndexByte(remaining, '\n')`, `trimCarriageReturn`,
  leftover kept in the buffer);
* `pkg/logging/logger.go` — `write`, `log`/`logf`, `Sublogger`, and the callback
  of `Logger.Writer` (prefix regular expression, level gate, scope injection).

Strings are byte lists (Go strings are byte sequences; every operation used
here is byte-wise). The timestamp text is a parameter (`time.Now()` /
`time.Format` are outside the model). A panic is `none`.
-/
namespace Mutagen.Model.Logging

abbrev Bytes := List UInt8

def LF : UInt8 := 10
def CR : UInt8 := 13
def ESC : UInt8 := 27

/-- ASCII string literal as bytes. -/
def ascii (s : String) : Bytes := s.toList.map fun c => UInt8.ofNat c.toNat

/-- `strings.IndexByte` / `bytes.IndexByte`. -/
def indexByte : Bytes → UInt8 → Option Nat
  | [], _ => none
  | x :: xs, b => if x = b then some 0 else (indexByte xs b).map (· + 1)

/-! ## terminal.NeutralizeControlCharacters -/

/-- The replacement table of `controlCharacterNeutralizer`. -/
def neutralizeByte (b : UInt8) : Bytes :=
  if b = ESC then [94, 91]        -- "^["
  else if b = CR then [92, 114]   -- "\\r"
  else [b]

def neutralize (s : Bytes) : Bytes := s.flatMap neutralizeByte

/-! ## stream.LineProcessor -/

/-- `trimCarriageReturn`. -/
def trimCR (b : Bytes) : Bytes :=
  if b.getLast? = some CR then b.dropLast else b

theorem drop_lt_of_index (remaining : Bytes) (i : Nat) (h : indexByte remaining LF = some i) :
    (remaining.drop (i + 1)).length < remaining.length := by
  induction remaining generalizing i with
  | nil => simp [indexByte] at h
  | cons x xs ih =>
    simp only [List.length_drop, List.length_cons]
    omega

/-- The `for` loop of `Write`: callback arguments in order, and what remains. -/
def splitLoop (remaining : Bytes) : List Bytes × Bytes :=
  match h : indexByte remaining LF with
  | none => ([], remaining)
  | some index =>
    let line := trimCR (remaining.take index)
    let (ls, rest) := splitLoop (remaining.drop (index + 1))
    (line :: ls, rest)
termination_by remaining.length
decreasing_by exact drop_lt_of_index remaining index h

structure LineProcessor where
  /-- `MaximumBufferSize` (0 = default, negative = unlimited). -/
  max : Int
  buffer : Bytes
  deriving Repr

/-- `Write`: new state, callback lines, and `some len(data)` or `none` for
`ErrMaximumBufferSizeExceeded` (then `n = 0`). -/
def LineProcessor.write (p : LineProcessor) (data : Bytes) : LineProcessor × List Bytes × Option Nat :=
  let total : Int := (p.buffer.length + data.length : Nat)
  if p.max = 0 ∧ total > (Mutagen.Facts.lineProcessorDefaultMaximumBufferSize : Nat) then (p, [], none)
  else if p.max > 0 ∧ total > p.max then (p, [], none)
  else
    let (ls, rest) := splitLoop (p.buffer ++ data)
    ({ p with buffer := rest }, ls, some data.length)

/-! ## logging.Level -/

def levelDisabled : Nat := 0
def levelError : Nat := 1
def levelWarn : Nat := 2
def levelInfo : Nat := 3
def levelDebug : Nat := 4
def levelTrace : Nat := 5

def abbreviations : Bytes := ascii Mutagen.Facts.loggingAbbreviations

/-- `Level.abbreviation`. -/
def levelAbbreviation (l : Nat) : UInt8 :=
  if l ≤ levelTrace then abbreviations.getD l 63 else 63  -- '?'

/-- `abbreviationToLevel`. -/
def abbreviationToLevel (b : UInt8) : Option Nat := indexByte abbreviations b

/-! ## Logger.write -/

/-- `"...\n"`. -/
def ellipsis : Bytes := [46, 46, 46, 10]

/-- `fmt.Sprintf("%s [%c] [%s] %s", …)` / `fmt.Sprintf("%s [%c] %s", …)` up to the message. -/
def recordPrefix (scope ts : Bytes) (level : Nat) : Bytes :=
  if scope ≠ [] then
    ts ++ [32, 91, levelAbbreviation level, 93, 32, 91] ++ scope ++ [93, 32]
  else
    ts ++ [32, 91, levelAbbreviation level, 93, 32]

/-- First step of `write`: truncate at a carriage return. -/
def truncateCR (message : Bytes) : Bytes :=
  match indexByte message CR with
  | some index => message.take index ++ ellipsis
  | none => message

/-- Second step of `write`: the only newline must be the last byte (`none` = panic). -/
def truncateLF (message : Bytes) : Option Bytes :=
  match indexByte message LF with
  | none => none
  | some index =>
    if index ≠ message.length - 1 then some (message.take index ++ ellipsis) else some message

/-- `(*Logger).write`: the bytes handed to the sink, `none` = panic. -/
def write (scope ts : Bytes) (level : Nat) (message : Bytes) : Option Bytes :=
  match truncateLF (truncateCR message) with
  | none => none
  | some message => some (neutralize (recordPrefix scope ts level ++ message))

/-! ## Logger -/

structure Logger where
  isNil : Bool
  level : Nat
  scope : Bytes
  deriving Repr

def newLogger (level : Nat) : Logger := { isNil := false, level := level, scope := [] }

def nilLogger : Logger := { isNil := true, level := 0, scope := [] }

/-- `log(level, s)` with a single string operand (`fmt.Sprintln(s) = s + "\n"`)
and `logf(level, "%s", s)` (`fmt.Sprintf("%s\n", s)`): records written. -/
def Logger.log (l : Logger) (now : Bytes) (level : Nat) (msg : Bytes) : Option (List Bytes) :=
  if !l.isNil ∧ l.level ≥ level then
    (write l.scope now level (msg ++ [LF])).map fun r => [r]
  else some []

/-- `[[:word:]]`. -/
def isWord (b : UInt8) : Bool :=
  (48 ≤ b ∧ b ≤ 57) ∨ (65 ≤ b ∧ b ≤ 90) ∨ (97 ≤ b ∧ b ≤ 122) ∨ b = 95

/-- `nameMatcher` = `^[[:word:]]+$`. -/
def nameMatches (name : Bytes) : Bool := name ≠ [] ∧ name.all isWord

def invalidNameWarning : Bytes := ascii "attempt to create sublogger with invalid name"

/-- `Sublogger(name)`: the new logger and the records written meanwhile. -/
def Logger.sublogger (l : Logger) (now : Bytes) (name : Bytes) : Logger × Option (List Bytes) :=
  if l.isNil then (nilLogger, some [])
  else if !nameMatches name then (nilLogger, l.log now levelWarn invalidNameWarning)
  else
    let scope := if l.scope ≠ [] then l.scope ++ [46] ++ name else name
    ({ isNil := false, level := l.level, scope := scope }, some [])

/-! ## linePrefixMatcher -/

inductive Pat
  | digit
  | lit (b : UInt8)
  | cls (bs : Bytes)
  deriving Repr

def Pat.accepts : Pat → UInt8 → Bool
  | .digit, b => 48 ≤ b ∧ b ≤ 57
  | .lit c, b => b = c
  | .cls bs, b => bs.contains b

def Pat.isCls : Pat → Bool
  | .cls _ => true
  | _ => false

/-- Anchored match of a sequence of single-byte patterns: the matched prefix. -/
def matchPats : List Pat → Bytes → Option Bytes
  | [], _ => some []
  | _ :: _, [] => none
  | p :: ps, b :: bs => if p.accepts b then (matchPats ps bs).map (b :: ·) else none

def digits (n : Nat) : List Pat := List.replicate n .digit

/-- `^\d{4}-\d{2}-\d{2} \d{2}:\d{2}:\d{2}\.\d{6} \[([` + abbreviations + `])\] ` -/
def linePrefixPattern : List Pat :=
  digits 4 ++ [.lit 45] ++ digits 2 ++ [.lit 45] ++ digits 2 ++ [.lit 32] ++
  digits 2 ++ [.lit 58] ++ digits 2 ++ [.lit 58] ++ digits 2 ++ [.lit 46] ++ digits 6 ++
  [.lit 32, .lit 91, .cls abbreviations, .lit 93, .lit 32]

/-- `FindStringSubmatch`: `matches[0]` and the byte captured by group 1. -/
def matchLinePrefix (line : Bytes) : Option (Bytes × UInt8) :=
  match matchPats linePrefixPattern line with
  | none => none
  | some m => some (m, m.getD (linePrefixPattern.findIdx Pat.isCls) 0)

/-! ## Logger.Writer -/

def invalidLevelWarning : Bytes := ascii "<invalid incoming log line level>"

/-- The `Callback` of `Logger.Writer(level)` for one line (logger non-nil). -/
def Logger.relayLine (l : Logger) (now : Bytes) (level : Nat) (line : Bytes) : Option (List Bytes) :=
  match matchLinePrefix line with
  | none => l.log now level line
  | some (m, cap) =>
    match abbreviationToLevel cap with
    | none => l.log now levelWarn invalidLevelWarning
    | some lineLevel =>
      if l.level < lineLevel then some []
      else
        let out :=
          if l.scope ≠ [] then m ++ [91] ++ l.scope ++ [93, 32] ++ line.drop m.length ++ [LF]
          else line ++ [LF]
        some [neutralize out]

/-- Callback over the lines of one `Write`, in order; a panic aborts. -/
def Logger.relayLines (l : Logger) (now : Bytes) (level : Nat) : List Bytes → Option (List Bytes)
  | [] => some []
  | line :: rest =>
    match l.relayLine now level line with
    | none => none
    | some r =>
      match l.relayLines now level rest with
      | none => none
      | some rs => some (r ++ rs)

/-- State of the `io.Writer` returned by `Logger.Writer(level)`: `io.Discard`
for a nil logger, else a `LineProcessor`. -/
structure RelayWriter where
  logger : Logger
  level : Nat
  lp : LineProcessor
  deriving Repr

def Logger.writer (l : Logger) (level : Nat) : RelayWriter :=
  { logger := l, level := level, lp := { max := 0, buffer := [] } }

/-- One `Write(data)` on the relay writer: state, records (`none` = panic), result. -/
def RelayWriter.write (w : RelayWriter) (now : Bytes) (data : Bytes) :
    RelayWriter × Option (List Bytes) × Option Nat :=
  if w.logger.isNil then (w, some [], some data.length)
  else
    let (lp', lines, res) := w.lp.write data
    ({ w with lp := lp' }, w.logger.relayLines now w.level lines, res)

end Mutagen.Model.Logging
