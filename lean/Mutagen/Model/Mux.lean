/-
Message-level model of the stream multiplexer (pkg/multiplexing: multiplexer.go,
stream.go, protocol.go, configuration.go), core Lean only.

Two `Side`s, one FIFO of wire messages per direction (`Net`). Every function
below is the critical section of one piece of the Go code:

* `Side.deliver`        – one iteration of `Multiplexer.read` (the reader
                          goroutine), transcribed check by check, in order;
* `Side.enq*`/`flush*`  – `Multiplexer.enqueue` (the state accumulation
                          goroutine: pending window increments, close-writes,
                          closes; a close cancels the other two);
* `Side.openStream`, `openWait`, `acceptOne` – `OpenStream`, `acceptOneStream`;
* `Side.read`, `writePre`, `writeLoop` – `Stream.Read`, `Stream.Write`;
* `Side.markClosedWrite` … `finishClose` – `Stream.closeWrite` / `Stream.close`
  split at the points where they wait for the deadline-timer semaphores;
* `Side.setReadDeadline` …  – `setStreamDeadline`.

The per-stream receive buffer (`ring.Buffer`, modelled and proved to be a
bounded FIFO in `Model/Ring.lean` / C26) is abstracted to its queue contents
`recvBuf` with capacity `recvCap`.

Go channels/`select` are abstracted to atomic steps: a blocked call is a call
whose function returns `.block`; it is re-evaluated after every event.

The model describes the code *with `fixes/C24.patch` applied*:
(1) `Stream.Read` enqueues a window increment only when it consumed data (the
    unrepaired code enqueues `windowIncrement{id, 0}` for a zero-length read,
    which the peer's reader rejects: "zero-valued window increment received");
(2) `OpenStream` allocates the stream identifier and queues the open message in
    one critical section (the unrepaired code allocates under `streamLock` but
    transmits outside of it, so concurrent opens can reach the wire out of
    order: "remote stream identifiers not monotonically increasing").
-/
import Mutagen.Generated.Facts
namespace Mutagen.Model.Mux

/-- `math.MaxUint64`. -/
def maxU64 : Nat := 2 ^ 64 - 1

/-! ## Wire messages (protocol.go) -/

inductive Kind | heartbeat | open | accept | data | incr | closeWrite | close
  deriving DecidableEq, Repr

/-- Numbering of `messageKind` (regenerated from protocol.go). -/
def Kind.wire : Kind → Nat
  | .heartbeat => Facts.muxKindHeartbeat
  | .open => Facts.muxKindOpen
  | .accept => Facts.muxKindAccept
  | .data => Facts.muxKindData
  | .incr => Facts.muxKindWindowIncrement
  | .closeWrite => Facts.muxKindCloseWrite
  | .close => Facts.muxKindClose

/-- `if kind > messageKindStreamClose { return "received unknown message kind" }`. -/
def Kind.ofWire (n : Nat) : Option Kind :=
  if n > Facts.muxKindClose then none
  else if n = Facts.muxKindHeartbeat then some .heartbeat
  else if n = Facts.muxKindOpen then some .open
  else if n = Facts.muxKindAccept then some .accept
  else if n = Facts.muxKindData then some .data
  else if n = Facts.muxKindWindowIncrement then some .incr
  else if n = Facts.muxKindCloseWrite then some .closeWrite
  else if n = Facts.muxKindClose then some .close
  else none

inductive Msg
  | heartbeat
  | open (id win : Nat)
  | accept (id win : Nat)
  | data (id : Nat) (bytes : List UInt8)
  | incr (id amt : Nat)
  | closeWrite (id : Nat)
  | close (id : Nat)
  deriving DecidableEq, Repr

def Msg.id : Msg → Nat
  | .heartbeat => 0
  | .open id _ | .accept id _ | .data id _ | .incr id _ | .closeWrite id | .close id => id

def Msg.kind : Msg → Kind
  | .heartbeat => .heartbeat | .open .. => .open | .accept .. => .accept | .data .. => .data
  | .incr .. => .incr | .closeWrite .. => .closeWrite | .close .. => .close

/-- A decoded frame as read off the carrier: numeric kind, stream identifier,
numeric argument (window / increment), payload. -/
structure Frame where
  kind : Nat
  id : Nat
  arg : Nat
  bytes : List UInt8
  deriving DecidableEq, Repr

def Msg.toFrame : Msg → Frame
  | .heartbeat => ⟨Kind.heartbeat.wire, 0, 0, []⟩
  | .open id w => ⟨Kind.open.wire, id, w, []⟩
  | .accept id w => ⟨Kind.accept.wire, id, w, []⟩
  | .data id bs => ⟨Kind.data.wire, id, 0, bs⟩
  | .incr id a => ⟨Kind.incr.wire, id, a, []⟩
  | .closeWrite id => ⟨Kind.closeWrite.wire, id, 0, []⟩
  | .close id => ⟨Kind.close.wire, id, 0, []⟩

/-- `none` = "received unknown message kind". -/
def Frame.toMsg (f : Frame) : Option Msg :=
  match Kind.ofWire f.kind with
  | none => none
  | some .heartbeat => some .heartbeat
  | some .open => some (.open f.id f.arg)
  | some .accept => some (.accept f.id f.arg)
  | some .data => some (.data f.id f.bytes)
  | some .incr => some (.incr f.id f.arg)
  | some .closeWrite => some (.closeWrite f.id)
  | some .close => some (.close f.id)

/-- Every `return errors.New(…)` of the reader loop that blames the remote. -/
inductive Reject
  | unknownKind | zeroId | openOutboundId | openNotMonotone | acceptInboundId
  | unopenedInbound | unusedOutbound | acceptTwice | acceptAfterClose
  | zeroLengthData | dataPartial | dataAfterCloseWrite | dataAfterClose | windowViolated
  | zeroIncrement | incrPartialOutbound | incrAfterClose | incrOverflow
  | cwPartialOutbound | cwAfterClose | cwTwice | closeTwice
  /-- not a protocol violation: the carrier failed / the peer went away -/
  | carrier
  deriving DecidableEq, Repr

/-! ## Local state -/

/-- `Stream` (stream.go). Channels that are only ever closed are Booleans. -/
structure Stream where
  established : Bool := false
  remoteClosedWrite : Bool := false
  remoteClosed : Bool := false
  closedWrite : Bool := false
  closed : Bool := false
  /-- present in `Multiplexer.streams` -/
  registered : Bool := true
  sendWindow : Nat := 0
  recvBuf : List UInt8 := []
  recvCap : Nat := 0
  readExpired : Bool := false
  writeExpired : Bool := false
  /-- armed read/write deadline timers (absolute model time) -/
  readTimer : Option Nat := none
  writeTimer : Option Nat := none
  /-- ghost (not in the Go code): every byte `Write` has put on the wire / every
  byte `Read` has returned, oldest first; used to state C23 -/
  sent : List UInt8 := []
  got : List UInt8 := []
  deriving Repr

/-- `Multiplexer` + the local variables of its goroutines. -/
structure Side where
  even : Bool
  /-- `configuration.StreamReceiveWindow` (normalised) -/
  window : Nat
  /-- `configuration.AcceptBacklog` (normalised) -/
  backlogCap : Nat
  nextOut : Nat
  /-- `largestOpenedInboundStreamIdentifier` (reader goroutine) -/
  largestIn : Nat := 0
  /-- every stream object created on this side (`registered` says whether it is still in `m.streams`) -/
  streams : Nat → Option Stream := fun _ => none
  /-- `pendingInboundStreamIdentifiers` -/
  backlog : List Nat := []
  /-- `windowIncrements`, `writeCloses`, `closes` of the enqueue goroutine -/
  pendIncr : Nat → Option Nat := fun _ => none
  pendCW : Nat → Bool := fun _ => false
  pendClose : Nat → Bool := fun _ => false
  closedMux : Bool := false
  internalErr : Option Reject := none

/-- `Configuration.normalize` + `Multiplex`. -/
def Side.new (even : Bool) (window backlog : Int) : Side :=
  { even := even
    window := if window < 0 then 0 else window.toNat
    backlogCap := if backlog ≤ 0 then 1 else backlog.toNat
    nextOut := if even then 2 else 1 }

def Side.setStream (s : Side) (id : Nat) (st : Stream) : Side :=
  { s with streams := fun j => if j = id then some st else s.streams j }

/-- `m.streams[id]` -/
def Side.lookup (s : Side) (id : Nat) : Option Stream :=
  match s.streams id with
  | some st => if st.registered then some st else none
  | none => none

/-- `m.even == (streamIdentifier%2 == 0)` -/
def Side.isOutbound (s : Side) (id : Nat) : Bool := s.even == (id % 2 == 0)

/-- `newStream` -/
def Side.newStream (s : Side) : Stream := { recvCap := s.window }

/-! ## The enqueue goroutine -/

def Side.enqIncr (s : Side) (id amt : Nat) : Side :=
  if s.closedMux then s else
  { s with pendIncr := fun j => if j = id then some ((s.pendIncr id).getD 0 + amt) else s.pendIncr j }

def Side.enqCW (s : Side) (id : Nat) : Side :=
  if s.closedMux then s else
  { s with pendCW := fun j => if j = id then true else s.pendCW j }

def Side.enqClose (s : Side) (id : Nat) : Side :=
  if s.closedMux then s else
  { s with pendIncr := fun j => if j = id then none else s.pendIncr j
           pendCW := fun j => if j = id then false else s.pendCW j
           pendClose := fun j => if j = id then true else s.pendClose j }

def Side.flushIncr (s : Side) (id : Nat) : Side × List Msg :=
  match s.pendIncr id with
  | some a => ({ s with pendIncr := fun j => if j = id then none else s.pendIncr j }, [.incr id a])
  | none => (s, [])

def Side.flushCW (s : Side) (id : Nat) : Side × List Msg :=
  if s.pendCW id then ({ s with pendCW := fun j => if j = id then false else s.pendCW j }, [.closeWrite id])
  else (s, [])

def Side.flushClose (s : Side) (id : Nat) : Side × List Msg :=
  if s.pendClose id then ({ s with pendClose := fun j => if j = id then false else s.pendClose j }, [.close id])
  else (s, [])

/-! ## The reader goroutine: one loop iteration of `Multiplexer.read` -/

/-- The window update of `messageKindStreamWindowIncrement`. -/
def applyIncrement (st : Stream) (amt : Nat) : Except Reject Stream :=
  if st.sendWindow = 0 then .ok { st with sendWindow := amt }
  else if maxU64 - st.sendWindow < amt then .error .incrOverflow
  else .ok { st with sendWindow := st.sendWindow + amt }

def Side.deliver (s : Side) (m : Msg) : Except Reject Side :=
  match m with
  | .heartbeat => .ok s
  | .open id win =>
    if id = 0 then .error .zeroId
    else if s.isOutbound id then .error .openOutboundId
    else if id ≤ s.largestIn then .error .openNotMonotone
    else
      let s := { s with largestIn := id }
      if s.backlog.length = s.backlogCap then .ok (s.enqClose id)
      else
        let st : Stream := { s.newStream with sendWindow := win }
        .ok { s.setStream id st with backlog := s.backlog ++ [id] }
  | .accept id win =>
    if id = 0 then .error .zeroId
    else if !s.isOutbound id then .error .acceptInboundId
    else if s.nextOut ≠ 0 ∧ id ≥ s.nextOut then .error .unusedOutbound
    else match s.lookup id with
      | none => .ok s
      | some st =>
        if st.established then .error .acceptTwice
        else if st.remoteClosed then .error .acceptAfterClose
        else .ok (s.setStream id { st with sendWindow := win, established := true })
  | .data id bytes =>
    if id = 0 then .error .zeroId
    else if !s.isOutbound id ∧ id > s.largestIn then .error .unopenedInbound
    else if s.isOutbound id ∧ s.nextOut ≠ 0 ∧ id ≥ s.nextOut then .error .unusedOutbound
    else if bytes.length = 0 then .error .zeroLengthData
    else match s.lookup id with
      | none => .ok s
      | some st =>
        if !st.established then .error .dataPartial
        else if st.remoteClosedWrite then .error .dataAfterCloseWrite
        else if st.remoteClosed then .error .dataAfterClose
        else if st.recvCap - st.recvBuf.length < bytes.length then .error .windowViolated
        else .ok (s.setStream id { st with recvBuf := st.recvBuf ++ bytes })
  | .incr id amt =>
    if id = 0 then .error .zeroId
    else if !s.isOutbound id ∧ id > s.largestIn then .error .unopenedInbound
    else if s.isOutbound id ∧ s.nextOut ≠ 0 ∧ id ≥ s.nextOut then .error .unusedOutbound
    else if amt = 0 then .error .zeroIncrement
    else match s.lookup id with
      | none => .ok s
      | some st =>
        if s.isOutbound id ∧ !st.established then .error .incrPartialOutbound
        else if st.remoteClosed then .error .incrAfterClose
        else match applyIncrement st amt with
          | .error e => .error e
          | .ok st' => .ok (s.setStream id st')
  | .closeWrite id =>
    if id = 0 then .error .zeroId
    else if !s.isOutbound id ∧ id > s.largestIn then .error .unopenedInbound
    else if s.isOutbound id ∧ s.nextOut ≠ 0 ∧ id ≥ s.nextOut then .error .unusedOutbound
    else match s.lookup id with
      | none => .ok s
      | some st =>
        if s.isOutbound id ∧ !st.established then .error .cwPartialOutbound
        else if st.remoteClosed then .error .cwAfterClose
        else if st.remoteClosedWrite then .error .cwTwice
        else .ok (s.setStream id { st with remoteClosedWrite := true })
  | .close id =>
    if id = 0 then .error .zeroId
    else if !s.isOutbound id ∧ id > s.largestIn then .error .unopenedInbound
    else if s.isOutbound id ∧ s.nextOut ≠ 0 ∧ id ≥ s.nextOut then .error .unusedOutbound
    else match s.lookup id with
      | none => .ok s
      | some st =>
        if st.remoteClosed then .error .closeTwice
        else .ok (s.setStream id { st with remoteClosed := true })

/-- Frame-level entry point: unknown kinds are rejected before anything else. -/
def Side.deliverFrame (s : Side) (f : Frame) : Except Reject Side :=
  match f.toMsg with
  | none => .error .unknownKind
  | some m => s.deliver m

/-! ## Closing (stream.go `closeWrite` / `close`) -/

/-- `close(s.closedWrite)` -/
def Side.markClosedWrite (s : Side) (id : Nat) : Side :=
  match s.streams id with
  | some st => s.setStream id { st with closedWrite := true }
  | none => s

/-- `close(s.closed)` -/
def Side.markClosed (s : Side) (id : Nat) : Side :=
  match s.streams id with
  | some st => s.setStream id { st with closed := true }
  | none => s

/-- `delete(s.multiplexer.streams, s.identifier)` -/
def Side.deregister (s : Side) (id : Nat) : Side :=
  match s.streams id with
  | some st => s.setStream id { st with registered := false }
  | none => s

/-- `Stream.closeWrite(send)` as one step (idempotent through `closeWriteOnce`). -/
def Side.closeWrite (s : Side) (id : Nat) (send : Bool) : Side :=
  match s.streams id with
  | some st =>
    if st.closedWrite then s
    else
      let s := s.markClosedWrite id
      if send then s.enqCW id else s
  | none => s

/-- `Stream.close(send)` up to and including the enqueueing of the close message. -/
def Side.closeBegin (s : Side) (id : Nat) (send : Bool) : Side :=
  let s := s.closeWrite id false
  match s.streams id with
  | some st =>
    if st.closed then s
    else
      let s := s.markClosed id
      if send then s.enqClose id else s
  | none => s

/-- `Stream.close(send)` as one step. -/
def Side.close (s : Side) (id : Nat) (send : Bool) : Side :=
  match s.streams id with
  | some st => if st.closed then s else (s.closeBegin id send).deregister id
  | none => s

/-! ## OpenStream / AcceptStream (multiplexer.go) -/

inductive OpenRes | started (id : Nat) | exhausted | muxClosed
  deriving DecidableEq, Repr

/-- `OpenStream` up to the point where the open message is queued (repaired:
identifier allocation, registration and queueing are one critical section). -/
def Side.openStream (s : Side) : Side × List Msg × OpenRes :=
  if s.closedMux then (s, [], .muxClosed)
  else if s.nextOut = 0 then (s, [], .exhausted)
  else
    let id := s.nextOut
    let s' := { s.setStream id s.newStream with
                nextOut := if maxU64 - id < 2 then 0 else id + 2 }
    (s', [.open id s.window], .started id)

inductive OpenWait | ok | rejected | canceled | muxClosed | block
  deriving DecidableEq, Repr

/-- The second `select` of `OpenStream` and its deferred `stream.close(true)`. -/
def Side.openWait (s : Side) (id : Nat) (canceled : Bool) : Side × OpenWait :=
  match s.streams id with
  | none => (s, .block)
  | some st =>
    if st.established then (s, .ok)
    else if st.remoteClosed then (s.close id true, .rejected)
    else if canceled then (s.close id true, .canceled)
    else if s.closedMux then (s.close id true, .muxClosed)
    else (s, .block)

inductive AcceptRes | ok (id : Nat) | stale (id : Nat) | canceled | muxClosed | block
  deriving DecidableEq, Repr

/-- `acceptOneStream`; `goStale` resolves the `select` between a free write
buffer and `remoteClosed` when both are ready. -/
def Side.acceptOne (s : Side) (goStale : Bool) (canceled : Bool) : Side × List Msg × AcceptRes :=
  match s.backlog with
  | [] =>
    if canceled then (s, [], .canceled)
    else if s.closedMux then (s, [], .muxClosed)
    else (s, [], .block)
  | id :: rest =>
    let s := { s with backlog := rest }
    match s.streams id with
    | none => (s, [], .block)
    | some st =>
      if st.remoteClosed ∧ goStale then (s.close id true, [], .stale id)
      else (s.setStream id { st with established := true }, [.accept id s.window], .ok id)

/-! ## Stream.Read / Stream.Write -/

inductive ReadRes | data (bs : List UInt8) | eof | closed | muxClosed | deadline | block | noStream
  deriving DecidableEq, Repr

/-- `Stream.Read(buffer)` with `len(buffer) = n` at model time `now`. -/
def Side.read (s : Side) (id n now : Nat) : Side × ReadRes :=
  match s.streams id with
  | none => (s, .noStream)
  | some st =>
    if st.closed then (s, .closed)
    else if s.closedMux then (s, .muxClosed)
    else if st.readExpired then (s, .deadline)
    else if st.readTimer.any (· ≤ now) then
      (s.setStream id { st with readExpired := true, readTimer := none }, .deadline)
    else if st.recvBuf ≠ [] then
      let out := st.recvBuf.take n
      let s := s.setStream id { st with recvBuf := st.recvBuf.drop n, got := st.got ++ out }
      -- repaired: `if count > 0 { enqueueWindowIncrement <- … }`
      let s := if out.length > 0 then s.enqIncr id out.length else s
      (s, .data out)
    else if st.remoteClosedWrite ∨ st.remoteClosed then (s, .eof)
    else (s, .block)

inductive WriteErr | ok | closed | writeClosed | muxClosed | remoteClosed | deadline
  deriving DecidableEq, Repr

/-- The persistent-error cascade, the acquisition of the write deadline timer
and the deadline checks at the top of `Stream.Write` (also the exits of its
inner `select` when re-evaluated while blocked). -/
def Side.writePre (s : Side) (id now : Nat) : Side × Option WriteErr :=
  match s.streams id with
  | none => (s, some .closed)
  | some st =>
    if st.closed then (s, some .closed)
    else if st.closedWrite then (s, some .writeClosed)
    else if s.closedMux then (s, some .muxClosed)
    else if st.remoteClosed then (s, some .remoteClosed)
    else if st.writeExpired then (s, some .deadline)
    else if st.writeTimer.any (· ≤ now) then
      (s.setStream id { st with writeExpired := true, writeTimer := none }, some .deadline)
    else (s, none)

/-- One iteration of `for len(data) > 0` once a window and a write buffer are
there: `window := min(sendWindow, len(data), maximumStreamDataBlockSize)`. -/
def Side.writeChunk (s : Side) (id : Nat) (data : List UInt8) : Side × List Msg × List UInt8 :=
  match s.streams id with
  | none => (s, [], data)
  | some st =>
    let w := min st.sendWindow (min data.length Facts.muxMaximumStreamDataBlockSize)
    if w = 0 then (s, [], data)
    else (s.setStream id { st with sendWindow := st.sendWindow - w, sent := st.sent ++ data.take w },
          [.data id (data.take w)], data.drop w)

/-- The data loop of `Stream.Write`: chunks until the data is exhausted or the
send window is (returns the unsent rest; non-empty rest = blocked on window). -/
def Side.writeLoop : Nat → Side → Nat → List UInt8 → List Msg → Side × List Msg × List UInt8
  | 0, s, _, data, acc => (s, acc, data)
  | fuel + 1, s, id, data, acc =>
    if data = [] then (s, acc, data) else
    match s.writeChunk id data with
    | (_, [], _) => (s, acc, data)
    | (s', ms, rest) => Side.writeLoop fuel s' id rest (acc ++ ms)

/-! ## Deadlines (`setStreamDeadline`) -/

inductive Deadline | zero | past | future (t : Nat)
  deriving DecidableEq, Repr

def Side.setReadDeadline (s : Side) (id : Nat) (d : Deadline) : Side × Bool :=
  match s.streams id with
  | none => (s, false)
  | some st =>
    if st.closed then (s, false)
    else
      let st := { st with readTimer := none }
      let st := match d with
        | .zero => { st with readExpired := false }
        | .past => { st with readExpired := true }
        | .future t => { st with readTimer := some t }
      (s.setStream id st, true)

def Side.setWriteDeadline (s : Side) (id : Nat) (d : Deadline) : Side × Bool :=
  match s.streams id with
  | none => (s, false)
  | some st =>
    if st.closedWrite then (s, false)
    else
      let st := { st with writeTimer := none }
      let st := match d with
        | .zero => { st with writeExpired := false }
        | .past => { st with writeExpired := true }
        | .future t => { st with writeTimer := some t }
      (s.setStream id st, true)

/-! ## The two sides and the wires -/

inductive Who | a | b
  deriving DecidableEq, Repr

def Who.peer : Who → Who
  | .a => .b
  | .b => .a

structure Net where
  a : Side
  b : Side
  /-- messages in flight from `a` to `b` / from `b` to `a`, oldest first -/
  ab : List Msg := []
  ba : List Msg := []

def Net.side (n : Net) : Who → Side
  | .a => n.a
  | .b => n.b

def Net.setSide (n : Net) (w : Who) (s : Side) : Net :=
  match w with
  | .a => { n with a := s }
  | .b => { n with b := s }

/-- wire carrying messages *to* `w` -/
def Net.inbox (n : Net) : Who → List Msg
  | .a => n.ba
  | .b => n.ab

def Net.setInbox (n : Net) (w : Who) (q : List Msg) : Net :=
  match w with
  | .a => { n with ba := q }
  | .b => { n with ab := q }

/-- append to the wire *from* `w` -/
def Net.send (n : Net) (w : Who) (ms : List Msg) : Net :=
  match w with
  | .a => { n with ab := n.ab ++ ms }
  | .b => { n with ba := n.ba ++ ms }

/-- `closeWithError`: the carrier is closed, the peer's reader fails. -/
def Net.fail (n : Net) (w : Who) (e : Option Reject) : Net :=
  let s := n.side w
  let p := n.side w.peer
  let n := n.setSide w (if s.closedMux then s else { s with closedMux := true, internalErr := e })
  n.setSide w.peer (if p.closedMux then p else { p with closedMux := true, internalErr := some .carrier })

/-- Deliver the oldest in-flight message to `w`'s reader. Returns the
rejection reason if the reader treats it as a protocol violation. -/
def Net.deliver (n : Net) (w : Who) : Net × Option Reject :=
  match n.inbox w with
  | [] => (n, none)
  | m :: rest =>
    let n := n.setInbox w rest
    if (n.side w).closedMux then (n, none) else
    match (n.side w).deliver m with
    | .ok s => (n.setSide w s, none)
    | .error e => (n.fail w (some e), some e)

def Net.init (windowA backlogA windowB backlogB : Int) : Net :=
  { a := Side.new false windowA backlogA, b := Side.new true windowB backlogB }

end Mutagen.Model.Mux
