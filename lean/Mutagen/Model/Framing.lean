import Mutagen.Generated.Facts
/-
Model of the control-stream framing (core Lean only):

* pkg/encoding/protobuf.go — `ProtobufEncoder.Encode` (uvarint length prefix
  `protowire.AppendVarint` + payload, one `Write`) and `ProtobufDecoder.Decode`
  (`binary.ReadUvarint`, the size limit, `io.ReadFull`, unmarshal);
* pkg/stream/multi_flusher.go — `multiFlusher.Flush`;
* the outbound pipeline of pkg/synchronization/endpoint/remote: encoder →
  bufio.Writer → compressor → bufio.Writer → transport, flushed top-down by
  the multi-flusher. Each layer is a buffer that may hold everything it was
  given until it is flushed (the least a peer can rely on); the compression
  layer is the identity on bytes with such a buffer (the flush barrier).

A reader is a list of fragments still to arrive, then EOF: `Read` returns at
most the rest of the current fragment, `ReadByte` its first byte, `io.ReadFull`
loops. Messages are their marshalled payloads; marshal/unmarshal are
parameters.

`uint64` arithmetic in `ReadUvarint` is written with `+`/`*` on `Nat`: the
guards of the Go loop keep every intermediate value below 2^64 and the or-ed
bit ranges are disjoint, so `|`/`<<` and `+`/`* 2^s` coincide.
-/
namespace Mutagen.Model.Framing

abbrev Bytes := List UInt8

/-- `protobufDecoderMaximumAllowedMessageSize`. -/
def maxMessageSize : Nat := Mutagen.Facts.encodingProtobufDecoderMaximumAllowedMessageSize

-- Varints -----------------------------------------------------------------------

/-- `protowire.AppendVarint(nil, v)`. -/
def appendVarint (v : Nat) : Bytes :=
  if h : v < 128 then [UInt8.ofNat v]
  else UInt8.ofNat (v % 128 + 128) :: appendVarint (v / 128)
termination_by v
decreasing_by omega

/-- `binary.MaxVarintLen64`. -/
def maxVarintLen64 : Nat := 10

inductive ReadErr | eof | ueof | overflow
  deriving DecidableEq, Repr

/-- A reader: fragments still to arrive, then EOF. -/
structure Src where
  chunks : List Bytes
  deriving Repr

def Src.size (s : Src) : Nat := s.chunks.flatten.length

/-- `ReadByte`. -/
def readByteL : List Bytes → Option (UInt8 × List Bytes)
  | [] => none
  | [] :: cs => readByteL cs
  | (b :: c) :: cs => some (b, c :: cs)

def Src.readByte (s : Src) : Option (UInt8 × Src) :=
  (readByteL s.chunks).map fun (b, cs) => (b, ⟨cs⟩)

/-- The loop of `binary.ReadUvarint`, `fuel = MaxVarintLen64 - i`. -/
def readUvarintLoop : Nat → Nat → Nat → Nat → Src → Src × Except ReadErr Nat
  | 0, _, _, _, src => (src, .error .overflow)
  | fuel + 1, i, x, s, src =>
    match src.readByte with
    | none => (src, .error (if i > 0 then .ueof else .eof))
    | some (b, src') =>
      if b.toNat < 0x80 then
        if i = maxVarintLen64 - 1 ∧ b.toNat > 1 then (src', .error .overflow)
        else (src', .ok (x + b.toNat * 2 ^ s))
      else readUvarintLoop fuel (i + 1) (x + (b.toNat % 128) * 2 ^ s) (s + 7) src'

def readUvarint (src : Src) : Src × Except ReadErr Nat :=
  readUvarintLoop maxVarintLen64 0 0 0 src

-- io.ReadFull -------------------------------------------------------------------

/-- The `Read` loop of `io.ReadFull(r, buf[:n])`: what was read, what is left. -/
def readFullL : List Bytes → Nat → Bytes × List Bytes
  | [], _ => ([], [])
  | c :: cs, n =>
    if n = 0 then ([], c :: cs)
    else if c.length ≤ n then
      let (got, rest) := readFullL cs (n - c.length)
      (c ++ got, rest)
    else (c.take n, c.drop n :: cs)

def Src.readFull (s : Src) (n : Nat) : Src × Except ReadErr Bytes :=
  let (got, rest) := readFullL s.chunks n
  if got.length = n then (⟨rest⟩, .ok got)
  else if got.length = 0 then (⟨rest⟩, .error .eof)
  else (⟨rest⟩, .error .ueof)

-- ProtobufDecoder.Decode / ProtobufEncoder.Encode -------------------------------

inductive DecErr
  | lenEof | lenUeof | lenOverflow | tooLarge | msgEof | msgUeof | unmarshal
  deriving DecidableEq, Repr

/-- `ProtobufDecoder.Decode`. -/
def decode {α : Type} (unmarshal : Bytes → Option α) (src : Src) : Src × Except DecErr α :=
  match readUvarint src with
  | (src, .error .eof) => (src, .error .lenEof)
  | (src, .error .ueof) => (src, .error .lenUeof)
  | (src, .error .overflow) => (src, .error .lenOverflow)
  | (src, .ok length) =>
    if length > maxMessageSize then (src, .error .tooLarge) else
    match src.readFull length with
    | (src, .error .eof) => (src, .error .msgEof)
    | (src, .error _) => (src, .error .msgUeof)
    | (src, .ok messageBytes) =>
      match unmarshal messageBytes with
      | none => (src, .error .unmarshal)
      | some m => (src, .ok m)

/-- Repeated `Decode` until the first error (`fuel` bounds the number of messages). -/
def decodeMany {α : Type} (unmarshal : Bytes → Option α) : Nat → Src → List α → List α × DecErr × Src
  | 0, src, acc => (acc.reverse, .lenEof, src)
  | fuel + 1, src, acc =>
    match decode unmarshal src with
    | (src', .ok m) => decodeMany unmarshal fuel src' (m :: acc)
    | (src', .error e) => (acc.reverse, e, src')

/-- Decode everything a reader delivers: every successful `Decode` consumes at
least one byte, so `size + 1` rounds are enough to reach the first error. -/
def decodeAll {α : Type} (unmarshal : Bytes → Option α) (src : Src) : List α × DecErr × Src :=
  decodeMany unmarshal (src.size + 1) src []

/-- Exactly `n` calls of `Decode` (fewer if one fails). -/
def decodeN {α : Type} (unmarshal : Bytes → Option α) : Nat → Src → List α → List α × Option DecErr × Src
  | 0, src, acc => (acc.reverse, none, src)
  | n + 1, src, acc =>
    match decode unmarshal src with
    | (src', .ok m) => decodeN unmarshal n src' (m :: acc)
    | (src', .error e) => (acc.reverse, some e, src')

/-- What `Encode` hands to its writer in one `Write`: the size prefix and the payload. -/
def frame (payload : Bytes) : Bytes := appendVarint payload.length ++ payload

/-- A writer that accepts `wcap` more bytes (`none`: unlimited). -/
structure Sink where
  wcap : Option Nat
  got : Bytes
  deriving Repr

def Sink.write (w : Sink) (data : Bytes) : Sink × Bool :=
  match w.wcap with
  | none => ({ w with got := w.got ++ data }, true)
  | some c =>
    if data.length ≤ c then ({ got := w.got ++ data, wcap := some (c - data.length) }, true)
    else ({ got := w.got ++ data.take c, wcap := some 0 }, false)

/-- `ProtobufEncoder.Encode` (marshalling never fails for the messages used). -/
def encode {α : Type} (marshal : α → Bytes) (w : Sink) (m : α) : Sink × Bool :=
  w.write (frame (marshal m))

-- multiFlusher.Flush ------------------------------------------------------------

/-- `for _, flusher := range f.flushers { if err := flusher.Flush(); err != nil { return err } }`:
a flusher is a state transformer that reports an error tag or `none`. -/
def multiFlush {σ ε : Type} : List (σ → σ × Option ε) → σ → σ × Option ε
  | [], s => (s, none)
  | f :: fs, s =>
    match f s with
    | (s', some e) => (s', some e)
    | (s', none) => multiFlush fs s'

-- The outbound pipeline -----------------------------------------------------------

structure TxPipe where
  outbound : Bytes            -- bufio.Writer in front of the compressor
  compressor : Bytes          -- accepted by the compressor, not yet emitted
  compressedOutbound : Bytes  -- bufio.Writer in front of the transport
  wire : Bytes                -- handed to the transport
  deriving Repr

def TxPipe.empty : TxPipe := ⟨[], [], [], []⟩

/-- A `Write` into the top of the pipeline (the encoder's writer). -/
def TxPipe.write (p : TxPipe) (data : Bytes) : TxPipe := { p with outbound := p.outbound ++ data }

def flushOutbound (p : TxPipe) : TxPipe × Option Unit :=
  ({ p with outbound := [], compressor := p.compressor ++ p.outbound }, none)

def flushCompressor (p : TxPipe) : TxPipe × Option Unit :=
  ({ p with compressor := [], compressedOutbound := p.compressedOutbound ++ p.compressor }, none)

def flushCompressedOutbound (p : TxPipe) : TxPipe × Option Unit :=
  ({ p with compressedOutbound := [], wire := p.wire ++ p.compressedOutbound }, none)

/-- `NewMultiFlusher(outbound, compressor, compressedOutbound).Flush()`. -/
def TxPipe.flush (p : TxPipe) : TxPipe × Option Unit :=
  multiFlush [flushOutbound, flushCompressor, flushCompressedOutbound] p

/-- Everything the pipeline was given and has not delivered yet, in order. -/
def TxPipe.pending (p : TxPipe) : Bytes := p.compressedOutbound ++ p.compressor ++ p.outbound

-- Fragmentation -------------------------------------------------------------------

/-- Cut a byte string into fragments of the given sizes (cycled; size 0 is read
as 1), the way a transport may deliver it. -/
def fragment : Nat → List Nat → List Nat → Bytes → List Bytes
  | 0, _, _, _ => []
  | _ + 1, _, _, [] => []
  | fuel + 1, all, [], bs => if all.isEmpty then [bs] else fragment fuel all all bs
  | fuel + 1, all, k :: ks, bs =>
    let k := if k = 0 then 1 else k
    bs.take k :: fragment fuel all ks (bs.drop k)

def fragments (sizes : List Nat) (bs : Bytes) : List Bytes := fragment (2 * bs.length + 2) sizes sizes bs

end Mutagen.Model.Framing
