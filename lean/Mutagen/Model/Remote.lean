import Mutagen.Model.Entry
import Mutagen.Model.Reconcile
import Mutagen.Model.SyncCycle
/-
Model of the remote endpoint protocol (core Lean only, executable).

  /repo/pkg/synchronization/endpoint/remote/client.go
    Scan         232-387   (`clientBaseline`, `clientScan`)
    Stage        390-442   (`clientStage`)
    Transition   484-570   (`clientTransition`)
    Poll/Scan/Transition request–completion–response interleaving (`Wire`)
  /repo/pkg/synchronization/endpoint/remote/server.go
    serveScan    276-361   (`serveScan`)
    serveStage   364-410   (`serveStage`)
    serveTransition 433-517 (`serveTransition`)
  /repo/pkg/synchronization/endpoint/remote/protocol.go
    StageRequest.ensureValid 162-199, StageResponse.ensureValid 202-241,
    TransitionRequest.ensureValid 266-282, TransitionResponse.ensureValid 297-327

External parts are parameters: the rsync engine (`Codec`: signature, deltify,
patch — property C19 proves `patch ∘ deltify = id` for the real engine),
Protocol Buffers marshalling (snapshots are opaque byte strings with a
"content is non-nil" flag and a validity flag), compression and framing (C22:
every flushed message is delivered intact and in order), and the underlying
local endpoint (its return values are inputs).
-/
namespace Mutagen.Model.Remote

abbrev Bytes := List UInt8

/-! ## Snapshot transfer -/

/-- The rsync engine as used by `Scan`/`serveScan` (block size 0 = optimal,
no maximum data operation size). -/
structure Codec (Sig Delta : Type) where
  sign : Bytes → Sig
  deltify : Bytes → Sig → Delta
  patch : Bytes → Sig → Delta → Option Bytes

/-- C19: patching the signed base with the delta of a target gives the target. -/
def Codec.Exact {Sig Delta : Type} (c : Codec Sig Delta) : Prop :=
  ∀ base target, c.patch base (c.sign base) (c.deltify target (c.sign base)) = some target

/-- The trivial exact codec used by the model driver. -/
def Codec.trivial : Codec Unit Bytes where
  sign := fun _ => ()
  deltify := fun target _ => target
  patch := fun _ _ d => some d

/-- What the underlying endpoint's `Scan` returns on the server: an error with
its try-again flag, or a snapshot (marshalled deterministically). -/
inductive ScanOutcome
  | error (tryAgain : Bool)
  | snapshot (bytes : Bytes)
  deriving Repr, Inhabited

/-- `ScanResponse`. -/
inductive ScanResponse (Delta : Type)
  | error (tryAgain : Bool)
  | delta (d : Delta)

/-- server.go:301-327: the response to a scan request carrying `sig`. -/
def serveScan {Sig Delta : Type} (c : Codec Sig Delta) (outcome : ScanOutcome) (sig : Sig) : ScanResponse Delta :=
  match outcome with
  | .error tryAgain => .error tryAgain
  | .snapshot bytes => .delta (c.deltify bytes sig)

/-- The client's memory between scans: `lastSnapshotBytes`. -/
structure Client where
  last : Option Bytes := none
  deriving Repr, Inhabited

/-- client.go:240-255: last snapshot bytes if any, else the ancestor-based snapshot. -/
def clientBaseline (st : Client) (ancestorBytes : Bytes) : Bytes :=
  match st.last with
  | some b => b
  | none => ancestorBytes

/-- What `Scan` returns on the client. -/
inductive ScanResult
  | ok (bytes : Bytes)
  | remoteError (tryAgain : Bool)
  | patchFailed
  | invalidSnapshot
  deriving DecidableEq, Repr, Inhabited

/-- client.go:329-386: handling of the response. `valid` = unmarshalling
succeeds and `Snapshot.EnsureValid` holds; `hasContent` = `snapshot.Content != nil`. -/
def clientScan {Sig Delta : Type} (c : Codec Sig Delta) (valid hasContent : Bytes → Bool)
    (st : Client) (ancestorBytes : Bytes) (resp : ScanResponse Delta) : ScanResult × Client :=
  let baseline := clientBaseline st ancestorBytes
  match resp with
  | .error tryAgain => (.remoteError tryAgain, st)
  | .delta d =>
    match c.patch baseline (c.sign baseline) d with
    | none => (.patchFailed, st)
    | some bytes =>
      if !valid bytes then (.invalidSnapshot, st)
      else (.ok bytes, if hasContent bytes then { last := some bytes } else st)

/-- One scan through client and server: the request carries the signature of
the client's baseline. -/
def remoteScan {Sig Delta : Type} (c : Codec Sig Delta) (valid hasContent : Bytes → Bool)
    (st : Client) (ancestorBytes : Bytes) (outcome : ScanOutcome) : ScanResult × Client :=
  let sig := c.sign (clientBaseline st ancestorBytes)
  clientScan c valid hasContent st ancestorBytes (serveScan c outcome sig)

/-- What the same endpoint returns when used locally (validity is checked by
the remote client only; a local endpoint's snapshots are valid). -/
def localScan : ScanOutcome → ScanResult
  | .error tryAgain => .remoteError tryAgain
  | .snapshot bytes => .ok bytes

/-- What the remote client must return for an endpoint outcome: the local
result, except that snapshots failing the client's validation are refused. -/
def expectedScan (valid : Bytes → Bool) : ScanOutcome → ScanResult
  | .error t => .remoteError t
  | .snapshot b => if valid b then .ok b else .invalidSnapshot

/-- A history of scans: `(ancestor bytes, server outcome)` per scan. -/
def scanHistory {Sig Delta : Type} (c : Codec Sig Delta) (valid hasContent : Bytes → Bool) :
    Client → List (Bytes × ScanOutcome) → List ScanResult × Client
  | st, [] => ([], st)
  | st, (anc, o) :: rest =>
    let (r, st') := remoteScan c valid hasContent st anc o
    let (rs, st'') := scanHistory c valid hasContent st' rest
    (r :: rs, st'')

/-- Delta application is exact for one (base, target) pair. -/
def ExactFor {Sig Delta : Type} (c : Codec Sig Delta) (base target : Bytes) : Prop :=
  c.patch base (c.sign base) (c.deltify target (c.sign base)) = some target

/-- The snapshots the server marshals in a history. -/
def historyTargets (hist : List (Bytes × ScanOutcome)) : List Bytes :=
  hist.filterMap fun h => match h.2 with | .snapshot b => some b | .error _ => none

/-- Every byte string that can serve as the client's baseline in a history:
what it holds initially, the ancestor-based snapshots, and the snapshots it
receives. -/
def historyBases (st : Client) (hist : List (Bytes × ScanOutcome)) : List Bytes :=
  st.last.toList ++ hist.map (·.1) ++ historyTargets hist

/-! ## Staging -/

/-- `StageResponse` with signatures abstracted to their validity. -/
structure StageResponse where
  paths : List String := []
  signatures : List Bool := []     -- `true` = `Signature.EnsureValid` holds
  error : Bool := false            -- `Error != ""`
  deriving DecidableEq, Repr, Inhabited

/-- What the underlying endpoint's `Stage` returns. -/
inductive StageOutcome
  | error
  | need (paths : List String) (signatures : List Bool)
  deriving Repr, Inhabited

/-- protocol.go:162-199 `StageRequest.ensureValid`. -/
def stageRequestValid (paths : List String) (digests : Nat) : Bool :=
  !paths.isEmpty && digests == paths.length

/-- server.go:371-394: the response, with the all-paths shorthand. -/
def serveStage (request : List String) : StageOutcome → StageResponse
  | .error => { error := true }
  | .need paths sigs =>
    { paths := if paths.length == request.length then [] else paths, signatures := sigs }

/-- protocol.go:202-241 `StageResponse.ensureValid(paths)`. -/
def stageResponseValid (request : List String) (r : StageResponse) : Bool :=
  let p := r.paths.length
  let s := r.signatures.length
  -- 210-216
  if p == 0 && s > 0 && s != request.length then false
  else
    let p := if p == 0 && s > 0 then s else p
    -- 217-221
    if p != s then false
    else if p > request.length then false
    -- 224-228
    else if !r.signatures.all id then false
    -- 231-235
    else if r.error && r.paths.length > 0 then false
    else true

/-- What `Stage` returns to the controller. -/
inductive StageResult
  | localError            -- path/digest count mismatch (client.go:392-393)
  | nothing               -- nil, nil, nil, nil
  | requestRejected       -- the server rejects the request and hangs up
  | invalidResponse
  | remoteError
  | need (paths : List String) (signatures : List Bool)
  deriving DecidableEq, Repr, Inhabited

/-- client.go:390-442 `Stage` on a given response. -/
def clientStage (request : List String) (r : StageResponse) : StageResult :=
  if !stageResponseValid request r then .invalidResponse
  else if r.error then .remoteError
  else
    -- 421-424
    let required := if r.paths.length == 0 && r.signatures.length > 0 then request else r.paths
    -- 428-430
    if required.length == 0 then .nothing
    else .need required r.signatures

/-- `Stage` through client and server. -/
def remoteStage (request : List String) (digests : Nat) (outcome : StageOutcome) : StageResult :=
  if digests != request.length then .localError
  else if request.length == 0 then .nothing
  else if !stageRequestValid request digests then .requestRejected
  else clientStage request (serveStage request outcome)

/-- What the same endpoint returns when used locally (an endpoint that has
nothing to stage returns empty lists; the controller treats `nil` and empty
alike). -/
def localStage : StageOutcome → StageResult
  | .error => .remoteError
  | .need paths sigs => if paths.length == 0 then .nothing else .need paths sigs

/-! ## Transitions -/

/-- protocol.go:266-282 `TransitionRequest.ensureValid`. -/
def transitionRequestValid (ts : List Change) : Bool := ts.all (·.ensureValid true)

/-- What the underlying endpoint's `Transition` returns. -/
inductive TransitionOutcome
  | error
  | done (results : List (Option Entry)) (problems : List (Path × String)) (missingFiles : Bool)
  deriving Repr, Inhabited

inductive TransitionResult
  | requestRejected       -- the server rejects the request and hangs up
  | invalidResponse
  | remoteError
  | done (results : List (Option Entry)) (problems : List (Path × String)) (missingFiles : Bool)
  deriving Repr, Inhabited

/-- protocol.go:297-327 `TransitionResponse.ensureValid(expectedCount)` on a
non-error response. -/
def transitionResponseValid (expected : Nat) (results : List (Option Entry)) (problems : List (Path × String)) : Bool :=
  results.length == expected && results.all (oensureValid true) && problems.all (fun p => p.2 != "")

/-- `Transition` through client (client.go:484-570) and server (433-517). -/
def remoteTransition (ts : List Change) (outcome : TransitionOutcome) : TransitionResult :=
  if !transitionRequestValid ts then .requestRejected
  else match outcome with
    | .error =>
      -- an error response carries no results: `ensureValid(len(transitions))` fails unless there are none
      if transitionResponseValid ts.length [] [] then .remoteError else .invalidResponse
    | .done results problems missing =>
      if !transitionResponseValid ts.length results problems then .invalidResponse
      else .done results problems missing

/-! ## Request / completion / response interleaving (Poll, Scan, Transition)

One cancellable operation. The client writes the request, then two goroutines
run: one writes the completion request once the completion context is done
(the caller's context was cancelled, or the response has arrived), the other
reads the response. The server, having read the request, runs two goroutines:
one reads the completion request and cancels the operation, the other runs the
operation and writes the response. Each direction is a FIFO stream (C22/C23). -/

inductive Msg | request | completion | response
  deriving DecidableEq, Repr, Inhabited

structure Wire where
  /-- client → server stream, oldest first -/
  c2s : List Msg := []
  /-- server → client stream, oldest first -/
  s2c : List Msg := []
  /-- the caller's context is cancelled -/
  ctxCancelled : Bool := false
  requestSent : Bool := false
  completionSent : Bool := false
  responseReceived : Bool := false
  requestReceived : Bool := false
  completionReceived : Bool := false
  /-- the server-side operation has returned (by itself or because cancelled) -/
  operationDone : Bool := false
  responseSent : Bool := false
  /-- a decoder read a message of the wrong type -/
  misaligned : Bool := false
  deriving DecidableEq, Repr, Inhabited

inductive Step
  | sendRequest | cancelContext | sendCompletion | receiveResponse
  | receiveRequest | receiveCompletion | finishOperation | sendResponse
  deriving DecidableEq, Repr, Inhabited

/-- The step is enabled in the state. -/
def Step.enabled (w : Wire) : Step → Bool
  | .sendRequest => !w.requestSent
  | .cancelContext => !w.ctxCancelled
  -- client.go: `<-completionCtx.Done()` then encode: the completion context is
  -- done when the caller's is, or after the response has been received (`cancel()`)
  | .sendCompletion => w.requestSent && !w.completionSent && (w.ctxCancelled || w.responseReceived)
  | .receiveResponse => w.requestSent && !w.responseReceived && !w.s2c.isEmpty
  | .receiveRequest => !w.requestReceived && !w.c2s.isEmpty
  | .receiveCompletion => w.requestReceived && !w.completionReceived && !w.c2s.isEmpty
  -- the operation returns on its own at any time, or because its context was
  -- cancelled (completion received)
  | .finishOperation => w.requestReceived && !w.operationDone
  | .sendResponse => w.operationDone && !w.responseSent

def Step.apply (w : Wire) : Step → Wire
  | .sendRequest => { w with requestSent := true, c2s := w.c2s ++ [.request] }
  | .cancelContext => { w with ctxCancelled := true }
  | .sendCompletion => { w with completionSent := true, c2s := w.c2s ++ [.completion] }
  | .receiveResponse =>
    match w.s2c with
    | m :: rest => { w with responseReceived := true, s2c := rest, misaligned := w.misaligned || m != .response }
    | [] => w
  | .receiveRequest =>
    match w.c2s with
    | m :: rest => { w with requestReceived := true, c2s := rest, misaligned := w.misaligned || m != .request }
    | [] => w
  | .receiveCompletion =>
    match w.c2s with
    | m :: rest => { w with completionReceived := true, c2s := rest, misaligned := w.misaligned || m != .completion }
    | [] => w
  | .finishOperation => { w with operationDone := true }
  | .sendResponse => { w with responseSent := true, s2c := w.s2c ++ [.response] }

/-- Run a schedule; disabled steps are skipped. -/
def Wire.run : Wire → List Step → Wire
  | w, [] => w
  | w, s :: rest => if s.enabled w then (s.apply w).run rest else w.run rest

/-- Both `select`s have completed on both sides: the operation has returned on
the client and `serve…` has returned on the server. -/
def Wire.returned (w : Wire) : Bool :=
  w.completionSent && w.responseReceived && w.completionReceived && w.responseSent

/-- Nothing is in flight and no decoder read a message of the wrong type. -/
def Wire.aligned (w : Wire) : Bool :=
  w.c2s.isEmpty && w.s2c.isEmpty && !w.misaligned

/-- No step other than cancelling the caller's context is enabled. -/
def Wire.quiescent (w : Wire) : Bool :=
  [Step.sendRequest, .sendCompletion, .receiveResponse, .receiveRequest, .receiveCompletion,
    .finishOperation, .sendResponse].all fun s => !s.enabled w

end Mutagen.Model.Remote
