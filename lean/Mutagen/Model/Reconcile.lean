import Mutagen.Model.Entry
/-
Model of /repo/pkg/synchronization/core/reconcile.go (core Lean only,
executable), branch by branch, for all four synchronization modes.

  extractNonDeletionChanges          reconcile.go:10-17
  reconciler.reconcile               reconcile.go:35-170
  handleDisagreementBidirectional    reconcile.go:174-383
  handleDisagreementOneWaySafe       reconcile.go:387-494
  handleDisagreementOneWayReplica    reconcile.go:498-518
  Reconcile                          reconcile.go:523-532

The Go reconciler appends to four slices held in a struct while it recurses;
the model returns the four lists (`Plan`) and concatenates the plans of the
children in iteration order, which yields the same lists for the same sibling
order.  Sibling order (Go map iteration) is unspecified: the model uses
`nameUnion` order and the drivers sort before comparing.
-/
namespace Mutagen.Model

/-- mode.pb.go `SynchronizationMode` (the four supported values). -/
inductive Mode | twoWaySafe | twoWayResolved | oneWaySafe | oneWayReplica
  deriving DecidableEq, Repr, Inhabited

/-- The four result lists of `Reconcile`. -/
structure Plan where
  anc : List Change := []
  alpha : List Change := []
  beta : List Change := []
  conflicts : List Conflict := []
  deriving Repr, Inhabited

def Plan.append (a b : Plan) : Plan :=
  { anc := a.anc ++ b.anc, alpha := a.alpha ++ b.alpha, beta := a.beta ++ b.beta,
    conflicts := a.conflicts ++ b.conflicts }

instance : Append Plan := ⟨Plan.append⟩

/-- Concatenate the plans of the recursive calls, in call order. -/
def Plan.concat : List Plan → Plan
  | [] => {}
  | p :: ps => p ++ Plan.concat ps

def Plan.ancChange (c : Change) : Plan := { anc := [c] }
def Plan.alphaChange (c : Change) : Plan := { alpha := [c] }
def Plan.betaChange (c : Change) : Plan := { beta := [c] }
def Plan.conflict (root : Path) (a b : List Change) : Plan :=
  { conflicts := [{ root := root, alphaChanges := a, betaChanges := b }] }

/-- reconcile.go:10-17 `extractNonDeletionChanges`. -/
def nonDeletion (cs : List Change) : List Change := cs.filter (·.new.isSome)

/-- reconcile.go:174-383 `handleDisagreementBidirectional` (two-way-safe and
two-way-resolved; they differ only in the last branch). -/
def handleBidirectional (mode : Mode) (path : Path) (ancestor alpha beta : Option Entry) : Plan :=
  -- 201-202
  let α := osync alpha
  let β := osync beta
  -- 212-213
  let αDiff := diff path ancestor α
  let βDiff := diff path ancestor β
  -- 214-228
  if βDiff.isEmpty then
    let betaUnsynchronizable := diff path β beta
    if !betaUnsynchronizable.isEmpty then
      Plan.conflict path αDiff betaUnsynchronizable
    else
      Plan.betaChange { path := path, old := ancestor, new := α }
  -- 229-244
  else if αDiff.isEmpty then
    let alphaUnsynchronizable := diff path α alpha
    if !alphaUnsynchronizable.isEmpty then
      Plan.conflict path alphaUnsynchronizable βDiff
    else
      Plan.alphaChange { path := path, old := ancestor, new := β }
  else
    -- 253-254
    let αDiffNonDeletion := nonDeletion αDiff
    let βDiffNonDeletion := nonDeletion βDiff
    -- 273-302
    if αDiffNonDeletion.isEmpty && βDiffNonDeletion.isEmpty then
      if α.isNone then
        let betaUnsynchronizable := diff path β beta
        if !betaUnsynchronizable.isEmpty then
          Plan.conflict path αDiff betaUnsynchronizable
        else
          Plan.betaChange { path := path, old := β, new := none }
      else
        let alphaUnsynchronizable := diff path α alpha
        if !alphaUnsynchronizable.isEmpty then
          Plan.conflict path alphaUnsynchronizable βDiff
        else
          Plan.alphaChange { path := path, old := α, new := none }
    -- 327-341
    else if βDiffNonDeletion.isEmpty then
      let betaUnsynchronizable := diff path β beta
      if !betaUnsynchronizable.isEmpty then
        Plan.conflict path αDiffNonDeletion betaUnsynchronizable
      else
        Plan.betaChange { path := path, old := β, new := α }
    -- 342-357
    else if αDiffNonDeletion.isEmpty then
      let alphaUnsynchronizable := diff path α alpha
      if !alphaUnsynchronizable.isEmpty then
        Plan.conflict path alphaUnsynchronizable βDiffNonDeletion
      else
        Plan.alphaChange { path := path, old := α, new := β }
    -- 362-382
    else if mode == .twoWaySafe then
      Plan.conflict path αDiffNonDeletion βDiffNonDeletion
    else
      let betaUnsynchronizable := diff path β beta
      if !betaUnsynchronizable.isEmpty then
        Plan.conflict path αDiffNonDeletion betaUnsynchronizable
      else
        Plan.betaChange { path := path, old := β, new := α }

/-- reconcile.go:387-494 `handleDisagreementOneWaySafe`. -/
def handleOneWaySafe (path : Path) (ancestor alpha beta : Option Entry) : Plan :=
  -- 390
  let β := osync beta
  -- 410-426
  let βDiffNonDeletion := nonDeletion (diff path ancestor β)
  if βDiffNonDeletion.isEmpty then
    let betaUnsynchronizable := diff path β beta
    if !betaUnsynchronizable.isEmpty then
      Plan.conflict path [{ path := path, old := ancestor, new := alpha }] betaUnsynchronizable
    else
      Plan.betaChange { path := path, old := beta, new := osync alpha }
  else
    -- 476-484
    let untrackBetaContent :=
      (alpha.isNone || isKind alpha .untracked) &&
      (ancestor.isNone || !isKind ancestor .directory || beta.isNone || !isKind beta .directory)
    if untrackBetaContent then
      if ancestor.isSome then Plan.ancChange { path := path } else {}
    else
      -- 489-493
      Plan.conflict path [{ path := path, old := ancestor, new := alpha }] βDiffNonDeletion

/-- reconcile.go:498-518 `handleDisagreementOneWayReplica`. -/
def handleOneWayReplica (path : Path) (ancestor alpha beta : Option Entry) : Plan :=
  let betaUnsynchronizable := diff path (osync beta) beta
  if !betaUnsynchronizable.isEmpty then
    Plan.conflict path [{ path := path, old := ancestor, new := alpha }] betaUnsynchronizable
  else
    Plan.betaChange { path := path, old := beta, new := osync alpha }

/-- reconcile.go:158-169: the mode switch. -/
def handleDisagreement (mode : Mode) (path : Path) (ancestor alpha beta : Option Entry) : Plan :=
  match mode with
  | .twoWaySafe => handleBidirectional mode path ancestor alpha beta
  | .twoWayResolved => handleBidirectional mode path ancestor alpha beta
  | .oneWaySafe => handleOneWaySafe path ancestor alpha beta
  | .oneWayReplica => handleOneWayReplica path ancestor alpha beta

/-- reconcile.go:114: in the both-modified-same case the old ancestor contents
no longer drive the traversal. -/
def ancestorForRecursion (ancestor alpha : Option Entry) : Option Entry :=
  if shallowEq ancestor alpha then ancestor else none

/-- reconcile.go:35-170 `reconciler.reconcile`. -/
def reconcile (mode : Mode) (path : Path) (ancestor alpha beta : Option Entry) : Plan :=
  -- 51-55
  if isKind alpha .problematic then {}
  else if isKind beta .problematic then {}
  -- 61-68
  else if (alpha.isNone || isKind alpha .untracked) && (beta.isNone || isKind beta .untracked) then
    if ancestor.isSome then Plan.ancChange { path := path } else {}
  -- 72-135
  else if shallowEq alpha beta then
    -- 109-115
    let here : Plan :=
      if !shallowEq ancestor alpha then
        Plan.ancChange { path := path, new := ocopy .slim alpha }
      else {}
    let ancestor' := ancestorForRecursion ancestor alpha
    -- 124-131
    here ++ Plan.concat
      ((nameUnion [contents ancestor', contents alpha, contents beta]).attach.map fun n =>
        reconcile mode (path ++ [n.1]) (lookup n.1 (contents ancestor')) (lookup n.1 (contents alpha))
          (lookup n.1 (contents beta)))
  -- 158-169
  else handleDisagreement mode path ancestor alpha beta
termination_by osz ancestor + osz alpha + osz beta
decreasing_by
  obtain ⟨n, hn⟩ := n
  show _ < _
  simp only []
  have hm := mem_nameUnion.mp hn
  have h0 : osz (ancestorForRecursion ancestor alpha) ≤ osz ancestor := by
    unfold ancestorForRecursion; split <;> simp [osz]
  have h1 := osz_lookup_contents_le n (ancestorForRecursion ancestor alpha)
  have h2 := osz_lookup_contents_le n alpha
  have h3 := osz_lookup_contents_le n beta
  obtain ⟨m, hm, hk⟩ := hm
  simp only [List.mem_cons, List.not_mem_nil, or_false] at hm
  rcases hm with rfl | rfl | rfl
  · have := osz_lookup_contents_lt n (ancestorForRecursion ancestor alpha) hk; omega
  · have := osz_lookup_contents_lt n alpha hk; omega
  · have := osz_lookup_contents_lt n beta hk; omega

/-- reconcile.go:523-532 `Reconcile`. -/
def Reconcile (ancestor alpha beta : Option Entry) (mode : Mode) : Plan :=
  reconcile mode [] ancestor alpha beta

end Mutagen.Model

/-! ## Vocabulary of the theorems about plans -/

namespace Mutagen.Model

/-- The paths that receive an action: alpha changes, beta changes, conflict roots. -/
def Plan.actionPaths (p : Plan) : List Path :=
  p.alpha.map (·.path) ++ p.beta.map (·.path) ++ p.conflicts.map (·.root)

/-- `S` is obtained from `A` by deletions only: every entry that exists in `S`
exists, with the same scalar fields, at the same path of `A`. -/
def DeletionsOnly (A S : Option Entry) : Prop := ∀ q, pget S q = none ∨ pget S q = pget A q

/-- Same scalar fields at every path (structural equality up to the order of
map entries; `Entry.Equal(deep)` on well-formed maps). -/
def SameTree (a b : Option Entry) : Prop := ∀ q, pget a q = pget b q

end Mutagen.Model
