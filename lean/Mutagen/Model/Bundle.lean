/-!
Model of `pkg/agent/bundle.go` `ExecutableForPlatform` and
`pkg/filesystem/resources.go` `LibexecPath` (core Lean only).

Paths are lists of components (absolute, already clean: `os.Executable` on the
supported platforms returns a resolved absolute path, so the symbolic-link
branch of `LibexecPath` is the identity and is not modelled). The file system
is a parameter: what `os.Open` + `Stat` report for a bundle path
(`LocState`). The gzip/tar decoders are parameters too: an archive is the
sequence of entries `tar.Reader.Next` yields, followed by how the stream ends.

`searchLoop` is the **repaired** search loop (with the `break` proposed in
`fixes/C46.patch`); `searchLoopOriginal` mirrors the loop as found (no
`break`: a later location overrides an earlier one), kept to state the defect.
-/
namespace Mutagen.Model.Bundle

abbrev Bytes := List UInt8
abbrev Path := List String

structure Entry where
  name : Bytes
  data : Bytes
  deriving Repr, DecidableEq

/-- How the tar stream ends after the listed entries: cleanly (`io.EOF`), with
bytes that are not a header (`Next` fails), or cut inside the data of the last
entry (reading that data fails; skipping it in `Next` fails). -/
inductive ArchEnd | eof | junk | trunc
  deriving Repr, DecidableEq

structure Archive where
  /-- `gzip.NewReader` succeeds. -/
  gzipOK : Bool
  entries : List Entry
  fin : ArchEnd
  deriving Repr, DecidableEq

/-- What opening `<dir>/mutagen-agents.tar.gz` gives. -/
inductive LocState
  | absent                 -- `os.IsNotExist(err)`
  | openErr                -- any other `os.Open` error
  | notFile                -- opened, `Mode()&os.ModeType != 0`
  | file (a : Archive)
  deriving Repr, DecidableEq

inductive Err
  | locate | open | notFile | decompress | header | unsupported | copy
  deriving Repr, DecidableEq

/-- Successful extraction: bytes written, permission bits, and whether the
result is the requested output path or a temporary `mutagen-agent.*[.exe]`. -/
structure Extracted where
  data : Bytes
  mode : Nat
  windowsName : Bool
  deriving Repr, DecidableEq

/-! ## search path -/

/-- `filepath.Dir` of a clean absolute path. -/
def dir (p : Path) : Path := p.dropLast

/-- `filesystem.LibexecPath`: `none` = error. -/
def libexecPath (executable : Path) : Option Path :=
  if (dir executable).getLast? ≠ some "bin" then none
  else some (dir (dir executable) ++ ["libexec"])

/-- `bundleSearchPaths` for `BundleLocationDefault`. -/
def searchPaths (executable : Path) : List Path :=
  let paths := [dir executable]
  match libexecPath executable with
  | some p => paths ++ [p]
  | none => paths

/-! ## search loop -/

/-- The repaired loop: stop at the first location holding a bundle. -/
def searchLoop (fs : Path → LocState) : List Path → Except Err (Option Archive)
  | [] => .ok none
  | path :: rest =>
    match fs path with
    | .absent => searchLoop fs rest            -- continue
    | .openErr => .error .open
    | .notFile => .error .notFile
    | .file a => .ok (some a)                  -- bundle = file; break

/-- The loop as found: no `break`, `bundle` is overwritten by later locations
and later locations can still fail the lookup. -/
def searchLoopOriginal (fs : Path → LocState) : List Path → Option Archive → Except Err (Option Archive)
  | [], bundle => .ok bundle
  | path :: rest, bundle =>
    match fs path with
    | .absent => searchLoopOriginal fs rest bundle
    | .openErr => .error .open
    | .notFile => .error .notFile
    | .file a => searchLoopOriginal fs rest (some a)

/-! ## archive scan and extraction -/

def platformName (goos goarch : Bytes) : Bytes := goos ++ [95] ++ goarch

/-- The header scan followed by `io.CopyN(file, archive, header.Size)`. -/
def scan (target : Bytes) (fin : ArchEnd) : List Entry → Except Err Bytes
  | [] =>
    match fin with
    | .eof => .error .unsupported
    | _ => .error .header
  | e :: rest =>
    if e.name = target then
      if rest = [] ∧ fin = .trunc then .error .copy else .ok e.data
    else scan target fin rest

def windows : Bytes := [119, 105, 110, 100, 111, 119, 115]

/-- `ExecutableForPlatform` (host is not Windows). -/
def executableForPlatform (fs : Path → LocState) (executable : Path) (goos goarch : Bytes) :
    Except Err Extracted :=
  match searchLoop fs (searchPaths executable) with
  | .error e => .error e
  | .ok none => .error .locate
  | .ok (some a) =>
    if !a.gzipOK then .error .decompress
    else
      match scan (platformName goos goarch) a.fin a.entries with
      | .error e => .error e
      | .ok data =>
        .ok { data := data, mode := if goos ≠ windows then 0o700 else 0o600, windowsName := goos = windows }

/-- Same with the loop as found (for stating the defect). -/
def executableForPlatformOriginal (fs : Path → LocState) (executable : Path) (goos goarch : Bytes) :
    Except Err Extracted :=
  match searchLoopOriginal fs (searchPaths executable) none with
  | .error e => .error e
  | .ok none => .error .locate
  | .ok (some a) =>
    if !a.gzipOK then .error .decompress
    else
      match scan (platformName goos goarch) a.fin a.entries with
      | .error e => .error e
      | .ok data =>
        .ok { data := data, mode := if goos ≠ windows then 0o700 else 0o600, windowsName := goos = windows }

end Mutagen.Model.Bundle
