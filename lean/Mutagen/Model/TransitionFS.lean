import Mutagen.Model.Entry
import Mutagen.Generated.Facts
/-!
Abstract filesystem and model of the on-disk transition algorithm
(`/repo/pkg/synchronization/core/transition.go`), core Lean only, executable.

Mirrors, function by function:
  transition.go  nameExistsInDirectoryWithProperCase, walkToParentAndComputeLeafName,
                 ensureExpectedFile, ensureExpectedSymbolicLink, removeFile,
                 removeSymbolicLink, removeDirectory, remove,
                 findAndMoveStagedFileIntoPlace, swapFile, createFile,
                 createSymbolicLink, createDirectory, create, Transition
  filesystem/directory_posix.go  the Directory primitives they call (mkdirat,
                 symlinkat, fchmod, openat(O_DIRECTORY|O_NOFOLLOW), readdir,
                 fstatat, readlinkat, unlinkat, renameat / renameat2(NOREPLACE))
  scan.go        the part of a cold scan that `describe` / `cacheOf` need

Representation.
* The filesystem is a tree of inodes (`Node`).  The *parent directory of the
  synchronization root* is the top of the tree (`St.fs` is a `dir` whose child
  `Env.rootName` is the root), because a transition at the root path `""`
  operates on the root's parent (transition.go:150-177).
* A `*filesystem.Directory` is a path from the top (`Handle`), resolved again at
  every operation.  (Concurrent modification *during* a transition — the RACE
  comments of transition.go — is outside the model: nothing but the transition
  changes the tree while it runs, so a handle never goes stale.)
* Every operation that passes the `verif` fault hook of the repository
  (`filesystem.verifFault(operation, name)`) first consults the **fault
  oracle** `Env.oracle`, a function of the calls made so far, the operation
  kind and the leaf name: `pass`, `fail` (the operation is not performed and
  returns an error), `exdev` (a rename returns the cross-device error; any
  other operation just fails), `cancel` (the context is cancelled during this
  call, the operation itself proceeds).
* Go iterates a map in `createDirectory` and the kernel's readdir order in
  `removeDirectory`: both orders are the explicit parameter `Env.ord` (applied
  to the list of names; theorems assume it returns a permutation).
* The staging area lives outside the tree: `St.staged` maps (path, digest) to
  the file the provider's path names (absent = no such file).  File content is
  a byte list; hashing appears only in `describe` / `cacheOf` (parameter `H`).
* Symbolic-link normalisation (`normalizeSymbolicLinkAndEnsurePortable`) is the
  parameter `Env.norm`.
* Loops over directory contents are recursive functions over the name list;
  the recursion into sub-directories carries fuel (the callers supply the node
  count of the entry, which is always enough — `Proofs/TransitionFS`).
-/
namespace Mutagen.Model.TFS
open Mutagen.Model

/-! ## Association lists (Go maps / directory tables) -/

section Assoc
variable {κ : Type} [DecidableEq κ] {α : Type}

/-- `m[k]` (first match). -/
def aget (k : κ) : List (κ × α) → Option α
  | [] => none
  | (j, v) :: r => if j = k then some v else aget k r

/-- `m[k] = v`: replace in place, else append. -/
def aset (k : κ) (v : α) : List (κ × α) → List (κ × α)
  | [] => [(k, v)]
  | (j, w) :: r => if j = k then (k, v) :: r else (j, w) :: aset k v r

/-- `delete(m, k)`. -/
def adel (k : κ) : List (κ × α) → List (κ × α)
  | [] => []
  | (j, w) :: r => if j = k then adel k r else (j, w) :: adel k r

def akeys (m : List (κ × α)) : List κ := m.map (·.1)
end Assoc

/-! ## The abstract filesystem -/

/-- An inode. `perm` are the permission bits (`st_mode & 07777`), `mtime` the
modification time in nanoseconds, `ino` the file identity. Directories and
links carry no identity (the algorithm never looks at it). `other` is anything
else (FIFO, socket, device). -/
inductive Node where
  | dir (perm : Nat) (cs : List (Name × Node))
  | file (data : List UInt8) (perm : Nat) (mtime : Nat) (ino : Nat)
  | symlink (target : String)
  | other
  deriving Repr, Inhabited

abbrev Kids := List (Name × Node)

/-- A directory handle: path from the top of the tree. -/
abbrev Handle := List Name

/-- `struct stat` as far as `filesystem.Metadata` uses it. -/
structure Stat where
  mode : Nat
  mtime : Nat
  size : Nat
  ino : Nat
  deriving DecidableEq, Repr

def S_IFDIR : Nat := 0o040000
def S_IFREG : Nat := 0o100000
def S_IFLNK : Nat := 0o120000
def S_IFIFO : Nat := 0o010000

/-- `fstatat(AT_SYMLINK_NOFOLLOW)`. Size and time of non-files are not
modelled (0); they are never compared successfully because the type bits of a
cached entry are those of a regular file. -/
def Node.stat : Node → Stat
  | .dir perm _ => { mode := S_IFDIR + perm, mtime := 0, size := 0, ino := 0 }
  | .file data perm mtime ino => { mode := S_IFREG + perm, mtime := mtime, size := data.length, ino := ino }
  | .symlink t => { mode := S_IFLNK + 0o777, mtime := 0, size := t.utf8ByteSize, ino := 0 }
  | .other => { mode := S_IFIFO, mtime := 0, size := 0, ino := 0 }

def Node.isDir : Node → Bool
  | .dir _ _ => true
  | _ => false

/-- Resolve a path below a node without following links. -/
def Node.get : Node → List Name → Option Node
  | nd, [] => some nd
  | .dir _ cs, n :: r =>
    match aget n cs with
    | some c => c.get r
    | none => none
  | _, _ :: _ => none

/-- The table of the directory a handle names. -/
def dirAt (top : Node) (h : Handle) : Option Kids :=
  match top.get h with
  | some (.dir _ cs) => some cs
  | _ => none

/-- Apply `f` to the table of the directory at `h` (`none` = the operation
fails: stale handle or `f` refuses). -/
def Node.updDir : Node → Handle → (Kids → Option Kids) → Option Node
  | .dir p cs, [], f => (f cs).map (Node.dir p)
  | .dir p cs, n :: r, f =>
    match aget n cs with
    | some c => (c.updDir r f).map fun c' => Node.dir p (aset n c' cs)
    | none => none
  | _, _, _ => none

/-- directory_posix.go:24-41 `ensureValidName`. -/
def validLeaf (n : Name) : Bool :=
  n != "." && n != ".." && !(n.toList.contains '/')

/-- `mkdirat(fd, name, 0700)`. -/
def fsMkdir (top : Node) (h : Handle) (name : Name) : Option Node :=
  top.updDir h fun cs =>
    if name == "" then none else
    match aget name cs with
    | some _ => none
    | none => some (aset name (.dir 0o700 []) cs)

/-- `symlinkat(target, fd, name)`. -/
def fsSymlink (top : Node) (h : Handle) (name : Name) (target : String) : Option Node :=
  top.updDir h fun cs =>
    if name == "" || target == "" then none else
    match aget name cs with
    | some _ => none
    | none => some (aset name (.symlink target) cs)

/-- `openat(O_RDONLY|O_NOFOLLOW)` + `fchmod` (the Linux branch of
`Directory.SetPermissions`, for `mode & 0777 ≠ 0`): fails on links (ELOOP) and
on anything that is not a file or directory. -/
def fsChmod (top : Node) (h : Handle) (name : Name) (perm : Nat) : Option Node :=
  top.updDir h fun cs =>
    match aget name cs with
    | some (.dir _ k) => some (aset name (.dir perm k) cs)
    | some (.file d _ m i) => some (aset name (.file d perm m i) cs)
    | _ => none

/-- `unlinkat(fd, name, AT_REMOVEDIR)`. -/
def fsRmdir (top : Node) (h : Handle) (name : Name) : Option Node :=
  top.updDir h fun cs =>
    match aget name cs with
    | some (.dir _ []) => some (adel name cs)
    | _ => none

/-- `unlinkat(fd, name, 0)`. -/
def fsUnlink (top : Node) (h : Handle) (name : Name) : Option Node :=
  top.updDir h fun cs =>
    match aget name cs with
    | some (.dir _ _) => none
    | some _ => some (adel name cs)
    | none => none

/-- The target side of `renameat` / `renameat2(RENAME_NOREPLACE)` for a source
that is a regular file: an existing directory is never replaced, anything
else only with `replace`. -/
def fsPut (top : Node) (h : Handle) (name : Name) (node : Node) (replace : Bool) : Option Node :=
  top.updDir h fun cs =>
    if name == "" then none else
    match aget name cs with
    | none => some (aset name node cs)
    | some (.dir _ _) => none
    | some _ => if replace then some (aset name node cs) else none

/-! ## Cache, staging area, configuration -/

/-- `core.CacheEntry`. -/
structure CEntry where
  mode : Nat
  mtime : Nat
  size : Nat
  ino : Nat
  digest : List UInt8
  deriving DecidableEq, Repr

abbrev Cache := List (Path × CEntry)

/-- A file in the staging area (outside the synchronization root). -/
structure SFile where
  data : List UInt8
  perm : Nat
  mtime : Nat
  ino : Nat
  deriving DecidableEq, Repr

abbrev Staged := List ((Path × List UInt8) × SFile)

inductive SLMode | ignore | portable | posixRaw
  deriving DecidableEq, Repr

/-- Operation kinds of the fault hook (`filesystem.VerifSetFaultHook`). -/
inductive Op
  | mkdir | mktemp | symlink | chmod | opendir | openfile | readdir | readlink | lstat | rmdir | unlink | rename
  deriving DecidableEq, Repr

inductive Action | pass | fail | exdev | cancel
  deriving DecidableEq, Repr

def Action.fails : Action → Bool
  | .fail | .exdev => true
  | _ => false

/-- Everything the transition reads but never changes. -/
structure Env where
  rootName : Name
  cache : Cache
  slMode : SLMode
  fileMode : Nat
  dirMode : Nat
  /-- Fault oracle: calls so far, operation, leaf name. -/
  oracle : List (Op × Name) → Op → Name → Action
  /-- Sibling order (map iteration / readdir). -/
  ord : List Name → List Name
  /-- `normalizeSymbolicLinkAndEnsurePortable`. -/
  norm : Path → String → Option String
  /-- `provider.Provide` returns an error. -/
  provideErr : Path → List UInt8 → Bool
  /-- Name chosen by `CreateTemporaryFile` (number of temporaries created so
  far, names present). -/
  tmpName : Nat → List Name → Name

/-- `crossDeviceRenameTemporaryNamePrefix` (the pattern passed to the hook). -/
def tmpPattern : String := Mutagen.Facts.transitionCrossDevicePrefix

structure St where
  fs : Node
  staged : Staged
  problems : List (Path × String) := []
  missing : Bool := false
  cancelled : Bool := false
  trace : List (Op × Name) := []
  tmpCount : Nat := 0
  deriving Repr

/-- transition.go:93-95 `recordProblem` (class instead of message text). -/
def St.problem (st : St) (path : Path) (cls : String) : St :=
  { st with problems := st.problems ++ [(path, cls)] }

/-- The fault hook: consult the oracle, log the call. -/
def hook (env : Env) (st : St) (op : Op) (name : Name) : Action × St :=
  let a := env.oracle st.trace op name
  (a, { st with trace := st.trace ++ [(op, name)], cancelled := st.cancelled || a == .cancel })

/-- permissions.go:65-83 `markExecutableForReaders`. -/
def markExecutableForReaders (mode : Nat) : Nat :=
  let m := if mode &&& 0o400 != 0 then mode ||| 0o100 else mode
  let m := if m &&& 0o040 != 0 then m ||| 0o010 else m
  if m &&& 0o004 != 0 then m ||| 0o001 else m

/-! ## transition.go -/

/-- transition.go:100-123 `nameExistsInDirectoryWithProperCase` (no Unicode
recomposition on this platform). `none` = error. -/
def nameExists (env : Env) (st : St) (name : Name) (h : Handle) : Option Bool × St :=
  let (a, st) := hook env st .readdir ""
  if a.fails then (none, st) else
  match dirAt st.fs h with
  | none => (none, st)
  | some cs => (some ((akeys cs).contains name), st)

/-- The loop of transition.go:193-223 over the parent components. -/
def walkLoop (env : Env) : List Name → Handle → St → Option Handle × St
  | [], h, st => (some h, st)
  | c :: rest, h, st =>
    match nameExists env st c h with
    | (none, st) => (none, st)
    | (some false, st) => (none, st)
    | (some true, st) =>
      let (a, st) := hook env st .opendir c
      if a.fails then (none, st) else
      match dirAt st.fs (h ++ [c]) with
      | none => (none, st)
      | some _ => if validLeaf c then walkLoop env rest (h ++ [c]) st else (none, st)

/-- transition.go:143-239 `walkToParentAndComputeLeafName`. The root path
yields the handle of the root's parent (the top) and the root's name. -/
def walkToParent (env : Env) (st : St) (path : Path) (validateLeaf : Bool) : Option (Handle × Name) × St :=
  match path.getLast? with
  | none => (some ([], env.rootName), st)
  | some leaf =>
    -- filesystem.OpenDirectory(t.root, false): not hooked
    match dirAt st.fs [env.rootName] with
    | none => (none, st)
    | some _ =>
      match walkLoop env path.dropLast [env.rootName] st with
      | (none, st) => (none, st)
      | (some h, st) =>
        if validateLeaf then
          match nameExists env st leaf h with
          | (some true, st) => (some (h, leaf), st)
          | (_, st) => (none, st)
        else (some (h, leaf), st)

/-- transition.go:243-291 `ensureExpectedFile`; `none` = nil error. -/
def ensureExpectedFile (env : Env) (st : St) (parent : Handle) (name : Name) (path : Path) (expected : Entry) :
    Option String × St :=
  match aget path env.cache with
  | none => (some "nocache", st)
  | some cached =>
    if !validLeaf name then (some "stat", st) else
    let (a, st) := hook env st .lstat name
    if a.fails then (some "stat", st) else
    match (dirAt st.fs parent).bind (aget name) with
    | none => (some "stat", st)
    | some node =>
      let m := node.stat
      if m.mode == cached.mode && m.mtime == cached.mtime && m.size == cached.size &&
          m.ino == cached.ino && cached.digest == expected.props.digest then (none, st)
      else (some "modified", st)

/-- transition.go:295-319 `ensureExpectedSymbolicLink`. -/
def ensureExpectedSymbolicLink (env : Env) (st : St) (parent : Handle) (name : Name) (path : Path) (expected : Entry) :
    Option String × St :=
  if !validLeaf name then (some "readlink", st) else
  let (a, st) := hook env st .readlink name
  if a.fails then (some "readlink", st) else
  match (dirAt st.fs parent).bind (aget name) with
  | some (.symlink target) =>
    let normalized : Option String :=
      if env.slMode == .portable then env.norm path target else some target
    match normalized with
    | none => (some "normalize", st)
    | some t => if t != expected.props.target then (some "mismatch", st) else (none, st)
  | _ => (some "readlink", st)

/-- `Directory.RemoveFile` / `RemoveSymbolicLink`. -/
def opUnlink (env : Env) (st : St) (parent : Handle) (name : Name) : Bool × St :=
  if !validLeaf name then (false, st) else
  let (a, st) := hook env st .unlink name
  if a.fails then (false, st) else
  match fsUnlink st.fs parent name with
  | none => (false, st)
  | some fs => (true, { st with fs := fs })

/-- transition.go:323-337 `removeFile`. -/
def removeFile (env : Env) (st : St) (parent : Handle) (name : Name) (path : Path) (expected : Entry) :
    Option String × St :=
  match ensureExpectedFile env st parent name path expected with
  | (some e, st) => (some e, st)
  | (none, st) =>
    match opUnlink env st parent name with
    | (false, st) => (some "unlink", st)
    | (true, st) => (none, st)

/-- transition.go:341-360 `removeSymbolicLink`. -/
def removeSymbolicLink (env : Env) (st : St) (parent : Handle) (name : Name) (path : Path) (expected : Entry) :
    Option String × St :=
  if env.slMode == .ignore then (some "ignored", st) else
  match ensureExpectedSymbolicLink env st parent name path expected with
  | (some e, st) => (some e, st)
  | (none, st) =>
    match opUnlink env st parent name with
    | (false, st) => (some "unlink", st)
    | (true, st) => (none, st)

/-- The three flags of transition.go:401. -/
structure RmFlags where
  cancelled : Bool := false
  unknown : Bool := false
  failed : Bool := false
  deriving Repr

/-- `removeDirectory` as seen by its own content loop. -/
abbrev RmRec := St → Handle → Name → Path → Entry → Bool × Entry × St

/-- transition.go:402-458, the `ContentLoop` of `removeDirectory`: `names` is
the on-disk listing, `cur` the (shrinking) expected content map. -/
def removeLoop (env : Env) (rec : RmRec) (dirH : Handle) (path : Path) :
    List Name → RmFlags → Contents → St → RmFlags × Contents × St
  | [], fl, cur, st => (fl, cur, st)
  | c :: rest, fl, cur, st =>
    if st.cancelled then ({ fl with cancelled := true }, cur, st.problem path "cancelled") else
    let cpath := path ++ [c]
    match lookup c cur with
    | none => removeLoop env rec dirH path rest { fl with unknown := true } cur (st.problem cpath "unknown-content")
    | some entry =>
      if entry.kind == .directory then
        match rec st dirH c cpath entry with
        | (false, entry', st) => removeLoop env rec dirH path rest { fl with failed := true } (upsert c entry' cur) st
        | (true, _, st) => removeLoop env rec dirH path rest fl (erase c cur) st
      else if entry.kind == .file then
        match removeFile env st dirH c cpath entry with
        | (some e, st) => removeLoop env rec dirH path rest { fl with failed := true } cur (st.problem cpath ("rmfile:" ++ e))
        | (none, st) => removeLoop env rec dirH path rest fl (erase c cur) st
      else if entry.kind == .symlink then
        match removeSymbolicLink env st dirH c cpath entry with
        | (some e, st) => removeLoop env rec dirH path rest { fl with failed := true } cur (st.problem cpath ("rmlink:" ++ e))
        | (none, st) => removeLoop env rec dirH path rest fl (erase c cur) st
      else removeLoop env rec dirH path rest { fl with failed := true } cur (st.problem cpath "rm-unknown-type")

/-- transition.go:366-504 `removeDirectory`: result flag, the reduced expected
entry, new state. -/
def removeDirectory (env : Env) : Nat → RmRec
  | 0, st, _, _, path, expected => (false, expected, st.problem path "fuel")
  | fuel + 1, st, parent, name, path, expected =>
    let (a, st) := hook env st .opendir name
    if a.fails || !validLeaf name then (false, expected, st.problem path "rmdir-open") else
    match dirAt st.fs (parent ++ [name]) with
    | none => (false, expected, st.problem path "rmdir-open")
    | some _ =>
      let dirH := parent ++ [name]
      let (a, st) := hook env st .readdir ""
      if a.fails then (false, expected, st.problem path "rmdir-read") else
      match dirAt st.fs dirH with
      | none => (false, expected, st.problem path "rmdir-read")
      | some cs =>
        let names := env.ord (akeys cs)
        let (fl, cur, st) := removeLoop env (removeDirectory env fuel) dirH path names {} expected.children st
        let cur := if !fl.cancelled && !fl.failed then [] else cur
        let expected' := Entry.mk expected.props cur
        if !fl.cancelled && !fl.unknown && !fl.failed then
          let (a, st) := hook env st .rmdir name
          if a.fails then (false, expected', st.problem path "rmdir") else
          match fsRmdir st.fs parent name with
          | none => (false, expected', st.problem path "rmdir")
          | some fs => (true, expected', { st with fs := fs })
        else (false, expected', st)

/-- transition.go:509-550 `remove` (`entry.Copy(DeepPreservingLeaves)` is the
identity on values). -/
def remove (env : Env) (st : St) (path : Path) : Option Entry → Option Entry × St
  | none => (none, st)
  | some entry =>
    match walkToParent env st path true with
    | (none, st) => (some entry, st.problem path "remove-walk")
    | (some (parent, name), st) =>
      if entry.kind == .directory then
        match removeDirectory env entry.size st parent name path entry with
        | (false, reduced, st) => (some reduced, st)
        | (true, _, st) => (none, st)
      else if entry.kind == .file then
        match removeFile env st parent name path entry with
        | (some e, st) => (some entry, st.problem path ("rmfile:" ++ e))
        | (none, st) => (none, st)
      else if entry.kind == .symlink then
        match removeSymbolicLink env st parent name path entry with
        | (some e, st) => (some entry, st.problem path ("rmlink:" ++ e))
        | (none, st) => (none, st)
      else (some entry, st.problem path "remove-unknown-type")

/-- `Directory.SetPermissions(name, ownership = nil, mode)` (Linux). -/
def opChmod (env : Env) (st : St) (parent : Handle) (name : Name) (mode : Nat) : Bool × St :=
  if !validLeaf name then (false, st) else
  let (a, st) := hook env st .chmod name
  if a.fails then (false, st) else
  if mode % 512 == 0 then (true, st) else
  match fsChmod st.fs parent name (mode % 512) with
  | none => (false, st)
  | some fs => (true, { st with fs := fs })

def SFile.toNode (f : SFile) : Node := .file f.data f.perm f.mtime f.ino

/-- `transitionCopyPreemptionInterval * transitionCopyBufferSize`: the number of
bytes the cross-device copy writes before it first polls for cancellation. -/
def copyPreemptionBytes : Nat :=
  Mutagen.Facts.transitionCopyPreemptionInterval * Mutagen.Facts.transitionCopyBufferSize

/-- transition.go:614-688: the cross-device fallback of
`findAndMoveStagedFileIntoPlace`. The copy is preempted (and the partial
temporary removed) when the context was cancelled before the copy and the
staged file is larger than `copyPreemptionBytes`; read errors on the staged
file are not modelled. -/
def crossDevice (env : Env) (st : St) (key : Path × List UInt8) (sf : SFile) (mode : Nat)
    (parent : Handle) (name : Name) (replace : Bool) : Option String × St :=
  -- CreateTemporaryFile(pattern)
  let (a, st) := hook env st .mktemp tmpPattern
  if a.fails then (some "mktemp", st) else
  match dirAt st.fs parent with
  | none => (some "mktemp", st)
  | some cs =>
    let tmp := env.tmpName st.tmpCount (akeys cs)
    -- io.CopyBuffer through the preemptable writer: cancellation is polled at
    -- write number interval+1, i.e. only for files larger than interval * buffer
    -- size, and only a cancellation that happened before the copy can be seen.
    if st.cancelled && decide (sf.data.length > copyPreemptionBytes) then
      match fsPut st.fs parent tmp (.file (sf.data.take copyPreemptionBytes) 0o600 0 0) false with
      | none => (some "mktemp", st)
      | some fs => (some "cancelled", (opUnlink env { st with fs := fs, tmpCount := st.tmpCount + 1 } parent tmp).2)
    else
    match fsPut st.fs parent tmp (.file sf.data 0o600 0 0) false with
    | none => (some "mktemp", st)
    | some fs =>
      let st := { st with fs := fs, tmpCount := st.tmpCount + 1 }
      -- SetPermissions(temporaryName, mode)
      match opChmod env st parent tmp mode with
      | (false, st) => (some "tmpperm", (opUnlink env st parent tmp).2)
      | (true, st) =>
        -- Rename(parent, temporaryName, parent, name, replace)
        let (a, st) := hook env st .rename name
        let moved : Option Node :=
          if a.fails || !validLeaf name then none else
          match (dirAt st.fs parent).bind (aget tmp) with
          | none => none
          | some node => (fsPut st.fs parent name node replace).bind fun fs => fsUnlink fs parent tmp
        match moved with
        | none => (some "tmprelocate", (opUnlink env st parent tmp).2)
        | some fs => (none, { st with fs := fs, staged := adel key st.staged })

/-- transition.go:557-689 `findAndMoveStagedFileIntoPlace`. -/
def findAndMove (env : Env) (st : St) (path : Path) (target : Entry) (parent : Handle) (name : Name)
    (replace : Bool) : Option String × St :=
  let mode := if target.props.executable then markExecutableForReaders env.fileMode else env.fileMode
  let key := (path, target.props.digest)
  if env.provideErr path target.props.digest then (some "provide", st) else
  -- SetPermissionsByPath(stagedPath, nil, mode)
  match aget key st.staged with
  | none =>
    if mode % 512 != 0 then (some "stagedperm", { st with missing := true })
    else
      let (a, st) := if validLeaf name then hook env st .rename name else (Action.fail, st)
      if a == .exdev then (some "stagedopen", { st with missing := true })
      else if a.fails then (some "relocate", st)
      else (some "relocate", { st with missing := true })
  | some sf0 =>
    let sf := if mode % 512 != 0 then { sf0 with perm := mode % 512 } else sf0
    let st := { st with staged := aset key sf st.staged }
    -- Rename(nil, stagedPath, parent, name, replace)
    if !validLeaf name then (some "relocate", st) else
    let (a, st) := hook env st .rename name
    match a with
    | .exdev => crossDevice env st key sf mode parent name replace
    | .fail => (some "relocate", st)
    | _ =>
      match fsPut st.fs parent name sf.toNode replace with
      | none => (some "relocate", st)
      | some fs => (none, { st with fs := fs, staged := adel key st.staged })

/-- transition.go:693-743 `swapFile`. -/
def swapFile (env : Env) (st : St) (path : Path) (oldE newE : Entry) : Option String × St :=
  match walkToParent env st path true with
  | (none, st) => (some "walk", st)
  | (some (parent, name), st) =>
    match ensureExpectedFile env st parent name path oldE with
    | (some e, st) => (some e, st)
    | (none, st) =>
      if oldE.props.digest == newE.props.digest then
        let mode := if newE.props.executable then markExecutableForReaders env.fileMode else env.fileMode
        match opChmod env st parent name mode with
        | (false, st) => (some "chmod", st)
        | (true, st) => (none, st)
      else findAndMove env st path newE parent name true

/-- transition.go:751-794 `createSymbolicLink` on Linux (the permission mode
passed to `SetPermissions` is 0 there). A failure to set the permissions
after the link was created is recorded as a problem and the link is reported
as created (see `fixes/C09.patch`). -/
def createSymbolicLink (env : Env) (st : St) (parent : Handle) (name : Name) (path : Path) (target : Entry) :
    Option String × St :=
  if env.slMode == .ignore then (some "ignored", st) else
  if env.slMode == .portable && env.norm path target.props.target != some target.props.target then
    (some "notportable", st) else
  if !validLeaf name then (some "symlink", st) else
  let (a, st) := hook env st .symlink name
  if a.fails then (some "symlink", st) else
  match fsSymlink st.fs parent name target.props.target with
  | none => (some "symlink", st)
  | some fs =>
    let st := { st with fs := fs }
    match opChmod env st parent name 0 with
    | (false, st) => (none, st.problem path "mklink:perm")
    | (true, st) => (none, st)

/-- `createDirectory` as seen by its own content loop. -/
abbrev MkRec := St → Handle → Name → Path → Entry → Option Entry × St

/-- transition.go:852-885, the `ContentLoop` of `createDirectory`; `acc` is
`created.Contents`. -/
def createLoop (env : Env) (rec : MkRec) (dirH : Handle) (path : Path) (target : Contents) :
    List Name → Contents → St → Contents × St
  | [], acc, st => (acc, st)
  | n :: rest, acc, st =>
    if st.cancelled then (acc, st.problem path "cancelled") else
    let cpath := path ++ [n]
    match lookup n target with
    | none => createLoop env rec dirH path target rest acc st
    | some entry =>
      if entry.kind == .directory then
        match rec st dirH n cpath entry with
        | (some c, st) => createLoop env rec dirH path target rest (upsert n c acc) st
        | (none, st) => createLoop env rec dirH path target rest acc st
      else if entry.kind == .file then
        match findAndMove env st cpath entry dirH n false with
        | (some e, st) => createLoop env rec dirH path target rest acc (st.problem cpath ("mkfile:" ++ e))
        | (none, st) => createLoop env rec dirH path target rest (upsert n entry acc) st
      else if entry.kind == .symlink then
        match createSymbolicLink env st dirH n cpath entry with
        | (some e, st) => createLoop env rec dirH path target rest acc (st.problem cpath ("mklink:" ++ e))
        | (none, st) => createLoop env rec dirH path target rest (upsert n entry acc) st
      else createLoop env rec dirH path target rest acc (st.problem cpath "create-unknown-type")

/-- transition.go:799-889 `createDirectory`. -/
def createDirectory (env : Env) : Nat → MkRec
  | 0, st, _, _, path, _ => (none, st.problem path "fuel")
  | fuel + 1, st, parent, name, path, target =>
    if !validLeaf name then (none, st.problem path "mkdir") else
    let (a, st) := hook env st .mkdir name
    if a.fails then (none, st.problem path "mkdir") else
    match fsMkdir st.fs parent name with
    | none => (none, st.problem path "mkdir")
    | some fs =>
      let st := { st with fs := fs }
      let created := Entry.mk target.props []
      match opChmod env st parent name env.dirMode with
      | (false, st) => (some created, st.problem path "chmod-dir")
      | (true, st) =>
        if target.children.isEmpty then (some created, st) else
        let (a, st) := hook env st .opendir name
        if a.fails then (some created, st.problem path "opendir-new") else
        match dirAt st.fs (parent ++ [name]) with
        | none => (some created, st.problem path "opendir-new")
        | some _ =>
          let (acc, st) := createLoop env (createDirectory env fuel) (parent ++ [name]) path target.children
            (env.ord (keys target.children)) [] st
          (some (Entry.mk target.props acc), st)

/-- transition.go:894-930 `create`. -/
def create (env : Env) (st : St) (path : Path) : Option Entry → Option Entry × St
  | none => (none, st)
  | some target =>
    match walkToParent env st path false with
    | (none, st) => (none, st.problem path "create-walk")
    | (some (parent, name), st) =>
      if target.kind == .directory then createDirectory env target.size st parent name path target
      else if target.kind == .file then
        match findAndMove env st path target parent name false with
        | (some e, st) => (none, st.problem path ("mkfile:" ++ e))
        | (none, st) => (some target, st)
      else if target.kind == .symlink then
        match createSymbolicLink env st parent name path target with
        | (some e, st) => (none, st.problem path ("mklink:" ++ e))
        | (none, st) => (some target, st)
      else (none, st.problem path "create-unknown-type")

/-- One iteration of the loop of `Transition` (transition.go:971-1013). -/
def step (env : Env) (st : St) (t : Change) : Option Entry × St :=
  if st.cancelled then (t.old, st.problem t.path "cancelled") else
  match t.old, t.new with
  | some o, some n =>
    if o.kind == .file && n.kind == .file then
      match swapFile env st t.path o n with
      | (some e, st) => (some o, st.problem t.path ("swap:" ++ e))
      | (none, st) => (some n, st)
    else
      match remove env st t.path (some o) with
      | (some r, st) => (some r, st)
      | (none, st) => create env st t.path (some n)
  | o, n =>
    match remove env st t.path o with
    | (some r, st) => (some r, st)
    | (none, st) => create env st t.path n

/-- transition.go:938-1017 `Transition`: results in order, final state
(problems, missing-files flag, filesystem). -/
def transition (env : Env) : St → List Change → List (Option Entry) × St
  | st, [] => ([], st)
  | st, t :: ts =>
    let (r, st) := step env st t
    let (rs, st) := transition env st ts
    (r :: rs, st)

/-! ## What a cold scan sees (scan.go) -/

/-- Parameters of the scan that matter here: no ignores, portable permissions
on a filesystem that preserves executability. -/
structure ScanCfg where
  slMode : SLMode
  norm : Path → String → Option String
  H : List UInt8 → List UInt8

/-- `strings.HasPrefix(name, filesystem.TemporaryNamePrefix)`. -/
def isTemporaryName (n : Name) : Bool := Mutagen.Facts.transitionTemporaryNamePrefix.isPrefixOf n

mutual
/-- scan.go `scanner.directory` / `file` / `symbolicLink` on a healthy tree. -/
def describe (sc : ScanCfg) (path : Path) : Node → Entry
  | .dir _ cs => .mk { kind := .directory } (describeKids sc path cs)
  | .file data perm _ _ => .mk { kind := .file, executable := perm &&& 0o111 != 0, digest := sc.H data } []
  | .symlink t =>
    match sc.slMode with
    | .ignore => .mk { kind := .untracked } []
    | .portable =>
      match sc.norm path t with
      | some t' => .mk { kind := .symlink, target := t' } []
      | none => .mk { kind := .problematic, problem := "invalid symbolic link" } []
    | .posixRaw =>
      if t == "" then .mk { kind := .problematic, problem := "symbolic link target is empty" } []
      else .mk { kind := .symlink, target := t } []
  | .other => .mk { kind := .untracked } []
def describeKids (sc : ScanCfg) (path : Path) : Kids → Contents
  | [] => []
  | (n, c) :: r =>
    if isTemporaryName n then describeKids sc path r
    else (n, describe sc (path ++ [n]) c) :: describeKids sc path r
end

/-- The snapshot content of `core.Scan` for a root that is absent, a directory
or a file (`none` = the scan itself fails: link or special file at the root). -/
def scanRoot (sc : ScanCfg) : Option Node → Option (Option Entry)
  | none => some none
  | some (.dir p cs) => some (some (describe sc [] (.dir p cs)))
  | some (.file d p m i) => some (some (describe sc [] (.file d p m i)))
  | some _ => none

mutual
/-- The digest cache a cold scan produces: one entry per regular file. -/
def cacheOf (H : List UInt8 → List UInt8) (path : Path) : Node → Cache
  | .dir _ cs => cacheOfKids H path cs
  | .file data perm mtime ino =>
    [(path, { mode := S_IFREG + perm, mtime := mtime, size := data.length, ino := ino, digest := H data })]
  | _ => []
def cacheOfKids (H : List UInt8 → List UInt8) (path : Path) : Kids → Cache
  | [] => []
  | (n, c) :: r =>
    (if isTemporaryName n then [] else cacheOf H (path ++ [n]) c) ++ cacheOfKids H path r
end

/-- The root node below the top. -/
def rootOf (env : Env) (top : Node) : Option Node := top.get [env.rootName]

end Mutagen.Model.TFS
