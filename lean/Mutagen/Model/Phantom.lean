import Mutagen.Model.Entry
/-
Model of /repo/pkg/synchronization/core/phantom.go on the entry trees of
`Model/Entry` (core Lean only, executable).

  reifyPhantomDirectories    phantom.go:7-111   (`reify`)
  ReifyPhantomDirectories    phantom.go:120-132 (`reifyPhantomDirectories`)

The Go function mutates deep copies of both snapshots in place while it
recurses over the union of the two content maps; the model returns the two new
trees together with the three return values. Recursion is over the name union
of alpha and beta (well-founded on the sizes of the two trees), as in `diff`.
-/
namespace Mutagen.Model

/-- phantom.go:11-14: `e != nil && (Kind == Directory || Kind == PhantomDirectory)`. -/
def isDirectoryKind (e : Option Entry) : Bool := isKind e .directory || isKind e .phantom

/-- phantom.go:21-22: `e != nil && Kind != Untracked`. -/
def isTrackedKind : Option Entry → Bool
  | none => false
  | some e => e.kind != .untracked

/-- What one call of `reifyPhantomDirectories` leaves behind and returns. -/
structure Reified where
  alpha : Option Entry
  beta : Option Entry
  tracked : Bool := false
  alphaCount : Nat := 0
  betaCount : Nat := 0
  deriving Repr, Inhabited

/-- The result recorded for a name (map lookup, first match). -/
def findResult (n : Name) : List (Name × Reified) → Option Reified
  | [] => none
  | (m, r) :: rest => if m = n then some r else findResult n rest

/-- The children of one side after the recursive calls: every child entry was
mutated in place by the call made for its name. -/
def reifiedKids (results : List (Name × Reified)) (pick : Reified → Option Entry) (cs : Contents) : Contents :=
  cs.map fun nc => (nc.1, ((findResult nc.1 results).bind pick).getD nc.2)

/-- phantom.go:64-97: what happens to one side's node once the children have
been processed. Returns the node and the increment of its directory count. -/
def reifyNode (toTracked : Bool) (kids : Contents) : Option Entry → Option Entry × Nat
  | none => (none, 0)
  | some (.mk p _) =>
    if p.kind == .directory || p.kind == .phantom then
      if toTracked then (some (.mk { p with kind := .directory } kids), 1)
      else if p.kind == .phantom then (some (.mk { p with kind := .untracked } []), 0)
      else (some (.mk p kids), 1)
    else (some (.mk p kids), 0)

/-- phantom.go:7-111 `reifyPhantomDirectories`. -/
def reify (ancestor alpha beta : Option Entry) : Reified :=
  -- 11-23
  if !isDirectoryKind alpha && !isDirectoryKind beta then
    { alpha := alpha, beta := beta, tracked := isTrackedKind alpha || isTrackedKind beta }
  else
    -- 29-47
    let results := (nameUnion [contents alpha, contents beta]).attach.map fun n =>
      (n.1, reify (lookup n.1 (contents ancestor)) (lookup n.1 (contents alpha)) (lookup n.1 (contents beta)))
    let trackedLower := results.any fun r => r.2.tracked
    let alphaLower := (results.map fun r => r.2.alphaCount).sum
    let betaLower := (results.map fun r => r.2.betaCount).sum
    -- 60-62
    let toTracked := trackedLower || isKind ancestor .directory
    -- 64-97
    let (alpha', da) := reifyNode toTracked (reifiedKids results (·.alpha) (contents alpha)) alpha
    let (beta', db) := reifyNode toTracked (reifiedKids results (·.beta) (contents beta)) beta
    -- 103-110
    { alpha := alpha', beta := beta', tracked := alphaLower + da ≥ 1 || betaLower + db ≥ 1,
      alphaCount := alphaLower + da, betaCount := betaLower + db }
termination_by osz alpha + osz beta
decreasing_by
  obtain ⟨n, hn⟩ := n
  show _ < _
  simp only []
  have hm := mem_nameUnion.mp hn
  have h1 := osz_lookup_contents_le n alpha
  have h2 := osz_lookup_contents_le n beta
  obtain ⟨m, hm, hk⟩ := hm
  simp only [List.mem_cons, List.not_mem_nil, or_false] at hm
  rcases hm with rfl | rfl
  · have := osz_lookup_contents_lt n alpha hk; omega
  · have := osz_lookup_contents_lt n beta hk; omega

/-- phantom.go:120-132 `ReifyPhantomDirectories` (the copies it makes are
value-identical to their originals). -/
def reifyPhantomDirectories (ancestor alpha beta : Option Entry) : Option Entry × Option Entry × Nat × Nat :=
  let r := reify ancestor alpha beta
  (r.alpha, r.beta, r.alphaCount, r.betaCount)

end Mutagen.Model
