import Mutagen.Generated.Facts
/-
Model of pkg/url (parse.go, parse_ssh.go, parse_docker.go, parse_local.go,
format.go, url.go, paths.go, environment.go, forwarding/parse.go), core Lean
only. Used by C38 (round trip) and C36 (validation + argument vectors).

Strings are Go byte strings: a `Str` is the list of the string's *bytes*, each
byte as the `Char` with that code. Every delimiter the parsers look for is
ASCII and UTF-8 is self-synchronising, so ranging over runes (as the Go code
does) and ranging over bytes find the same positions. The one place where a
non-ASCII rune matters is `strings.ToLower` in `isDockerURL`: U+212A KELVIN
SIGN (bytes E2 84 AA) lower-cases to `k` (the harness re-checks on every run
that this is the only non-ASCII rune whose lower case is one of the characters
of the prefix).

The model describes the *repaired* code (fixes/C36.patch, fixes/C38.patch):
* `parseSCPSSH`, `parseDocker` and `EnsureValid` reject user names, host names
  and container names that start with '-' (C36);
* `parseDocker` rejects an empty user name before '@', as `parseSCPSSH`
  already does (C38: `docker://@a@b/p` formatted as `docker://a@b/p`);
* `formatSSH` writes a zero port explicitly when the text would otherwise be
  parsed differently (C38: `host:0:123:foo`, `docker:0://x`).

Parameters of the model (`Platform`): `runtime.GOOS == "windows"`, the
`MUTAGEN_EXTENSION` switch, `filesystem.Normalize`, `filepath.IsAbs` and the
process environment.
-/
namespace Mutagen.Model.URL

abbrev Str := List Char

inductive Kind | synchronization | forwarding | unsupported
  deriving DecidableEq, Repr

inductive Protocol | local | ssh | docker | unknown
  deriving DecidableEq, Repr

/-- `url.URL`. The two Go maps are association lists; `parseDocker` fills the
environment in the order of `DockerEnvironmentVariables`. -/
structure URL where
  kind : Kind
  protocol : Protocol
  user : Str
  host : Str
  port : Nat
  path : Str
  environment : List (Str × Str)
  parameters : List (Str × Str)
  deriving DecidableEq, Repr

structure Platform where
  /-- `runtime.GOOS == "windows"` -/
  windows : Bool
  /-- `extension.EnvironmentIsExtension()` -/
  extension : Bool
  /-- `filesystem.Normalize` (`none` = error) -/
  normalize : Str → Option Str
  /-- `filepath.IsAbs` -/
  isAbs : Str → Bool
  /-- `os.LookupEnv` -/
  lookupEnv : Str → Option Str

/-- Errors of `Parse` (one constructor per `errors.New`/`fmt.Errorf` site). -/
inductive Err
  | unsupportedKind | emptyURL
  | emptyUsername | emptyHostname | noHostname | optionLike | invalidPort | emptyPath | invalidEndpoint
  | emptyContainer | missingPath | missingEndpoint
  | normalize | normalizeSocket
  deriving DecidableEq, Repr

/-! ## Small string helpers -/

def isDigit (c : Char) : Bool := '0' ≤ c && c ≤ '9'

def isLetter (c : Char) : Bool := ('a' ≤ c && c ≤ 'z') || ('A' ≤ c && c ≤ 'Z')

/-- `paths.go: isWindowsPath`. -/
def isWindowsPath : Str → Bool
  | c0 :: c1 :: c2 :: _ => isLetter c0 && c1 == ':' && (c2 == '\\' || c2 == '/')
  | _ => false

/-- Split at the first occurrence of `stop`: `(before, after)`. -/
def splitAt (stop : Char) : Str → Option (Str × Str)
  | [] => none
  | c :: cs =>
    if c = stop then some ([], cs)
    else match splitAt stop cs with
      | some (a, b) => some (c :: a, b)
      | none => none

/-- The user-name loops: scan until `stop` (give up) or '@' (split there). -/
def splitUser (stop : Char) : Str → Option (Str × Str)
  | [] => none
  | c :: cs =>
    if c = stop then none
    else if c = '@' then some ([], cs)
    else match splitUser stop cs with
      | some (a, b) => some (c :: a, b)
      | none => none

/-- Longest prefix of ASCII digits, and the rest. -/
def spanDigits : Str → Str × Str
  | [] => ([], [])
  | c :: cs =>
    if isDigit c then ((c :: (spanDigits cs).1), (spanDigits cs).2)
    else ([], c :: cs)

def digitsVal (ds : Str) : Nat := ds.foldl (fun acc c => acc * 10 + (c.toNat - 48)) 0

/-- `strconv.ParseUint(s, 10, 16)` on a string of ASCII digits. -/
def parseUint16 (ds : Str) : Option Nat :=
  if ds = [] then none
  else if digitsVal ds > 65535 then none
  else some (digitsVal ds)

def digitChar (n : Nat) : Char := Char.ofNat (48 + n)

/-- `fmt.Sprintf("%d", n)`. -/
def natToDec (n : Nat) : Str :=
  if n < 10 then [digitChar n] else natToDec (n / 10) ++ [digitChar (n % 10)]

def startsWithDash : Str → Bool
  | '-' :: _ => true
  | _ => false

/-! ## forwarding.Parse -/

inductive FwdErr | empty | format | protocol | address
  deriving DecidableEq, Repr

/-- `forwarding.IsValidProtocol` (a `switch`; the names are tied by the C38 stream). -/
def isValidProtocol (p : Str) : Bool :=
  p == "tcp".toList || p == "tcp4".toList || p == "tcp6".toList || p == "unix".toList || p == "npipe".toList

def fwdParse (url : Str) : Except FwdErr (Str × Str) :=
  if url = [] then .error .empty
  else match splitAt ':' url with
    | none => .error .format
    | some (proto, addr) =>
      if !isValidProtocol proto then .error .protocol
      else if addr = [] then .error .address
      else .ok (proto, addr)

/-! ## Classification -/

def dockerURLPrefix : Str := Mutagen.Facts.urlDockerURLPrefix.toList

/-- `unicode.ToLower(c) == p` for an ASCII character `c`: `c` is `p`, or `p` is a
lower-case letter and `c` its upper-case form. -/
def matchesLower (c p : Char) : Bool :=
  (c == p && !('A' ≤ p && p ≤ 'Z')) || ('a' ≤ p && p ≤ 'z' && c == Char.ofNat (p.toNat - 32))

/-- The two continuation bytes of U+212A KELVIN SIGN (after 0xE2). -/
def kelvinTail : Str → Option Str
  | c1 :: c2 :: cs => if c1 == Char.ofNat 0x84 && c2 == Char.ofNat 0xAA then some cs else none
  | _ => none

/-- `strings.HasPrefix(strings.ToLower(raw), pat)` for an ASCII pattern, on
bytes: besides ASCII letters, the three bytes of U+212A KELVIN SIGN lower-case
to `k`. -/
def lowerHasPrefix (raw : Str) : Str → Bool
  | [] => true
  | p :: ps =>
    match raw with
    | [] => false
    | c :: cs =>
      if matchesLower c p then lowerHasPrefix cs ps
      else if p == 'k' && c == Char.ofNat 0xE2 then
        match kelvinTail cs with
        | some cs' => lowerHasPrefix cs' ps
        | none => false
      else false

def isDockerURL (raw : Str) : Bool := lowerHasPrefix raw dockerURLPrefix

/-- The sync-URL loop of `isSCPSSHURL`: a colon before any forward slash. -/
def colonBeforeSlash : Str → Bool
  | [] => false
  | c :: cs => if c = ':' then true else if c = '/' then false else colonBeforeSlash cs

def isSCPSSHURL (P : Platform) (raw : Str) : Kind → Bool
  | .synchronization =>
    if P.windows && isWindowsPath raw then false else colonBeforeSlash raw
  | .forwarding =>
    match fwdParse raw with
    | .ok _ => false
    | .error _ => if raw.count ':' < 2 then false else true
  | .unsupported => false

/-! ## parseSCPSSH -/

/-- The port loop: digits up to a colon are a port specification. -/
def parsePort (raw : Str) : Except Err (Nat × Str) :=
  match (spanDigits raw).2 with
  | ':' :: rest' =>
    match parseUint16 (spanDigits raw).1 with
    | some p => .ok (p, rest')
    | none => .error .invalidPort
  | _ => .ok (0, raw)

/-- The user-name loop of `parseSCPSSH`. -/
def sshUser (raw : Str) : Except Err (Str × Str) :=
  match splitUser ':' raw with
  | some ([], _) => .error .emptyUsername
  | some (u, r) => .ok (u, r)
  | none => .ok ([], raw)

/-- The host-name loop of `parseSCPSSH`. -/
def sshHost (raw : Str) : Except Err (Str × Str) :=
  match splitAt ':' raw with
  | some ([], _) => .error .emptyHostname
  | some (h, r) => .ok (h, r)
  | none => .error .noHostname

/-- Path processing of the SSH parser: non-empty path, or a valid forwarding
endpoint. -/
def sshPathError (kind : Kind) (path : Str) : Option Err :=
  match kind with
  | .synchronization => if path = [] then some .emptyPath else none
  | _ => match fwdParse path with
    | .ok _ => none
    | .error _ => some .invalidEndpoint

def parseSCPSSH (raw : Str) (kind : Kind) : Except Err URL :=
  match sshUser raw with
  | .error e => .error e
  | .ok (username, raw1) =>
    match sshHost raw1 with
    | .error e => .error e
    | .ok (hostname, raw2) =>
      -- (C36 repair) components that ssh/scp would take for options
      if startsWithDash username || startsWithDash hostname then .error .optionLike else
      match parsePort raw2 with
      | .error e => .error e
      | .ok (port, path) =>
        match sshPathError kind path with
        | some e => .error e
        | none =>
          .ok { kind := kind, protocol := .ssh, user := username, host := hostname, port := port, path := path,
                environment := [], parameters := [] }

/-! ## parseDocker -/

def dockerEnvironmentVariables : List Str := Mutagen.Facts.urlDockerEnvironmentVariables.map String.toList

def dockerParameterNames : List Str := Mutagen.Facts.urlDockerParameterNames.map String.toList

/-- `environment.go: getEnvironmentVariable`. -/
def getEnvironmentVariable (P : Platform) (name : Str) (kind : Kind) (first : Bool) : Option Str :=
  if name = [] then none else
  let specific : Str :=
    match kind, first with
    | .synchronization, true => Mutagen.Facts.urlAlphaPrefix.toList ++ name
    | .synchronization, false => Mutagen.Facts.urlBetaPrefix.toList ++ name
    | _, true => Mutagen.Facts.urlSourcePrefix.toList ++ name
    | _, false => Mutagen.Facts.urlDestinationPrefix.toList ++ name
  match P.lookupEnv specific with
  | some v => some v
  | none => P.lookupEnv name

def captureEnvironment (P : Platform) (kind : Kind) (first : Bool) : List (Str × Str) :=
  dockerEnvironmentVariables.filterMap fun v =>
    match getEnvironmentVariable P v kind first with
    | some val => some (v, val)
    | none => none

/-- Path post-processing of `parseDocker` for synchronization URLs (`path`
starts with the '/' kept by the split). -/
def dockerSyncPath (path : Str) : Str :=
  let path := if (path.drop 1).head? = some '~' then path.drop 1 else path
  if isWindowsPath (path.drop 1) then path.drop 1 else path

def splitCharacter (kind : Kind) : Char := if kind = .synchronization then '/' else ':'

/-- The user-name loop of `parseDocker` ((C38 repair) an empty user name is rejected). -/
def dockerUser (kind : Kind) (raw : Str) : Except Err (Str × Str) :=
  match splitUser (splitCharacter kind) raw with
  | some ([], _) => .error .emptyUsername
  | some (u, r) => .ok (u, r)
  | none => .ok ([], raw)

/-- The container/path loop of `parseDocker`: the path keeps the split character. -/
def dockerContainer (kind : Kind) (raw : Str) : Str × Str :=
  match splitAt (splitCharacter kind) raw with
  | some (c, r) => (c, splitCharacter kind :: r)
  | none => ([], [])

def dockerPath (kind : Kind) (path : Str) : Except Err Str :=
  match kind with
  | .synchronization => .ok (dockerSyncPath path)
  | _ =>
    match fwdParse (path.drop 1) with
    | .ok _ => .ok (path.drop 1)
    | .error _ => .error .invalidEndpoint

/-- `parseDocker` after the prefix has been stripped. -/
def parseDockerBody (P : Platform) (raw : Str) (kind : Kind) (first : Bool) : Except Err URL :=
  match dockerUser kind raw with
  | .error e => .error e
  | .ok (username, raw1) =>
    if (dockerContainer kind raw1).1 = [] then .error .emptyContainer
    else if (dockerContainer kind raw1).2 = [] then
      .error (if kind = .synchronization then .missingPath else .missingEndpoint)
    -- (C36 repair)
    else if startsWithDash username || startsWithDash (dockerContainer kind raw1).1 then .error .optionLike
    else match dockerPath kind (dockerContainer kind raw1).2 with
      | .error e => .error e
      | .ok path =>
        .ok { kind := kind, protocol := .docker, user := username, host := (dockerContainer kind raw1).1,
              port := 0, path := path, environment := captureEnvironment P kind first, parameters := [] }

def parseDocker (P : Platform) (raw : Str) (kind : Kind) (first : Bool) : Except Err URL :=
  parseDockerBody P (raw.drop dockerURLPrefix.length) kind first

/-! ## parseLocal -/

def localURL (kind : Kind) (path : Str) : URL :=
  { kind := kind, protocol := .local, user := [], host := [], port := 0, path := path,
    environment := [], parameters := [] }

def parseLocal (P : Platform) (raw : Str) (kind : Kind) : Except Err URL :=
  match kind with
  | .synchronization =>
    match P.normalize raw with
    | none => .error .normalize
    | some n => .ok (localURL kind n)
  | _ =>
    match fwdParse raw with
    | .error _ => .error .invalidEndpoint
    | .ok (proto, addr) =>
      if proto = "unix".toList then
        match P.normalize addr with
        | none => .error .normalizeSocket
        | some n => .ok (localURL kind (proto ++ ':' :: n))
      else .ok (localURL kind raw)

/-! ## Parse -/

def parse (P : Platform) (raw : Str) (kind : Kind) (first : Bool) : Except Err URL :=
  if kind = .unsupported then .error .unsupportedKind
  else if raw = [] then .error .emptyURL
  else if isDockerURL raw then parseDocker P raw kind first
  else if isSCPSSHURL P raw kind then parseSCPSSH raw kind
  else parseLocal P raw kind

/-! ## Format -/

/-- (C38 repair) `zeroPortRequired`: without an explicit zero port the text
would be classified as a Docker URL, or the beginning of the path would be
taken for a port specification. -/
def zeroPortRequired (target path : Str) : Bool :=
  isDockerURL (target ++ ':' :: path) ||
  (match (spanDigits path).2 with
   | ':' :: _ => true
   | _ => false)

/-- `[user@]host`. -/
def target (u : URL) : Str := if u.user ≠ [] then u.user ++ '@' :: u.host else u.host

def formatSSH (u : URL) : Str :=
  if u.port ≠ 0 || zeroPortRequired (target u) u.path then
    target u ++ ':' :: (natToDec u.port ++ ':' :: u.path)
  else target u ++ ':' :: u.path

def invalidDockerURLFormat : Str := Mutagen.Facts.urlInvalidDockerURLFormat.toList

def lookup (k : Str) : List (Str × Str) → Option Str
  | [] => none
  | (k', v) :: rest => if k' = k then some v else lookup k rest

/-- How `formatDocker` writes a synchronization path: home-relative and Windows
paths get a slash in front; anything else that does not start with a slash is
invalid (`none`). -/
def dockerPathText (path : Str) : Option Str :=
  match path with
  | [] => none
  | c :: _ =>
    if c = '/' then some path
    else if c = '~' || isWindowsPath path then some ('/' :: path)
    else none

/-- The container/user/path part of `formatDocker`; `none` = invalid. -/
def formatDockerBody (u : URL) : Option Str :=
  match u.kind with
  | .synchronization =>
    match dockerPathText u.path with
    | some text => some (target u ++ text)
    | none => none
  | _ => some (target u ++ ':' :: u.path)

def formatDocker (u : URL) (environmentPrefix : Str) : Str :=
  match formatDockerBody u with
  | none => invalidDockerURLFormat
  | some body =>
    let result := dockerURLPrefix ++ body
    if environmentPrefix = [] then result else
    let result := dockerEnvironmentVariables.foldl (fun acc v =>
      match lookup v u.environment with
      | some val => acc ++ environmentPrefix ++ v ++ '=' :: val
      | none => acc) result
    dockerParameterNames.foldl (fun acc n =>
      match lookup n u.parameters with
      | some val => if val = [] then acc ++ environmentPrefix ++ n ++ "=true".toList
                    else acc ++ environmentPrefix ++ n ++ '=' :: val
      | none => acc) result

/-- `URL.Format`; `none` = panic (unknown protocol). -/
def format (u : URL) (environmentPrefix : Str) : Option Str :=
  match u.protocol with
  | .local => some u.path
  | .ssh => some (formatSSH u)
  | .docker => some (formatDocker u environmentPrefix)
  | .unknown => none

/-! ## EnsureValid -/

inductive VErr
  | kind
  | localUser | localHost | localPort | localEnvironment | localParameters
  | sshHost | sshPort | sshEnvironment | sshOption
  | dockerHost | dockerPort | dockerOption
  | protocol
  | emptyPath | relativePath | dockerFirstCharacter
  | endpoint | relativeSocket
  deriving DecidableEq, Repr

/-- User, host, port, environment and parameters, by protocol. -/
def validComponents (u : URL) : Except VErr Unit :=
  match u.protocol with
  | .local =>
    if u.user ≠ [] then .error .localUser
    else if u.host ≠ [] then .error .localHost
    else if u.port ≠ 0 then .error .localPort
    else if u.environment ≠ [] then .error .localEnvironment
    else if u.parameters ≠ [] then .error .localParameters
    else .ok ()
  | .ssh =>
    if u.host = [] then .error .sshHost
    else if u.port > 65535 then .error .sshPort
    else if u.environment ≠ [] then .error .sshEnvironment
    else if startsWithDash u.user || startsWithDash u.host then .error .sshOption
    else .ok ()
  | .docker =>
    if u.host = [] then .error .dockerHost
    else if u.port ≠ 0 then .error .dockerPort
    else if startsWithDash u.user || startsWithDash u.host then .error .dockerOption
    else .ok ()
  | .unknown => .error .protocol

/-- The path, by kind. -/
def validPath (P : Platform) (u : URL) : Except VErr Unit :=
  match u.kind with
  | .synchronization =>
    if u.path = [] then .error .emptyPath
    else if !P.extension && u.protocol = .local && !P.isAbs u.path then .error .relativePath
    else if u.protocol = .docker &&
        !(u.path.head? = some '/' || u.path.head? = some '~' || isWindowsPath u.path) then
      .error .dockerFirstCharacter
    else .ok ()
  | _ =>
    match fwdParse u.path with
    | .error _ => .error .endpoint
    | .ok (proto, addr) =>
      if u.protocol = .local && proto = "unix".toList && !P.isAbs addr then .error .relativeSocket
      else .ok ()

def ensureValid (P : Platform) (u : URL) : Except VErr Unit :=
  if u.kind = .unsupported then .error .kind
  else match validComponents u with
    | .error e => .error e
    | .ok () => validPath P u

/-! ## The POSIX platform (the one the harness runs on) -/

/-- `filepath.IsAbs` on POSIX: a leading slash. -/
def posixIsAbs : Str → Bool
  | '/' :: _ => true
  | _ => false

def posix (extension : Bool) (normalize : Str → Option Str) (lookupEnv : Str → Option Str) : Platform :=
  { windows := false, extension := extension, normalize := normalize, isAbs := posixIsAbs, lookupEnv := lookupEnv }

/-- What the round-trip theorem needs to know about `filesystem.Normalize`
(tested on every run by the C38 harness): results are absolute and already
normal. -/
def NormSpec (P : Platform) : Prop :=
  ∀ s n, P.normalize s = some n → P.isAbs n = true ∧ P.normalize n = some n

end Mutagen.Model.URL
