/-
The multiplexer pair as a transition system: every atomic action of
`Model/Mux.lean` that the program, the background goroutines or the carrier can
take, with the preconditions the Go API imposes on the program (a stream can
only be used through the handle that `OpenStream`/`AcceptStream` returned, i.e.
once it is established; writes happen only while the write-deadline semaphore
is in circulation, i.e. before `closeWrite`; reads only before `close`).
Core Lean only.
-/
import Mutagen.Model.Mux
namespace Mutagen.Model.Mux

/-- `acceptOneStream` giving up after it took an identifier from the backlog
(context cancelled / multiplexer closing while it waits for a write buffer):
the deferred `stream.Close()`. -/
def Side.acceptAbort (s : Side) : Side :=
  match s.backlog with
  | [] => s
  | id :: rest => ({ s with backlog := rest }).close id true

/-- The program holds a handle of stream `id` on this side. -/
def Side.hasHandle (s : Side) (id : Nat) : Bool :=
  match s.streams id with
  | some st => st.established
  | none => false

def Side.flagOf (s : Side) (id : Nat) (f : Stream → Bool) : Bool :=
  match s.streams id with
  | some st => f st
  | none => false

/-- The local actions of one side: API calls of the program (split at their
blocking points) and steps of the enqueue goroutine. -/
inductive SAct
  | openStream
  | openWait (id : Nat) (canceled : Bool)
  | accept (goStale : Bool)
  | acceptAbort
  | read (id n now : Nat)
  | writeChunk (id : Nat) (data : List UInt8)
  | closeWrite (id : Nat)
  | closeBegin (id : Nat)
  | deregister (id : Nat)
  | flushIncr (id : Nat)
  | flushCW (id : Nat)
  | flushClose (id : Nat)
  | setReadDeadline (id : Nat) (d : Deadline)
  | setWriteDeadline (id : Nat) (d : Deadline)

/-- Effect of a local action: the new side and the messages it puts on the
wire. An action whose precondition does not hold changes nothing. -/
def Side.act (s : Side) : SAct → Side × List Msg
  | .openStream => let r := s.openStream; (r.1, r.2.1)
  | .openWait id c =>
    -- the tail of `OpenStream`: only ever runs on an outbound stream
    if s.isOutbound id then ((s.openWait id c).1, []) else (s, [])
  | .accept g => let r := s.acceptOne g false; (r.1, r.2.1)
  | .acceptAbort => (s.acceptAbort, [])
  | .read id k now => if s.hasHandle id then ((s.read id k now).1, []) else (s, [])
  | .writeChunk id data =>
    if s.hasHandle id ∧ !s.flagOf id (·.closedWrite) then
      let r := s.writeChunk id data
      (r.1, r.2.1)
    else (s, [])
  | .closeWrite id => if s.hasHandle id then (s.closeWrite id true, []) else (s, [])
  | .closeBegin id => if s.hasHandle id then (s.closeBegin id true, []) else (s, [])
  | .deregister id => if s.flagOf id (·.closed) then (s.deregister id, []) else (s, [])
  | .flushIncr id => s.flushIncr id
  | .flushCW id => s.flushCW id
  | .flushClose id => s.flushClose id
  | .setReadDeadline id d => if s.hasHandle id then ((s.setReadDeadline id d).1, []) else (s, [])
  | .setWriteDeadline id d => if s.hasHandle id then ((s.setWriteDeadline id d).1, []) else (s, [])

inductive Action
  | act (w : Who) (a : SAct)
  /-- the carrier hands the oldest in-flight message to `w`'s reader -/
  | deliver (w : Who)
  /-- `Multiplexer.Close` -/
  | muxClose (w : Who)

def Net.step (n : Net) : Action → Net
  | .act w a =>
    let r := (n.side w).act a
    (n.setSide w r.1).send w r.2
  | .deliver w => (n.deliver w).1
  | .muxClose w => n.fail w none

def Net.run (n : Net) : List Action → Net
  | [] => n
  | a :: as => (n.step a).run as

/-- Both multiplexers are up. -/
def Net.alive (n : Net) : Prop := n.a.closedMux = false ∧ n.b.closedMux = false

end Mutagen.Model.Mux
