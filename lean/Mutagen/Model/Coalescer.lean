/-
Model of pkg/state/coalescer.go (core Lean only): the run loop as a timed
automaton.

State of the real thing that matters: the coalescing timer (stopped, or armed
with a deadline, or expired with its value waiting in `timer.C`), the
one-slot `signals` channel, the cancellation flag of the loop's context and
whether the loop has returned (`done` closed). `strobes` is unbuffered, so a
`Strobe()` call completes exactly when the loop takes its `case <-c.strobes`
branch: that rendezvous is the `strobe` step.

Steps:
* `strobe`     – loop takes `case <-c.strobes`: `timer.Stop()`, drain,
                 `timer.Reset(window)`;
* `strobeDone` – `Strobe()` returns through `case <-c.done` (no effect);
* `tick d`     – `d` units of time pass. *Timer accuracy (assumed):* time
                 cannot pass the deadline of an armed timer without `expire`
                 happening first;
* `expire`     – the armed timer reaches its deadline: its value becomes
                 receivable on `timer.C`;
* `deliver`    – loop takes `case <-timer.C`: non-blocking send on `signals`;
* `recv`       – the consumer receives from `Signals()`;
* `terminate`  – `Terminate()` cancels the context;
* `exit`       – loop takes `case <-ctx.Done()`: `timer.Stop()`, `close(done)`.

Go's `select` chooses among ready branches arbitrarily and the scheduler may
delay the loop arbitrarily: every interleaving of enabled steps is a run.
What the model cannot exhibit: that `deliver` happens soon after `expire`
(scheduler fairness), and that `expire` happens at the deadline (timer
accuracy, encoded in the guard of `tick`).

History variables (never read by the steps that mirror code): `lastStrobe`,
`delivers` (timer branches taken since the last strobe), `sends`, `strobes`.
-/
namespace Mutagen.Model.Coalescer

/-- Capacity of `signals` (`make(chan struct{}, 1)`). -/
def signalCap : Nat := 1

structure State where
  window : Nat
  now : Nat
  /-- `some t`: the timer is armed and expires at `t`. -/
  deadline : Option Nat
  /-- the expired timer's value has not been received from `timer.C` yet. -/
  fired : Bool
  /-- number of signals buffered in `c.signals`. -/
  sig : Nat
  /-- the loop's context has been cancelled. -/
  cancelled : Bool
  /-- the loop has returned and closed `done`. -/
  exited : Bool
  -- history
  lastStrobe : Option Nat
  delivers : Nat
  sends : Nat
  strobes : Nat
  deriving DecidableEq, Repr

/-- `NewCoalescer(window)`: a negative window has already been clamped to 0
(`window : Nat`); the timer is created and stopped/drained. -/
def init (window : Nat) : State :=
  { window := window, now := 0, deadline := none, fired := false, sig := 0,
    cancelled := false, exited := false, lastStrobe := none, delivers := 0, sends := 0, strobes := 0 }

inductive Action
  | strobe | strobeDone | tick (d : Nat) | expire | deliver | recv | terminate | exit
  deriving DecidableEq, Repr

def step (s : State) : Action → Option State
  | .strobe =>
    if s.exited then none else
    some { s with deadline := some (s.now + s.window), fired := false,
                  lastStrobe := some s.now, delivers := 0, strobes := s.strobes + 1 }
  | .strobeDone => if s.exited then some s else none
  | .tick d =>
    match s.deadline with
    | some t => if s.now + d ≤ t then some { s with now := s.now + d } else none
    | none => some { s with now := s.now + d }
  | .expire =>
    match s.deadline with
    | some t => if t ≤ s.now then some { s with deadline := none, fired := true } else none
    | none => none
  | .deliver =>
    if s.fired ∧ ¬ s.exited then
      -- select { case c.signals <- struct{}{}: default: }
      if s.sig < signalCap then
        some { s with fired := false, sig := s.sig + 1, sends := s.sends + 1, delivers := s.delivers + 1 }
      else some { s with fired := false, delivers := s.delivers + 1 }
    else none
  | .recv => if 0 < s.sig then some { s with sig := s.sig - 1 } else none
  | .terminate => some { s with cancelled := true }
  | .exit =>
    if s.cancelled ∧ ¬ s.exited then some { s with deadline := none, fired := false, exited := true } else none

def run (s : State) : List Action → Option State
  | [] => some s
  | a :: as => (step s a).bind fun s' => run s' as

def Reachable (w : Nat) (s : State) : Prop := ∃ as, run (init w) as = some s

end Mutagen.Model.Coalescer
