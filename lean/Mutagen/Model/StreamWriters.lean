import Mutagen.Generated.Facts
/-
Model of the writer wrappers in pkg/stream (core Lean only):
cutoff_writer.go, line_processor.go, hashed_writer.go, preemptable_writer.go,
valve_writer.go, multi_closer.go.

The wrapped `io.Writer` is a scripted peer `Down`: one response per `Write`
call saying how many bytes it takes (clamped to the offer) and whether it
returns an error. A response returns an error when it is marked `fail` or —
unless it is marked `lax` — when it takes fewer bytes than offered, as the
io.Writer contract demands (short write ⇒ error). `lax` responses model
contract-violating writers: the model is defined for every script, the
theorems that need the contract assume `Down.Conforming` (no `lax` response).
An exhausted script accepts everything without error. `Down` records the accepted bytes and the length
offered on every call, so "was not called" and "was offered too much" are
observable.
-/
namespace Mutagen.Model.StreamWriters

inductive Err | none | peer | preempted | maxbuf
  deriving DecidableEq, Repr

structure WResp where
  accept : Nat
  fail : Bool
  /-- a short write is *not* turned into an error (violates the io.Writer contract) -/
  lax : Bool := false
  deriving Repr, DecidableEq

structure Down where
  script : List WResp
  /-- bytes the peer accepted, in order -/
  got : List UInt8
  /-- length offered on each call, oldest first -/
  offers : List Nat
  deriving Repr

def Down.new (script : List WResp) : Down := { script := script, got := [], offers := [] }

/-- One `Write(p)` call on the scripted peer: `(peer', n, failed)`. -/
def Down.write (d : Down) (p : List UInt8) : Down × Nat × Bool :=
  match d.script with
  | [] => ({ d with got := d.got ++ p, offers := d.offers ++ [p.length] }, p.length, false)
  | r :: rest =>
    let n := min r.accept p.length
    ({ script := rest, got := d.got ++ p.take n, offers := d.offers ++ [p.length] }, n,
      r.fail || (!r.lax && decide (n < p.length)))

/-- The peer obeys the io.Writer contract: no response may take fewer bytes
than offered without reporting an error. -/
def Down.Conforming (d : Down) : Prop := ∀ r ∈ d.script, r.lax = false

def peerErr (failed : Bool) : Err := if failed then .peer else .none

/-! ### cutoffWriter -/

structure Cutoff where
  down : Down
  /-- `cutoff`: bytes remaining (a Go `uint`) -/
  cutoff : Nat
  deriving Repr

/-- `(*cutoffWriter).Write`. -/
def Cutoff.write (w : Cutoff) (buffer : List UInt8) : Cutoff × Nat × Err :=
  if w.cutoff = 0 then (w, buffer.length, .none)
  else if buffer.length ≤ w.cutoff then
    let (d, written, failed) := w.down.write buffer
    ({ down := d, cutoff := w.cutoff - written }, written, peerErr failed)
  else
    let (d, written, failed) := w.down.write (buffer.take w.cutoff)
    let w' : Cutoff := { down := d, cutoff := w.cutoff - written }
    if failed then (w', written, .peer) else (w', buffer.length, .none)

/-! ### LineProcessor -/

structure LineProc where
  /-- `MaximumBufferSize` (0: default, negative: unlimited) -/
  maxBuf : Int
  buffer : List UInt8
  /-- arguments of the `Callback` calls, oldest first -/
  lines : List (List UInt8)
  deriving Repr

/-- `bytes.IndexByte`. -/
def indexByte : List UInt8 → UInt8 → Option Nat
  | [], _ => none
  | b :: rest, c => if b = c then some 0 else (indexByte rest c).map (· + 1)

theorem indexByte_lt {l : List UInt8} {c : UInt8} {i : Nat} (h : indexByte l c = some i) : i < l.length := by
  induction l generalizing i with
  | nil => simp [indexByte] at h
  | cons b rest ih =>
    simp only [indexByte] at h
    split at h
    · simp at h; subst h; simp
    · cases h' : indexByte rest c with
      | none => simp [h'] at h
      | some j => simp [h'] at h; subst h; have := ih h'; simp; omega

/-- `trimCarriageReturn`. -/
def trimCarriageReturn (buffer : List UInt8) : List UInt8 :=
  if buffer.length > 0 ∧ buffer.getLast? = some 13 then buffer.dropLast else buffer

/-- The `for { index := bytes.IndexByte(remaining, '\n') … }` loop: returns the
callback arguments and `processed`. -/
def lineLoop (remaining : List UInt8) (processed : Nat) (acc : List (List UInt8)) : List (List UInt8) × Nat :=
  match _h : indexByte remaining 10 with
  | none => (acc, processed)
  | some index =>
    lineLoop (remaining.drop (index + 1)) (processed + (index + 1))
      (acc ++ [trimCarriageReturn (remaining.take index)])
termination_by remaining.length
decreasing_by
  have := indexByte_lt _h
  simp only [List.length_drop]; omega

/-- `(*LineProcessor).Write`. -/
def LineProc.write (p : LineProc) (data : List UInt8) : LineProc × Nat × Err :=
  if p.maxBuf = 0 ∧ p.buffer.length + data.length > Mutagen.Facts.streamDefaultLineProcessorMaximumBufferSize then
    (p, 0, .maxbuf)
  else if p.maxBuf > 0 ∧ ((p.buffer.length + data.length : Nat) : Int) > p.maxBuf then
    (p, 0, .maxbuf)
  else
    let buffer := p.buffer ++ data
    let (called, processed) := lineLoop buffer 0 []
    let buffer :=
      if processed > 0 then
        let leftover := buffer.length - processed
        (buffer.drop processed).take leftover
      else buffer
    ({ p with buffer := buffer, lines := p.lines ++ called }, data.length, .none)

/-! ### hashedWriter -/

structure Hashed where
  down : Down
  /-- bytes fed to `hasher.Write`, in order (the digest is a function of these) -/
  hashed : List UInt8
  deriving Repr

/-- `(*hashedWriter).Write`. -/
def Hashed.write (w : Hashed) (data : List UInt8) : Hashed × Nat × Err :=
  let (d, n, failed) := w.down.write data
  ({ down := d, hashed := w.hashed ++ data.take n }, n, peerErr failed)

/-! ### preemptableWriter -/

structure Preempt where
  down : Down
  checkInterval : Nat
  writeCount : Nat
  deriving Repr

/-- `(*preemptableWriter).Write`; `cancelled` says whether the channel is
closed when the call polls it. -/
def Preempt.write (w : Preempt) (cancelled : Bool) (data : List UInt8) : Preempt × Nat × Err :=
  if w.writeCount = w.checkInterval then
    if cancelled then (w, 0, .preempted)
    else
      let (d, n, failed) := w.down.write data
      ({ w with down := d, writeCount := 0 }, n, peerErr failed)
  else
    let (d, n, failed) := w.down.write data
    ({ w with down := d, writeCount := w.writeCount + 1 }, n, peerErr failed)

/-! ### ValveWriter -/

structure Valve where
  down : Down
  /-- `writer != nil` -/
  isOpen : Bool
  deriving Repr

/-- `(*ValveWriter).Write` (under the lock). -/
def Valve.write (w : Valve) (buffer : List UInt8) : Valve × Nat × Err :=
  if !w.isOpen then (w, buffer.length, .none)
  else
    let (d, n, failed) := w.down.write buffer
    ({ w with down := d }, n, peerErr failed)

/-- `(*ValveWriter).Shut`. -/
def Valve.shut (w : Valve) : Valve := { w with isOpen := false }

/-! ### multiCloser -/

/-- `(*multiCloser).Close`: every closer is `none` (closes fine) or `some e`
(returns error `e`). Returns the closers called, in order, and the result. -/
def multiClose : List (Option Nat) → List Nat → Nat → Option Nat → List Nat × Option Nat
  | [], called, _, firstErr => (called, firstErr)
  | closer :: rest, called, i, firstErr =>
    let firstErr := if closer ≠ none ∧ firstErr = none then closer else firstErr
    multiClose rest (called ++ [i]) (i + 1) firstErr

def MultiCloser.close (closers : List (Option Nat)) : List Nat × Option Nat :=
  multiClose closers [] 0 none

/-! ### Write sequences -/

def Cutoff.run (w : Cutoff) : List (List UInt8) → Cutoff × List (Nat × Err)
  | [] => (w, [])
  | b :: bs =>
    let (w', n, e) := w.write b
    let (w'', rs) := w'.run bs
    (w'', (n, e) :: rs)

def LineProc.run (p : LineProc) : List (List UInt8) → LineProc × List (Nat × Err)
  | [] => (p, [])
  | b :: bs =>
    let (p', n, e) := p.write b
    let (p'', rs) := p'.run bs
    (p'', (n, e) :: rs)

def Hashed.run (w : Hashed) : List (List UInt8) → Hashed × List (Nat × Err)
  | [] => (w, [])
  | b :: bs =>
    let (w', n, e) := w.write b
    let (w'', rs) := w'.run bs
    (w'', (n, e) :: rs)

/-- A schedule for the preemptable writer: every write comes with the state of
the cancellation channel at the moment the write polls it. -/
def Preempt.run (w : Preempt) : List (Bool × List UInt8) → Preempt × List (Nat × Err)
  | [] => (w, [])
  | (c, b) :: rest =>
    let (w', n, e) := w.write c b
    let (w'', rs) := w'.run rest
    (w'', (n, e) :: rs)

inductive ValveOp
  | write (buffer : List UInt8)
  | shut
  deriving Repr

def Valve.run (w : Valve) : List ValveOp → Valve × List (Nat × Err)
  | [] => (w, [])
  | .write b :: rest =>
    let (w', n, e) := w.write b
    let (w'', rs) := w'.run rest
    (w'', (n, e) :: rs)
  | .shut :: rest => w.shut.run rest

/-- Writing a sequence directly to the peer (what an unwrapped caller sees). -/
def Down.run (d : Down) : List (List UInt8) → Down × List (Nat × Err)
  | [] => (d, [])
  | b :: bs =>
    let (d', n, failed) := d.write b
    let (d'', rs) := d'.run bs
    (d'', (n, peerErr failed) :: rs)

/-! ### Specification vocabulary -/

/-- The bytes a caller may regard as written: the first `n` bytes of each
buffer, `n` being the count the `Write` call returned. -/
def consumed : List (List UInt8) → List (Nat × Err) → List UInt8
  | b :: bs, (n, _) :: rs => b.take n ++ consumed bs rs
  | _, _ => []

/-- The bytes of the writes that were accepted (returned a nil error). -/
def accepted : List (List UInt8) → List (Nat × Err) → List UInt8
  | b :: bs, (_, e) :: rs => (if e = .none then b else []) ++ accepted bs rs
  | _, _ => []

/-- The buffer-size check of `LineProcessor.Write`: would `n` more bytes on top
of `pending` buffered ones exceed the limit? (`0`: the default limit from the
code, negative: no limit.) -/
def lineLimitExceeded (maxBuf : Int) (pending n : Nat) : Prop :=
  (maxBuf = 0 ∧ pending + n > Mutagen.Facts.streamDefaultLineProcessorMaximumBufferSize) ∨
  (maxBuf > 0 ∧ ((pending + n : Nat) : Int) > maxBuf)

/-- Split a byte stream at `'\n'`: the complete lines (without the newline)
and the trailing fragment after the last newline. -/
def splitLines : List UInt8 → List (List UInt8) × List UInt8
  | [] => ([], [])
  | b :: rest =>
    let (ls, rem) := splitLines rest
    if b = 10 then ([] :: ls, rem)
    else match ls with
      | [] => ([], b :: rem)
      | l :: ls' => ((b :: l) :: ls', rem)

end Mutagen.Model.StreamWriters
