/-
SHA-1 (FIPS 180-4), executable, core Lean only.

`Engine.strongHash` in pkg/synchronization/rsync/engine.go uses `crypto/sha1`.
The rsync model (`Mutagen.Model.Rsync`) is parametric in the strong hash; this
file provides the instance the model driver needs to reproduce the real
engine's signatures and match decisions byte for byte. No theorem depends on
this file: the theorems quantify over an arbitrary hash function.
-/
namespace Mutagen.Model.Sha1

def rotl (x : UInt32) (n : UInt32) : UInt32 := (x <<< n) ||| (x >>> (32 - n))

/-- Big-endian 64-bit length. -/
def lenBytes (bits : Nat) : List UInt8 :=
  (List.range 8).map fun i => UInt8.ofNat ((bits >>> (8 * (7 - i))) % 256)

def pad (msg : List UInt8) : List UInt8 :=
  let l := msg.length
  let zeros := (119 - l % 64) % 64  -- so that l + 1 + zeros ≡ 56 (mod 64)
  msg ++ [0x80] ++ List.replicate zeros 0 ++ lenBytes (8 * l)

def word (a b c d : UInt8) : UInt32 :=
  (a.toUInt32 <<< 24) ||| (b.toUInt32 <<< 16) ||| (c.toUInt32 <<< 8) ||| d.toUInt32

def wordsOf : List UInt8 → List UInt32
  | a :: b :: c :: d :: rest => word a b c d :: wordsOf rest
  | _ => []

def schedule (w : Array UInt32) : Array UInt32 := Id.run do
  let mut w := w
  for i in [16:80] do
    w := w.push (rotl (w[i-3]! ^^^ w[i-8]! ^^^ w[i-14]! ^^^ w[i-16]!) 1)
  return w

structure State where
  h0 : UInt32
  h1 : UInt32
  h2 : UInt32
  h3 : UInt32
  h4 : UInt32

def init : State := ⟨0x67452301, 0xEFCDAB89, 0x98BADCFE, 0x10325476, 0xC3D2E1F0⟩

def compress (s : State) (block : List UInt32) : State := Id.run do
  let w := schedule block.toArray
  let mut a := s.h0
  let mut b := s.h1
  let mut c := s.h2
  let mut d := s.h3
  let mut e := s.h4
  for i in [0:80] do
    let (f, k) :=
      if i < 20 then ((b &&& c) ||| ((~~~ b) &&& d), (0x5A827999 : UInt32))
      else if i < 40 then (b ^^^ c ^^^ d, (0x6ED9EBA1 : UInt32))
      else if i < 60 then ((b &&& c) ||| (b &&& d) ||| (c &&& d), (0x8F1BBCDC : UInt32))
      else (b ^^^ c ^^^ d, (0xCA62C1D6 : UInt32))
    let t := rotl a 5 + f + e + k + w[i]!
    e := d
    d := c
    c := rotl b 30
    b := a
    a := t
  return ⟨s.h0 + a, s.h1 + b, s.h2 + c, s.h3 + d, s.h4 + e⟩

def blocks : Nat → List UInt32 → State → State
  | 0, _, s => s
  | n + 1, ws, s => if ws.isEmpty then s else blocks n (ws.drop 16) (compress s (ws.take 16))

def be (x : UInt32) : List UInt8 :=
  [(x >>> 24).toUInt8, (x >>> 16).toUInt8, (x >>> 8).toUInt8, x.toUInt8]

/-- The 20-byte SHA-1 digest. -/
def sha1 (msg : List UInt8) : List UInt8 :=
  let ws := wordsOf (pad msg)
  let s := blocks (ws.length / 16 + 1) ws init
  be s.h0 ++ be s.h1 ++ be s.h2 ++ be s.h3 ++ be s.h4

end Mutagen.Model.Sha1
