/-
String glue between the tree model's paths (lists of names) and the Go code's
path strings (core Lean only, executable).

  fastpath.Joinable            pkg/synchronization/core/fastpath/fastpath.go:8-16
  contentPathPrefix + name     diff.go:29-37, reconcile.go:117-130, entry.go:233-242
  strings.Split(path, "/")     apply.go:36 (after the `change.Path == ""` root test, apply.go:29)

Strings are lists of characters here; the root path `""` is `[]`.
-/
namespace Mutagen.Model.PathString

abbrev Str := List Char

/-- fastpath.go:8-16 `Joinable`. -/
def joinable (base : Str) : Str := if base = [] then [] else base ++ ['/']

/-- `contentPathPrefix + name` with `contentPathPrefix = Joinable(path)`. -/
def child (path name : Str) : Str := joinable path ++ name

/-- The path string the recursions of `diff` / `reconcile` / `walk` build for
the node reached through the names `p` from the root `""`. -/
def join (p : List Str) : Str := p.foldl child []

/-- `strings.Split(s, "/")`: always at least one component. -/
def split : Str → List Str
  | [] => [[]]
  | c :: s =>
    if c = '/' then [] :: split s
    else match split s with
      | [] => [[c]]   -- unreachable: `split` never returns `[]`
      | h :: t => (c :: h) :: t

/-- What `Apply` does with a change path: `""` is the root, anything else is
split at `/`. -/
def components (path : Str) : List Str := if path = [] then [] else split path

/-- The per-name checks of `EnsureValid` that matter here: non-empty, no `/`. -/
def nameOk (n : Str) : Prop := n ≠ [] ∧ '/' ∉ n

end Mutagen.Model.PathString
