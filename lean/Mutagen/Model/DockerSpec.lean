import Mutagen.Model.IgnoreDocker
/-
Specification side of C15: per-path, non-recursive characterisations of the
two walks and the decidable hypothesis under which they coincide. Everything is
over an abstract per-pattern match `m`. Core Lean only.

For a node `x` with strict ancestors `a₁ … a_k` (outermost first):

* status of a path = what the last pattern matching *that path* says
  (`statusAt`); the *mask* after a sequence of paths = what the deepest
  non-nominal one says (`maskAfter`: ignored sets it, unignored clears it);
* **Mutagen** (`mutagenIncl`): `x` is synchronized iff the deepest matched prefix
  of `a₁ … a_k, x` is not an ignoring one, and every ancestor that is masked
  is a literal prefix of some exclusion pattern (else the walk is pruned there);
* **Docker** (`dockerIncl`): `x` is in the build context iff the last pattern
  matching `x` *or any ancestor* is not an ignoring one (`skipAt`), and every
  skipped ancestor is a literal prefix of some exclusion pattern;
* `noDepthOrderInversion`: for no node (or ancestor of a node) `y` does a
  *later* pattern match a strict ancestor of `y` while an *earlier* pattern of
  the opposite polarity matches `y`.
-/
namespace Mutagen.Model.DockerSpec
open Mutagen.Model.IgnoreCore Mutagen.Model.IgnoreDocker
open Mutagen.Model.IgnoreMutagen (lastMatchWins)

/-- What the last pattern matching exactly `path` says. -/
def statusAt {α : Type} (excl : α → Bool) (m : α → Str → Bool) (ps : List α) (path : Str) : Status :=
  lastMatchWins excl (fun p => m p path) ps .nominal

def maskStep (mask : Bool) : Status → Bool
  | .nominal => mask
  | .ignored => true
  | .unignored => false

/-- Deepest non-nominal status wins: `true` iff it is an ignoring one. -/
def maskAfter (sts : List Status) : Bool := sts.foldl maskStep false

/-- `f (a₁…a_{i-1}) a_i` holds at every position of the list (`acc` = what
precedes the list). -/
def allOk {β : Type} (f : List β → β → Bool) (acc : List β) : List β → Bool
  | [] => true
  | a :: rest => f acc a && allOk f (acc ++ [a]) rest

/-- A masked ancestor must be a literal prefix of an exclusion pattern. -/
def mutagenEnter {α : Type} (excl : α → Bool) (text : α → Str) (m : α → Str → Bool) (ps : List α)
    (before : List Str) (a : Str) : Bool :=
  !(maskAfter ((before ++ [a]).map (statusAt excl m ps))) || exclusionPrefix excl text ps a

def mutagenIncl {α : Type} (excl : α → Bool) (text : α → Str) (m : α → Str → Bool) (ps : List α)
    (chain : List Str) (x : Str) : Bool :=
  allOk (mutagenEnter excl text m ps) [] chain
    && !(maskAfter ((chain ++ [x]).map (statusAt excl m ps)))

/-- Docker's parent-inclusive verdict: the last pattern matching the path or
any of its ancestors is a non-exclusion pattern. -/
def skipAt {α : Type} (excl : α → Bool) (m : α → Str → Bool) (ps : List α) (path : Str) (parents : List Str) : Bool :=
  lastMatchWins excl (fun p => m p path || parents.any (fun a => m p a)) ps .nominal = .ignored

/-- A skipped ancestor must be a literal prefix of an exclusion pattern. -/
def dockerEnter {α : Type} (excl : α → Bool) (text : α → Str) (m : α → Str → Bool) (ps : List α)
    (before : List Str) (a : Str) : Bool :=
  !(skipAt excl m ps a before) || exclusionPrefix excl text ps a

def dockerIncl {α : Type} (excl : α → Bool) (text : α → Str) (m : α → Str → Bool) (ps : List α)
    (chain : List Str) (x : Str) : Bool :=
  allOk (dockerEnter excl text m ps) [] chain && !(skipAt excl m ps x chain)

/-- Every node below the root with its ancestor chain, in walk order.
`kind`: 0 file, 1 link, 2 directory, 3 other. -/
structure NodeAt where
  path : Str
  chain : List Str
  kind : Nat
  deriving Repr

mutual
def nodesOfChildren (path : Str) (chain : List Str) : List (Str × Node) → List NodeAt
  | [] => []
  | (name, node) :: rest => nodesOf (joinable path ++ name) chain node ++ nodesOfChildren path chain rest
def nodesOf (p : Str) (chain : List Str) : Node → List NodeAt
  | .file => [⟨p, chain, 0⟩]
  | .link => [⟨p, chain, 1⟩]
  | .other => [⟨p, chain, 3⟩]
  | .dir cs => ⟨p, chain, 2⟩ :: nodesOfChildren p (chain ++ [p]) cs
end

def allNodes (children : List (Str × Node)) : List NodeAt := nodesOfChildren [] [] children

def leafOf (n : NodeAt) : Option Included :=
  if n.kind = 0 then some (.file n.path) else if n.kind = 1 then some (.link n.path) else none

/-- Leaves the characterisation of the Mutagen walk selects. -/
def specLeaves {α : Type} (excl : α → Bool) (text : α → Str) (m : α → Str → Bool) (ps : List α)
    (children : List (Str × Node)) : List Included :=
  (allNodes children).filterMap fun n =>
    if mutagenIncl excl text m ps n.chain n.path then leafOf n else none

/-- Leaves the characterisation of Docker's walk selects. -/
def dockerSpecLeaves {α : Type} (excl : α → Bool) (text : α → Str) (m : α → Str → Bool) (ps : List α)
    (children : List (Str × Node)) : List Included :=
  (allNodes children).filterMap fun n =>
    if dockerIncl excl text m ps n.chain n.path then leafOf n else none

/-- All pairs `(earlier, later)` of a list. -/
def orderedPairs {β : Type} : List β → List (β × β)
  | [] => []
  | a :: rest => rest.map (fun b => (a, b)) ++ orderedPairs rest

/-- No inversion at `y` with strict ancestors `before`: no later pattern matches
an ancestor while an earlier one of the opposite polarity matches `y`. -/
def noInversionAt {α : Type} (excl : α → Bool) (m : α → Str → Bool) (ps : List α)
    (before : List Str) (y : Str) : Bool :=
  before.all fun z =>
    (orderedPairs ps).all fun (p1, p2) => !(m p1 y && m p2 z && excl p1 != excl p2)

/-- The decidable hypothesis of the equality theorem: no inversion at any node
of the tree nor at any of its ancestors. -/
def noDepthOrderInversion {α : Type} (excl : α → Bool) (m : α → Str → Bool) (ps : List α)
    (children : List (Str × Node)) : Bool :=
  (allNodes children).all fun n => allOk (noInversionAt excl m ps) [] (n.chain ++ [n.path])

end Mutagen.Model.DockerSpec
