/-
Reference glob matcher: the executable *specification* of
`github.com/bmatcuk/doublestar/v4.Match(pattern, name)` for the restricted
grammar used by C14/C15 — literals, `*`, `?`, `**`, character classes
(`[abc]`, `[a-z]`, `[!…]`, `[^…]`). Patterns containing `{`, `}` or `\` are
outside the grammar (`supported = false`); the harness never generates them.

It is written as a search over alternatives (disjunction over how much a `*`
or `**/` consumes), **not** as doublestar's index/backtrack loop — that loop is
transcribed separately in `Model/Doublestar` (the matcher the ignore models
run). The two are compared on every regular pattern the harness generates
(driver C14, `g` lines), and the real library is compared with both: this is
what ties doublestar's backtracking to the specification (doublestar is
trusted and tested, not proved — DESIGN.md §8 C14).

Semantics:
* `**` is a doublestar only at the start of a pattern segment and when followed
  by `/` or the end of the pattern; anywhere else it is a single `*`;
* `**/` matches zero or more whole directories, a trailing `/**` matches
  everything beneath *and the directory itself* (`a/**` ~ `a`, as documented by
  doublestar);
* `*`, `?` and character classes never match the separator `/`;
* bad patterns (unterminated or empty class) are detected by `valid`.
Known deviations of the library from this specification, all outside the
regular grammar or recorded by the harness: a class can match `/` on some
search paths (`a[!b]c` ~ `a/c`), `x*/**` does not match `x`, `a***` does not
match `a`.
Core Lean only.
-/
namespace Mutagen.Model.Glob

abbrev Str := List Char

/-- Is the pattern inside the modelled grammar? -/
def supported (p : Str) : Bool := !(p.contains '{' || p.contains '}' || p.contains '\\')

/-- Skip to just after the first `]`; `none` if there is none. -/
def skipClass : Str → Option Str
  | [] => none
  | c :: cs => if c = ']' then some cs else skipClass cs

/-- Scanner state of `doValidatePattern`. -/
inductive VState | normal | afterOpen | afterNeg | inClass
  deriving DecidableEq, Repr

/-- One byte of `doValidatePattern` (restricted grammar); `none` = bad pattern. -/
def vstep : VState → Char → Option VState
  | .normal, c => if c = '[' then some .afterOpen else some .normal
  | .afterOpen, c =>
    if c = '^' ∨ c = '!' then some .afterNeg
    else if c = ']' then none else some .inClass
  | .afterNeg, c => if c = ']' then none else some .inClass
  | .inClass, c => if c = ']' then some .normal else some .inClass

def vrun : VState → Str → Bool
  | s, [] => s = .normal
  | s, c :: cs =>
    match vstep s c with
    | none => false
    | some s' => vrun s' cs

/-- `doValidatePattern` for the restricted grammar: every `[` opens a
non-empty class that is closed by a `]`. -/
def valid (p : Str) : Bool := vrun .normal p

/-- Outcome of doublestar's class item loop for the name character `n`. -/
inductive Scan
  | ranOff                      -- the pattern ended inside the class without a match
  | closed (afterClose : Str)   -- no item matched; the rest after the closing `]`
  | matchedAt (afterItem : Str) -- an item matched; the rest right after that item
  deriving Repr

/-- The item loop of a character class body (after `[` and the optional
negation), mirroring doublestar: `lo-hi` is a range only when `lo` was a plain,
non-matching item immediately before the `-` and the `-` is not the last item.
`last` = the plain item just seen; `dash = some lo` = `lo-` has been read and
the next character decides between a range and a literal `-`. -/
def classScan (n : Char) : Str → Option Char → Option Char → Scan
  | [], _, _ => .ranOff
  | c :: cs, _, some lo =>
    if c = ']' then (if n = '-' then .matchedAt (c :: cs) else .closed cs)  -- `-` was the last item: literal
    else if lo ≤ n ∧ n ≤ c then .matchedAt cs
    else classScan n cs none none
  | c :: cs, last, none =>
    if c = ']' then .closed cs
    else match last with
      | some lo =>
        if c = '-' then classScan n cs none (some lo)
        else if c = n then .matchedAt cs
        else classScan n cs (some c) none
      | none =>
        if c = n then .matchedAt cs
        else classScan n cs (some c) none

/-- Split off the optional negation after `[`. -/
def classHead (afterBracket : Str) : Bool × Str :=
  match afterBracket with
  | '^' :: r => (true, r)
  | '!' :: r => (true, r)
  | r => (false, r)

/-- Parse the class that starts after `[` (specification, for valid patterns):
`(n is in the class, rest of pattern)`; `none` = bad pattern. -/
def matchClass (n : Char) (afterBracket : Str) : Option (Bool × Str) :=
  let (neg, body) := classHead afterBracket
  match body with
  | [] => none
  | d :: _ =>
    if d = ']' then none else
    match classScan n body none none with
    | .ranOff => none
    | .closed rest => some (neg, rest)
    | .matchedAt r => (skipClass r).map fun rest => (!neg, rest)

/-- doublestar's `isZeroLengthPattern` on the raw remainder (used by the
transcription in `Model/Doublestar`). -/
def zeroLength (p : Str) : Bool :=
  p = [] ∨ p = ['*'] ∨ p = ['*', '*'] ∨ p = ['/', '*', '*'] ∨ p = ['*', '*', '/'] ∨ p = ['/', '*', '*', '/']

/-- Specification: the remainder of a pattern can match the empty rest of a
name iff it consists of stars only, or is a trailing `/**` (possibly after
stars): `a/**` matches `a`. -/
def nullable (p : Str) : Bool :=
  let q := p.dropWhile (· = '*')
  q = [] ∨ q = ['/', '*', '*']

/-- `k` holds for the name or for the remainder after consuming non-`/` characters. -/
def starLoop (k : Str → Bool) : Str → Bool
  | [] => k []
  | n :: ns => k (n :: ns) || (n != '/' && starLoop k ns)

/-- `k` holds for the name or for some suffix that starts right after a `/`. -/
def dstarLoop (k : Str → Bool) : Str → Bool
  | [] => k []
  | n :: ns => k (n :: ns) || afterSlash k (n :: ns)
where
  afterSlash (k : Str → Bool) : Str → Bool
    | [] => false
    | n :: ns => (n == '/' && k ns) || afterSlash k ns

/-- The matcher proper. `sos` = the pattern position is at the start of a
segment. Fuel bounds the number of pattern characters processed (the wrapper
supplies more than enough). -/
def matchFuel : Nat → Str → Bool → Str → Bool
  | 0, _, _, _ => false
  | _ + 1, p, _, [] => nullable p
  | _ + 1, [], _, _ :: _ => false
  | fuel + 1, c :: p, sos, n :: ns =>
    if c = '*' then
      match p with
      | '*' :: p2 =>
        if sos then
          match p2 with
          | [] => true
          | '/' :: p3 => dstarLoop (matchFuel fuel p3 true) (n :: ns)
          | _ => starLoop (matchFuel fuel p2 false) (n :: ns)
        else starLoop (matchFuel fuel p2 false) (n :: ns)
      | _ => starLoop (matchFuel fuel p false) (n :: ns)
    else if c = '?' then
      n != '/' && matchFuel fuel p false ns
    else if c = '[' then
      match matchClass n p with
      | none => false
      | some (m, rest) => m && n != '/' && matchFuel fuel rest false ns
    else
      c == n && matchFuel fuel p (c == '/') ns

/-- The specification of `doublestar.Match(pattern, name)` for valid, supported patterns. -/
def gmatch (pattern name : Str) : Bool := matchFuel (pattern.length + 1) pattern true name

end Mutagen.Model.Glob
