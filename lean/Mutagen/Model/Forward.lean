/-
Model of `pkg/forwarding/forwarding.go` `ForwardAndClose` and of the counters
maintained by `pkg/forwarding/controller.go` `forward` (core Lean only).

One forwarded connection joins two `net.Conn`s, `first` and `second`. Two copy
goroutines run `io.Copy(audit(first), second)` (direction `d0`: bytes read from
`second` are written to `first`) and `io.Copy(audit(second), first)` (direction
`d1`). External behaviour — what the connections deliver and accept, and in
which order things happen — is the script: a list of events executed in
order (the interleaving of the goroutines is the order of the list):

* `chunk d bs accept werr` — the source of direction `d` returns `bs` from
  `Read`; the destination's `Write` accepts `min accept |bs|` bytes and returns
  an error iff `werr` (a short write without error makes `io.Copy` fail with
  `ErrShortWrite`);
* `eof d` — the source of direction `d` returns `io.EOF` (it half-closed);
* `err d` — the source of direction `d` returns another error;
* `cancel` — the context is cancelled.

`io.Copy` and the connection semantics are trusted (the harness implements
scripted connections that realise exactly these events in this order).
The state records what the connections saw: bytes accepted by each
destination, `CloseWrite` calls, `Close` calls, auditor totals, and whether
`ForwardAndClose` has returned. Events addressed to a direction whose copy
goroutine has finished, or to a connection that has been closed, never happen
(nobody calls `Read`), so `step` ignores them.
-/
namespace Mutagen.Model.Forward

inductive Status | running | doneNil | doneErr
  deriving DecidableEq, Repr

/-- One copy direction. -/
structure Dir where
  delivered : List UInt8 := []   -- bytes accepted by the destination's Write, in order
  closeWrites : Nat := 0          -- CloseWrite calls on the destination
  status : Status := .running     -- the copy goroutine
  audited : Nat := 0              -- sum of the auditor callbacks of the destination's audit writer
  deriving Repr

/-- One forwarded connection. `d0`: second → first, `d1`: first → second. -/
structure Conn where
  d0 : Dir := {}
  d1 : Dir := {}
  closedFirst : Nat := 0
  closedSecond : Nat := 0
  returned : Bool := false
  deriving Repr

inductive Event
  | chunk (d : Bool) (bs : List UInt8) (accept : Nat) (werr : Bool)
  | eof (d : Bool)
  | err (d : Bool)
  | cancel
  deriving Repr

def Conn.dir (c : Conn) (d : Bool) : Dir := if d then c.d1 else c.d0

def Conn.setDir (c : Conn) (d : Bool) (x : Dir) : Conn := if d then { c with d1 := x } else { c with d0 := x }

/-- The deferred closure: `first.Close(); second.Close()`, and the function returns. -/
def Conn.finish (c : Conn) : Conn :=
  { c with closedFirst := c.closedFirst + 1, closedSecond := c.closedSecond + 1, returned := true }

/-- One event of a connection. -/
def Conn.step (c : Conn) : Event → Conn
  | .chunk d bs accept werr =>
    if c.returned ∨ (c.dir d).status ≠ .running then c else
    -- io.Copy: nw, ew := dst.Write(buf[:nr]); the audit writer reports nw.
    let n := min accept bs.length
    let x := c.dir d
    let x := { x with delivered := x.delivered ++ bs.take n, audited := x.audited + n }
    if werr ∨ n < bs.length then
      -- the copy returns a non-nil error: the waiting loop returns
      (c.setDir d { x with status := .doneErr }).finish
    else c.setDir d x
  | .eof d =>
    if c.returned ∨ (c.dir d).status ≠ .running then c else
    -- err == nil: CloseWrite on the destination, then report nil
    let x := c.dir d
    let c' := c.setDir d { x with closeWrites := x.closeWrites + 1, status := .doneNil }
    -- the loop returns once both copies have reported
    if (c.dir (!d)).status = .doneNil then c'.finish else c'
  | .err d =>
    if c.returned ∨ (c.dir d).status ≠ .running then c else
    let x := c.dir d
    (c.setDir d { x with status := .doneErr }).finish
  | .cancel =>
    if c.returned then c else c.finish

/-- `ForwardAndClose` under a script; when the script ends without the function
having returned, the harness cancels the context (`run` appends that cancel). -/
def Conn.run (es : List Event) : Conn := (es.foldl Conn.step {}).step .cancel

/-! ## The controller's forwarding loop -/

/-- Events of the forwarding loop: `conn k e` is an event of the `k`-th accepted
connection; `open` — `source.Open()` and `destination.Open()` succeed;
`openFail` — `source.Open()` succeeds, `destination.Open()` fails;
`stop` — `source.Open()` fails; `snap` — the harness reads the counters. -/
inductive LoopEvent
  | conn (k : Nat) (e : Event)
  | open
  | openFail
  | stop
  | snap
  deriving Repr

structure Counters where
  openConnections : Int := 0    -- uint64 in Go; Int here so that an underflow would show
  totalConnections : Nat := 0
  inbound : Nat := 0            -- incomingAuditor: bytes written to the incoming (first) connection
  outbound : Nat := 0           -- outgoingAuditor: bytes written to the outgoing (second) connection
  deriving Repr, DecidableEq

structure Loop where
  conns : List Conn := []
  counters : Counters := {}
  stopped : Bool := false
  orphanClosed : Nat := 0        -- Close calls on an incoming connection whose destination could not be opened
  snaps : List Counters := []
  pendingIn : Nat := 0           -- bytes accepted by incoming connections whose auditor call has not run yet
  pendingOut : Nat := 0          -- the same for outgoing connections
  deriving Repr

/-- Apply an event to connection `k`, updating the counters the way the auditors
and the goroutine spawned by `forward` do: the auditors add the accepted bytes;
when `ForwardAndClose` returns, the open-connection count is decremented. -/
def Loop.connStep (l : Loop) (k : Nat) (e : Event) : Loop :=
  match l.conns[k]? with
  | none => l
  | some c =>
    let c' := c.step e
    let ctr := l.counters
    let ctr := { ctr with
      inbound := ctr.inbound + (c'.d0.audited - c.d0.audited)
      outbound := ctr.outbound + (c'.d1.audited - c.d1.audited)
      openConnections := if c'.returned ∧ ¬ c.returned then ctr.openConnections - 1 else ctr.openConnections }
    { l with conns := l.conns.set k c', counters := ctr }

/-- `forward` returns: the deferred `cancel()` cancels every connection in flight. -/
def Loop.cancelAll (l : Loop) : Loop :=
  (List.range l.conns.length).foldl (fun l k => l.connStep k .cancel) l

def Loop.step (l : Loop) : LoopEvent → Loop
  | .conn k e => if l.stopped then l else l.connStep k e
  | .open =>
    if l.stopped then l else
    { l with conns := l.conns ++ [{}],
             counters := { l.counters with openConnections := l.counters.openConnections + 1,
                                           totalConnections := l.counters.totalConnections + 1 } }
  | .openFail =>
    if l.stopped then l else
    { l.cancelAll with stopped := true, orphanClosed := l.orphanClosed + 1 }
  | .stop =>
    if l.stopped then l else { l.cancelAll with stopped := true }
  | .snap => { l with snaps := l.snaps ++ [l.counters] }

/-- The loop under a script; the harness always ends by making `source.Open()` fail. -/
def Loop.run (es : List LoopEvent) : Loop := (es.foldl Loop.step {}).step .stop

/-! ## Loop generations

`controller.run` tears the forwarding loop down (endpoint failure, pause) and
starts a new one (reconnect, resume) with a fresh `State`. `ForwardAndClose`
does not wait for its copy goroutines: a destination `Write` that is still in
flight at teardown returns — and is audited — later, possibly after the next
loop has installed its `State`. `forward` captures the `State` pointer of its
own loop in the auditor closures, so such a late audit is credited to the
`State` of the loop the connection belongs to.

A write in flight is modelled in two halves: `inFlight` (the destination
accepts the bytes, the audit is pending) and `release` (the pending audits of
a loop run, against that loop's own counters). -/

/-- A chunk whose destination `Write` accepts everything but has not returned
yet: the connection state advances as for an ordinary complete write, the
loop's data totals do not (the auditor has not run). -/
def Loop.inFlight (l : Loop) (k : Nat) (d : Bool) (bs : List UInt8) : Loop :=
  if l.stopped then l else
  match l.conns[k]? with
  | none => l
  | some c =>
    let c' := c.step (.chunk d bs bs.length false)
    { l with conns := l.conns.set k c',
             pendingIn := l.pendingIn + (c'.d0.audited - c.d0.audited),
             pendingOut := l.pendingOut + (c'.d1.audited - c.d1.audited) }

/-- The writes in flight return: their auditors run, on this loop's own `State`. -/
def Loop.release (l : Loop) : Loop :=
  { l with counters := { l.counters with inbound := l.counters.inbound + l.pendingIn,
                                         outbound := l.counters.outbound + l.pendingOut },
           pendingIn := 0, pendingOut := 0 }

/-- The controller across loop generations: the `State` objects of earlier
loops (most recent first; unreachable through `c.state` but still referenced
by their loops' goroutines) and the current one. -/
structure Ctl where
  past : List Loop := []
  cur : Loop := {}
  deriving Repr

inductive CtlEvent
  | loop (e : LoopEvent)
  /-- Teardown and restart. `inflight`: destination writes (connection,
  direction, bytes) that are in flight when the loop is torn down. -/
  | restart (inflight : List (Nat × Bool × List UInt8))
  /-- All writes in flight (of every generation) return. -/
  | release
  deriving Repr

/-- A copy direction has at most one write in flight (its goroutine is inside
that `Write`): of several entries for the same connection and direction only
the first can happen. -/
def firstPerDirection : List (Nat × Bool × List UInt8) → List (Nat × Bool) → List (Nat × Bool × List UInt8)
  | [], _ => []
  | w :: rest, seen =>
    if seen.contains (w.1, w.2.1) then firstPerDirection rest seen
    else w :: firstPerDirection rest ((w.1, w.2.1) :: seen)

def Ctl.step (c : Ctl) : CtlEvent → Ctl
  | .loop e => { c with cur := c.cur.step e }
  | .restart inflight =>
    let l := (firstPerDirection inflight []).foldl (fun l w => l.inFlight w.1 w.2.1 w.2.2) c.cur
    -- the forwarding loop returns (its connections are cancelled); `run` installs a fresh State
    { past := l.step .stop :: c.past, cur := {} }
  | .release => { past := c.past.map Loop.release, cur := c.cur.release }

/-- The controller under a script; at the end the harness lets all writes return. -/
def Ctl.run (es : List CtlEvent) : Ctl := (es.foldl Ctl.step {}).step .release

end Mutagen.Model.Forward
