import Mutagen.Generated.Facts
/-
Model of pkg/synchronization/configuration.go (`EnsureValid`,
`MergeConfigurations`), the configuration part of session.go
(`Session.EnsureValid`) and of pkg/service/synchronization
(`CreationSpecification.ensureValid`), endpoint/remote/protocol.go
(`InitializeSynchronizationRequest.ensureValid`), the effective-value
computations of endpoint/local/endpoint.go `NewEndpoint`, core/permissions.go
and the text forms of the mode enumerations. Core Lean only.

Enumeration fields hold the protobuf numeric value (open enumerations: every
number can arrive from disk or from the wire); `0` is the `…Default` value.
Numeric values and permission masks come from the Go source
(`Mutagen.Facts.cfg…`); the text forms are `switch` statements in Go and are
tied by the C37 stream (every value, every text).

The model describes the *repaired* code (fixes/C37.patch): session-level
validation additionally validates the two merged endpoint configurations.
-/
namespace Mutagen.Model.Config
open Mutagen.Facts

abbrev Str := List Char

inductive SupportStatus | unsupported | requiresLicense | supported
  deriving DecidableEq, Repr

/-- Build-dependent algorithm support (`xxh128_*.go`, `zstandard_*.go`). -/
structure Build where
  xxh128 : SupportStatus
  zstandard : SupportStatus

structure Configuration where
  synchronizationMode : Nat
  hashingAlgorithm : Nat
  maximumEntryCount : Nat
  maximumStagingFileSize : Nat
  probeMode : Nat
  scanMode : Nat
  stageMode : Nat
  symbolicLinkMode : Nat
  watchMode : Nat
  watchPollingInterval : Nat
  ignoreSyntax : Nat
  defaultIgnores : List Str
  ignores : List Str
  ignoreVCSMode : Nat
  permissionsMode : Nat
  defaultFileMode : Nat
  defaultDirectoryMode : Nat
  defaultOwner : Str
  defaultGroup : Str
  compressionAlgorithm : Nat
  deriving DecidableEq, Repr

/-! ## Mode tables: supported values and their text forms -/

abbrev ModeTable := List (Nat × String)

def synchronizationModes : ModeTable :=
  [(cfgSyncTwoWaySafe, "two-way-safe"), (cfgSyncTwoWayResolved, "two-way-resolved"),
   (cfgSyncOneWaySafe, "one-way-safe"), (cfgSyncOneWayReplica, "one-way-replica")]
def hashingAlgorithms : ModeTable :=
  [(cfgHashSHA1, "sha1"), (cfgHashSHA256, "sha256"), (cfgHashXXH128, "xxh128")]
def probeModes : ModeTable := [(cfgProbeProbe, "probe"), (cfgProbeAssume, "assume")]
def scanModes : ModeTable := [(cfgScanFull, "full"), (cfgScanAccelerated, "accelerated")]
def stageModes : ModeTable :=
  [(cfgStageMutagen, "mutagen"), (cfgStageNeighboring, "neighboring"), (cfgStageInternal, "internal")]
def symbolicLinkModes : ModeTable :=
  [(cfgSymlinkIgnore, "ignore"), (cfgSymlinkPortable, "portable"), (cfgSymlinkPOSIXRaw, "posix-raw")]
def watchModes : ModeTable :=
  [(cfgWatchPortable, "portable"), (cfgWatchForcePoll, "force-poll"), (cfgWatchNoWatch, "no-watch")]
def ignoreSyntaxes : ModeTable := [(cfgSyntaxMutagen, "mutagen"), (cfgSyntaxDocker, "docker")]
/-- `IgnoreVCSMode` has `MarshalJSON`/`UnmarshalText` with these forms. -/
def ignoreVCSModes : ModeTable := [(cfgVCSIgnore, "true"), (cfgVCSPropagate, "false")]
def permissionsModes : ModeTable := [(cfgPermPortable, "portable"), (cfgPermManual, "manual")]
def compressionAlgorithms : ModeTable :=
  [(cfgCompressNone, "none"), (cfgCompressDeflate, "deflate"), (cfgCompressZstandard, "zstandard")]

/-- The `Supported()` switches. -/
def supportedIn (t : ModeTable) (v : Nat) : Bool := t.any fun p => p.1 == v

def textOf (t : ModeTable) (v : Nat) : Option String := (t.find? fun p => p.1 == v).map (·.2)

/-- `MarshalText`: empty for the default value, `unknown` outside the table. -/
def marshalText (t : ModeTable) (v : Nat) : String :=
  if v = 0 then "" else (textOf t v).getD "unknown"

/-- `IgnoreVCSMode.MarshalJSON`: an error for the default and unknown values. -/
def marshalJSON (t : ModeTable) (v : Nat) : Option String := if v = 0 then none else textOf t v

/-- `UnmarshalText`. -/
def unmarshalText (t : ModeTable) (s : String) : Option Nat := (t.find? fun p => p.2 == s).map (·.1)

/-- `hashing.Algorithm.SupportStatus`. -/
def hashingStatus (B : Build) (v : Nat) : SupportStatus :=
  if v = cfgHashSHA1 then .supported
  else if v = cfgHashSHA256 then .supported
  else if v = cfgHashXXH128 then B.xxh128
  else .unsupported

/-- `compression.Algorithm.SupportStatus`. -/
def compressionStatus (B : Build) (v : Nat) : SupportStatus :=
  if v = cfgCompressNone then .supported
  else if v = cfgCompressDeflate then .supported
  else if v = cfgCompressZstandard then B.zstandard
  else .unsupported

/-! ## core/permissions.go and filesystem/permissions.go -/

def anyExecutableBitSet (mode : Nat) : Bool :=
  mode &&& (cfgModeUserExecute ||| cfgModeGroupExecute ||| cfgModeOthersExecute) != 0

def nonPermissionBits (mode : Nat) : Bool := (mode &&& cfgModePermissionsMask) != mode

def isDigit (c : Char) : Bool := '0' ≤ c && c ≤ '9'

/-- `isValidPOSIXID`. -/
def isValidPOSIXID : Str → Bool
  | [] => false
  | ['0'] => true
  | c :: cs => ('1' ≤ c && c ≤ '9') && cs.all isDigit

/-- `ParseOwnershipIdentifier(s) != OwnershipIdentifierKindInvalid`. -/
def ownershipIdentifierValid (s : Str) : Bool :=
  match s with
  | [] => false
  | 'i' :: 'd' :: ':' :: v => isValidPOSIXID v
  | 's' :: 'i' :: 'd' :: ':' :: v => !v.isEmpty
  | _ => true

/-! ## Configuration.EnsureValid -/

inductive CErr
  | syncEndpointSpecific | syncUnsupported
  | hashEndpointSpecific | hashUnsupported | hashLicense
  | probe | scan | stage
  | symlinkEndpointSpecific | symlinkUnsupported
  | watch
  | syntaxEndpointSpecific | syntaxUnsupported
  | defaultIgnoresEndpointSpecific | ignoresEndpointSpecific
  | vcsEndpointSpecific | vcsUnsupported
  | permEndpointSpecific | permUnsupported
  | fileModeBits | fileModeExec | directoryModeBits
  | owner | group
  | compressUnsupported | compressLicense
  deriving DecidableEq, Repr

/-- `Version.DefaultPermissionsMode()` of `DefaultVersion`. -/
def defaultPermissionsMode : Nat := cfgPermPortable

/-- The `effectivePermissionsMode` local of `EnsureValid` (zero — the default
value — for endpoint-specific configurations). -/
def effectivePermissionsMode (endpointSpecific : Bool) (c : Configuration) : Nat :=
  if endpointSpecific then 0
  else if c.permissionsMode = 0 then defaultPermissionsMode
  else c.permissionsMode

/-- A mode that is unspecified or supported. -/
def modeOK (t : ModeTable) (v : Nat) : Bool := v == 0 || supportedIn t v

/-- The checks of `EnsureValid` in source order: (violated, error). -/
def checks (B : Build) (es : Bool) (c : Configuration) : List (Bool × CErr) :=
  [ (es && c.synchronizationMode != 0, .syncEndpointSpecific),
    (!es && !modeOK synchronizationModes c.synchronizationMode, .syncUnsupported),
    (es && c.hashingAlgorithm != 0, .hashEndpointSpecific),
    (!es && c.hashingAlgorithm != 0 && hashingStatus B c.hashingAlgorithm == .unsupported, .hashUnsupported),
    (!es && c.hashingAlgorithm != 0 && hashingStatus B c.hashingAlgorithm == .requiresLicense, .hashLicense),
    (!modeOK probeModes c.probeMode, .probe),
    (!modeOK scanModes c.scanMode, .scan),
    (!modeOK stageModes c.stageMode, .stage),
    (es && c.symbolicLinkMode != 0, .symlinkEndpointSpecific),
    (!es && !modeOK symbolicLinkModes c.symbolicLinkMode, .symlinkUnsupported),
    (!modeOK watchModes c.watchMode, .watch),
    (es && c.ignoreSyntax != 0, .syntaxEndpointSpecific),
    (!es && !modeOK ignoreSyntaxes c.ignoreSyntax, .syntaxUnsupported),
    (es && !c.defaultIgnores.isEmpty, .defaultIgnoresEndpointSpecific),
    (es && !c.ignores.isEmpty, .ignoresEndpointSpecific),
    (es && c.ignoreVCSMode != 0, .vcsEndpointSpecific),
    (!es && !modeOK ignoreVCSModes c.ignoreVCSMode, .vcsUnsupported),
    (es && c.permissionsMode != 0, .permEndpointSpecific),
    (!es && !modeOK permissionsModes c.permissionsMode, .permUnsupported),
    (c.defaultFileMode != 0 && nonPermissionBits c.defaultFileMode, .fileModeBits),
    (c.defaultFileMode != 0 && effectivePermissionsMode es c == cfgPermPortable
      && anyExecutableBitSet c.defaultFileMode, .fileModeExec),
    (c.defaultDirectoryMode != 0 && nonPermissionBits c.defaultDirectoryMode, .directoryModeBits),
    (!c.defaultOwner.isEmpty && !ownershipIdentifierValid c.defaultOwner, .owner),
    (!c.defaultGroup.isEmpty && !ownershipIdentifierValid c.defaultGroup, .group),
    (c.compressionAlgorithm != 0 && compressionStatus B c.compressionAlgorithm == .unsupported, .compressUnsupported),
    (c.compressionAlgorithm != 0 && compressionStatus B c.compressionAlgorithm == .requiresLicense, .compressLicense) ]

def firstError {ε : Type} : List (Bool × ε) → Except ε Unit
  | [] => .ok ()
  | (bad, e) :: rest => if bad then .error e else firstError rest

def ensureValid (B : Build) (endpointSpecific : Bool) (c : Configuration) : Except CErr Unit :=
  firstError (checks B endpointSpecific c)

/-! ## MergeConfigurations -/

def pick (higher lower : Nat) : Nat := if higher != 0 then higher else lower

def pickStr (higher lower : Str) : Str := if !higher.isEmpty then higher else lower

def merge (lower higher : Configuration) : Configuration :=
  { synchronizationMode := pick higher.synchronizationMode lower.synchronizationMode
    hashingAlgorithm := pick higher.hashingAlgorithm lower.hashingAlgorithm
    maximumEntryCount := pick higher.maximumEntryCount lower.maximumEntryCount
    maximumStagingFileSize := pick higher.maximumStagingFileSize lower.maximumStagingFileSize
    probeMode := pick higher.probeMode lower.probeMode
    scanMode := pick higher.scanMode lower.scanMode
    stageMode := pick higher.stageMode lower.stageMode
    symbolicLinkMode := pick higher.symbolicLinkMode lower.symbolicLinkMode
    watchMode := pick higher.watchMode lower.watchMode
    watchPollingInterval := pick higher.watchPollingInterval lower.watchPollingInterval
    ignoreSyntax := pick higher.ignoreSyntax lower.ignoreSyntax
    defaultIgnores := lower.defaultIgnores ++ higher.defaultIgnores
    ignores := lower.ignores ++ higher.ignores
    ignoreVCSMode := pick higher.ignoreVCSMode lower.ignoreVCSMode
    permissionsMode := pick higher.permissionsMode lower.permissionsMode
    defaultFileMode := pick higher.defaultFileMode lower.defaultFileMode
    defaultDirectoryMode := pick higher.defaultDirectoryMode lower.defaultDirectoryMode
    defaultOwner := pickStr higher.defaultOwner lower.defaultOwner
    defaultGroup := pickStr higher.defaultGroup lower.defaultGroup
    compressionAlgorithm := pick higher.compressionAlgorithm lower.compressionAlgorithm }

/-! ## Session-level and endpoint-level acceptance -/

inductive Stage | session | alpha | beta | mergedAlpha | mergedBeta
  deriving DecidableEq, Repr

def tag {α : Type} (s : Stage) : Except CErr α → Except (Stage × CErr) α
  | .ok a => .ok a
  | .error e => .error (s, e)

/-- The configuration part of `Session.EnsureValid` and of
`CreationSpecification.ensureValid` (repaired: the merged endpoint
configurations are validated too). -/
def sessionAccepts (B : Build) (c ca cb : Configuration) : Except (Stage × CErr) Unit := do
  tag .session (ensureValid B false c)
  tag .alpha (ensureValid B true ca)
  tag .beta (ensureValid B true cb)
  tag .mergedAlpha (ensureValid B false (merge c ca))
  tag .mergedBeta (ensureValid B false (merge c cb))

/-- The three checks of the unrepaired code. -/
def sessionAcceptsOriginal (B : Build) (c ca cb : Configuration) : Except (Stage × CErr) Unit := do
  tag .session (ensureValid B false c)
  tag .alpha (ensureValid B true ca)
  tag .beta (ensureValid B true cb)

/-- The configuration part of `InitializeSynchronizationRequest.ensureValid`. -/
def endpointAccepts (B : Build) (merged : Configuration) : Except CErr Unit := ensureValid B false merged

/-! ## Effective values computed by `local.NewEndpoint` (session version 1) -/

def versionDefaultFileMode : Nat := cfgModeUserRead ||| cfgModeUserWrite

def versionDefaultDirectoryMode : Nat := cfgModeUserRead ||| cfgModeUserWrite ||| cfgModeUserExecute

def endpointPermissionsMode (merged : Configuration) : Nat :=
  if merged.permissionsMode = 0 then defaultPermissionsMode else merged.permissionsMode

def endpointFileMode (merged : Configuration) : Nat :=
  if merged.defaultFileMode = 0 then versionDefaultFileMode else merged.defaultFileMode

def endpointDirectoryMode (merged : Configuration) : Nat :=
  if merged.defaultDirectoryMode = 0 then versionDefaultDirectoryMode else merged.defaultDirectoryMode

end Mutagen.Model.Config
