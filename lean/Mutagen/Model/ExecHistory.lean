import Mutagen.Model.SyncCycle
/-
Histories for the multi-cycle statement of C18 (core Lean only): a session
between an endpoint `P` that preserves executability and an endpoint `N` that
does not. Steps: the user replaces N's content by an arbitrary tree (any edits
on N), flips the executable bit of a file on P, replaces the content of a file
on P, or a synchronization cycle runs. A cycle is, in the order of
controller.go `synchronize`: reify phantom directories (Docker-style ignores
only), propagate executability from P onto N's content, reconcile, apply both
plans exactly, and update the ancestor with the ideal transition results
(controller.go:1345-1386).
-/
namespace Mutagen.Model.ExecHistory
open Mutagen.Model

structure State where
  anc : Option Entry
  P : Option Entry
  N : Option Entry

inductive Step
  /-- any edits on N: its content becomes `t` -/
  | editN (t : Option Entry)
  /-- chmod ±x of the file at `q` on P -/
  | chmodP (q : Path)
  /-- the file at `q` on P gets new content (digest `d`), keeping its mode -/
  | editP (q : Path) (d : List UInt8)
  | cycle

/-- Replace the scalar fields of the file at `q` (no-op unless a file). -/
def setFile (t : Option Entry) (q : Path) (f : Props → Props) : Option Entry :=
  match getPath t q with
  | some (.mk p cs) =>
    if p.kind == .file then
      match apply t [{ path := q, old := none, new := some (.mk (f p) cs) }] with
      | .ok t' => t'
      | .error _ => t
    else t
  | none => t

/-- The tree an `Apply` leaves (a failing `Apply` leaves the tree as it was). -/
def applied (d : Option Entry) : Except ApplyErr (Option Entry) → Option Entry
  | .ok e => e
  | .error _ => d

/-- controller.go:1347/1358: the ideal result of a transition as an ancestor change. -/
def resultChange (c : Change) : Change := { path := c.path, old := none, new := c.new }

/-- The contents that are reconciled: the scans, reified with Docker-style
ignores (`P`'s first, `N`'s second). -/
def reified (nAlpha docker : Bool) (s : State) : Option Entry × Option Entry :=
  if docker then
    if nAlpha then ((reify s.anc s.N s.P).beta, (reify s.anc s.N s.P).alpha)
    else ((reify s.anc s.P s.N).alpha, (reify s.anc s.P s.N).beta)
  else (s.P, s.N)

/-- The plan of the cycle. -/
def planOf (mode : Mode) (nAlpha docker : Bool) (s : State) : Plan :=
  let r := reified nAlpha docker s
  if nAlpha then Reconcile s.anc (propagateExecutability s.anc r.1 r.2) r.1 mode
  else Reconcile s.anc r.1 (propagateExecutability s.anc r.1 r.2) mode

/-- One fully applied cycle. What the next cycle sees on N is a scan of N's disk:
the (reified) *un-propagated* content with N's plan applied to it — the
propagated snapshot exists only inside the cycle, as the input of `Reconcile`;
transitions run against the disk, and a non-preserving filesystem reports no
executable bits, so the bits of N's tree are meaningless (the theorems hold for
arbitrary bits on N). Hence N's plan is applied to `r.2`, not to the propagated
tree. -/
def cycleStep (mode : Mode) (nAlpha docker : Bool) (s : State) : State :=
  let r := reified nAlpha docker s
  let plan := planOf mode nAlpha docker s
  { anc := applied s.anc (apply s.anc (plan.anc ++ plan.alpha.map resultChange ++ plan.beta.map resultChange)),
    P := applied r.1 (apply r.1 (if nAlpha then plan.beta else plan.alpha)),
    N := applied r.2 (apply r.2 (if nAlpha then plan.alpha else plan.beta)) }

def step (mode : Mode) (nAlpha docker : Bool) (s : State) : Step → State
  | .editN t => { s with N := t }
  | .chmodP q => { s with P := setFile s.P q fun p => { p with executable := !p.executable } }
  | .editP q d => { s with P := setFile s.P q fun p => { p with digest := d } }
  | .cycle => cycleStep mode nAlpha docker s

def run (mode : Mode) (nAlpha docker : Bool) (s : State) (steps : List Step) : State :=
  steps.foldl (step mode nAlpha docker) s

/-- The bit the user last set on P's file at `q`: the initial one, flipped by
every `chmodP q` of the history. -/
def userBit (q : Path) : Bool → List Step → Bool
  | b, [] => b
  | b, .chmodP q' :: rest => userBit q (if q' = q then !b else b) rest
  | b, _ :: rest => userBit q b rest

end Mutagen.Model.ExecHistory
