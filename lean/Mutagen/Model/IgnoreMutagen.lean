import Mutagen.Generated.Facts
import Mutagen.Model.Glob
import Mutagen.Model.Doublestar
import Mutagen.Model.IgnoreCore
/-
Model of pkg/synchronization/core/ignore/mutagen/ignore.go
(`cleanPreservingTrailingSlash`, `newIgnorePattern`, `ignorePattern.matches`,
`NewIgnorer`, `ignorer.Ignore`) and of ignore/ignore_vcs.go (`vcsIgnorer`).

Strings are `List Char`; the harness only sends valid UTF-8, on which the
byte-level tests of the Go code (`pattern[0] == '!'`, `'/'`) coincide with
character-level tests. `doublestar.Match` is the parameter `m` of
`Pattern.matchesWith` / `loop` (all theorems hold for every `m`); the
executable model plugs in `Doublestar.dsMatch`, the transcription of the
library's matching loop (`matches` / `Ignorer.ignore`), which the harness
compares with the library and with the clean specification `Glob.gmatch`.
Go's `path.Clean` and `path.Base` (standard library) are transcribed
component-wise.
Core Lean only.
-/
namespace Mutagen.Model.IgnoreMutagen
open Mutagen.Model.Glob
open Mutagen.Model.IgnoreCore (Status)

/-- `strings.Split(s, "/")`. -/
def splitSlash : Str → List Str
  | [] => [[]]
  | c :: cs =>
    if c = '/' then [] :: splitSlash cs
    else match splitSlash cs with
      | h :: t => (c :: h) :: t
      | [] => [[c]]

def joinSlash : List Str → Str
  | [] => []
  | [a] => a
  | a :: b :: rest => a ++ '/' :: joinSlash (b :: rest)

/-- The element loop of Go's `path.Clean`. `out` is the stack of kept elements
(innermost first), `dd` the number of leading `..` elements that may not be
popped (`dotdot` in the source). -/
def cleanLoop (rooted : Bool) : List Str → List Str → Nat → List Str
  | [], out, _ => out
  | c :: cs, out, dd =>
    if c = [] ∨ c = ['.'] then cleanLoop rooted cs out dd
    else if c = ['.', '.'] then
      if out.length > dd then cleanLoop rooted cs out.tail dd
      else if !rooted then cleanLoop rooted cs (c :: out) (out.length + 1)
      else cleanLoop rooted cs out dd
    else cleanLoop rooted cs (c :: out) dd

/-- Go `path.Clean`. -/
def pathClean (p : Str) : Str :=
  if p = [] then ['.'] else
  let rooted := p.head? = some '/'
  let out := (cleanLoop rooted (splitSlash p) [] 0).reverse
  let body := joinSlash out
  if rooted then '/' :: body
  else if body = [] then ['.'] else body

/-- `cleanPreservingTrailingSlash`. -/
def cleanPreservingTrailingSlash (p : Str) : Str :=
  let needTrailingSlash := p.length > 1 ∧ p.getLast? = some '/'
  if needTrailingSlash then pathClean p ++ ['/'] else pathClean p

/-- Strip trailing slashes (`path.Base`, first loop). -/
def stripTrailingSlashes (p : Str) : Str := (p.reverse.dropWhile (· = '/')).reverse

/-- Go `path.Base`. -/
def pathBase (p : Str) : Str :=
  if p = [] then ['.'] else
  let q := stripTrailingSlashes p
  let b := (splitSlash q).getLast?.getD []
  if b = [] then ['/'] else b

structure Pattern where
  negated : Bool
  directoryOnly : Bool
  matchLeaf : Bool
  pattern : Str
  deriving DecidableEq, Repr

inductive ParseErr
  | empty | negatedEmpty | root | rootDirectory | badPattern
  | panic  -- an index expression of the Go function would be out of range
  deriving DecidableEq, Repr

/-- `newIgnorePattern` after the negation prefix has been removed. -/
def parseBody (negated : Bool) (p0 : Str) : Except ParseErr Pattern :=
  if p0 = [] then .error .negatedEmpty else
  let p1 := cleanPreservingTrailingSlash p0
  if p1 = ['/'] then .error .root
  else if p1 = ['/', '/'] then .error .rootDirectory
  else
    match p1 with
    | [] => .error .panic                       -- pattern[0] on an empty string
    | c :: rest =>
      let absolute := c = '/'
      let p2 := if absolute then rest else p1
      match p2.getLast? with
      | none => .error .panic                   -- pattern[len(pattern)-1] on an empty string
      | some l =>
        let directoryOnly := l = '/'
        let p3 := if directoryOnly then p2.dropLast else p2
        let containsSlash := p3.contains '/'
        -- `doublestar.Match(pattern, "a")` is run for its error only. This is
        -- weaker than `doublestar.ValidatePattern`: e.g. `[!a` is accepted.
        if Mutagen.Model.Doublestar.dsErr p3 ['a'] then .error .badPattern
        else .ok { negated := negated, directoryOnly := directoryOnly,
                   matchLeaf := !absolute && !containsSlash, pattern := p3 }

/-- `newIgnorePattern`. -/
def parse (p : Str) : Except ParseErr Pattern :=
  match p with
  | [] => .error .empty
  | '!' :: rest => parseBody true rest
  | _ => parseBody false p

/-- `ignorePattern.matches` over an abstract glob matcher. -/
def Pattern.matchesWith (m : Str → Str → Bool) (i : Pattern) (path : Str) (directory : Bool) : Bool :=
  if i.directoryOnly ∧ !directory then false
  else if m i.pattern path then true
  else if i.matchLeaf ∧ path ≠ [] then
    if m i.pattern (pathBase path) then true else false
  else false

def Pattern.matches := Pattern.matchesWith Mutagen.Model.Doublestar.dsMatch

/-- The loop of `ignorer.Ignore`, one iteration per list element, over an
abstract per-pattern match predicate `m` (evaluated only where the Go code
evaluates `pattern.matches`). `rem` is `negatedPatternsRemaining`. -/
def loop {α : Type} (neg : α → Bool) (m : α → Bool) : List α → Status → Nat → Status
  | [], st, _ => st
  | p :: ps, st, rem =>
    if st = .ignored ∧ rem = 0 then st                      -- break
    else if neg p then
      if st = .unignored then loop neg m ps st (rem - 1)    -- continue
      else if !m p then loop neg m ps st (rem - 1)
      else loop neg m ps .unignored (rem - 1)
    else if st = .ignored then loop neg m ps st rem         -- continue
    else if !m p then loop neg m ps st rem
    else loop neg m ps .ignored rem

/-- **Specification** of the loop: the last matching pattern decides (`st` if
none matches). -/
def lastMatchWins {α : Type} (neg : α → Bool) (m : α → Bool) (ps : List α) (st : Status) : Status :=
  match (ps.filter m).getLast? with
  | none => st
  | some p => if neg p then .unignored else .ignored

structure Ignorer where
  patterns : List Pattern
  negatedPatternCount : Nat
  deriving Repr

/-- `NewIgnorer`: the first pattern that does not parse aborts. -/
def parseAll : List Str → Except ParseErr (List Pattern)
  | [] => .ok []
  | p :: ps =>
    match parse p with
    | .error e => .error e
    | .ok q =>
      match parseAll ps with
      | .error e => .error e
      | .ok qs => .ok (q :: qs)

def newIgnorer (patterns : List Str) : Except ParseErr Ignorer :=
  match parseAll patterns with
  | .error e => .error e
  | .ok ps => .ok { patterns := ps, negatedPatternCount := (ps.filter (·.negated)).length }

/-- `ignorer.Ignore` over an abstract glob matcher. -/
def Ignorer.ignoreWith (m : Str → Str → Bool) (i : Ignorer) (path : Str) (directory : Bool) : Status × Bool :=
  (loop (·.negated) (fun p => p.matchesWith m path directory) i.patterns .nominal i.negatedPatternCount, false)

def Ignorer.ignore := Ignorer.ignoreWith Mutagen.Model.Doublestar.dsMatch

/-- `fastpath.Base`; `none` = the Go function panics ("empty base name"). -/
def fastpathBase (path : Str) : Option Str :=
  if path = [] then some []
  else if ¬ path.contains '/' then some path
  else
    let b := (splitSlash path).getLast?.getD []
    if b = [] then none else some b

def vcsDirectoryNames : List Str := Mutagen.Facts.ignoreVcsDirectoryNames.map String.toList

/-- `vcsIgnorer.Ignore` around any inner ignorer; `none` = panic in `fastpath.Base`. -/
def vcsIgnore (inner : Str → Bool → Status × Bool) (path : Str) (directory : Bool) : Option (Status × Bool) :=
  if directory then
    match fastpathBase path with
    | none => none
    | some b => if vcsDirectoryNames.contains b then some (.ignored, false) else some (inner path directory)
  else some (inner path directory)

end Mutagen.Model.IgnoreMutagen
