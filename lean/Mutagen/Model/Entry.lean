/-
Model of the synchronization core's entry trees (core Lean only, executable).

Mirrors, function by function, in /repo/pkg/synchronization/core:
  entry.go   EntryKind.synchronizable (12-18), EnsureValid (69-211), walk /
             Problems (213-249, 491-511), Count (251-286), Equal (297-355),
             Copy (357-437), synchronizable (439-489)
  diff.go    differ.diff / diff / Diff (13-59)
  apply.go   Apply (8-62)
  change.go  Change.EnsureValid / slim / IsRootDeletion / IsRootTypeChange
  conflict.go Conflict.EnsureValid / Slim
  iterate.go nameUnion

Representation.
* `*Entry` (nil = no content) is `Option Entry`.  An `Entry` is its scalar
  fields (`Props`) plus the content map as an association list.  A Go map has
  unique keys; the model's lists are only *required* to have unique keys by
  `Entry.Valid`-style hypotheses of theorems, the functions themselves are
  total on all lists (`lookup` = first match).
* `[]` stands for both a nil and an empty content map, and `digest = []` for
  both a nil and an empty digest (the Go code distinguishes them only in
  `EnsureValid`, with `!= nil` on non-directory kinds; the harness never builds
  a non-nil empty map or digest, protobuf decoding does not either).
* Go map iteration order is unspecified.  The model iterates association
  lists in list order and name unions in `dedup` order; every output that
  depends on iteration order is canonicalised (sorted) by both drivers before
  it is compared.
* Paths are lists of names (`[]` = the root `""`).  The string glue
  (`fastpath.Joinable(path)+name` on the way down, `strings.Split(path,"/")`
  in `Apply`) is in `Mutagen.Model.PathString`.
* Nil map *values* (rejected by `EnsureValid`, "nil content detected") are
  not representable; they are outside the model.
-/
namespace Mutagen.Model

abbrev Name := String
abbrev Path := List Name

/-- `EntryKind` (entry.pb.go); `unknown` stands for any other numeric value. -/
inductive Kind
  | directory | file | symlink | untracked | problematic | phantom | unknown
  deriving DecidableEq, Repr, Inhabited

/-- entry.go:14-18 `EntryKind.synchronizable`. -/
def Kind.synchronizable : Kind → Bool
  | .directory | .file | .symlink => true
  | _ => false

/-- The scalar fields of `core.Entry`. -/
structure Props where
  kind : Kind
  executable : Bool := false
  digest : List UInt8 := []
  target : String := ""
  problem : String := ""
  deriving DecidableEq, Repr, Inhabited

/-- `core.Entry`: scalar fields and the content map. -/
inductive Entry where
  | mk (p : Props) (cs : List (Name × Entry))
  deriving Repr, Inhabited

abbrev Contents := List (Name × Entry)

namespace Entry

def props : Entry → Props | .mk p _ => p
def children : Entry → Contents | .mk _ cs => cs
def kind (e : Entry) : Kind := e.props.kind

mutual
/-- Number of nodes (own measure for well-founded recursion). -/
def size : Entry → Nat
  | .mk _ cs => 1 + sizeL cs
def sizeL : Contents → Nat
  | [] => 0
  | (_, e) :: r => e.size + sizeL r
end

end Entry

/-- Map lookup `m[name]` (first match). -/
def lookup (n : Name) : Contents → Option Entry
  | [] => none
  | (m, e) :: r => if m = n then some e else lookup n r

def keys (cs : Contents) : List Name := cs.map (·.1)

/-- `m[name] = e` for a non-nil map value. -/
def upsert (n : Name) (e : Entry) : Contents → Contents
  | [] => [(n, e)]
  | (m, c) :: r => if m = n then (n, e) :: r else (m, c) :: upsert n e r

/-- `delete(m, name)`. -/
def erase (n : Name) : Contents → Contents
  | [] => []
  | (m, c) :: r => if m = n then erase n r else (m, c) :: erase n r

/-- `(*Entry).GetContents()` (nil-safe accessor). -/
def contents : Option Entry → Contents
  | none => []
  | some e => e.children

/-- Node count of an optional entry. -/
def osz : Option Entry → Nat
  | none => 0
  | some e => e.size

def isKind (e : Option Entry) (k : Kind) : Bool :=
  match e with
  | none => false
  | some e => e.kind == k

/-- Keep the last occurrence of every name. -/
def dedup : List Name → List Name
  | [] => []
  | n :: r => if n ∈ r then dedup r else n :: dedup r

/-- iterate.go `nameUnion` (as a duplicate-free list). -/
def nameUnion (ms : List Contents) : List Name := dedup (ms.flatMap keys)

/-! ## Measure lemmas (termination of `diff` / `reconcile`) -/

theorem Entry.size_pos (e : Entry) : 0 < e.size := by
  cases e; simp [Entry.size]; omega

theorem osz_lookup_le_sizeL (n : Name) (cs : Contents) : osz (lookup n cs) ≤ Entry.sizeL cs := by
  induction cs with
  | nil => simp [lookup, osz]
  | cons h t ih =>
    obtain ⟨m, e⟩ := h
    simp only [lookup, Entry.sizeL]
    split
    · simp [osz]
    · omega

theorem osz_lookup_lt (n : Name) (e : Entry) : osz (lookup n e.children) < e.size := by
  cases e with
  | mk p cs =>
    have := osz_lookup_le_sizeL n cs
    simp only [Entry.children, Entry.size]; omega

theorem osz_lookup_contents_le (n : Name) (x : Option Entry) : osz (lookup n (contents x)) ≤ osz x := by
  cases x with
  | none => simp [contents, lookup, osz]
  | some e => exact Nat.le_of_lt (osz_lookup_lt n e)

theorem osz_lookup_contents_lt (n : Name) (x : Option Entry) (h : n ∈ keys (contents x)) :
    osz (lookup n (contents x)) < osz x := by
  cases x with
  | none => simp [contents, keys] at h
  | some e => have := osz_lookup_lt n e; simpa [contents, osz] using this

theorem mem_dedup {n : Name} {l : List Name} : n ∈ dedup l ↔ n ∈ l := by
  induction l with
  | nil => simp [dedup]
  | cons a t ih =>
    simp only [dedup]
    split
    · rename_i h
      simp only [ih, List.mem_cons]
      constructor
      · exact Or.inr
      · rintro (rfl | h') <;> assumption
    · simp [ih]

theorem mem_nameUnion {n : Name} {ms : List Contents} :
    n ∈ nameUnion ms ↔ ∃ m ∈ ms, n ∈ keys m := by
  simp [nameUnion, mem_dedup, List.mem_flatMap]

/-! ## entry.go -/

/-- entry.go:301-340 `Equal(other, deep=false)`: nil handling and the scalar
comparison (kind, executable, digest, target, problem; wildcard problem
matching is a test-only switch and is off). -/
def shallowEq : Option Entry → Option Entry → Bool
  | none, none => true
  | some a, some b => a.props == b.props
  | _, _ => false

mutual
/-- entry.go:301-355 `Equal(other, deep=true)` on non-nil entries: scalars,
then `len` of both maps, then every child of the receiver looked up in the
other map. -/
def Entry.equal : Entry → Entry → Bool
  | .mk p cs, o => p == o.props && cs.length == o.children.length && Entry.equalL cs o.children
def Entry.equalL : Contents → Contents → Bool
  | [], _ => true
  | (n, c) :: r, ocs =>
    (match lookup n ocs with
     | none => false
     | some oc => c.equal oc) && Entry.equalL r ocs
end

/-- `Equal(other, true)` including the nil cases. -/
def deepEq : Option Entry → Option Entry → Bool
  | none, none => true
  | some a, some b => a.equal b
  | _, _ => false

/-- entry.go:92-97: the per-name checks of `EnsureValid`. -/
def validName (n : Name) : Bool :=
  n != "" && n != "." && n != ".." && !(n.toList.contains '/')

mutual
/-- entry.go:71-211 `EnsureValid(synchronizable)` on a non-nil entry (`true` =
no error; which error is reported depends on map order and is not modelled). -/
def Entry.ensureValid (sync : Bool) : Entry → Bool
  | .mk p cs =>
    match p.kind with
    | .directory =>
      p.digest.isEmpty && !p.executable && p.target == "" && p.problem == "" &&
        Entry.ensureValidL sync cs
    | .file =>
      cs.isEmpty && p.target == "" && p.problem == "" && !p.digest.isEmpty
    | .symlink =>
      cs.isEmpty && p.digest.isEmpty && !p.executable && p.problem == "" && p.target != ""
    | .untracked =>
      !sync && cs.isEmpty && p.digest.isEmpty && !p.executable && p.target == "" && p.problem == ""
    | .problematic =>
      !sync && cs.isEmpty && p.digest.isEmpty && !p.executable && p.target == "" && p.problem != ""
    | .phantom =>
      !sync && p.digest.isEmpty && !p.executable && p.target == "" && p.problem == "" &&
        Entry.ensureValidL sync cs
    | .unknown => false
def Entry.ensureValidL (sync : Bool) : Contents → Bool
  | [] => true
  | (n, c) :: r => validName n && c.ensureValid sync && Entry.ensureValidL sync r
end

/-- `(*Entry).EnsureValid` including the nil case (entry.go:73-75). -/
def oensureValid (sync : Bool) : Option Entry → Bool
  | none => true
  | some e => e.ensureValid sync

mutual
/-- entry.go:253-286 `Count` on a non-nil entry. -/
def Entry.count : Entry → Nat
  | .mk p cs => if !p.kind.synchronizable then 0 else 1 + Entry.countL cs
def Entry.countL : Contents → Nat
  | [] => 0
  | (_, c) :: r => c.count + Entry.countL r
end

def ocount : Option Entry → Nat
  | none => 0
  | some e => e.count

/-- entry.go:360-378 `EntryCopyBehavior`. -/
inductive CopyBehavior | deep | deepPreservingLeaves | shallow | slim
  deriving DecidableEq, Repr

mutual
/-- entry.go:387-437 `Copy(behavior)` on a non-nil entry, as a value (which
nodes are shared with the original is an implementation-only notion and is
checked by the harness). -/
def Entry.copy (b : CopyBehavior) : Entry → Entry
  | .mk p cs =>
    match b with
    | .slim => .mk p []
    | .deep => .mk p (Entry.copyL .deep cs)
    | .deepPreservingLeaves => .mk p (Entry.copyL .deepPreservingLeaves cs)
    | .shallow => .mk p cs
def Entry.copyL (b : CopyBehavior) : Contents → Contents
  | [] => []
  | (n, c) :: r =>
    (match b with
     | .deepPreservingLeaves =>
       if c.kind == .directory || c.kind == .phantom then (n, c.copy b) else (n, c)
     | _ => (n, c.copy b)) :: Entry.copyL b r
end

def ocopy (b : CopyBehavior) : Option Entry → Option Entry
  | none => none
  | some e => some (e.copy b)

mutual
/-- entry.go:444-489 `(*Entry).synchronizable` on a non-nil entry. The rebuilt
directory copies kind, executable, digest, target but not the problem. -/
def Entry.synchronizable : Entry → Option Entry
  | .mk p cs =>
    if !p.kind.synchronizable then none
    else if p.kind != .directory then some (.mk p cs)
    else if cs.isEmpty then some (.mk p cs)
    else some (.mk { kind := p.kind, executable := p.executable, digest := p.digest, target := p.target }
                (Entry.synchronizableL cs))
def Entry.synchronizableL : Contents → Contents
  | [] => []
  | (n, c) :: r =>
    match c.synchronizable with
    | none => Entry.synchronizableL r
    | some c' => (n, c') :: Entry.synchronizableL r
end

/-- `(*Entry).synchronizable` including the nil case. -/
def osync : Option Entry → Option Entry
  | none => none
  | some e => e.synchronizable

mutual
/-- entry.go:222-249 `walk(path, visitor, reverse=false)` specialised to the
visitor of `Problems` (495-511): problematic entries with their paths, in
depth-first order. -/
def Entry.problems (path : Path) : Entry → List (Path × String)
  | .mk p cs =>
    (if p.kind == .problematic then [(path, p.problem)] else []) ++ Entry.problemsL path cs
def Entry.problemsL (path : Path) : Contents → List (Path × String)
  | [] => []
  | (n, c) :: r => c.problems (path ++ [n]) ++ Entry.problemsL path r
end

def oproblems : Option Entry → List (Path × String)
  | none => []
  | some e => e.problems []

/-! ## change.go / conflict.go -/

structure Change where
  path : Path
  old : Option Entry := none
  new : Option Entry := none
  deriving Repr, Inhabited

/-- change.go:11-32. -/
def Change.ensureValid (sync : Bool) (c : Change) : Bool :=
  oensureValid sync c.old && oensureValid sync c.new

/-- change.go:36-42. -/
def Change.slim (c : Change) : Change :=
  { path := c.path, old := ocopy .slim c.old, new := ocopy .slim c.new }

/-- change.go:46-48. -/
def Change.isRootDeletion (c : Change) : Bool :=
  c.path.isEmpty && c.old.isSome && c.new.isNone

/-- change.go:52-54. -/
def Change.isRootTypeChange (c : Change) : Bool :=
  c.path.isEmpty &&
    (match c.old, c.new with
     | some o, some n => o.kind != n.kind
     | _, _ => false)

structure Conflict where
  root : Path
  alphaChanges : List Change
  betaChanges : List Change
  deriving Repr, Inhabited

/-- conflict.go:12-54. -/
def Conflict.ensureValid (c : Conflict) : Bool :=
  !c.alphaChanges.isEmpty && c.alphaChanges.all (·.ensureValid false) &&
  !c.betaChanges.isEmpty && c.betaChanges.all (·.ensureValid false)

/-- conflict.go:60-79. -/
def Conflict.slim (c : Conflict) : Conflict :=
  { root := c.root, alphaChanges := c.alphaChanges.map (·.slim), betaChanges := c.betaChanges.map (·.slim) }

/-! ## diff.go -/

/-- diff.go:14-39 `differ.diff`: a complete replacement at the first path
where the two sides are not shallowly equal, otherwise recursion over the
union of the content names. -/
def diff (path : Path) (base target : Option Entry) : List Change :=
  if !shallowEq target base then
    [{ path := path, old := base, new := target }]
  else
    (nameUnion [contents base, contents target]).attach.flatMap fun n =>
      diff (path ++ [n.1]) (lookup n.1 (contents base)) (lookup n.1 (contents target))
termination_by osz base + osz target
decreasing_by
  obtain ⟨n, hn⟩ := n
  show _ < _
  simp only []
  have hm := mem_nameUnion.mp hn
  have h1 := osz_lookup_contents_le n base
  have h2 := osz_lookup_contents_le n target
  obtain ⟨m, hm, hk⟩ := hm
  simp only [List.mem_cons, List.not_mem_nil, or_false] at hm
  rcases hm with rfl | rfl
  · have := osz_lookup_contents_lt n base hk; omega
  · have := osz_lookup_contents_lt n target hk; omega

/-- diff.go:57-59 `Diff`. -/
def Diff (base target : Option Entry) : List Change := diff [] base target

/-! ## apply.go -/

inductive ApplyErr
  /-- "unable to resolve parent path" (apply.go:39-41). -/
  | unresolved
  /-- nil-pointer dereference: a non-root change against a nil tree. -/
  | nilDeref
  deriving DecidableEq, Repr

/-- apply.go:34-57: walk `n :: rest` down from `e` (`for len(components) > 1`),
then delete or set the last component in the parent's map. A parent that is
not a directory is treated like any other entry, exactly as in Go. -/
def Entry.applyAt (new : Option Entry) : Entry → Name → List Name → Except ApplyErr Entry
  | .mk p cs, n, [] =>
    match new with
    | none => .ok (.mk p (erase n cs))
    | some v => .ok (.mk p (upsert n v cs))
  | .mk p cs, n, m :: rest =>
    match lookup n cs with
    | none => .error .unresolved
    | some c =>
      match Entry.applyAt new c m rest with
      | .error e => .error e
      | .ok c' => .ok (.mk p (upsert n c' cs))

/-- One iteration of the loop of apply.go:25-57. -/
def applyChange (r : Option Entry) (c : Change) : Except ApplyErr (Option Entry) :=
  match c.path with
  | [] => .ok c.new
  | n :: rest =>
    match r with
    | none => .error .nilDeref
    | some e =>
      match e.applyAt c.new n rest with
      | .error err => .error err
      | .ok e' => .ok (some e')

/-- apply.go:10-61 `Apply`. The two fast paths (no changes; a single root
replacement) return the same values as the general loop; the copies made by
the loop are value-identical to their originals (`Entry.copy` theorems). -/
def apply (base : Option Entry) : List Change → Except ApplyErr (Option Entry)
  | [] => .ok base
  | c :: cs =>
    match applyChange base c with
    | .error e => .error e
    | .ok r => apply r cs

/-- Entry at a path (`none` when any component is missing). -/
def getPath : Option Entry → Path → Option Entry
  | e, [] => e
  | e, n :: rest => getPath (lookup n (contents e)) rest

end Mutagen.Model

/-! ## Predicates used as hypotheses and in statements of theorems -/

namespace Mutagen.Model

mutual
/-- Every content list in the tree has pairwise distinct names (true of every
Go `map[string]*Entry`). -/
def Entry.nodupKeys : Entry → Bool
  | .mk _ cs => decide (keys cs).Nodup && Entry.nodupKeysL cs
def Entry.nodupKeysL : Contents → Bool
  | [] => true
  | (_, c) :: r => c.nodupKeys && Entry.nodupKeysL r
end

def onodupKeys : Option Entry → Bool
  | none => true
  | some e => e.nodupKeys

/-- A valid tree: a genuine map at every level that passes `EnsureValid(false)`. -/
def Valid (e : Option Entry) : Prop := onodupKeys e = true ∧ oensureValid false e = true

/-- A valid, fully synchronizable tree: passes `EnsureValid(true)`. -/
def ValidSync (e : Option Entry) : Prop := onodupKeys e = true ∧ oensureValid true e = true

mutual
/-- No untracked, problematic, phantom or unknown-kind entry anywhere. -/
def Entry.allSync : Entry → Bool
  | .mk p cs => p.kind.synchronizable && Entry.allSyncL cs
def Entry.allSyncL : Contents → Bool
  | [] => true
  | (_, c) :: r => c.allSync && Entry.allSyncL r
end

def oallSync : Option Entry → Bool
  | none => true
  | some e => e.allSync

mutual
/-- No phantom directory anywhere (phantoms are reified before reconciliation,
phantom.go `ReifyPhantomDirectories`; they do not exist with Mutagen-style ignores). -/
def Entry.noPhantom : Entry → Bool
  | .mk p cs => p.kind != .phantom && Entry.noPhantomL cs
def Entry.noPhantomL : Contents → Bool
  | [] => true
  | (_, c) :: r => c.noPhantom && Entry.noPhantomL r
end

def onoPhantom : Option Entry → Bool
  | none => true
  | some e => e.noPhantom

/-- Scalar fields of the entry at a path. -/
def pget (e : Option Entry) (q : Path) : Option Props := (getPath e q).map Entry.props

/-- The entry at `q` exists and it and all its ancestors are directories,
files or symbolic links. -/
def syncAlong : Option Entry → Path → Bool
  | none, _ => false
  | some e, [] => e.kind.synchronizable
  | some e, n :: q => e.kind.synchronizable && syncAlong (lookup n e.children) q

/-- `p` is a prefix of `q` (paths as lists of names). -/
def isPrefix (p q : Path) : Bool := p.isPrefixOf q

/-- Neither path is a prefix of the other. -/
def incomparable (p q : Path) : Prop := ¬ p <+: q ∧ ¬ q <+: p

end Mutagen.Model
