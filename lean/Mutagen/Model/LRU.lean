/-
Model of pkg/container/lru/lru.go (core Lean only).

The Go cache is a `container/list` of `*entry{key,value}` plus a map from key
to `*list.Element`. Pointers are modelled explicitly:

* `heap`  — every element ever allocated, addressed by its position (the
  element "pointer" is a `Nat` id); an element that was removed from the list
  stays in the heap as garbage, exactly like an unlinked `*list.Element`;
* `order` — the linked list itself: element ids, front (most recent) first;
* `index` — the Go map, an association list with unique keys
  (`mapSet`/`mapDelete` keep it so).

`container/list` is modelled with the guards it has: `MoveToFront(e)` and
`Remove(e)` are no-ops for an element that is not linked into the list. With
this the model has a defined (and Go-faithful) behaviour even in states where
index and list disagree; the theorems in `Mutagen.Properties.C45` show those
states are unreachable and that the whole thing refines the little `Spec`
below. Keys and values are naturals (the Go type parameters only need
`comparable`). The eviction callback is modelled as a log.
-/
namespace Mutagen.Model.LRU

structure Entry where
  key : Nat
  val : Nat
  deriving Repr, DecidableEq

structure Cache where
  /-- `maxEntries` (a Go `int`: may be negative). -/
  maxEntries : Int
  heap : List Entry
  order : List Nat
  index : List (Nat × Nat)
  /-- calls of `onEvicted`, oldest first -/
  evicted : List (Nat × Nat)
  deriving Repr

/-- `New(maxEntries, onEvicted)`. -/
def new (maxEntries : Int) : Cache :=
  { maxEntries := maxEntries, heap := [], order := [], index := [], evicted := [] }

/-! ### the Go map -/

def mapGet : List (Nat × Nat) → Nat → Option Nat
  | [], _ => none
  | (k', id) :: rest, k => if k' = k then some id else mapGet rest k

def mapDelete : List (Nat × Nat) → Nat → List (Nat × Nat)
  | [], _ => []
  | (k', id) :: rest, k => if k' = k then mapDelete rest k else (k', id) :: mapDelete rest k

def mapSet (m : List (Nat × Nat)) (k id : Nat) : List (Nat × Nat) :=
  (k, id) :: mapDelete m k

/-! ### container/list -/

/-- `l.MoveToFront(e)`: no-op unless `e` is linked into `l`. -/
def moveToFront (order : List Nat) (id : Nat) : List Nat :=
  if id ∈ order then id :: order.erase id else order

/-- `l.Remove(e)`: no-op unless `e` is linked into `l`. -/
def listRemove (order : List Nat) (id : Nat) : List Nat := order.erase id

/-- `e.Value.(*entry)`; ids handed out by the model are always allocated. -/
def Cache.deref (c : Cache) (id : Nat) : Entry := c.heap.getD id ⟨0, 0⟩

/-- `removeElement(e)`. -/
def Cache.removeElement (c : Cache) (id : Nat) : Cache :=
  let kv := c.deref id
  { c with order := listRemove c.order id,
           index := mapDelete c.index kv.key,
           evicted := c.evicted ++ [(kv.key, kv.val)] }

/-- `removeOldest()`. -/
def Cache.removeOldest (c : Cache) : Cache :=
  match c.order.getLast? with
  | some id => c.removeElement id
  | none => c

/-- `Add(key, value)`. -/
def Cache.add (c : Cache) (key val : Nat) : Cache :=
  match mapGet c.index key with
  | some id =>
    let c := { c with order := moveToFront c.order id }
    { c with heap := c.heap.set id { c.deref id with val := val } }
  | none =>
    let id := c.heap.length
    let c := { c with heap := c.heap ++ [Entry.mk key val], order := id :: c.order }
    let c := { c with index := mapSet c.index key id }
    if c.maxEntries ≠ 0 ∧ (c.order.length : Int) > c.maxEntries then c.removeOldest else c

/-- `Get(key)`. -/
def Cache.get (c : Cache) (key : Nat) : Cache × Option Nat :=
  match mapGet c.index key with
  | some id => ({ c with order := moveToFront c.order id }, some (c.deref id).val)
  | none => (c, none)

/-- `Remove(key)`. -/
def Cache.remove (c : Cache) (key : Nat) : Cache :=
  match mapGet c.index key with
  | some id => c.removeElement id
  | none => c

/-- `Len()`. -/
def Cache.len (c : Cache) : Nat := c.order.length

/-- Abstraction: the entries in list order (most recently used first). -/
def Cache.abs (c : Cache) : List (Nat × Nat) :=
  c.order.map fun id => ((c.deref id).key, (c.deref id).val)

/-! ### operations and runs -/

inductive Op
  | add (k v : Nat) | get (k : Nat) | remove (k : Nat) | len
  deriving Repr, DecidableEq

/-- Observable result of one operation (`Get` answer or `Len`). -/
inductive Res
  | unit | hit (v : Nat) | miss | len (n : Nat)
  deriving Repr, DecidableEq

def Cache.step (c : Cache) : Op → Cache × Res
  | .add k v => (c.add k v, .unit)
  | .get k => match c.get k with
    | (c', some v) => (c', .hit v)
    | (c', none) => (c', .miss)
  | .remove k => (c.remove k, .unit)
  | .len => (c, .len c.len)

def Cache.run (c : Cache) : List Op → Cache × List Res
  | [] => (c, [])
  | op :: ops =>
    let (c', r) := c.step op
    let (c'', rs) := c'.run ops
    (c'', r :: rs)

/-! ### Specification: a most-recently-used list truncated to capacity -/

structure Spec where
  cap : Int
  /-- entries, most recently used first -/
  items : List (Nat × Nat)
  /-- entries that left the cache, in the order they left -/
  evicted : List (Nat × Nat)
  deriving Repr

def Spec.new (cap : Int) : Spec := { cap := cap, items := [], evicted := [] }

/-- Keep the `cap` most recent entries; `cap = 0` means unbounded (as the Go
code is written); a negative `cap` keeps nothing. -/
def truncate (cap : Int) (l : List (Nat × Nat)) : List (Nat × Nat) × List (Nat × Nat) :=
  if cap = 0 then (l, []) else (l.take cap.toNat, l.drop cap.toNat)

def Spec.step (s : Spec) : Op → Spec × Res
  | .add k v =>
    let (keep, out) := truncate s.cap ((k, v) :: s.items.filter (·.1 ≠ k))
    ({ s with items := keep, evicted := s.evicted ++ out }, .unit)
  | .get k =>
    match s.items.find? (·.1 = k) with
    | some e => ({ s with items := e :: s.items.filter (·.1 ≠ k) }, .hit e.2)
    | none => (s, .miss)
  | .remove k =>
    ({ s with items := s.items.filter (·.1 ≠ k),
              evicted := s.evicted ++ s.items.filter (·.1 = k) }, .unit)
  | .len => (s, .len s.items.length)

def Spec.run (s : Spec) : List Op → Spec × List Res
  | [] => (s, [])
  | op :: ops =>
    let (s', r) := s.step op
    let (s'', rs) := s'.run ops
    (s'', r :: rs)

/-- The specification state a cache represents. -/
def Cache.toSpec (c : Cache) : Spec :=
  { cap := c.maxEntries, items := c.abs, evicted := c.evicted }

/-- Well-formedness of the pointer structure: the list has no element twice,
every linked element is allocated, the index maps exactly the keys of the
linked elements to those elements, and the capacity is respected (a negative
`maxEntries` keeps the cache empty). -/
structure Cache.WF (c : Cache) : Prop where
  nodup : c.order.Nodup
  alloc : ∀ id ∈ c.order, id < c.heap.length
  index : ∀ k id, mapGet c.index k = some id ↔ (id ∈ c.order ∧ (c.deref id).key = k)
  capPos : c.maxEntries > 0 → (c.order.length : Int) ≤ c.maxEntries
  capNeg : c.maxEntries < 0 → c.order = []

end Mutagen.Model.LRU
