import Mutagen.Generated.Facts
/-!
Model of `pkg/housekeeping/housekeep.go` (core Lean only).

The data directory is an abstract listing: for each of the three
sub-directories either "cannot be listed" (`none`: missing directory, invalid
`MUTAGEN_DATA_DIRECTORY`) or the children `Readdir` returns. For every child
the model is told what the system calls the code makes would report:

* `isLink` — the child itself is a symbolic link (to something outside);
* `stat` — `os.Stat(<child>)`, which follows links: `none` = error;
* `agentStat` — `os.Stat(<child>/mutagen-agent)` via `extstat`: `none` = error;
* `removable` — `os.Remove(<child>)` succeeds (a link, a file or an empty
  directory; fails on a non-empty directory).

`now` is a parameter (`time.Now()`), times are nanoseconds as `Int`.
`os.RemoveAll` / `os.Remove` applied to a symbolic link unlink the link and do
not touch its target (operating-system contract, part of the trusted base).
-/
namespace Mutagen.Model.Housekeeping

structure Stat where
  atime : Int
  mtime : Int
  deriving Repr, DecidableEq

structure Child where
  name : String
  isLink : Bool
  stat : Option Stat
  agentStat : Option Stat
  removable : Bool
  deriving Repr, DecidableEq

inductive Sub | agents | caches | staging
  deriving Repr, DecidableEq

/-- A removal the code issues: always `<data>/<sub>/<name>`. -/
structure Removal where
  sub : Sub
  name : String
  /-- `true` = `os.RemoveAll`, `false` = `os.Remove`. -/
  recursive : Bool
  deriving Repr, DecidableEq

def maximumAgentIdlePeriod : Int := (Mutagen.Facts.housekeepingMaximumAgentIdlePeriod : Nat)
def maximumCacheAge : Int := (Mutagen.Facts.housekeepingMaximumCacheAge : Nat)
def maximumStagingRootAge : Int := (Mutagen.Facts.housekeepingMaximumStagingRootAge : Nat)

/-- The loop of `housekeepAgents`. -/
def agentsLoop (now : Int) : List Child → List Removal
  | [] => []
  | c :: rest =>
    match c.agentStat with
    | none => agentsLoop now rest                                  -- continue
    | some stat =>
      if now - stat.atime > maximumAgentIdlePeriod then
        { sub := .agents, name := c.name, recursive := true } :: agentsLoop now rest
      else agentsLoop now rest

/-- The loop of `housekeepCaches`. -/
def cachesLoop (now : Int) : List Child → List Removal
  | [] => []
  | c :: rest =>
    match c.stat with
    | none => cachesLoop now rest
    | some stat =>
      if now - stat.mtime > maximumCacheAge then
        { sub := .caches, name := c.name, recursive := false } :: cachesLoop now rest
      else cachesLoop now rest

/-- The loop of `housekeepStaging`. -/
def stagingLoop (now : Int) : List Child → List Removal
  | [] => []
  | c :: rest =>
    match c.stat with
    | none => stagingLoop now rest
    | some stat =>
      if now - stat.mtime > maximumStagingRootAge then
        { sub := .staging, name := c.name, recursive := true } :: stagingLoop now rest
      else stagingLoop now rest

structure DataDir where
  agents : Option (List Child)
  caches : Option (List Child)
  staging : Option (List Child)
  deriving Repr

def DataDir.listing (d : DataDir) : Sub → Option (List Child)
  | .agents => d.agents
  | .caches => d.caches
  | .staging => d.staging

def housekeepAgents (now : Int) (d : DataDir) : List Removal :=
  match d.agents with
  | none => []
  | some cs => agentsLoop now cs

def housekeepCaches (now : Int) (d : DataDir) : List Removal :=
  match d.caches with
  | none => []
  | some cs => cachesLoop now cs

def housekeepStaging (now : Int) (d : DataDir) : List Removal :=
  match d.staging with
  | none => []
  | some cs => stagingLoop now cs

/-- `Housekeep()`: the removals issued, in order. -/
def housekeep (sidecar : Bool) (now : Int) (d : DataDir) : List Removal :=
  (if !sidecar then housekeepAgents now d else []) ++ housekeepCaches now d ++ housekeepStaging now d

/-- Does a removal take effect on a child? `RemoveAll` always, `Remove` only
when the child is a link, a file or an empty directory. -/
def Removal.effective (r : Removal) (c : Child) : Bool := r.recursive || c.removable

/-- Children of `sub` that are still present after the removals. -/
def survivors (rs : List Removal) (sub : Sub) (cs : List Child) : List Child :=
  cs.filter fun c => !(rs.any fun r => r.sub = sub ∧ r.name = c.name ∧ r.effective c)

end Mutagen.Model.Housekeeping
