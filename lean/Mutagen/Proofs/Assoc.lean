import Mutagen.Model.TransitionFS
/-!
Lemmas about the association lists of `Mutagen.Model.TFS` (`aget`, `aset`,
`adel`): the map laws the filesystem, cache and store proofs use.
-/
namespace Mutagen.Proofs.Assoc
open Mutagen.Model.TFS

variable {κ : Type} [DecidableEq κ] {α : Type}

theorem aget_aset (k k' : κ) (v : α) (l : List (κ × α)) :
    aget k' (aset k v l) = if k = k' then some v else aget k' l := by
  induction l with
  | nil => grind [aset, aget]
  | cons h t ih => grind [aset, aget]

theorem aget_aset_self (k : κ) (v : α) (l : List (κ × α)) : aget k (aset k v l) = some v := by
  simp [aget_aset]

theorem aget_aset_ne (k k' : κ) (v : α) (l : List (κ × α)) (h : k ≠ k') :
    aget k' (aset k v l) = aget k' l := by
  simp [aget_aset, h]

theorem aget_adel (k k' : κ) (l : List (κ × α)) :
    aget k' (adel k l) = if k = k' then none else aget k' l := by
  induction l with
  | nil => grind [adel, aget]
  | cons h t ih => grind [adel, aget]

theorem aget_adel_self (k : κ) (l : List (κ × α)) : aget k (adel k l) = none := by
  simp [aget_adel]

theorem aget_adel_ne (k k' : κ) (l : List (κ × α)) (h : k ≠ k') : aget k' (adel k l) = aget k' l := by
  simp [aget_adel, h]

theorem aget_append (k : κ) (l m : List (κ × α)) :
    aget k (l ++ m) = match aget k l with | some v => some v | none => aget k m := by
  induction l with
  | nil => simp [aget]
  | cons h t ih => grind [aget]

theorem aget_some_mem (k : κ) (v : α) (l : List (κ × α)) (h : aget k l = some v) : (k, v) ∈ l := by
  induction l with
  | nil => simp [aget] at h
  | cons hd t ih => grind [aget]

theorem aget_isSome_iff_mem_keys (k : κ) (l : List (κ × α)) : (aget k l).isSome ↔ k ∈ akeys l := by
  induction l with
  | nil => simp [aget, akeys]
  | cons hd t ih =>
    obtain ⟨j, w⟩ := hd
    simp only [akeys, List.map_cons, List.mem_cons] at ih ⊢
    simp only [aget]
    split
    · rename_i h; subst h; simp
    · rename_i h
      rw [ih]
      constructor
      · exact Or.inr
      · rintro (h' | h')
        · exact absurd h'.symm h
        · exact h'

end Mutagen.Proofs.Assoc
